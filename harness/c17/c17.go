// Package c17 ties the Lean model of the domain rule lists (Model/C17.lean) to
// /repo/ruleset/regexp.go through the exported API (ParseRegexpListItem, NewRegexpMatcherFromList,
// Match, Inverse), and evaluates the property itself — "the list matches exactly the union of the
// include rules minus the exclude rules, each rule taken on its own" — with Go's regexp package as
// the independent per-rule oracle.
package c17

import (
	"encoding/json"
	"errors"
	"fmt"
	"regexp"
	"strings"

	"github.com/saucelabs/forwarder/ruleset"
	"github.com/saucelabs/forwarder/verifharness/core"
	"github.com/saucelabs/forwarder/verifharness/rig"
)

func init() { core.Register("C17", core.Scenario{Run: Run, Replay: Replay}) }

// listCase: a rule list (raw flag values, '-' prefix = exclude) and candidate hosts.
type listCase struct {
	Kind     string   `json:"kind"` // "list"
	RulesHex []string `json:"rules_hex"`
	HostsHex []string `json:"hosts_hex"`
	Rules    []string `json:"rules_txt,omitempty"` // readable copy, not used on replay
	Hosts    []string `json:"hosts_txt,omitempty"`
	Perm     []int    `json:"perm,omitempty"` // a permutation of the rules that must give the same answers
	// ModelLong: hosts of up to 256 bytes are compared with the model too (otherwise up to 64 bytes; the model's
	// search is cubic in the subject). The property's clauses are judged on every host, whatever its length.
	ModelLong bool `json:"model_long,omitempty"`
}

// modelled: is this host of the case sent to the model
func (lc listCase) modelled(host string) bool {
	return len(host) <= 64 || lc.ModelLong && len(host) <= 256
}

func sub[T any](all []T, idx []int) []T {
	out := make([]T, 0, len(idx))
	for _, i := range idx {
		out = append(out, all[i])
	}
	return out
}

// itemCase: one raw flag value through ParseRegexpListItem (valid or not).
type itemCase struct {
	Kind   string `json:"kind"` // "item"
	RawHex string `json:"raw_hex"`
	Raw    string `json:"raw_txt,omitempty"`
}

// ---------------------------------------------------------------------------------------------
// generator: pattern text together with an example string the pattern is likely to match

var words = []string{"foo", "bar", "baz", "example", "com", "org", "www", "api", "a", "b", "x", "Foo", "BAR", "saucelabs", "dev", "internal", "test", "0", "10", "cdn-1"}

var classes = []struct{ pat, members string }{
	{"[a-c]", "abc"}, {"[abc]", "abc"}, {"[^.]", "axZ0-"}, {"[a-cx-z]", "abcxyz"}, {"[0-9]", "0159"},
	{"[\\d]", "07"}, {"[\\w-]", "aZ0_-"}, {"[^a-c]", "dxZ.0"}, {"[.-]", ".-"}, {"[]a]", "]a"},
	{"[a-]", "a-"}, {"[A-Z]", "AMZ"}, {"[a-z0-9-]", "az09-"}, {"[^\\W]", "aZ0_"}, {"[\\.\\-]", ".-"},
	{"[^\\n]", "a.Z"}, {"[-a]", "-a"}, {"[a-b-c]", "ab-c"}, {"[^]a]", "bx."}, {"[Z-a]", "Z^_a["}, {"[\\s.]", " ."},
	{"[+--]", "+,-"}, {"[\\D]", "a.Z"}, {"[^\\d\\s]", "a.Z"},
}

var perls = []struct{ pat, members string }{
	{"\\d", "0189"}, {"\\w", "aZ0_"}, {"\\s", " \t\n"}, {"\\D", "aZ.-"}, {"\\W", ".- \n"}, {"\\S", "aZ0."},
}

var scopedOpen = []string{"(", "(", "(?:", "(?:", "(?i:", "(?i:", "(?s:", "(?m:", "(?-i:", "(?U:", "(?i-s:", "(?is:", "(?-s:", "(?mi:"}
var flagGroups = []string{"(?i)", "(?i)", "(?i)", "(?s)", "(?m)", "(?U)", "(?-i)", "(?i-s)", "(?im)", "(?)", "(?s-i)", "(?ims)", "(?-m)", "(?iU)"}

type gen struct {
	r     *core.Rand
	feats map[string]bool
}

func (g *gen) feat(f string) { g.feats[f] = true }

func pickByte(r *core.Rand, s string) string { return string(s[r.Intn(len(s))]) }

func quoteLit(w string) string {
	var b strings.Builder
	for i := 0; i < len(w); i++ {
		c := w[i]
		if strings.IndexByte(`.+*?()|[]{}^$\`, c) >= 0 {
			b.WriteByte('\\')
		}
		b.WriteByte(c)
	}
	return b.String()
}

func (g *gen) atom(depth int) (pat, ex string) {
	r := g.r
	switch k := r.Intn(100); {
	case k < 38:
		w := core.Pick(r, words)
		if r.Chance(35) {
			w = w[:1]
		}
		g.feat("literal")
		return quoteLit(w), w
	case k < 46:
		g.feat("escaped-dot")
		return `\.`, "."
	case k < 56:
		g.feat("dot")
		return ".", pickByte(r, "ax.Z0-\n")
	case k < 68:
		c := core.Pick(r, classes)
		g.feat("class")
		return c.pat, pickByte(r, c.members)
	case k < 74:
		c := core.Pick(r, perls)
		g.feat("perl-class")
		return c.pat, pickByte(r, c.members)
	case k < 78:
		g.feat("assertion")
		return core.Pick(r, []string{`\b`, `\B`, `\A`, `\z`, `^`, `$`}), ""
	case k < 81:
		g.feat("c-escape")
		e := core.Pick(r, []struct{ p, v string }{{`\n`, "\n"}, {`\t`, "\t"}, {`\-`, "-"}, {`\_`, "_"}, {`\/`, "/"}})
		return e.p, e.v
	default:
		if depth >= 3 {
			w := core.Pick(r, words)
			return quoteLit(w), w
		}
		open := core.Pick(r, scopedOpen)
		if strings.Contains(open, "?") && open != "(?:" {
			g.feat("scoped-flags")
		} else {
			g.feat("group")
		}
		p, e := g.alt(depth+1, false)
		return open + p + ")", e
	}
}

func (g *gen) piece(depth int) (pat, ex string) {
	r := g.r
	p, e := g.atom(depth)
	if r.Chance(30) {
		op := core.Pick(r, []string{"*", "*", "+", "?", "?", "*?", "+?", "??"})
		g.feat("repeat")
		n := 1
		switch op[0] {
		case '*':
			n = r.Intn(3)
		case '+':
			n = r.Range(1, 2)
		case '?':
			n = r.Intn(2)
		}
		if r.Chance(2) { // stacked operators: a syntax error in Go
			op += core.Pick(r, []string{"*", "+"})
		}
		return p + op, strings.Repeat(e, n)
	}
	return p, e
}

func (g *gen) seq(depth int, top bool) (pat, ex string) {
	r := g.r
	var pb, eb strings.Builder
	if top && r.Chance(22) || !top && r.Chance(6) {
		pb.WriteString(core.Pick(r, flagGroups))
		g.feat("flag-group")
	}
	if r.Chance(25) {
		pb.WriteByte('^')
		g.feat("anchor")
	}
	n := r.Range(1, 3)
	if r.Chance(10) {
		n = 4
	}
	if r.Chance(3) {
		n = 0
	}
	for i := 0; i < n; i++ {
		p, e := g.piece(depth)
		pb.WriteString(p)
		eb.WriteString(e)
		if r.Chance(4) {
			pb.WriteString(core.Pick(r, flagGroups))
			g.feat("flag-group-mid")
		}
	}
	if r.Chance(25) {
		pb.WriteByte('$')
		g.feat("anchor")
	}
	return pb.String(), eb.String()
}

func (g *gen) alt(depth int, top bool) (pat, ex string) {
	r := g.r
	n := 1
	if r.Chance(25) {
		n = r.Range(2, 3)
		g.feat("alternation")
	}
	var ps, es []string
	for i := 0; i < n; i++ {
		p, e := g.seq(depth, top)
		ps = append(ps, p)
		es = append(es, e)
	}
	return strings.Join(ps, "|"), core.Pick(r, es)
}

// rule returns a pattern from the grammar and an example subject; the pattern may be invalid with
// small probability (stacked repetition, repetition without operand), which the caller filters
// with Go's regexp package.
func (g *gen) rule() (pat, ex string) {
	r := g.r
	if r.Chance(8) { // realistic domain patterns
		d := core.Pick(r, []string{"example.com", "saucelabs.com", "internal", "foo.bar.org", "cdn-1.example.org"})
		switch r.Intn(4) {
		case 0:
			return `^(.*\.)?` + quoteLit(d) + `$`, core.Pick(r, []string{d, "www." + d, "x" + d})
		case 1:
			return `(?i)` + quoteLit(d), d
		case 2:
			return `\.` + quoteLit(d) + `$`, "a." + d
		default:
			return `(?i)^` + quoteLit(d), d
		}
	}
	return g.alt(0, true)
}

func mutate(r *core.Rand, s string) string {
	switch r.Intn(12) {
	case 0:
		return strings.ToUpper(s)
	case 1:
		return strings.ToLower(s)
	case 2, 3: // swap the case of one letter
		b := []byte(s)
		for try := 0; try < 4 && len(b) > 0; try++ {
			i := r.Intn(len(b))
			if b[i] >= 'a' && b[i] <= 'z' {
				b[i] -= 32
				break
			} else if b[i] >= 'A' && b[i] <= 'Z' {
				b[i] += 32
				break
			}
		}
		return string(b)
	case 4:
		if len(s) > 0 {
			i := r.Intn(len(s))
			return s[:i] + s[i+1:]
		}
		return s
	case 5:
		return pickByte(r, "xa.0-Z") + s
	case 6:
		return s + pickByte(r, "xa.0-Z")
	case 7:
		i := r.Intn(len(s) + 1)
		return s[:i] + "\n" + s[i:]
	case 8:
		i := r.Intn(len(s) + 1)
		return s[:i] + pickByte(r, "xa.0-Z_ ") + s[i:]
	case 9:
		if len(s) > 0 {
			b := []byte(s)
			b[r.Intn(len(b))] = "xA.0-"[r.Intn(5)]
			return string(b)
		}
		return s
	case 10:
		return s + "\n"
	default:
		return core.Pick(r, []string{"", "a", "example.com", "FOO", "www.example.com", "bar", "Bar.Org", "x", "\n", "internal"})
	}
}

// ---------------------------------------------------------------------------------------------
// input shapes on which the code failed before the repair of F10 / F26 (regression targets: they are
// counted in the input distribution and generated on purpose, but they are NOT known-finding classes
// any more — a failure on them is a VIOLATION like any other)

// topFlagGroup reports whether a (valid) pattern has a flag group `(?flags)` outside every group.
func topFlagGroup(src string) bool {
	depth := 0
	for i := 0; i < len(src); i++ {
		switch src[i] {
		case '\\':
			i++
		case '[':
			i++
			if i < len(src) && src[i] == '^' {
				i++
			}
			if i < len(src) && src[i] == ']' {
				i++
			}
			for i < len(src) && src[i] != ']' {
				if src[i] == '\\' {
					i++
				}
				i++
			}
		case '(':
			if i+1 < len(src) && src[i+1] == '?' {
				j := i + 2
				for j < len(src) && src[j] != ':' && src[j] != ')' {
					j++
				}
				if j < len(src) && src[j] == ')' {
					if depth == 0 {
						return true
					}
					i = j
					continue
				}
				depth++
				i = j
			} else {
				depth++
			}
		case ')':
			depth--
		}
	}
	return false
}

type prule struct {
	raw     string // as given to ParseRegexpListItem
	src     string // without the '-' prefix
	exclude bool
}

func splitRaw(raw string) prule {
	if strings.HasPrefix(raw, "-") {
		return prule{raw, raw[1:], true}
	}
	return prule{raw, raw, false}
}

// subLists returns the include rules and the exclude rules, each in list order.
func subLists(rules []prule) [2][]prule {
	var sub [2][]prule
	for _, r := range rules {
		if r.exclude {
			sub[1] = append(sub[1], r)
		} else {
			sub[0] = append(sub[0], r)
		}
	}
	return sub
}

// leakShape (the input shape of F10): in the include sub-list or in the exclude sub-list, a rule with
// an unscoped top-level flag group is followed by another rule.
func leakShape(rules []prule) bool {
	for _, sub := range subLists(rules) {
		for i, r := range sub {
			if topFlagGroup(r.src) && i+1 < len(sub) {
				return true
			}
		}
	}
	return false
}

// plainLetters returns the letters of a pattern outside escapes (rough: used for a histogram label only).
func plainLetters(src string) (upper, any [26]bool) {
	for i := 0; i < len(src); i++ {
		c := src[i]
		switch {
		case c == '\\':
			i++
		case c >= 'A' && c <= 'Z':
			upper[c-'A'], any[c-'A'] = true, true
		case c >= 'a' && c <= 'z':
			any[c-'a'] = true
		}
	}
	return
}

// hasFoldFlag reports whether a pattern switches case folding on somewhere ((?i), (?i:…), (?si-m:…) …).
func hasFoldFlag(src string) bool {
	for i := 0; i+2 < len(src); i++ {
		if src[i] == '\\' {
			i++
			continue
		}
		if src[i] == '(' && src[i+1] == '?' {
			for j := i + 2; j < len(src) && src[j] != ':' && src[j] != ')' && src[j] != '-'; j++ {
				if src[j] == 'i' {
					return true
				}
			}
		}
	}
	return false
}

// foldPairShape (the input shape of F26, over-approximated): in one sub-list, one rule without any
// case-folding flag holds an upper-case letter and another rule holds the same letter and a
// case-folding flag.
func foldPairShape(rules []prule) bool {
	for _, sub := range subLists(rules) {
		for i, x := range sub {
			if hasFoldFlag(x.src) {
				continue
			}
			ux, _ := plainLetters(x.src)
			for j, y := range sub {
				if i == j || !hasFoldFlag(y.src) {
					continue
				}
				_, ay := plainLetters(y.src)
				for k := range ux {
					if ux[k] && ay[k] {
						return true
					}
				}
			}
		}
	}
	return false
}

// ---------------------------------------------------------------------------------------------

func bitsOf(bs []bool) string {
	if len(bs) == 0 {
		return "_"
	}
	var b strings.Builder
	for _, x := range bs {
		b.WriteString(core.B01(x))
	}
	return b.String()
}

func encRules(rules []prule) string {
	var as []string
	for _, r := range rules {
		m := "+"
		if r.exclude {
			m = "-"
		}
		as = append(as, m+core.HexS(r.src))
	}
	return core.JoinList(as)
}

func isASCII(s string) bool {
	for i := 0; i < len(s); i++ {
		if s[i] >= 128 {
			return false
		}
	}
	return true
}

type implOut struct {
	crash   string
	itemErr string // a rule was rejected by ParseRegexpListItem
	items   []string
	newErr  string // "" | "no-include" | other
	match   []bool
	inv     []bool
	inv2    []bool
	history string // first inconsistency between query orders ("" if none)
}

func runImpl(raws []string, hosts []string) (o implOut) {
	defer func() {
		if p := recover(); p != nil {
			o.crash = fmt.Sprint(p)
		}
	}()
	var items []ruleset.RegexpListItem
	for _, raw := range raws {
		it, err := ruleset.ParseRegexpListItem(raw)
		if err != nil {
			o.itemErr = fmt.Sprintf("%q: %v", raw, err)
			return o
		}
		items = append(items, it)
		o.items = append(o.items, fmt.Sprintf("%s %s %s", core.B01(it.Exclude), core.HexS(it.Regexp.String()), core.HexS(it.String())))
	}
	m, err := ruleset.NewRegexpMatcherFromList(items)
	if err != nil {
		if errors.Is(err, ruleset.ErrNoIncludeRules) {
			o.newErr = "no-include"
		} else {
			o.newErr = "error: " + err.Error()
		}
		return o
	}
	mi := m.Inverse()
	mii := mi.Inverse()
	for _, h := range hosts {
		o.match = append(o.match, m.Match(h))
		o.inv = append(o.inv, mi.Match(h))
		o.inv2 = append(o.inv2, mii.Match(h))
	}
	// the matcher is a function of (rules, host): a second matcher built from the same rules, queried
	// in another order (inverse first, repeated queries), must give the same answers
	if m2, err := ruleset.NewRegexpMatcherFromList(items); err == nil {
		for i, h := range hosts {
			a1 := m2.Inverse().Match(h)
			a2 := m2.Inverse().Match(h)
			a3 := m2.Match(h)
			a4 := m2.Inverse().Inverse().Match(h)
			a5 := m2.Match(h)
			if a1 != o.inv[i] || a2 != o.inv[i] || a3 != o.match[i] || a4 != o.match[i] || a5 != o.match[i] {
				o.history = fmt.Sprintf("host %q: first pass match=%v inverse=%v; inverse-first pass gave inverse=%v,%v match=%v inverse.inverse=%v match=%v",
					h, o.match[i], o.inv[i], a1, a2, a3, a4, a5)
				break
			}
		}
	}
	return o
}

func checkList(ctx *core.Ctx, lc listCase) {
	var raws, hosts []string
	var rules []prule
	for _, hx := range lc.RulesHex {
		raw := string(core.MustUnHex(hx))
		raws = append(raws, raw)
		rules = append(rules, splitRaw(raw))
	}
	for _, hx := range lc.HostsHex {
		hosts = append(hosts, string(core.MustUnHex(hx)))
	}
	lc.Rules, lc.Hosts = raws, hosts

	// the property's own oracle: every rule on its own, by the regexp package
	nIncl, nExcl, emptyRule := 0, 0, false
	per := make([][]bool, len(rules))
	for i, r := range rules {
		re, err := regexp.Compile(r.src)
		if err != nil {
			core.Fatalf("C17 list case holds a rule that is not a valid regular expression: %q", r.src)
		}
		if r.exclude {
			nExcl++
		} else {
			nIncl++
		}
		if r.src == "" {
			emptyRule = true
		}
		for _, h := range hosts {
			per[i] = append(per[i], re.MatchString(h))
		}
	}
	want := make([]bool, len(hosts))
	anyHit := false
	for j := range hosts {
		in, ex := false, false
		for i, r := range rules {
			if per[i][j] {
				anyHit = true
				if r.exclude {
					ex = true
				} else {
					in = true
				}
			}
		}
		want[j] = in && !ex
	}

	key := "list:" + core.JoinList(lc.RulesHex) + "|" + core.JoinList(lc.HostsHex)
	ctx.Case(key, anyHit && (len(rules) >= 2 || nExcl > 0))
	ctx.Count(fmt.Sprintf("list/rules=%d", len(rules)))
	ctx.Count(fmt.Sprintf("list/excludes=%d", nExcl))
	ctx.CountN("list/hosts", len(hosts))
	for _, h := range hosts {
		switch n := len(h); {
		case n > 256:
			ctx.Count("host/length/over-256-oracle-only")
		case n > 253:
			ctx.Count("host/length/254-256")
		case n > 64:
			ctx.Count("host/length/65-253")
		case n >= 63:
			ctx.Count("host/length/63-64")
		}
	}
	if leakShape(rules) {
		ctx.Count("list/shape/top-flag-group-before-another-rule")
	}
	if foldPairShape(rules) {
		ctx.Count("list/shape/upper-case-letter-and-same-letter-folded")
	}
	if emptyRule {
		ctx.Count("list/outside-domain/empty-rule")
	}
	for _, w := range want {
		if w {
			ctx.Count("host/union-minus-excludes=true")
		} else {
			ctx.Count("host/union-minus-excludes=false")
		}
	}

	o := runImpl(raws, hosts)
	if o.history != "" {
		ctx.SpecFail("the answer for a host is a function of the rule list and the host (not of earlier queries)", "", lc, o.history, "")
	}
	if o.crash != "" {
		ctx.Crash("rule list construction and matching never panic", "", lc, o.crash)
		return
	}
	if o.itemErr != "" {
		ctx.SpecFail("every syntactically valid rule is accepted by ParseRegexpListItem", "", lc, o.itemErr, "rule rejected")
		return
	}
	// '-' prefix partition: Exclude flag and the pattern that is kept
	for i, r := range rules {
		wantItem := fmt.Sprintf("%s %s %s", core.B01(r.exclude), core.HexS(r.src), core.HexS(r.raw))
		if o.items[i] != wantItem {
			ctx.SpecFail("'-' prefix marks an exclude rule and is not part of the pattern; String() gives the rule back", "", lc, o.items[i], "want "+wantItem)
		}
	}

	// model (on the hosts it is asked about: all of them unless the case has long hosts)
	var mi []int
	for j, h := range hosts {
		if lc.modelled(h) {
			mi = append(mi, j)
		}
	}
	enc := encRules(rules)
	hostsEnc := core.JoinList(sub(lc.HostsHex, mi))
	// one round trip when the matcher was built: the answers of the verbs match | rules | holds
	obsBits := "_"
	if o.newErr == "" {
		obsBits = bitsOf(sub(o.match, mi))
	}
	parts := strings.Split(ctx.Model.MustAsk("C17", "eval", enc, hostsEnc, obsBits), " | ")
	if len(parts) != 4 {
		core.Fatalf("C17 eval: malformed answer %q", parts)
	}
	ans, rans, hans := parts[0], parts[1], parts[2]
	// Go's regexp/syntax factors a single pattern such as `B.|(?i:b.)` into a case-sensitive `B(…|…)`:
	// for a RULE that is itself such an alternation (decided by the model from the rule alone) the
	// model's regular-expression semantics are not claimed to be the library's, and that rule is not
	// compared. Nothing is joined any more, so there is no list-level class: lists whose rules are
	// free of it — in particular `B.` next to `(?i:b.)` — are compared in full.
	if parts[3] != "_" && len(parts[3]) != len(rules) {
		core.Fatalf("C17 eval: malformed risk answer %q", parts[3])
	}
	ruleRisk := make([]bool, len(rules))
	anyRisk := false
	for i := range rules {
		ruleRisk[i] = parts[3][i] == '1'
		anyRisk = anyRisk || ruleRisk[i]
	}
	if anyRisk {
		ctx.Count("list/outside-model/rule-inside-go-alternation-factoring")
	}
	if ans == "unsupported" {
		core.Fatalf("C17 generator left the modelled fragment: rules %q hosts %q", raws, hosts)
	}
	var impl string
	switch {
	case o.newErr != "":
		impl = o.newErr
	default:
		impl = fmt.Sprintf("ok %s %s", bitsOf(sub(o.match, mi)), bitsOf(sub(o.inv, mi)))
	}
	if impl != ans && !(anyRisk && o.newErr == "" && strings.HasPrefix(ans, "ok ")) {
		ctx.Disagree("NewRegexpMatcherFromList/Match/Inverse = Model.C17.fromList/matches/inv", lc, impl, ans)
	}
	// the model's regular-expression semantics against the regexp package, rule by rule
	var perBits []string
	for i := range rules {
		perBits = append(perBits, bitsOf(sub(per[i], mi)))
	}
	if want := "ok " + core.JoinList(perBits); rans != want {
		// a rule that is itself inside Go's alternation-factoring deviation is not compared
		mrows := core.SplitList(strings.TrimPrefix(rans, "ok "))
		bad := !strings.HasPrefix(rans, "ok ") || len(mrows) != len(rules)
		for i := 0; !bad && i < len(rules); i++ {
			if mrows[i] != perBits[i] && !ruleRisk[i] {
				bad = true
			}
		}
		if bad {
			ctx.Disagree("regexp.MatchString (each rule on its own) = Model.C17.Rule.search", lc, want, rans)
		}
	}

	// the property itself, on what the implementation answered
	if (nIncl == 0) != (o.newErr == "no-include") || (o.newErr != "" && o.newErr != "no-include") {
		ctx.SpecFail("a list is rejected iff it has no include rule", "", lc, "error="+o.newErr, fmt.Sprintf("includes=%d", nIncl))
	}
	if o.newErr != "" {
		return
	}
	if emptyRule {
		return // the property quantifies over non-empty regular expressions
	}
	ok := true
	for j := range hosts {
		if o.match[j] != want[j] {
			ok = false
			ctx.SpecFail("list matches host iff some include rule matches it on its own and no exclude rule does", "", lc,
				fmt.Sprintf("Match(%q)=%v (host of %d bytes)", short(hosts[j]), o.match[j], len(hosts[j])), fmt.Sprintf("per-rule evaluation by regexp gives %v", want[j]))
			break
		}
	}
	for j := range hosts {
		if o.inv[j] == o.match[j] || o.inv2[j] != o.match[j] {
			ok = false
			ctx.SpecFail("Inverse() gives the negation (and Inverse().Inverse() the original)", "", lc,
				fmt.Sprintf("Match(%q)=%v Inverse=%v Inverse.Inverse=%v (host of %d bytes)", short(hosts[j]), o.match[j], o.inv[j], o.inv2[j], len(hosts[j])), "")
			break
		}
	}
	goHolds := true
	for _, j := range mi {
		if o.match[j] != want[j] {
			goHolds = false
		}
	}
	if (hans == "true") != goHolds && !anyRisk {
		ctx.Disagree("property evaluated by Model.C17.specMatch = property evaluated with regexp per rule", lc, fmt.Sprint(goHolds), hans)
	}
	// order of rules does not matter
	if len(lc.Perm) == len(raws) && len(raws) > 1 {
		praws := make([]string, len(raws))
		for i, p := range lc.Perm {
			praws[i] = raws[p]
		}
		po := runImpl(praws, hosts)
		if po.crash != "" {
			ctx.Crash("rule list construction and matching never panic", "", lc, po.crash)
			return
		}
		if bitsOf(po.match) != bitsOf(o.match) {
			ok = false
			ctx.SpecFail("the order of rules does not matter", "", lc,
				fmt.Sprintf("Match=%s, permuted %v Match=%s", bitsOf(o.match), lc.Perm, bitsOf(po.match)), "")
		}
	}
	if ok {
		ctx.TraceValidated()
	}
}

func checkItem(ctx *core.Ctx, ic itemCase) {
	raw := string(core.MustUnHex(ic.RawHex))
	ic.Raw = raw
	var impl string
	func() {
		defer func() {
			if p := recover(); p != nil {
				impl = fmt.Sprintf("panic %v", p)
			}
		}()
		it, err := ruleset.ParseRegexpListItem(raw)
		if err != nil {
			impl = "err"
			return
		}
		impl = fmt.Sprintf("ok %s %s %s", core.B01(it.Exclude), core.HexS(it.Regexp.String()), core.HexS(it.String()))
	}()
	ans := ctx.Model.MustAsk("C17", "item", ic.RawHex)
	ctx.Case("item:"+ic.RawHex, impl != "err")
	if strings.HasPrefix(impl, "panic") {
		ctx.Count("item/panic")
		ctx.Crash("ParseRegexpListItem never panics", "", ic, impl)
		return
	}
	if ans == "unsupported" {
		ctx.Count("item/outside-model")
		return
	}
	ctx.Count("item/" + strings.Fields(impl)[0])
	if impl != ans {
		ctx.Disagree("ParseRegexpListItem/String = Model.C17.parseItem/printItem", ic, impl, ans)
	}
	// spec: accepted iff the text after one optional '-' is a valid regular expression
	pr := splitRaw(raw)
	_, cerr := regexp.Compile(pr.src)
	if (cerr == nil) != (impl != "err") {
		ctx.SpecFail("a rule is accepted iff the text after the optional '-' is a valid regular expression", "", ic, impl, fmt.Sprintf("regexp.Compile(%q): %v", pr.src, cerr))
	} else if cerr == nil {
		want := fmt.Sprintf("ok %s %s %s", core.B01(pr.exclude), core.HexS(pr.src), core.HexS(raw))
		if impl != want {
			ctx.SpecFail("'-' prefix marks an exclude rule and is not part of the pattern; String() gives the rule back", "", ic, impl, "want "+want)
		}
	}
}

// genValidRule draws rules until Go's regexp package accepts one.
func genValidRule(g *gen) (string, string) {
	for {
		p, e := g.rule()
		if !isASCII(p) || p == "" {
			continue
		}
		if _, err := regexp.Compile(p); err == nil {
			return p, e
		}
	}
}

// grule: a generated rule, an example subject it is likely to match, and further subjects of interest.
type grule struct {
	pat, ex string
	excl    bool
	hosts   []string
	fixed   bool // part of a directed shape: keeps its include/exclude mark
}

func upperFirst(s string) string {
	if s != "" && s[0] >= 'a' && s[0] <= 'z' {
		return string(s[0]-32) + s[1:]
	}
	return s
}

var foldTails = []struct{ pat, ex string }{
	{".", "x"}, {".", "x"}, {"", ""}, {"[a-c]", "a"}, {`\d`, "7"}, {"(ar|az)", "ar"}, {".*", "zz"}, {"[a-z]+", "ar"}, {`\.com`, ".com"}, {".?x", "ax"},
}

// dirFoldPair — regression target for F26: one rule starts with an upper-case letter followed by
// something that is not a literal, another rule of the same sub-list starts with the same letter
// case-folded. (Joined with '|', Go's regexp/syntax factored the letter out and lost the fold flag.)
func dirFoldPair(r *core.Rand) []grule {
	l := pickByte(r, "bfxeacwiz")
	u := strings.ToUpper(l)
	ta, tb := core.Pick(r, foldTails), core.Pick(r, foldTails)
	if r.Chance(50) {
		tb = ta
	}
	a := grule{pat: u + ta.pat, ex: u + ta.ex, fixed: true}
	var bp string
	switch r.Intn(5) {
	case 0, 1:
		bp = "(?i:" + l + tb.pat + ")"
	case 2:
		bp = "(?i)" + l + tb.pat
	case 3:
		bp = "(?i:" + u + tb.pat + ")"
	default:
		bp = "(?i:" + l + ")" + tb.pat
	}
	b := grule{pat: bp, ex: l + tb.ex, fixed: true}
	b.hosts = []string{l + ta.ex, u + tb.ex, l + tb.ex + "x", "q" + l + tb.ex}
	rs := []grule{a, b}
	if r.Bool() {
		rs[0], rs[1] = rs[1], rs[0]
	}
	if r.Chance(30) { // the pair as exclude rules under a catch-all include
		rs[0].excl, rs[1].excl = true, true
		rs = append(rs, grule{pat: core.Pick(r, []string{".*", ".", "[a-zA-Z]"}), fixed: true})
	}
	return rs
}

// dirFlagLeak — regression target for F10: a rule with an unscoped top-level flag group followed, in
// the same sub-list, by a rule whose answer would change under that flag. (Joined with '|', the flag
// stayed in force for the rules that followed.)
func dirFlagLeak(r *core.Rand) []grule {
	w1, w2 := core.Pick(r, words), core.Pick(r, words)
	var a, b grule
	switch r.Intn(6) {
	case 0: // (?s) would let '.' of the next rule match a line break
		a = grule{pat: core.Pick(r, []string{"(?s)", "(?is)", "(?s-i)"}) + quoteLit(w1), ex: w1}
		b = grule{pat: "a.b", ex: "axb", hosts: []string{"a\nb", "A\nB"}}
	case 1: // (?m) would let ^ $ of the next rule match at a line break
		a = grule{pat: core.Pick(r, []string{"(?m)", "(?im)"}) + quoteLit(w1), ex: w1}
		b = grule{pat: "^" + quoteLit(w2) + "$", ex: w2, hosts: []string{"x\n" + w2, w2 + "\ny", "x\n" + w2 + "\ny"}}
	case 2: // the flag group in the middle of the first rule
		a = grule{pat: quoteLit(w1) + "(?i)" + quoteLit(w2), ex: w1 + w2, hosts: []string{w1 + strings.ToUpper(w2), strings.ToUpper(w1) + w2}}
		b = grule{pat: quoteLit(w2), ex: w2, hosts: []string{strings.ToUpper(w2), upperFirst(w2)}}
	case 3: // a case-sensitive upper-case rule after a case-folding one
		a = grule{pat: "(?i)" + quoteLit(w1), ex: w1, hosts: []string{strings.ToUpper(w1)}}
		b = grule{pat: quoteLit(strings.ToUpper(w2)), ex: strings.ToUpper(w2), hosts: []string{strings.ToLower(w2), upperFirst(strings.ToLower(w2))}}
	default:
		a = grule{pat: core.Pick(r, []string{"(?i)", "(?i)", "(?i)^", "(?i-s)", "(?iU)"}) + quoteLit(w1), ex: w1, hosts: []string{strings.ToUpper(w1)}}
		b = grule{pat: quoteLit(w2), ex: w2, hosts: []string{strings.ToUpper(w2), upperFirst(w2)}}
	}
	a.fixed, b.fixed = true, true
	rs := []grule{a, b}
	if r.Chance(20) { // the leaking rule last: nothing could leak even when joined
		rs[0], rs[1] = rs[1], rs[0]
	}
	if r.Chance(30) {
		rs[0].excl, rs[1].excl = true, true
		rs = append(rs, grule{pat: core.Pick(r, []string{".*", ".", "[a-zA-Z]"}), fixed: true})
	}
	return rs
}

func genList(ctx *core.Ctx, r *core.Rand) listCase { return genListShaped(ctx.Count, r, 7, 6) }

// genListShaped: foldPct / leakPct = how many lists in a hundred are built around a fold pair / a flag
// group in front of another rule (the shapes of F26 / F10).
func genListShaped(count func(string), r *core.Rand, foldPct, leakPct int) listCase {
	g := &gen{r: r, feats: map[string]bool{}}
	var rs []grule
	n := r.Range(1, 6)
	if r.Chance(30) {
		n = 2
	}
	switch k := r.Intn(100); {
	case k < foldPct:
		rs = dirFoldPair(r)
		n = r.Intn(3)
		count("list/generator/directed-fold-pair")
	case k < foldPct+leakPct:
		rs = dirFlagLeak(r)
		n = r.Intn(3)
		count("list/generator/directed-flag-group")
	default:
		count("list/generator/grammar")
	}
	for i := 0; i < n; i++ {
		p, ex := genValidRule(g)
		if r.Chance(1) {
			p, ex = "", "" // outside the property's domain: the empty expression matches every subject
		}
		nr := grule{pat: p, ex: ex, excl: r.Chance(30)}
		pos := len(rs)
		if len(rs) > 0 && rs[0].fixed {
			pos = r.Intn(len(rs) + 1) // around / between the rules of a directed shape
		}
		rs = append(rs[:pos], append([]grule{nr}, rs[pos:]...)...)
	}
	nIncl := 0
	for _, x := range rs {
		if !x.excl {
			nIncl++
		}
	}
	if nIncl == 0 && r.Chance(95) {
		for i := len(rs) - 1; i >= 0; i-- {
			if !rs[i].fixed {
				rs[i].excl = false
				break
			}
		}
	}
	n = len(rs)
	lc := listCase{Kind: "list"}
	var hosts []string
	seen := map[string]bool{}
	addHost := func(h string) {
		if !seen[h] && len(h) <= 40 && isASCII(h) {
			seen[h] = true
			hosts = append(hosts, h)
		}
	}
	for _, x := range rs {
		raw := x.pat
		if x.excl {
			raw = "-" + x.pat
		} else if strings.HasPrefix(x.pat, "-") {
			raw = `\` + x.pat // an include pattern cannot start with '-'
		}
		lc.RulesHex = append(lc.RulesHex, core.HexS(raw))
		for _, h := range x.hosts {
			addHost(h)
		}
		if x.fixed && x.ex == "" {
			continue
		}
		ex := x.ex
		addHost(ex)
		addHost(mutate(r, ex))
		if r.Chance(50) {
			addHost(mutate(r, ex))
		}
		if r.Chance(30) {
			addHost(strings.ToUpper(ex))
		}
		if r.Chance(15) {
			addHost(mutate(r, mutate(r, ex)))
		}
	}
	if r.Chance(30) {
		addHost(mutate(r, ""))
	}
	if len(hosts) > 10 {
		// the subjects nominated by a directed shape stay; the rest is sampled
		keep := 0
		for _, x := range rs {
			if x.fixed {
				for _, h := range append([]string{x.ex}, x.hosts...) {
					for i := keep; i < len(hosts); i++ {
						if hosts[i] == h {
							hosts[keep], hosts[i] = hosts[i], hosts[keep]
							keep++
							break
						}
					}
				}
			}
		}
		if keep > 10 {
			keep = 10
		}
		tail := hosts[keep:]
		core.Shuffle(r, tail)
		hosts = hosts[:10]
	}
	for _, h := range hosts {
		lc.HostsHex = append(lc.HostsHex, core.HexS(h))
	}
	if n > 1 {
		perm := make([]int, n)
		for i := range perm {
			perm[i] = i
		}
		core.Shuffle(r, perm)
		if r.Chance(40) { // plain reversal moves every rule past every other
			for i := range perm {
				perm[i] = n - 1 - i
			}
		}
		lc.Perm = perm
	}
	for f := range g.feats {
		count("rule-feature/" + f)
	}
	return lc
}

// rules whose answer does not depend on how long the subject is
var longRules = []struct{ pat, suffix string }{
	{`.*`, ""}, {`.`, ""}, {`\.evil\.test$`, ".evil.test"}, {`\.test$`, ".test"}, {`^[a-z0-9.-]+$`, ""}, {`(?i)\.TEST$`, ".Evil.TEST"},
	{`evil`, ".evil.example"}, {`[0-9a-z]$`, ""}, {`^[^.]+$`, ""}, {`\.`, ".x"}, {`^[a-z0-9]`, ""}, {`(?s)^.+$`, ""}, {`\.evil\.test$|\.bad\.test$`, ".bad.test"},
	{`[a-z0-9](\.evil)?\.test$`, ".evil.test"},
}

// rules whose source texts are equal under case folding and which are different expressions
var caseTwins = []struct{ a, exA, b, exB string }{
	{`^\d+\.corp\.test$`, "12.corp.test", `^\D+\.corp\.test$`, "ab.corp.test"}, {`^[a-z]+$`, "abc", `^[A-Z]+$`, "ABC"},
	{`^\w+$`, "ab_1", `^\W+$`, "-.-"}, {`^API\.`, "API.example.com", `^api\.`, "api.example.com"}, {`foo\b`, "foo", `foo\B`, "foox"},
	{`^\S+$`, "ab", `^\s+$`, " "}, {`\.COM$`, "a.COM", `\.com$`, "a.com"},
}

// genTwinList: two rules of the same kind that differ in letter case only (`\d` / `\D`, `[a-z]` / `[A-Z]`, `^API\.` / `^api\.`)
// among 0-2 grammar rules, with a host only one of the two matches: every rule is taken on its own.
func genTwinList(count func(string), r *core.Rand) listCase {
	g := &gen{r: r, feats: map[string]bool{}}
	tw := core.Pick(r, caseTwins)
	excl := r.Chance(30)
	mark := ""
	if excl {
		mark = "-"
	}
	raws := []string{mark + tw.a, mark + tw.b}
	hosts := []string{tw.exA, tw.exB, mutate(r, tw.exA), mutate(r, tw.exB)}
	if excl {
		raws = append(raws, core.Pick(r, []string{`.*`, `.`, `^[^/]+$`}))
	}
	for n := r.Intn(3); n > 0; n-- {
		p, ex := genValidRule(g)
		if strings.HasPrefix(p, "-") {
			p = `\` + p
		}
		if r.Chance(25) {
			p = "-" + p
		}
		raws = append(raws, p)
		if len(ex) <= 40 && isASCII(ex) {
			hosts = append(hosts, ex)
		}
	}
	core.Shuffle(r, raws)
	lc := listCase{Kind: "list"}
	seen := map[string]bool{}
	for _, raw := range raws {
		lc.RulesHex = append(lc.RulesHex, core.HexS(raw))
	}
	for _, h := range hosts {
		if !seen[h] && isASCII(h) && len(h) <= 40 {
			seen[h] = true
			lc.HostsHex = append(lc.HostsHex, core.HexS(h))
		}
	}
	perm := make([]int, len(raws))
	for i := range perm {
		perm[i] = len(raws) - 1 - i
	}
	lc.Perm = perm
	count("list/generator/case-twin-rules")
	return lc
}

var hostLengths = []int{1, 2, 63, 64, 65, 127, 252, 253, 254, 255, 256, 257, 1024, 16384}

// genLongList: HOST LENGTH as the dimension. 1-4 rules (length-insensitive pool, sometimes grammar rules whose example
// match ends or starts the host), 3-6 hosts of 1 … 16384 bytes built from labels of at most 63 bytes or as one
// giant label, always one beyond 253 bytes.
func genLongList(count func(string), r *core.Rand) listCase {
	g := &gen{r: r, feats: map[string]bool{}}
	lc := listCase{Kind: "list", ModelLong: r.Chance(12)}
	type lr struct {
		pat, suffix string
		excl        bool
	}
	var rs []lr
	for n := r.Range(1, 3); n > 0; n-- {
		x := core.Pick(r, longRules)
		rs = append(rs, lr{x.pat, x.suffix, r.Chance(20)})
	}
	if r.Chance(30) {
		p, ex := genValidRule(g)
		if len(ex) > 40 || !isASCII(ex) {
			ex = ""
		}
		rs = append(rs, lr{p, ex, r.Chance(30)})
	}
	nIncl := 0
	for _, x := range rs {
		if !x.excl {
			nIncl++
		}
	}
	if nIncl == 0 {
		rs[0].excl = false
	}
	core.Shuffle(r, rs)
	var suffixes []string
	for _, x := range rs {
		raw := x.pat
		if x.excl {
			raw = "-" + x.pat
		} else if strings.HasPrefix(x.pat, "-") {
			raw = `\` + x.pat
		}
		lc.RulesHex = append(lc.RulesHex, core.HexS(raw))
		suffixes = append(suffixes, x.suffix)
	}
	suffixes = append(suffixes, "", ".other.org")
	seen := map[string]bool{}
	add := func(n int) {
		h := longHost(r, n, core.Pick(r, suffixes), r.Chance(25))
		if r.Chance(10) && n > 1 { // the rule's example in front
			if sfx := core.Pick(r, suffixes); len(sfx) < n {
				h = sfx + longHost(r, n-len(sfx), "", r.Chance(25))
			}
		}
		if !seen[h] {
			seen[h] = true
			lc.HostsHex = append(lc.HostsHex, core.HexS(h))
		}
	}
	for n := r.Range(2, 5); n > 0; n-- {
		add(core.Pick(r, hostLengths))
	}
	add(core.Pick(r, []int{254, 255, 256, 254, 1024, 16384}))
	if n := len(rs); n > 1 {
		perm := make([]int, n)
		for i := range perm {
			perm[i] = n - 1 - i
		}
		lc.Perm = perm
	}
	count("list/generator/host-length")
	return lc
}

func genItem(r *core.Rand) itemCase {
	g := &gen{r: r, feats: map[string]bool{}}
	p, _ := g.rule()
	// damage the pattern
	for k := r.Intn(3); k > 0; k-- {
		switch r.Intn(4) {
		case 0:
			if len(p) > 0 {
				i := r.Intn(len(p))
				p = p[:i] + p[i+1:]
			}
		case 1:
			i := r.Intn(len(p) + 1)
			p = p[:i] + pickByte(r, `()[]*+?|\^$-.:ai`) + p[i:]
		case 2:
			if len(p) > 1 {
				p = p[:r.Range(1, len(p))]
			}
		default:
			if len(p) > 0 {
				i := r.Intn(len(p))
				p = p[:i] + p[i:i+1] + p[i:]
			}
		}
	}
	switch r.Intn(6) {
	case 0:
		p = "-" + p
	case 1:
		p = "--" + p
	}
	return itemCase{Kind: "item", RawHex: core.HexS(p)}
}

func Run(ctx *core.Ctx) {
	ctx.SetRule("lists of 1-6 rules drawn from the pattern grammar (literals, escapes, '.', classes, Perl classes, * + ? with lazy suffix, ^ $ \\b \\B \\A \\z, " +
		"alternation, capturing / non-capturing / flag-scoped groups, unscoped flag groups with i m s U and '-'), each marked include or exclude, against up to 10 candidate " +
		"hosts derived from the rules (an example match per rule, case variants, near misses, embedded line breaks); a list case is non-trivial when some rule matches " +
		"some candidate on its own and the list has at least two rules or an exclude rule; about one list in eight is built around a shape on which the code failed before " +
		"the repair of F10/F26; host-length list cases: 1-4 rules whose answer does not depend on the length of the subject (suffix rules, '.*', classes; sometimes a grammar rule) against 3-6 hosts of " +
		"1, 2, 63, 64, 65, 127, 252-257, 1024 and 16384 bytes (labels of at most 63 bytes, or one giant label; ending or starting with what a rule looks for), always one beyond 253 bytes: Match, Inverse() and " +
		"Inverse().Inverse() judged on every host, the model compared on hosts up to 64 bytes (one case in eight: up to 256); case-twin list cases: two rules of one kind whose texts differ in letter case only " +
		"('\\d' / '\\D', '[a-z]' / '[A-Z]', '^API\\.' / '^api\\.') among 0-2 grammar rules, with the hosts only one of the two matches; (the shapes of F10/F26: a rule with an unscoped top-level flag group followed by a rule whose answer that flag would change; an upper-case letter leading one rule and " +
		"the same letter case-folded leading another), with the subjects that told the difference; item cases (damaged patterns through ParseRegexpListItem) are non-trivial when accepted; " +
		"site cases: one proxy with deny-, direct- and mitm-domains lists (each given with probability 85%, 1-4 rules from a pool that tells a host from an authority: anchors, " +
		"brackets, ':port' suffixes, letter case, exact length, rules derived from the targets), an upstream proxy and MITM, and 20-29 requests over names (mixed case, trailing dot), " +
		"dotted quads and bracketed IPv6 literals (upper-case hex, embedded IPv4, zone id, a last group that looks like a port) x no port / empty port / explicit port x absolute-form " +
		"(plain, with userinfo, with a Host header naming another host) / origin-form on the proxy port / CONNECT / origin-form inside an intercepted CONNECT; every request is one evaluation, " +
		"each case with one --proxy-localhost mode (allow 50%, deny 25%, direct 25%) and 2-4 more targets of the localhost class (localhost in any letter case, loopback and unspecified literals, the hosts file's loopback names; " +
		"one in five just outside it: 'localhost.', '127.1', '[::1%lo]') under lists seasoned with rules that match them, 40% of the cases with 1-3 hosts of 63-256 bytes (model and oracle) or 300 bytes-16 KiB (oracle); " +
		"non-trivial when the authority differs from the host or some list says yes; in-process the argument of every Match call is recorded, the last cases run through the real binary; " +
		"conc cases (child process): a list of 2-8 include rules, each with a host only it matches, and 0-3 exclude rules; 8-32 goroutines released together call Match on the matcher, its Inverse() " +
		"and Inverse().Inverse() (80% of the calls on the hosts only one rule matches), 2-3 rounds with a fresh matcher, every answer judged, then every host asked again one call at a time; one evaluation per case, " +
		"non-trivial when the list has two include rules or more, a rule behind the first one has such a host and at least two goroutines call; proxyconc cases (child process): such lists as deny- and direct-domains of a real proxy " +
		"with an upstream proxy, 8-24 concurrent clients, every response judged, then one request per host one at a time; " +
		"source cases: 1-4 rules from a pool in which most rules contain a comma or a double quote (counted repetition {n,m} / {n,}, a comma or a quote in a class), given to --deny-domains, --direct-domains or --mitm-domains as a config-file list (YAML, JSON, TOML), a config-file string, an environment variable, one flag per rule or one comma-separated flag, through the real command tree; the elements the flag holds afterwards and the matcher built from them are judged against the rules given on the hosts that tell each rule from its comma-split fragments; " +
		"distinct = distinct canonical inputs")
	ctx.Assume("Go's regexp package (parser, flag scoping, matching engines) is trusted: it is the per-rule oracle, and its flag-scoping rule is the modelled fact")
	ctx.Assume("the localhost class of --proxy-localhost is: the name localhost and the hosts file's names of loopback addresses in any letter case, and every loopback or unspecified address net.ParseIP reads")
	ctx.Assume("the host a request is addressed to is the host the generator assembled its authority from (RFC 3986 host [ ':' port ], IP-literal in brackets); Go's net/http request parsing is trusted to deliver that authority in req.URL.Host")
	inRun = true // the binary built for a corpus case is kept for the generated ones
	for _, c := range core.LoadCorpus(ctx.Root, "C17") {
		Replay(ctx, c)
	}
	nList := ctx.N(24000, 250000)
	nItem := ctx.N(6000, 40000)
	for i := 0; i < nList; i++ {
		r := ctx.Rng.Sub()
		lc := genList(ctx, r)
		checkList(ctx, lc)
		if i < 3 {
			var raws, hosts []string
			for _, hx := range lc.RulesHex {
				raws = append(raws, string(core.MustUnHex(hx)))
			}
			for _, hx := range lc.HostsHex {
				hosts = append(hosts, string(core.MustUnHex(hx)))
			}
			lc.Rules, lc.Hosts = raws, hosts
			ctx.Sample(lc)
		}
	}
	// host length as the dimension: 1 … 16384 bytes under rules that do not care
	nLong := ctx.N(1500, 15000)
	for i := 0; i < nLong; i++ {
		lc := genLongList(ctx.Count, ctx.Rng.Sub())
		checkList(ctx, lc)
		if i == 0 {
			for _, hx := range lc.RulesHex {
				lc.Rules = append(lc.Rules, string(core.MustUnHex(hx)))
			}
			for _, hx := range lc.HostsHex {
				lc.Hosts = append(lc.Hosts, short(string(core.MustUnHex(hx))))
			}
			ctx.Sample(lc)
		}
	}
	// rules that differ in letter case only are different rules
	for i, n := 0, ctx.N(400, 4000); i < n; i++ {
		checkList(ctx, genTwinList(ctx.Count, ctx.Rng.Sub()))
	}
	// the same property through the real binary's --deny-domains flag
	nBin := ctx.N(10, 120)
	for i := 0; i < nBin; i++ {
		bc := genBin(ctx.Rng.Sub())
		runBin(ctx, bc)
		if i == 0 {
			ctx.Sample(bc)
		}
	}
	// which string the three lists are asked about: requests of every target spelling through one proxy that
	// has deny-, direct- and mitm-domains (in-process with recording matchers, and the real binary)
	nSite, nSiteBin := ctx.N(36, 400), ctx.N(3, 40)
	for i := 0; i < nSite+nSiteBin; i++ {
		r := ctx.Rng.Sub()
		mode := "inproc"
		if i >= nSite {
			mode = "binary"
		}
		sc := genSite(r, mode, r.Range(14, 22))
		runSite(ctx, sc)
		if i == 0 || i == nSite {
			ctx.Sample(sc)
		}
	}
	rig.RemoveBinary()
	// concurrent use: many goroutines on one matcher and its Inverse() (child process), and concurrent
	// clients of a real proxy with such lists
	nConc, nProxyConc := ctx.N(14, 80), ctx.N(3, 16)
	for i := 0; i < nConc; i++ {
		cc := genConc(ctx.Rng.Sub(), ctx.Quick())
		runConc(ctx, cc)
		if i == 0 {
			ctx.Sample(cc)
		}
	}
	for i := 0; i < nProxyConc; i++ {
		pc := genProxyConc(ctx.Rng.Sub(), ctx.Quick())
		runProxyConc(ctx, pc)
		if i == 0 {
			ctx.Sample(pc)
		}
	}
	stopConcChild()
	// how a list ARRIVES: config-file list / string, environment, command line — rules with commas
	for i, n := 0, ctx.N(160, 1600); i < n; i++ {
		sc := genSrc(ctx.Rng.Sub())
		runSrc(ctx, sc)
		if i == 0 {
			ctx.Sample(sc)
		}
	}
	removeSrcDir(ctx)
	for i := 0; i < nItem; i++ {
		r := ctx.Rng.Sub()
		ic := genItem(r)
		checkItem(ctx, ic)
		if i < 2 {
			ic.Raw = string(core.MustUnHex(ic.RawHex))
			ctx.Sample(ic)
		}
	}
}

// inRun: Replay is called from Run (corpus), not for a single replay file.
var inRun bool

func Replay(ctx *core.Ctx, raw json.RawMessage) {
	var k struct {
		Kind string `json:"kind"`
	}
	json.Unmarshal(raw, &k)
	switch k.Kind {
	case "list":
		var lc listCase
		json.Unmarshal(raw, &lc)
		checkList(ctx, lc)
	case "item":
		var ic itemCase
		json.Unmarshal(raw, &ic)
		checkItem(ctx, ic)
	case "binary":
		var bc binCase
		json.Unmarshal(raw, &bc)
		runBin(ctx, bc)
		rig.RemoveBinary()
	case "site":
		var sc siteCase
		json.Unmarshal(raw, &sc)
		runSite(ctx, sc)
		if !inRun {
			rig.RemoveBinary()
		}
	case "source":
		var sc srcCase
		json.Unmarshal(raw, &sc)
		runSrc(ctx, sc)
		if !inRun {
			removeSrcDir(ctx)
		}
	case "conc":
		var cc concCase
		json.Unmarshal(raw, &cc)
		runConc(ctx, cc)
		if !inRun {
			stopConcChild()
		}
	case "proxyconc":
		var pc proxyConcCase
		json.Unmarshal(raw, &pc)
		runProxyConc(ctx, pc)
		if !inRun {
			stopConcChild()
		}
	default:
		core.Fatalf("C17: unknown case kind %q", k.Kind)
	}
}
