package c17

import "github.com/saucelabs/forwarder/verifharness/core"

// RuleList draws one rule list from the generator of the list cases (pattern grammar with inline flags,
// groups, anchors, alternations, classes; include / exclude marks; the directed shapes of F10 / F26 with
// the given frequencies per hundred) for scenarios that put real rule lists into a proxy configuration
// (C05: --direct-domains). It returns the flag values as written ('-' prefix = exclude rule), the
// candidate subjects derived from the rules (an example match per rule, case variants, near misses) and
// whether some sub-list has a rule with an unscoped top-level flag group in front of another rule.
// count receives the generator's histogram labels.
func RuleList(r *core.Rand, count func(string), foldPct, leakPct int) (values, subjects []string, leak bool) {
	lc := genListShaped(count, r, foldPct, leakPct)
	var rules []prule
	for _, hx := range lc.RulesHex {
		v := string(core.MustUnHex(hx))
		values = append(values, v)
		rules = append(rules, splitRaw(v))
	}
	for _, hx := range lc.HostsHex {
		subjects = append(subjects, string(core.MustUnHex(hx)))
	}
	return values, subjects, leakShape(rules)
}
