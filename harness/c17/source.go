package c17

import (
	"bytes"
	"encoding/csv"
	"encoding/json"
	"fmt"
	"os"
	"path/filepath"
	"regexp"
	"strings"
	"sync"

	fwdcmd "github.com/saucelabs/forwarder/command/forwarder"
	"github.com/saucelabs/forwarder/ruleset"
	"github.com/saucelabs/forwarder/verifharness/core"
	"github.com/spf13/cobra"
	"github.com/spf13/pflag"
)

// srcCase: a domain rule list as it ARRIVES at one of the three list flags — from a config-file list
// (YAML / JSON / TOML; one element = one rule, nothing is split), a config-file string, the environment
// or the command line (one CSV record per occurrence) — through the real command tree
// (root PersistentPreRunE → cobrautil.BindAll → anyflag.SliceValue), with the run command's RunE replaced
// by a recorder. Rules that contain a comma (counted repetition {n,m}, a comma or a double quote in a
// class) are what tells the paths apart: a list element that is joined and re-split as CSV, or a CSV
// field that is not quoted back, becomes two rules — usually two VALID regexps, so nothing fails at
// start-up and the list silently matches a different set of hosts.
type srcCase struct {
	Kind  string   `json:"kind"` // "source"
	Flag  string   `json:"flag"` // deny-domains | direct-domains | mitm-domains
	How   string   `json:"how"`  // yaml-list | json-list | toml-list | yaml-string | env | flags | flag-csv
	Rules []string `json:"rules"`
	Hosts []string `json:"hosts"`
}

type srcRule struct {
	text  string
	hosts []string // subjects that tell this rule (and its comma-split fragments) apart
}

var srcPool = []srcRule{
	{`^a{1,3}\.example\.com$`, []string{"a.example.com", "aa.example.com", "aaa.example.com", "aaaa.example.com", "a{1"}},
	{`-^(dev|qa){1,2}\.tracker\.test$`, []string{"dev.tracker.test", "qa.tracker.test", "devqa.tracker.test", "2}.tracker.test", "x.tracker.test"}},
	{`\.tracker\.test$`, []string{"dev.tracker.test", "www.tracker.test"}},
	{`^x{2,}\.corp$`, []string{"xx.corp", "xxxx.corp", "x.corp", "x{2"}},
	{`^[a,b]+\.cls\.test$`, []string{"ab.cls.test", "a,b.cls.test", "c.cls.test", "b]+.cls.test"}},
	{`^["q]uote\.test$`, []string{"quote.test", "\"uote.test", "uote.test"}},
	{`-^n{0,1}o\.example\.com$`, []string{"o.example.com", "no.example.com", "nno.example.com"}},
	{`example\.com$`, []string{"www.example.com", "o.example.com", "no.example.com", "example.org"}},
	{`^www\.`, []string{"www.example.com", "www.other.org", "ww.other.org"}},
	{`-^www\.other\.org$`, []string{"www.other.org"}},
	{`internal`, []string{"internal.corp", "INTERNAL.corp"}},
	{`^(?i:api){1,2}\.svc$`, []string{"api.svc", "APIapi.svc", "apiapiapi.svc"}},
	{`\d{2,3}\.num\.test`, []string{"12.num.test", "1.num.test", "1234.num.test"}},
}

var srcFlags = []string{"deny-domains", "direct-domains", "mitm-domains"}
var srcHows = []string{"yaml-list", "json-list", "toml-list", "yaml-string", "env", "flags", "flag-csv"}

func genSrc(r *core.Rand) srcCase {
	sc := srcCase{Kind: "source", Flag: core.Pick(r, srcFlags), How: core.Pick(r, srcHows)}
	if r.Chance(45) {
		sc.How = core.Pick(r, srcHows[:3]) // the list forms
	}
	n := r.Range(1, 4)
	seen := map[string]bool{}
	hasInclude := false
	for i := 0; i < n; i++ {
		p := core.Pick(r, srcPool)
		if seen[p.text] {
			continue
		}
		seen[p.text] = true
		sc.Rules = append(sc.Rules, p.text)
		hasInclude = hasInclude || !strings.HasPrefix(p.text, "-")
		sc.Hosts = append(sc.Hosts, p.hosts...)
	}
	if !hasInclude {
		sc.Rules = append(sc.Rules, srcPool[7].text)
		sc.Hosts = append(sc.Hosts, srcPool[7].hosts...)
	}
	core.Shuffle(r, sc.Rules)
	return sc
}

func csvRecord(fields []string) string {
	var b bytes.Buffer
	w := csv.NewWriter(&b)
	w.Write(fields)
	w.Flush()
	return strings.TrimSuffix(b.String(), "\n")
}

func yamlQuote(s string) string { return "'" + strings.ReplaceAll(s, "'", "''") + "'" }

func tomlQuote(s string) string { return "'" + s + "'" } // literal string: the pool has no single quote

var srcSeq struct {
	sync.Mutex
	n int
}

// deliver renders the case: command-line arguments, environment, and the config file (if any).
func (sc *srcCase) deliver(ctx *core.Ctx) (args []string, env [][2]string, cleanup func(), err error) {
	cleanup = func() {}
	writeCfg := func(ext, content string) error {
		srcSeq.Lock()
		srcSeq.n++
		n := srcSeq.n
		srcSeq.Unlock()
		dir := filepath.Join(ctx.Root, ".work", fmt.Sprintf("c17-src-%d", os.Getpid()))
		if err := os.MkdirAll(dir, 0o755); err != nil {
			return err
		}
		path := filepath.Join(dir, fmt.Sprintf("cfg-%d.%s", n, ext))
		cleanup = func() { os.Remove(path) }
		args = append(args, "--config-file", path)
		return os.WriteFile(path, []byte(content), 0o644)
	}
	switch sc.How {
	case "yaml-list":
		var b strings.Builder
		b.WriteString(sc.Flag + ":\n")
		for _, t := range sc.Rules {
			b.WriteString("  - " + yamlQuote(t) + "\n")
		}
		err = writeCfg("yaml", b.String())
	case "json-list":
		j, _ := json.Marshal(map[string][]string{sc.Flag: sc.Rules})
		err = writeCfg("json", string(j))
	case "toml-list":
		var q []string
		for _, t := range sc.Rules {
			q = append(q, tomlQuote(t))
		}
		err = writeCfg("toml", sc.Flag+" = ["+strings.Join(q, ", ")+"]\n")
	case "yaml-string":
		err = writeCfg("yaml", sc.Flag+": "+yamlQuote(csvRecord(sc.Rules))+"\n")
	case "env":
		env = append(env, [2]string{"FORWARDER_" + strings.ToUpper(strings.ReplaceAll(sc.Flag, "-", "_")), csvRecord(sc.Rules)})
	case "flags":
		for _, t := range sc.Rules {
			args = append(args, "--"+sc.Flag+"="+csvRecord([]string{t}))
		}
	case "flag-csv":
		args = append(args, "--"+sc.Flag+"="+csvRecord(sc.Rules))
	default:
		err = fmt.Errorf("unknown delivery %q", sc.How)
	}
	return
}

var srcTreeMu sync.Mutex // the command tree reads the process environment

// runDomainTree runs `forwarder run <args>` with RunE replaced by a recorder of the flag's elements.
func runDomainTree(flag string, args []string, env [][2]string) (inForce []string, refused bool, output string) {
	srcTreeMu.Lock()
	defer srcTreeMu.Unlock()
	root := fwdcmd.Command()
	run, _, err := root.Find([]string{"run"})
	if err != nil || run == nil || run == root {
		return nil, true, fmt.Sprintf("no run command: %v", err)
	}
	reached := false
	run.RunE = func(cmd *cobra.Command, _ []string) error {
		reached = true
		f := cmd.Flags().Lookup(flag)
		if f == nil {
			return fmt.Errorf("no --%s flag", flag)
		}
		sv, ok := f.Value.(pflag.SliceValue)
		if !ok {
			return fmt.Errorf("--%s is not a list flag", flag)
		}
		inForce = sv.GetSlice()
		return nil
	}
	var out bytes.Buffer
	root.SetOut(&out)
	root.SetErr(&out)
	root.SetArgs(append([]string{"run"}, args...))
	for _, kv := range env {
		os.Setenv(kv[0], kv[1])
	}
	defer func() {
		for _, kv := range env {
			os.Unsetenv(kv[0])
		}
	}()
	err = root.Execute()
	if err != nil || !reached {
		return nil, true, strings.TrimSpace(out.String() + " " + fmt.Sprint(err))
	}
	return inForce, false, out.String()
}

func runSrc(ctx *core.Ctx, sc srcCase) {
	key, _ := json.Marshal(sc)
	comma := false
	for _, t := range sc.Rules {
		comma = comma || strings.ContainsAny(t, ",\"")
	}
	ctx.Case("source:"+string(key), comma || len(sc.Rules) > 1)
	ctx.Count("source/how/" + sc.How)
	ctx.Count("source/flag/" + sc.Flag)
	if comma {
		ctx.Count("source/rule-with-comma-or-quote")
	}
	args, env, cleanup, err := sc.deliver(ctx)
	defer cleanup()
	if err != nil {
		core.Fatalf("C17 source case: %v", err)
	}
	var inForce []string
	var refused bool
	var output string
	func() {
		defer func() {
			if p := recover(); p != nil {
				refused, output = true, fmt.Sprintf("panic: %v", p)
				ctx.Crash("binding a domain rule list does not panic", "", sc, output)
			}
		}()
		inForce, refused, output = runDomainTree(sc.Flag, args, env)
	}()
	if refused {
		ctx.SpecFail("a list of valid rules is accepted however it is delivered (config-file list / string, environment, command line)", "", sc, output, "")
		return
	}
	// (0) the model of delivery (Model/C16Src.lean rulesOfSource: the plumbing is shared by all list flags)
	if mt, ok := askDelivery(ctx, &sc, args, env); ok && strings.Join(mt, "\x00") != strings.Join(inForce, "\x00") {
		imp, _ := json.Marshal(inForce)
		mod, _ := json.Marshal(mt)
		ctx.Disagree("elements a domain list flag holds after cobrautil.BindAll = Model.C16Src.rulesOfSource of what was delivered", sc, string(imp), string(mod))
	}
	// (1) the rules in force are the rules given: one rule per list element / CSV field, text unchanged
	if strings.Join(inForce, "\x00") != strings.Join(sc.Rules, "\x00") {
		// (2) and the property itself, on the hosts that tell the rules apart
		detail := ""
		if bad := judgeHosts(inForce, sc.Rules, sc.Hosts); bad != "" {
			detail = "the list in force matches a different set of hosts: " + bad
		}
		imp, _ := json.Marshal(inForce)
		ctx.SpecFail("every rule given reaches the matcher as one rule, unchanged: a config-file list element is one rule, a CSV field is one rule (the list matches iff some include rule matches on its own and no '-' rule does)", "", sc, string(imp), detail)
		return
	}
	if bad := judgeHosts(inForce, sc.Rules, sc.Hosts); bad != "" {
		ctx.SpecFail("the list in force matches a host iff some include rule given matches it on its own and no '-' rule does", "", sc, bad, "")
		return
	}
	ctx.TraceValidated()
}

// askDelivery asks the model which texts are in force for what was delivered (flag occurrences, the
// environment value, the config-file value). ok=false: the model refuses the record (not expected
// for this generator's inputs; then only the clause oracle judges).
func askDelivery(ctx *core.Ctx, sc *srcCase, args []string, env [][2]string) ([]string, bool) {
	var flags []string
	for _, a := range args {
		if v, ok := strings.CutPrefix(a, "--"+sc.Flag+"="); ok {
			flags = append(flags, v)
		}
	}
	e, cfg := "~", "~"
	if len(env) > 0 {
		e = core.HexS(env[0][1])
	}
	switch sc.How {
	case "yaml-list", "json-list", "toml-list":
		cfg = "l:" + core.HexList(sc.Rules)
	case "yaml-string":
		cfg = "t:" + core.HexS(csvRecord(sc.Rules))
	}
	f := strings.Fields(ctx.Model.MustAsk("C16", "source", core.HexList(flags), e, cfg))
	if len(f) >= 3 && f[0] == "ok" {
		return core.UnHexList(f[1]), true
	}
	return nil, false
}

// judgeHosts builds the matcher from the rules in force (the real ruleset code) and compares it, host
// by host, with union-minus-excludes of the rules GIVEN (each evaluated on its own by regexp).
func judgeHosts(inForce, given, hosts []string) string {
	var items []ruleset.RegexpListItem
	for _, t := range inForce {
		it, err := ruleset.ParseRegexpListItem(t)
		if err != nil {
			return fmt.Sprintf("rule in force %q does not parse: %v", t, err)
		}
		items = append(items, it)
	}
	m, err := ruleset.NewRegexpMatcherFromList(items)
	if err != nil {
		return fmt.Sprintf("NewRegexpMatcherFromList: %v", err)
	}
	var inc, exc []*regexp.Regexp
	for _, t := range given {
		if strings.HasPrefix(t, "-") {
			exc = append(exc, regexp.MustCompile(t[1:]))
		} else {
			inc = append(inc, regexp.MustCompile(t))
		}
	}
	var bad []string
	for _, h := range hosts {
		want := false
		for _, i := range inc {
			want = want || i.MatchString(h)
		}
		for _, e := range exc {
			if e.MatchString(h) {
				want = false
			}
		}
		if got := m.Match(h); got != want {
			bad = append(bad, fmt.Sprintf("%q: Match=%v, the rules given say %v", h, got, want))
		}
		if got := m.Inverse().Match(h); got != !want {
			bad = append(bad, fmt.Sprintf("%q: Inverse().Match=%v, the rules given say %v", h, got, !want))
		}
	}
	return strings.Join(bad, "; ")
}

func removeSrcDir(ctx *core.Ctx) {
	os.RemoveAll(filepath.Join(ctx.Root, ".work", fmt.Sprintf("c17-src-%d", os.Getpid())))
}
