package c17

// CONCURRENT use of a rule list. One ruleset.RegexpMatcher per list is built at start-up and shared by the
// goroutines of all connections; Inverse() hands out a matcher that aliases the same two slices. The property
// quantifies over every host and every query order — also when the queries of many callers overlap in time.
//
//   - conc cases: a list of 2–8 include rules (+ 0–3 exclude rules) in which EVERY include rule has a host that
//     only it matches (so hits land on every position of the list, not just the front). 8–32 goroutines are
//     released together and call Match on the matcher, on its Inverse() and on Inverse().Inverse() for a bounded
//     number of calls, for a few rounds (a fresh matcher per round). Every answer DURING the run must be the
//     per-rule oracle's; AFTER the goroutines are done every (rule, witness host) pair is asked again
//     sequentially — the list must still know every rule. The first calls of every goroutine are also put to the
//     model as a schedule (`conc` verb = Model.C17.runSchedule; by c17_concurrent_per_caller the schedule is
//     irrelevant).
//   - proxyconc cases: a real proxy with such lists as deny-domains and direct-domains (and an upstream proxy);
//     concurrent clients, every response judged (403 / direct / through the upstream proxy), then a sequential
//     sweep over all hosts.
//
// The code under test runs in a CHILD process (this binary re-executed with VERIF_C17_CHILD=1): unsynchronised
// shared state may give wrong answers, but it may also kill the process (concurrent map writes, a torn slice
// header); the parent attributes that to the case instead of dying with it.

import (
	"bufio"
	"bytes"
	"encoding/json"
	"fmt"
	"io"
	"os"
	"os/exec"
	"regexp"
	"strings"
	"sync"
	"sync/atomic"
	"time"

	"github.com/saucelabs/forwarder"
	"github.com/saucelabs/forwarder/ruleset"
	"github.com/saucelabs/forwarder/verifharness/core"
	"github.com/saucelabs/forwarder/verifharness/rig"
)

const concChildEnv = "VERIF_C17_CHILD"

func init() {
	if os.Getenv(concChildEnv) == "1" {
		// re-executed by the parent check: serve jobs and leave before main starts
		concChildMain()
		os.Exit(0)
	}
}

// concCase: one rule list hammered by Goroutines callers, Calls calls each, Rounds times.
type concCase struct {
	Kind       string   `json:"kind"` // "conc"
	RulesHex   []string `json:"rules_hex"`
	HostsHex   []string `json:"hosts_hex"`
	Rules      []string `json:"rules_txt,omitempty"` // readable copy, not used on replay
	Hosts      []string `json:"hosts_txt,omitempty"`
	Witness    []int    `json:"witness"` // per rule of the list: index of a host that this include rule alone matches (-1: exclude rule)
	Goroutines int      `json:"goroutines"`
	Calls      int      `json:"calls"`
	Rounds     int      `json:"rounds"`
	Seed       uint64   `json:"seed"`
}

// proxyConcCase: deny- and direct-domains lists on one real proxy, Clients concurrent clients, Requests each.
type proxyConcCase struct {
	Kind     string   `json:"kind"` // "proxyconc"
	Deny     []string `json:"deny"`
	Direct   []string `json:"direct"`
	Hosts    []string `json:"hosts"`
	Clients  int      `json:"clients"`
	Requests int      `json:"requests"`
	Seed     uint64   `json:"seed"`
}

// ---------------------------------------------------------------------------------------------
// the child: runs the code under test

type concJob struct {
	Conc     *concCase      `json:"conc,omitempty"`
	Want     []bool         `json:"want,omitempty"` // conc: the oracle's answer per host
	Proxy    *proxyConcCase `json:"proxy,omitempty"`
	WantCode string         `json:"want_code,omitempty"` // proxyconc: D | X | U per host
}

// concCall: one call of a goroutine: Via 0 = the matcher, 1 = its Inverse(), 2 = Inverse().Inverse().
type concCall struct {
	Via  int  `json:"via"`
	Host int  `json:"host"`
	Got  bool `json:"got"`
}

type concObs struct {
	Err    string       `json:"err,omitempty"`   // the job could not be run (machinery)
	Build  string       `json:"build,omitempty"` // the rule list was refused
	Panic  string       `json:"panic,omitempty"`
	Wrong  int64        `json:"wrong"`            // answers during the concurrent phase that differ from the oracle
	First  []string     `json:"first,omitempty"`  // the first few of them
	After  [][3]string  `json:"after,omitempty"`  // per round: Match / Inverse().Match / Inverse().Inverse().Match per host, asked sequentially afterwards
	Prefix [][]concCall `json:"prefix,omitempty"` // round 0: the first calls of every goroutine
	// proxyconc
	Start     string `json:"start,omitempty"`      // the proxy did not start
	NoAnswer  int    `json:"no_answer,omitempty"`  // requests without a classifiable response
	AfterCode string `json:"after_code,omitempty"` // sequential sweep: one code per host
	Total     int    `json:"total,omitempty"`
}

const concPrefix = 6

func concChildMain() {
	in := bufio.NewReaderSize(os.Stdin, 4<<20)
	out := bufio.NewWriter(os.Stdout)
	for {
		line, err := in.ReadBytes('\n')
		if len(bytes.TrimSpace(line)) > 0 {
			var j concJob
			var o concObs
			if e := json.Unmarshal(line, &j); e != nil {
				o.Err = "bad job: " + e.Error()
			} else if j.Conc != nil {
				o = childConc(j.Conc, j.Want)
			} else if j.Proxy != nil {
				o = childProxyConc(j.Proxy, j.WantCode)
			} else {
				o.Err = "empty job"
			}
			b, _ := json.Marshal(o)
			out.Write(b)
			out.WriteByte('\n')
			out.Flush()
		}
		if err != nil {
			return
		}
	}
}

func lcg(x uint64) uint64 { return x*6364136223846793005 + 1442695040888963407 }

func childConc(c *concCase, want []bool) (o concObs) {
	var raws, hosts []string
	for _, hx := range c.RulesHex {
		raws = append(raws, string(core.MustUnHex(hx)))
	}
	for _, hx := range c.HostsHex {
		hosts = append(hosts, string(core.MustUnHex(hx)))
	}
	if len(want) != len(hosts) || len(hosts) == 0 || c.Goroutines < 1 {
		o.Err = "malformed conc job"
		return o
	}
	var wit []int
	for _, w := range c.Witness {
		if w >= 0 && w < len(hosts) {
			wit = append(wit, w)
		}
	}
	if len(wit) == 0 {
		wit = []int{0}
	}
	var mu sync.Mutex
	note := func(s string) {
		mu.Lock()
		if len(o.First) < 5 {
			o.First = append(o.First, s)
		}
		mu.Unlock()
	}
	var wrong atomic.Int64
	for round := 0; round < c.Rounds; round++ {
		m, err := buildMatcher(raws)
		if err != nil {
			o.Build = err.Error()
			return o
		}
		via := [3]*ruleset.RegexpMatcher{m, m.Inverse(), nil}
		via[2] = via[1].Inverse()
		prefix := make([][]concCall, c.Goroutines)
		start := make(chan struct{})
		var wg sync.WaitGroup
		for g := 0; g < c.Goroutines; g++ {
			wg.Add(1)
			go func(g int) {
				defer wg.Done()
				defer func() {
					if p := recover(); p != nil {
						mu.Lock()
						if o.Panic == "" {
							o.Panic = fmt.Sprintf("round %d goroutine %d: %v", round, g, p)
						}
						mu.Unlock()
					}
				}()
				x := lcg(c.Seed ^ uint64(round)<<32 ^ uint64(g+1)*0x9e3779b97f4a7c15)
				<-start
				for n := 0; n < c.Calls; n++ {
					x = lcg(x)
					var h int
					if (x>>33)%100 < 80 { // mostly hosts that exactly one include rule matches
						h = wit[int((x>>8)%uint64(len(wit)))]
					} else {
						h = int((x >> 8) % uint64(len(hosts)))
					}
					v := 0
					switch (x >> 44) % 4 {
					case 2:
						v = 1
					case 3:
						v = 2
					}
					got := via[v].Match(hosts[h])
					if round == 0 && n < concPrefix {
						prefix[g] = append(prefix[g], concCall{v, h, got})
					}
					if got != (want[h] != (v == 1)) {
						if wrong.Add(1) <= 5 {
							note(fmt.Sprintf("round %d goroutine %d call %d: %s(%q) = %v", round, g, n, viaName(v), hosts[h], got))
						}
					}
				}
			}(g)
		}
		close(start)
		wg.Wait()
		if round == 0 {
			o.Prefix = prefix
		}
		// all goroutines are done: the list is asked about every host once more, one call at a time
		var after [3]string
		func() {
			defer func() {
				if p := recover(); p != nil && o.Panic == "" {
					o.Panic = fmt.Sprintf("round %d, sequential sweep: %v", round, p)
				}
			}()
			for v := 0; v < 3; v++ {
				var bs []bool
				for _, h := range hosts {
					bs = append(bs, via[v].Match(h))
				}
				after[v] = bitsOf(bs)
			}
		}()
		o.After = append(o.After, after)
	}
	o.Wrong = wrong.Load()
	return o
}

func viaName(v int) string {
	return [3]string{"Match", "Inverse().Match", "Inverse().Inverse().Match"}[v]
}

// proxyRequest sends one absolute-form GET for host through the proxy and classifies the answer:
// D = 403, X = the origin's body (direct), U = the upstream proxy's body, ? = anything else.
func proxyRequest(addr, host, id string) (byte, string) {
	c, err := rig.Dial(addr)
	if err != nil {
		return '?', "dial proxy: " + err.Error()
	}
	defer c.Close()
	c.Send([]byte("GET http://"+host+"/"+id+" HTTP/1.1\r\nHost: "+host+"\r\nCase-Id: "+id+"\r\nConnection: close\r\n\r\n"), nil)
	res, err := c.ReadResponse("GET", 15*time.Second)
	if err != nil {
		return '?', "no response: " + err.Error()
	}
	switch {
	case res.Status == 403:
		return 'D', ""
	case res.Status == 200 && string(res.Body) == "via-up":
		return 'U', ""
	case res.Status == 200 && string(res.Body) == originBody:
		return 'X', ""
	}
	return '?', fmt.Sprintf("status %d body %q", res.Status, res.Body)
}

func childProxyConc(c *proxyConcCase, wantCode string) (o concObs) {
	if len(wantCode) != len(c.Hosts) || len(c.Hosts) == 0 {
		o.Err = "malformed proxyconc job"
		return o
	}
	deny, err := buildMatcher(c.Deny)
	if err != nil {
		o.Build = "deny-domains: " + err.Error()
		return o
	}
	direct, err := buildMatcher(c.Direct)
	if err != nil {
		o.Build = "direct-domains: " + err.Error()
		return o
	}
	origin, err := rig.NewPeer("origin", rig.OKResponder(originBody))
	if err != nil {
		o.Err = "origin: " + err.Error()
		return o
	}
	defer origin.Close()
	originAddr := origin.Addr
	up, err := rig.NewForwardProxy("up", func(string) string { return originAddr })
	if err != nil {
		o.Err = "upstream: " + err.Error()
		return o
	}
	defer up.Close()
	upAddr := up.Addr
	p, err := rig.StartProxy(rig.ProxyOpts{
		Transport: func(tc *forwarder.HTTPTransportConfig) {
			tc.RedirectFunc = func(network, address string) (string, string) {
				if address == upAddr {
					return network, address
				}
				return network, originAddr // never leave the scripted listeners
			}
		},
		Configure: func(cfg *forwarder.HTTPProxyConfig) {
			cfg.Name = "fwdverif"
			cfg.ProxyLocalhost = forwarder.AllowProxyLocalhost
			cfg.UpstreamProxy = rig.MustURL("http://" + upAddr)
			cfg.DenyDomains = deny
			cfg.DirectDomains = direct
		},
	})
	if err != nil {
		o.Start = err.Error()
		return o
	}
	defer p.Stop()
	var mu sync.Mutex
	var wrong atomic.Int64
	var noAnswer atomic.Int64
	note := func(s string) {
		mu.Lock()
		if len(o.First) < 5 {
			o.First = append(o.First, s)
		}
		mu.Unlock()
	}
	start := make(chan struct{})
	var wg sync.WaitGroup
	for g := 0; g < c.Clients; g++ {
		wg.Add(1)
		go func(g int) {
			defer wg.Done()
			x := lcg(c.Seed ^ uint64(g+1)*0x9e3779b97f4a7c15)
			<-start
			for n := 0; n < c.Requests; n++ {
				x = lcg(x)
				h := int((x >> 8) % uint64(len(c.Hosts)))
				code, detail := proxyRequest(p.Addr, c.Hosts[h], fmt.Sprintf("c17p-%d-%d", g, n))
				switch {
				case code == '?':
					noAnswer.Add(1)
					note(fmt.Sprintf("client %d request %d for %s: %s", g, n, c.Hosts[h], detail))
				case code != wantCode[h]:
					wrong.Add(1)
					note(fmt.Sprintf("client %d request %d for %s: observed %c", g, n, c.Hosts[h], code))
				}
			}
		}(g)
	}
	close(start)
	wg.Wait()
	o.Total = c.Clients * c.Requests
	o.Wrong, o.NoAnswer = wrong.Load(), int(noAnswer.Load())
	// the clients are gone: one request per host, one at a time
	var after []byte
	for i, h := range c.Hosts {
		code, detail := proxyRequest(p.Addr, h, fmt.Sprintf("c17p-after-%d", i))
		if code == '?' {
			note(fmt.Sprintf("sequential sweep, %s: %s", h, detail))
		}
		after = append(after, code)
	}
	o.AfterCode = string(after)
	return o
}

// ---------------------------------------------------------------------------------------------
// the parent's side of the child

type concTail struct {
	mu sync.Mutex
	b  []byte
}

func (t *concTail) Write(p []byte) (int, error) {
	t.mu.Lock()
	t.b = append(t.b, p...)
	if len(t.b) > 16<<10 {
		t.b = t.b[len(t.b)-(16<<10):]
	}
	t.mu.Unlock()
	return len(p), nil
}

func (t *concTail) String() string {
	t.mu.Lock()
	defer t.mu.Unlock()
	s := string(t.b)
	if len(s) > 3000 {
		// keep the head of a Go fatal error (it names the cause) and the tail
		return s[:1500] + " … " + s[len(s)-1200:]
	}
	return s
}

type concChild struct {
	cmd    *exec.Cmd
	in     io.WriteCloser
	out    *bufio.Reader
	stderr *concTail
}

var theConcChild *concChild

func startConcChild() (*concChild, error) {
	exe, err := os.Executable()
	if err != nil {
		return nil, err
	}
	cmd := exec.Command(exe, "C17")
	cmd.Env = append(os.Environ(), concChildEnv+"=1")
	in, err := cmd.StdinPipe()
	if err != nil {
		return nil, err
	}
	outp, err := cmd.StdoutPipe()
	if err != nil {
		return nil, err
	}
	tb := &concTail{}
	cmd.Stderr = tb
	if err := cmd.Start(); err != nil {
		return nil, err
	}
	return &concChild{cmd: cmd, in: in, out: bufio.NewReaderSize(outp, 4<<20), stderr: tb}, nil
}

func stopConcChild() {
	ch := theConcChild
	theConcChild = nil
	if ch == nil {
		return
	}
	ch.in.Close()
	done := make(chan struct{})
	go func() { ch.cmd.Wait(); close(done) }()
	select {
	case <-done:
	case <-time.After(3 * time.Second):
		ch.cmd.Process.Kill()
		<-done
	}
}

// askConcChild runs one job in the child. died = the process crashed or did not answer within limit.
func askConcChild(j concJob, limit time.Duration) (o *concObs, died bool, detail string) {
	if theConcChild == nil {
		ch, err := startConcChild()
		if err != nil {
			core.Fatalf("C17: cannot start the child process: %v", err)
		}
		theConcChild = ch
	}
	ch := theConcChild
	b, _ := json.Marshal(j)
	if _, werr := ch.in.Write(append(b, '\n')); werr != nil {
		ch.cmd.Process.Kill()
		ch.cmd.Wait()
		theConcChild = nil
		return nil, true, "the child process was gone before the case: " + ch.stderr.String()
	}
	type res struct {
		line []byte
		err  error
	}
	rc := make(chan res, 1)
	go func() {
		line, err := ch.out.ReadBytes('\n')
		rc <- res{line, err}
	}()
	select {
	case r := <-rc:
		if r.err != nil {
			ch.cmd.Wait()
			theConcChild = nil
			return nil, true, "the process running the code under test died: " + ch.stderr.String()
		}
		var obs concObs
		if e := json.Unmarshal(r.line, &obs); e != nil {
			core.Fatalf("C17: unreadable reply from the child: %v", e)
		}
		if obs.Err != "" {
			core.Fatalf("C17: child: %s", obs.Err)
		}
		return &obs, false, ""
	case <-time.After(limit):
		ch.cmd.Process.Kill()
		ch.cmd.Wait()
		theConcChild = nil
		return nil, true, fmt.Sprintf("the case did not finish within %v (deadlock?): %s", limit, ch.stderr.String())
	}
}

// ---------------------------------------------------------------------------------------------
// generator

var concTokens = []string{"svc0", "svc1", "svc2", "svc3", "api", "cdn-1", "mail", "intra", "build", "git", "wiki", "auth", "pay", "db7", "edge", "vpn"}

// concRule: an include rule around a token of its own, and a host that (by construction) only it matches.
func concRule(r *core.Rand, tok string) (pat, host string) {
	switch r.Intn(7) {
	case 0:
		return `^` + quoteLit(tok) + `\.corp\.example$`, tok + ".corp.example"
	case 1:
		return `(?i)^` + quoteLit(tok) + `\.`, strings.ToUpper(tok) + ".Example.ORG"
	case 2:
		return `\.` + quoteLit(tok) + `\.test$`, "a." + tok + ".test"
	case 3:
		return `^(www|m)\.` + quoteLit(tok) + `\.com$`, core.Pick(r, []string{"www.", "m."}) + tok + ".com"
	case 4:
		return quoteLit(tok) + `[0-9]+\.internal`, tok + "42.internal"
	case 5:
		return `^` + quoteLit(tok) + `$`, tok
	default:
		return `^[a-z]+\.` + quoteLit(tok) + `\.(org|net)$`, "x." + tok + "." + core.Pick(r, []string{"org", "net"})
	}
}

// concList: nIncl include rules, every one with a witness host only it matches and no exclude rule matches,
// nExcl exclude rules, candidate hosts. grammarPct: how many include rules in a hundred come from the pattern
// grammar of the list cases (kept when their example subject is such a witness).
func concList(r *core.Rand, nIncl, nExcl, grammarPct int, hostNames bool) (raws, hosts []string, witness []int) {
	for {
		toks := append([]string(nil), concTokens...)
		core.Shuffle(r, toks)
		type rl struct {
			pat, wit string
			excl     bool
		}
		var rs []rl
		g := &gen{r: r, feats: map[string]bool{}}
		for i := 0; i < nIncl; i++ {
			if r.Chance(grammarPct) {
				p, ex := genValidRule(g)
				if ex != "" && len(ex) <= 40 && isASCII(ex) && !strings.HasPrefix(p, "-") {
					rs = append(rs, rl{pat: p, wit: ex})
					continue
				}
			}
			p, h := concRule(r, toks[i])
			rs = append(rs, rl{pat: p, wit: h})
		}
		var extra []string
		for j := 0; j < nExcl; j++ {
			switch r.Intn(3) {
			case 0: // exempts a sub-domain below a suffix rule
				rs = append(rs, rl{pat: `^secret\.`, excl: true})
				extra = append(extra, "secret."+toks[r.Intn(nIncl)]+".test", "secret.example")
			case 1:
				t := toks[nIncl+j]
				rs = append(rs, rl{pat: quoteLit(t), excl: true})
				extra = append(extra, t+".corp.example", "www."+t+".com")
			default:
				rs = append(rs, rl{pat: `(?i)\.blocked$`, excl: true})
				extra = append(extra, toks[r.Intn(nIncl)]+".BLOCKED", "a.blocked")
			}
		}
		core.Shuffle(r, rs)
		raws, hosts, witness = nil, nil, nil
		var res []*regexp.Regexp
		for _, x := range rs {
			res = append(res, regexp.MustCompile(x.pat))
			if x.excl {
				raws = append(raws, "-"+x.pat)
			} else {
				raws = append(raws, x.pat)
			}
		}
		ok := true
		seen := map[string]int{}
		add := func(h string) int {
			if i, dup := seen[h]; dup {
				return i
			}
			seen[h] = len(hosts)
			hosts = append(hosts, h)
			return len(hosts) - 1
		}
		for i, x := range rs {
			if x.excl {
				witness = append(witness, -1)
				continue
			}
			for k, re := range res {
				if (k == i) != re.MatchString(x.wit) {
					ok = false
				}
			}
			witness = append(witness, add(x.wit))
		}
		if !ok {
			continue // a grammar rule that also matches a neighbour's witness (or not its own example): draw again
		}
		for _, h := range extra {
			add(h)
		}
		add("other.example")
		add(toks[len(toks)-1] + ".corp.example")
		if !hostNames {
			add("")
			for _, x := range rs {
				if !x.excl && r.Chance(40) {
					if h := mutate(r, x.wit); len(h) <= 40 && isASCII(h) {
						add(h)
					}
				}
			}
		}
		return raws, hosts, witness
	}
}

func genConc(r *core.Rand, quick bool) concCase {
	nIncl := r.Range(2, 8)
	if r.Chance(12) {
		nIncl = 2
	}
	raws, hosts, wit := concList(r, nIncl, r.Intn(4), 20, false)
	cc := concCase{Kind: "conc", Witness: wit, Goroutines: core.Pick(r, []int{8, 16, 16, 32}), Rounds: 2, Seed: r.U64()}
	total := 600000
	if !quick {
		total = 1500000
		cc.Rounds = 3
	}
	cc.Calls = total / cc.Goroutines
	for _, x := range raws {
		cc.RulesHex = append(cc.RulesHex, core.HexS(x))
	}
	for _, h := range hosts {
		cc.HostsHex = append(cc.HostsHex, core.HexS(h))
	}
	return cc
}

func genProxyConc(r *core.Rand, quick bool) proxyConcCase {
	pc := proxyConcCase{Kind: "proxyconc", Clients: core.Pick(r, []int{8, 16, 24}), Seed: r.U64()}
	total := 1600
	if !quick {
		total = 4000
	}
	pc.Requests = total / pc.Clients
	seen := map[string]bool{}
	var h1, h2 []string
	pc.Deny, h1, _ = concList(r, r.Range(2, 6), r.Intn(3), 0, true)
	pc.Direct, h2, _ = concList(r, r.Range(2, 6), r.Intn(3), 0, true)
	for _, h := range append(h1, h2...) {
		if !seen[h] {
			seen[h] = true
			pc.Hosts = append(pc.Hosts, h)
		}
	}
	return pc
}

// ---------------------------------------------------------------------------------------------
// judging

func runConc(ctx *core.Ctx, cc concCase) {
	var raws, hosts []string
	var rules []prule
	for _, hx := range cc.RulesHex {
		raw := string(core.MustUnHex(hx))
		raws = append(raws, raw)
		rules = append(rules, splitRaw(raw))
	}
	for _, hx := range cc.HostsHex {
		hosts = append(hosts, string(core.MustUnHex(hx)))
	}
	cc.Rules, cc.Hosts = raws, hosts
	if len(cc.Witness) != len(rules) || cc.Goroutines < 1 || cc.Goroutines > 256 || cc.Calls < 1 || cc.Rounds < 1 || len(hosts) == 0 {
		core.Fatalf("C17 conc case is malformed: %+v", cc)
	}
	// the property's own oracle: every rule on its own, by the regexp package
	var res []*regexp.Regexp
	nIncl := 0
	for _, r := range rules {
		re, err := regexp.Compile(r.src)
		if err != nil || r.src == "" {
			core.Fatalf("C17 conc case holds a rule that is not a valid non-empty regular expression: %q", r.src)
		}
		res = append(res, re)
		if !r.exclude {
			nIncl++
		}
	}
	want := make([]bool, len(hosts))
	for j, h := range hosts {
		in, ex := false, false
		for i, r := range rules {
			if res[i].MatchString(h) {
				if r.exclude {
					ex = true
				} else {
					in = true
				}
			}
		}
		want[j] = in && !ex
	}
	// which include rules have a host that only they match (and that the list therefore matches)
	nWit, firstIncl, backWit := 0, true, false
	for i, r := range rules {
		if r.exclude {
			continue
		}
		if w := cc.Witness[i]; w >= 0 && w < len(hosts) && want[w] {
			nWit++
			if !firstIncl {
				backWit = true
			}
		}
		firstIncl = false
	}
	ctx.Case(fmt.Sprintf("conc:%s|%s|%d|%d|%d|%d", core.JoinList(cc.RulesHex), core.JoinList(cc.HostsHex), cc.Goroutines, cc.Calls, cc.Rounds, cc.Seed),
		nIncl >= 2 && backWit && cc.Goroutines >= 2)
	ctx.Count("conc/cases")
	ctx.Count(fmt.Sprintf("conc/include-rules=%d", nIncl))
	ctx.Count(fmt.Sprintf("conc/exclude-rules=%d", len(rules)-nIncl))
	ctx.Count(fmt.Sprintf("conc/goroutines=%d", cc.Goroutines))
	ctx.CountN("conc/calls", cc.Goroutines*cc.Calls*cc.Rounds)
	ctx.CountN("conc/rules-with-a-host-only-they-match", nWit)

	o, died, detail := askConcChild(concJob{Conc: &cc, Want: want}, 90*time.Second)
	if died {
		ctx.Crash("concurrent Match calls on one rule list (and its Inverse()) never crash or hang the process", "", cc, detail)
		return
	}
	if o.Build != "" {
		ctx.SpecFail("a valid rule list with an include rule is accepted", "", cc, o.Build, "")
		return
	}
	if o.Panic != "" {
		ctx.Crash("concurrent Match calls on one rule list (and its Inverse()) never panic", "", cc, o.Panic)
		return
	}
	good := true
	if o.Wrong > 0 {
		good = false
		ctx.SpecFail("while many goroutines call Match on one rule list and its Inverse(), every answer is: some include rule matches the host on its own and no exclude rule does",
			"", cc, fmt.Sprintf("%d of %d answers differ from the per-rule evaluation by regexp; first: %s", o.Wrong, cc.Goroutines*cc.Calls*cc.Rounds, strings.Join(o.First, "; ")),
			fmt.Sprintf("%d goroutines released together, %d calls each, %d rounds", cc.Goroutines, cc.Calls, cc.Rounds))
	}
	wantBits, invBits := bitsOf(want), ""
	{
		nw := make([]bool, len(want))
		for i, w := range want {
			nw[i] = !w
		}
		invBits = bitsOf(nw)
	}
	if len(o.After) != cc.Rounds {
		core.Fatalf("C17 conc: the child reported %d rounds of %d", len(o.After), cc.Rounds)
	}
	for round, a := range o.After {
		if a[0] == wantBits && a[1] == invBits && a[2] == wantBits {
			continue
		}
		good = false
		// name the rules the list no longer knows
		var lost []string
		for i, r := range rules {
			if w := cc.Witness[i]; !r.exclude && w >= 0 && w < len(hosts) && want[w] && w < len(a[0]) && a[0][w] == '0' {
				lost = append(lost, fmt.Sprintf("rule %q no longer matches %q", r.raw, hosts[w]))
			}
		}
		ctx.SpecFail("after concurrent use the rule list still answers, for every host: some include rule matches it on its own and no exclude rule does (no rule is lost, Inverse() still negates)",
			"", cc, fmt.Sprintf("round %d, all goroutines done, asked one call at a time: Match=%s Inverse=%s Inverse.Inverse=%s; %s", round, a[0], a[1], a[2], strings.Join(lost, "; ")),
			"per-rule evaluation by regexp gives Match="+wantBits)
		break
	}

	// the model: the list's answers (sequential sweep) and the first calls of every goroutine as a schedule
	enc := encRules(rules)
	hostsEnc := core.JoinList(cc.HostsHex)
	parts := strings.Split(ctx.Model.MustAsk("C17", "eval", enc, hostsEnc, wantBits), " | ")
	if len(parts) != 4 || parts[0] == "unsupported" {
		core.Fatalf("C17 conc: generator left the modelled fragment: rules %q hosts %q: %q", raws, hosts, parts)
	}
	anyRisk := strings.Contains(parts[3], "1")
	if anyRisk {
		ctx.Count("conc/outside-model/rule-inside-go-alternation-factoring")
		if good {
			ctx.TraceValidated()
		}
		return
	}
	if impl := fmt.Sprintf("ok %s %s", o.After[len(o.After)-1][0], o.After[len(o.After)-1][1]); impl != parts[0] {
		good = false
		ctx.Disagree("Match / Inverse().Match after concurrent use = Model.C17.fromList/matches/inv", cc, impl, parts[0])
	}
	// round-robin schedule over the goroutines' first calls (c17_concurrent_per_caller: any schedule gives every caller the same answers)
	var callers, idx []string
	var inv, got []bool
	for n := 0; n < concPrefix; n++ {
		for g, p := range o.Prefix {
			if n < len(p) {
				callers = append(callers, fmt.Sprint(g))
				idx = append(idx, fmt.Sprint(p[n].Host))
				inv = append(inv, p[n].Via == 1)
				got = append(got, p[n].Got)
			}
		}
	}
	if len(callers) > 0 {
		ans := ctx.Model.MustAsk("C17", "conc", enc, hostsEnc, core.JoinList(callers), bitsOf(inv), core.JoinList(idx))
		if impl := "ok " + bitsOf(got); impl != ans {
			good = false
			ctx.Disagree("answers to the first calls of every goroutine = Model.C17.runSchedule (any schedule: c17_concurrent_per_caller)", cc, impl, ans)
		}
	}
	if good {
		ctx.TraceValidated()
	}
}

func runProxyConc(ctx *core.Ctx, pc proxyConcCase) {
	deny, ok1 := newSiteOracle(pc.Deny)
	direct, ok2 := newSiteOracle(pc.Direct)
	if !ok1 || !ok2 || len(pc.Hosts) == 0 || pc.Clients < 1 || pc.Clients > 256 || pc.Requests < 1 {
		core.Fatalf("C17 proxyconc case is malformed: %+v", pc)
	}
	var want []byte
	var auths []string
	for _, h := range pc.Hosts {
		want = append(want, outcomeOf("allow", deny, direct, siteOracle{}, false, h))
		auths = append(auths, core.HexS(h))
	}
	ctx.Case(fmt.Sprintf("proxyconc:%s|%s|%s|%d|%d|%d", strings.Join(pc.Deny, ","), strings.Join(pc.Direct, ","), strings.Join(pc.Hosts, ","), pc.Clients, pc.Requests, pc.Seed), pc.Clients >= 2)
	ctx.Count("proxyconc/cases")
	ctx.Count(fmt.Sprintf("proxyconc/clients=%d", pc.Clients))
	ctx.CountN("proxyconc/requests", pc.Clients*pc.Requests)
	for _, w := range want {
		ctx.Count("proxyconc/expected/" + string(w))
	}
	oans := ctx.Model.MustAsk("C17", "outcome", encOptRules(pc.Deny), encOptRules(pc.Direct), "none", strings.Repeat("0", len(pc.Hosts)), core.JoinList(auths))
	if !strings.HasPrefix(oans, "ok ") || len(oans) != 3+len(pc.Hosts) {
		core.Fatalf("C17 proxyconc outcome: %q (rules outside the modelled fragment?) case %+v", oans, pc)
	}
	good := true
	if oans[3:] != string(want) {
		good = false
		ctx.Disagree("Model.C17.outcome = per-rule evaluation by regexp on the host", pc, string(want), oans[3:])
	}
	o, died, detail := askConcChild(concJob{Proxy: &pc, WantCode: string(want)}, 120*time.Second)
	if died {
		ctx.Crash("concurrent clients of a proxy with deny- and direct-domains lists never crash or hang the process", "", pc, detail)
		return
	}
	if o.Build != "" || o.Start != "" {
		ctx.SpecFail("a proxy with valid deny- and direct-domains lists starts", "", pc, o.Build+o.Start, "")
		return
	}
	if o.NoAnswer > 0 {
		good = false
		ctx.SpecFail("every request to a proxy with domain lists is answered as the lists decide (403, direct, or through the upstream proxy)", "", pc,
			fmt.Sprintf("%d of %d requests: %s", o.NoAnswer, o.Total, strings.Join(o.First, "; ")), "")
	}
	if o.Wrong > 0 {
		good = false
		ctx.SpecFail("with concurrent clients, deny-domains answers 403 and direct-domains by-passes the upstream proxy iff some include rule matches the request's host on its own and no '-' rule does",
			"", pc, fmt.Sprintf("%d of %d requests: %s", o.Wrong, o.Total, strings.Join(o.First, "; ")), "expected per host "+string(want))
	}
	if o.AfterCode != string(want) {
		good = false
		ctx.SpecFail("after concurrent clients the deny- and direct-domains lists still decide every host as their rules, each on its own, say",
			"", pc, "one request per host, one at a time: "+o.AfterCode+"; "+strings.Join(o.First, "; "), "expected "+string(want))
	}
	if o.AfterCode != oans[3:] && o.AfterCode == string(want) {
		ctx.Disagree("what the proxy does with a request after concurrent use = Model.C17.outcome", pc, o.AfterCode, oans[3:])
		good = false
	}
	if good {
		ctx.TraceValidated()
	}
}
