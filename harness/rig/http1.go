// Package rig provides the real forwarder proxy on loopback sockets together with scripted
// origins / upstream proxies, raw clients and an independent HTTP/1 parser.
package rig

import (
	"bufio"
	"bytes"
	"errors"
	"fmt"
	"io"
	"sort"
	"strconv"
	"strings"
)

// Field is one header field line as seen on the wire (name as spelt, value OWS-trimmed).
type Field struct {
	Name  string `json:"n"`
	Value string `json:"v"`
}

// Msg is an HTTP/1 message parsed by this package's own parser (independent of net/http).
type Msg struct {
	// request
	Method string `json:"method,omitempty"`
	Target string `json:"target,omitempty"`
	// response
	Status int    `json:"status,omitempty"`
	Reason string `json:"reason,omitempty"`

	Proto    string  `json:"proto"`
	Fields   []Field `json:"fields"`
	Framing  string  `json:"framing"` // "none" | "cl" | "chunked" | "eof"
	Body     []byte  `json:"-"`
	Trailers []Field `json:"trailers,omitempty"`
	// Chunks are the chunk sizes as they appeared on the wire (chunked framing only).
	Chunks []int `json:"-"`
	// HeadBytes is the raw head (start line + fields + blank line).
	HeadBytes []byte `json:"-"`
	// Complete is false when the connection ended before the message was complete.
	Complete bool `json:"complete"`
}

// Values returns the values of the field lines named name (case-insensitively), in wire order.
func (m *Msg) Values(name string) []string {
	var vs []string
	for _, f := range m.Fields {
		if strings.EqualFold(f.Name, name) {
			vs = append(vs, f.Value)
		}
	}
	return vs
}

func (m *Msg) Has(name string) bool { return len(m.Values(name)) > 0 }

// Get returns the first value or "".
func (m *Msg) Get(name string) string {
	if vs := m.Values(name); len(vs) > 0 {
		return vs[0]
	}
	return ""
}

// FieldMap returns lower-cased name -> values in wire order.
func (m *Msg) FieldMap() map[string][]string {
	out := map[string][]string{}
	for _, f := range m.Fields {
		k := strings.ToLower(f.Name)
		out[k] = append(out[k], f.Value)
	}
	return out
}

// Names returns the sorted distinct lower-cased field names.
func (m *Msg) Names() []string {
	fm := m.FieldMap()
	ns := make([]string, 0, len(fm))
	for k := range fm {
		ns = append(ns, k)
	}
	sort.Strings(ns)
	return ns
}

var ErrIncomplete = errors.New("incomplete message")

func readLine(br *bufio.Reader) ([]byte, error) {
	line, err := br.ReadBytes('\n')
	if err != nil {
		return line, err
	}
	return line, nil
}

func trimCRLF(b []byte) []byte {
	b = bytes.TrimSuffix(b, []byte("\n"))
	b = bytes.TrimSuffix(b, []byte("\r"))
	return b
}

func parseFields(br *bufio.Reader, raw *bytes.Buffer) ([]Field, error) {
	var fs []Field
	for {
		line, err := readLine(br)
		raw.Write(line)
		if err != nil {
			return fs, ErrIncomplete
		}
		l := trimCRLF(line)
		if len(l) == 0 {
			return fs, nil
		}
		i := bytes.IndexByte(l, ':')
		if i < 0 {
			return fs, fmt.Errorf("malformed field line %q", l)
		}
		fs = append(fs, Field{Name: string(l[:i]), Value: strings.Trim(string(l[i+1:]), " \t")})
	}
}

func hasToken(vs []string, tok string) bool {
	for _, v := range vs {
		for _, t := range strings.Split(v, ",") {
			if strings.EqualFold(strings.TrimSpace(t), tok) {
				return true
			}
		}
	}
	return false
}

// readBody consumes the body according to framing; fills m.Body, m.Chunks, m.Trailers, m.Complete.
func (m *Msg) readBody(br *bufio.Reader) error {
	switch m.Framing {
	case "none":
		m.Complete = true
		return nil
	case "cl":
		n, perr := strconv.Atoi(strings.TrimSpace(m.Get("Content-Length")))
		if n < 0 || (perr != nil && n != 0) {
			// negative, or out of range (Atoi saturates): no length a parser could honour
			return fmt.Errorf("bad Content-Length %q", m.Get("Content-Length"))
		}
		if n > 1<<20 {
			// a huge announced length: read what comes instead of allocating it up front
			var buf bytes.Buffer
			k, err := io.CopyN(&buf, br, int64(n))
			m.Body = buf.Bytes()
			if err != nil || k < int64(n) {
				return ErrIncomplete
			}
			m.Complete = true
			return nil
		}
		buf := make([]byte, n)
		k, err := io.ReadFull(br, buf)
		m.Body = buf[:k]
		if err != nil {
			return ErrIncomplete
		}
		m.Complete = true
		return nil
	case "eof":
		b, err := io.ReadAll(br)
		m.Body = b
		if err != nil {
			// deadline hit (or reset) while the connection was still open: the message has no end yet
			return ErrIncomplete
		}
		m.Complete = true // delimited by close: complete as far as a parser can tell
		return nil
	case "chunked":
		for {
			line, err := readLine(br)
			if err != nil {
				return ErrIncomplete
			}
			l := string(trimCRLF(line))
			if i := strings.IndexByte(l, ';'); i >= 0 {
				l = l[:i]
			}
			sz, perr := strconv.ParseUint(strings.TrimSpace(l), 16, 31)
			if perr != nil {
				return fmt.Errorf("bad chunk size line %q", line)
			}
			if sz == 0 {
				var raw bytes.Buffer
				tr, err := parseFields(br, &raw)
				m.Trailers = tr
				if err != nil {
					return err
				}
				m.Complete = true
				return nil
			}
			m.Chunks = append(m.Chunks, int(sz))
			buf := make([]byte, sz)
			k, err := io.ReadFull(br, buf)
			m.Body = append(m.Body, buf[:k]...)
			if err != nil {
				return ErrIncomplete
			}
			crlf := make([]byte, 2)
			if _, err := io.ReadFull(br, crlf); err != nil {
				return ErrIncomplete
			}
			if string(crlf) != "\r\n" {
				return fmt.Errorf("chunk not followed by CRLF: %q", crlf)
			}
		}
	}
	return fmt.Errorf("unknown framing %q", m.Framing)
}

// ReadRequest parses one request from br. io.EOF is returned when the stream ends cleanly before
// the first byte.
func ReadRequest(br *bufio.Reader) (*Msg, error) {
	var raw bytes.Buffer
	line, err := readLine(br)
	if err != nil && len(line) == 0 {
		return nil, io.EOF
	}
	raw.Write(line)
	m := &Msg{}
	if err != nil {
		m.HeadBytes = raw.Bytes()
		return m, ErrIncomplete
	}
	parts := strings.SplitN(string(trimCRLF(line)), " ", 3)
	if len(parts) != 3 {
		m.HeadBytes = raw.Bytes()
		return m, fmt.Errorf("malformed request line %q", line)
	}
	m.Method, m.Target, m.Proto = parts[0], parts[1], parts[2]
	m.Fields, err = parseFields(br, &raw)
	m.HeadBytes = append([]byte(nil), raw.Bytes()...)
	if err != nil {
		return m, err
	}
	switch {
	case hasToken(m.Values("Transfer-Encoding"), "chunked"):
		m.Framing = "chunked"
	case m.Has("Content-Length"):
		m.Framing = "cl"
	default:
		m.Framing = "none"
	}
	return m, m.readBody(br)
}

// ReadResponse parses one response to a request with the given method (RFC 7230 §3.3.3).
func ReadResponse(br *bufio.Reader, reqMethod string) (*Msg, error) {
	var raw bytes.Buffer
	line, err := readLine(br)
	if err != nil && len(line) == 0 {
		return nil, io.EOF
	}
	raw.Write(line)
	m := &Msg{}
	if err != nil {
		m.HeadBytes = raw.Bytes()
		return m, ErrIncomplete
	}
	parts := strings.SplitN(string(trimCRLF(line)), " ", 3)
	if len(parts) < 2 || !strings.HasPrefix(parts[0], "HTTP/") {
		m.HeadBytes = raw.Bytes()
		return m, fmt.Errorf("malformed status line %q", line)
	}
	m.Proto = parts[0]
	m.Status, err = strconv.Atoi(parts[1])
	if err != nil {
		return m, fmt.Errorf("malformed status line %q", line)
	}
	if len(parts) == 3 {
		m.Reason = parts[2]
	}
	m.Fields, err = parseFields(br, &raw)
	m.HeadBytes = append([]byte(nil), raw.Bytes()...)
	if err != nil {
		return m, err
	}
	switch {
	case reqMethod == "HEAD" || m.Status/100 == 1 || m.Status == 204 || m.Status == 304:
		m.Framing = "none"
	case reqMethod == "CONNECT" && m.Status/100 == 2:
		m.Framing = "none"
	case hasToken(m.Values("Transfer-Encoding"), "chunked"):
		m.Framing = "chunked"
	case m.Has("Content-Length"):
		m.Framing = "cl"
	default:
		m.Framing = "eof"
	}
	return m, m.readBody(br)
}

// ---- serialisation helpers for scripted peers ----

// ChunkEncode encodes body with the given chunk sizes (the remainder goes in a last chunk) and
// trailers.
func ChunkEncode(body []byte, sizes []int, trailers []Field) []byte {
	var b bytes.Buffer
	rest := body
	for _, s := range sizes {
		if s <= 0 || len(rest) == 0 {
			continue
		}
		if s > len(rest) {
			s = len(rest)
		}
		fmt.Fprintf(&b, "%x\r\n", s)
		b.Write(rest[:s])
		b.WriteString("\r\n")
		rest = rest[s:]
	}
	if len(rest) > 0 {
		fmt.Fprintf(&b, "%x\r\n", len(rest))
		b.Write(rest)
		b.WriteString("\r\n")
	}
	b.WriteString("0\r\n")
	for _, t := range trailers {
		fmt.Fprintf(&b, "%s: %s\r\n", t.Name, t.Value)
	}
	b.WriteString("\r\n")
	return b.Bytes()
}

// Head renders a start line and fields.
func Head(startLine string, fields []Field) []byte {
	var b bytes.Buffer
	b.WriteString(startLine)
	b.WriteString("\r\n")
	for _, f := range fields {
		b.WriteString(f.Name)
		b.WriteString(": ")
		b.WriteString(f.Value)
		b.WriteString("\r\n")
	}
	b.WriteString("\r\n")
	return b.Bytes()
}
