package rig

import (
	"fmt"
	"net"
	"os"
	"sync"
	"syscall"
	"time"
)

// Flaky is a scripted forward proxy / origin (as NewForwardProxy) on a loopback port that REFUSES every
// connection attempt until Open is called: the socket is bound from the start (the port is known and
// nobody else can take it) and put into the listening state by Open. Attempts made before Open are
// refused by the kernel, attempts made afterwards are accepted and served.
type Flaky struct {
	Addr    string
	name    string
	resolve Resolver
	mu      sync.Mutex
	fd      int
	peer    *Peer
	closed  bool
}

func NewFlaky(name string, resolve Resolver) (*Flaky, error) {
	fd, err := syscall.Socket(syscall.AF_INET, syscall.SOCK_STREAM|syscall.SOCK_CLOEXEC, 0)
	if err != nil {
		return nil, err
	}
	if err := syscall.Bind(fd, &syscall.SockaddrInet4{Addr: [4]byte{127, 0, 0, 1}}); err != nil {
		syscall.Close(fd)
		return nil, err
	}
	sa, err := syscall.Getsockname(fd)
	if err != nil {
		syscall.Close(fd)
		return nil, err
	}
	in4, ok := sa.(*syscall.SockaddrInet4)
	if !ok {
		syscall.Close(fd)
		return nil, fmt.Errorf("unexpected socket address %T", sa)
	}
	return &Flaky{Addr: fmt.Sprintf("127.0.0.1:%d", in4.Port), name: name, resolve: resolve, fd: fd}, nil
}

// Open starts accepting: every attempt from now on connects.
func (f *Flaky) Open() error {
	f.mu.Lock()
	defer f.mu.Unlock()
	if f.peer != nil || f.closed {
		return nil
	}
	if err := syscall.Listen(f.fd, 128); err != nil {
		return err
	}
	file := os.NewFile(uintptr(f.fd), "flaky-"+f.name)
	l, err := net.FileListener(file) // duplicates the descriptor
	file.Close()
	f.fd = -1
	if err != nil {
		return err
	}
	p := &Peer{L: l, Addr: f.Addr, Name: f.name, HandshakeTimeout: 5 * time.Second}
	p.rawConn = forwardProxyConn(p, f.resolve, "via-"+f.name)
	p.wg.Add(1)
	go p.serve()
	f.peer = p
	return nil
}

// IsOpen reports whether Open has been called.
func (f *Flaky) IsOpen() bool {
	f.mu.Lock()
	defer f.mu.Unlock()
	return f.peer != nil
}

// Accepts is the number of connections accepted since Open.
func (f *Flaky) Accepts() int64 {
	f.mu.Lock()
	defer f.mu.Unlock()
	if f.peer == nil {
		return 0
	}
	return f.peer.Accepts()
}

// Log returns the exchanges received since Open.
func (f *Flaky) Log() []*Exchange {
	f.mu.Lock()
	defer f.mu.Unlock()
	if f.peer == nil {
		return nil
	}
	return f.peer.Log()
}

func (f *Flaky) Close() {
	f.mu.Lock()
	defer f.mu.Unlock()
	f.closed = true
	if f.peer != nil {
		f.peer.Close()
		return
	}
	if f.fd >= 0 {
		syscall.Close(f.fd)
		f.fd = -1
	}
}
