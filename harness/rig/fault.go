package rig

import (
	"crypto/tls"
	"fmt"
	"net"
	"os"
	"sync"
	"syscall"
	"time"
	"unsafe"
)

// TCPConn returns the TCP connection under a scripted peer's connection (through the byte counter
// and, for TLS peers, the TLS layer); nil if there is none.
func (pc *PeerConn) TCPConn() *net.TCPConn { return UnderlyingTCP(pc.Conn) }

// UnderlyingTCP unwraps the connection wrappers of this package (and *tls.Conn).
func UnderlyingTCP(c net.Conn) *net.TCPConn {
	for i := 0; i < 8 && c != nil; i++ {
		switch v := c.(type) {
		case *net.TCPConn:
			return v
		case countingConn:
			c = v.Conn
		case *tls.Conn:
			c = v.NetConn()
		case *prefixConn:
			c = v.Conn
		default:
			return nil
		}
	}
	return nil
}

// Abort closes the connection with a TCP reset (SO_LINGER 0) instead of a FIN. It reports whether
// the reset could be arranged.
func (pc *PeerConn) Abort() bool {
	tc := pc.TCPConn()
	if tc == nil {
		pc.Conn.Close()
		return false
	}
	tc.SetLinger(0)
	tc.Close()
	return true
}

// AbortConn is Abort for a client-side connection.
func AbortConn(c net.Conn) bool {
	tc := UnderlyingTCP(c)
	if tc == nil {
		c.Close()
		return false
	}
	tc.SetLinger(0)
	tc.Close()
	return true
}

// SendQueue returns how many bytes written on c its TCP still holds because the peer's TCP has not
// acknowledged them (SIOCOUTQ: unsent and unacknowledged); -1 when that cannot be told (no TCP
// connection underneath, a closed one).
func SendQueue(c net.Conn) int {
	tc := UnderlyingTCP(c)
	if tc == nil {
		return -1
	}
	rc, err := tc.SyscallConn()
	if err != nil {
		return -1
	}
	n := -1
	rc.Control(func(fd uintptr) {
		var v int32
		const siocoutq = 0x5411
		if _, _, e := syscall.Syscall(syscall.SYS_IOCTL, fd, siocoutq, uintptr(unsafe.Pointer(&v))); e == 0 {
			n = int(v)
		}
	})
	return n
}

// Drain waits until the peer's TCP has taken every byte written on c, for at most max. A scripted
// peer that ends with a reset calls it first: closing with SO_LINGER 0 throws away whatever is still
// in the send queue, so a reset sent a fixed time after the last write delivers fewer bytes than the
// script says whenever the reader is slower than that (a loaded machine); what the peer's TCP has
// acknowledged stays readable there after the reset (Linux keeps the receive queue). It reports
// whether the queue emptied (true also when nothing can be told about it).
func Drain(c net.Conn, max time.Duration) bool {
	deadline := time.Now().Add(max)
	for pause := 200 * time.Microsecond; ; {
		if SendQueue(c) <= 0 {
			return true
		}
		if time.Now().After(deadline) {
			return false
		}
		time.Sleep(pause)
		if pause < 5*time.Millisecond {
			pause *= 2
		}
	}
}

// Blackhole is a loopback listener that never completes a further handshake: backlog 0 and the one
// slot taken, so that SYNs of later dials are dropped and the dial runs into its time-out.
type Blackhole struct {
	Addr string
	fd   int
	fill []net.Conn
}

func NewBlackhole() (*Blackhole, error) {
	fd, err := syscall.Socket(syscall.AF_INET, syscall.SOCK_STREAM, 0)
	if err != nil {
		return nil, err
	}
	if err := syscall.Bind(fd, &syscall.SockaddrInet4{Addr: [4]byte{127, 0, 0, 1}}); err != nil {
		syscall.Close(fd)
		return nil, err
	}
	if err := syscall.Listen(fd, 0); err != nil {
		syscall.Close(fd)
		return nil, err
	}
	sa, err := syscall.Getsockname(fd)
	if err != nil {
		syscall.Close(fd)
		return nil, err
	}
	b := &Blackhole{fd: fd, Addr: fmt.Sprintf("127.0.0.1:%d", sa.(*syscall.SockaddrInet4).Port)}
	// take the accept-queue slots; stop at the first dial that does not complete
	for i := 0; i < 8; i++ {
		c, err := net.DialTimeout("tcp", b.Addr, 150*time.Millisecond)
		if err != nil {
			break
		}
		b.fill = append(b.fill, c)
	}
	if len(b.fill) == 8 {
		b.Close()
		return nil, fmt.Errorf("blackhole listener keeps accepting (backlog not honoured)")
	}
	return b, nil
}

func (b *Blackhole) Close() {
	for _, c := range b.fill {
		c.Close()
	}
	syscall.Close(b.fd)
}

// Refuser holds a loopback port on which nothing listens: the socket is bound (so that no later
// listener of this process can be given the port) but never put into the listening state, and every
// connection attempt is refused.
type Refuser struct {
	Addr string
	fd   int
}

func NewRefuser() (*Refuser, error) {
	fd, err := syscall.Socket(syscall.AF_INET, syscall.SOCK_STREAM, 0)
	if err != nil {
		return nil, err
	}
	if err := syscall.Bind(fd, &syscall.SockaddrInet4{Addr: [4]byte{127, 0, 0, 1}}); err != nil {
		syscall.Close(fd)
		return nil, err
	}
	sa, err := syscall.Getsockname(fd)
	if err != nil {
		syscall.Close(fd)
		return nil, err
	}
	return &Refuser{fd: fd, Addr: fmt.Sprintf("127.0.0.1:%d", sa.(*syscall.SockaddrInet4).Port)}, nil
}

func (r *Refuser) Close() { syscall.Close(r.fd) }

// SlowAccept is a loopback listener that is slow to accept: its accept queue (backlog 0) is full until
// Release, so the SYN of a dial made before Release is dropped and retransmitted by the dialling
// kernel (initial retransmission time-out: 1 s) - that dial completes about one second after it
// began. Connections accepted after Release (other than the ones that filled the queue) are handed to
// serve, each in its own goroutine.
type SlowAccept struct {
	Addr  string
	l     net.Listener
	fill  []net.Conn
	serve func(net.Conn)
	once  sync.Once
	wg    sync.WaitGroup
	mu    sync.Mutex
	conns []net.Conn
}

func NewSlowAccept(serve func(net.Conn)) (*SlowAccept, error) {
	b, err := NewBlackhole()
	if err != nil {
		return nil, err
	}
	f := os.NewFile(uintptr(b.fd), "slow-accept")
	l, err := net.FileListener(f) // duplicates the descriptor: the listening socket keeps its backlog
	f.Close()
	if err != nil {
		for _, c := range b.fill {
			c.Close()
		}
		return nil, err
	}
	return &SlowAccept{Addr: b.Addr, l: l, fill: b.fill, serve: serve}, nil
}

// Release makes room in the accept queue and starts serving.
func (s *SlowAccept) Release() {
	s.once.Do(func() {
		mine := map[string]bool{}
		for _, c := range s.fill {
			mine[c.LocalAddr().String()] = true
		}
		s.wg.Add(1)
		go func() {
			defer s.wg.Done()
			for {
				c, err := s.l.Accept()
				if err != nil {
					return
				}
				if mine[c.RemoteAddr().String()] {
					c.Close()
					continue
				}
				s.mu.Lock()
				s.conns = append(s.conns, c)
				s.mu.Unlock()
				s.wg.Add(1)
				go func() {
					defer s.wg.Done()
					defer c.Close()
					s.serve(c)
				}()
			}
		}()
	})
}

func (s *SlowAccept) Close() {
	s.l.Close()
	for _, c := range s.fill {
		c.Close()
	}
	s.mu.Lock()
	for _, c := range s.conns {
		c.Close()
	}
	s.mu.Unlock()
	s.wg.Wait()
}
