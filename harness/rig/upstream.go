package rig

import (
	"crypto/tls"
	"encoding/binary"
	"fmt"
	"io"
	"net"
	"strconv"
	"sync"
	"time"
)

// Resolver maps the address a scripted proxy is asked to connect to ("host:port") to the loopback
// address it really dials ("" = refuse).
type Resolver func(target string) string

// pipe copies both ways until either side ends.
func pipe(a, b net.Conn) {
	var wg sync.WaitGroup
	wg.Add(2)
	go func() { defer wg.Done(); io.Copy(a, b); closeWrite(a) }()
	go func() { defer wg.Done(); io.Copy(b, a); closeWrite(b) }()
	wg.Wait()
}

func closeWrite(c net.Conn) {
	type cw interface{ CloseWrite() error }
	if x, ok := c.(cw); ok {
		x.CloseWrite()
		return
	}
	c.Close()
}

// record appends an exchange to the peer's log (for raw peers that parse requests themselves).
func (p *Peer) record(ex *Exchange) {
	p.mu.Lock()
	p.log = append(p.log, ex)
	p.mu.Unlock()
}

// forwardProxyConn serves one connection of a scripted HTTP forward proxy: every request head is
// recorded; CONNECT is answered with 200 and tunnelled to resolve(target); any other request is
// answered by the proxy itself with a small 200 (it plays the origin behind it).
func forwardProxyConn(p *Peer, resolve Resolver, body string) func(pc *PeerConn) {
	return forwardProxyConnRefusing(p, resolve, nil, body)
}

// ConnectRefuser scripts the refusal of a CONNECT by a forward proxy: the whole response (head and body) it
// answers a CONNECT to target with instead of tunnelling, nil = tunnel as usual.
type ConnectRefuser func(target string) []byte

func forwardProxyConnRefusing(p *Peer, resolve Resolver, refuse ConnectRefuser, body string) func(pc *PeerConn) {
	return func(pc *PeerConn) {
		for i := 0; ; i++ {
			if i == 0 {
				// a peer that speaks something else (SOCKS, TLS) must not stall the scenario
				pc.SetReadDeadline(time.Now().Add(time.Second))
			}
			req, err := ReadRequest(pc.BR)
			pc.SetReadDeadline(time.Time{})
			if err == io.EOF {
				return
			}
			ex := &Exchange{ConnID: pc.ID, Index: i, Req: req, Err: err, At: time.Now()}
			p.record(ex)
			if err != nil {
				return
			}
			if req.Method == "CONNECT" {
				if refuse != nil {
					if b := refuse(req.Target); b != nil {
						pc.Write(b)
						return
					}
				}
				dst := ""
				if resolve != nil {
					dst = resolve(req.Target)
				}
				if dst == "" {
					pc.Write(Head("HTTP/1.1 502 Bad Gateway", []Field{{"Content-Length", "0"}}))
					return
				}
				up, err := net.DialTimeout("tcp", dst, 5*time.Second)
				if err != nil {
					pc.Write(Head("HTTP/1.1 502 Bad Gateway", []Field{{"Content-Length", "0"}}))
					return
				}
				pc.Write([]byte("HTTP/1.1 200 Connection established\r\n\r\n"))
				// bytes already buffered belong to the tunnel
				if n := pc.BR.Buffered(); n > 0 {
					b, _ := pc.BR.Peek(n)
					up.Write(b)
					pc.BR.Discard(n)
				}
				pipe(up, pc.Conn)
				up.Close()
				return
			}
			b := Head("HTTP/1.1 200 OK", []Field{{"Content-Length", itoa(len(body))}, {"Content-Type", "text/plain"}})
			if req.Method != "HEAD" {
				b = append(b, body...)
			}
			pc.Write(b)
			if hasToken(req.Values("Connection"), "close") {
				return
			}
		}
	}
}

func startRaw(name string, conf *tls.Config, mk func(p *Peer) func(pc *PeerConn)) (*Peer, error) {
	l, err := net.Listen("tcp", "127.0.0.1:0")
	if err != nil {
		return nil, err
	}
	p := &Peer{L: l, Addr: l.Addr().String(), Name: name, tlsConf: conf, HandshakeTimeout: 5 * time.Second}
	p.rawConn = mk(p)
	p.wg.Add(1)
	go p.serve()
	return p, nil
}

// NewForwardProxy starts a scripted HTTP forward proxy on 127.0.0.1:0.
func NewForwardProxy(name string, resolve Resolver) (*Peer, error) {
	return startRaw(name, nil, func(p *Peer) func(pc *PeerConn) { return forwardProxyConn(p, resolve, "via-"+name) })
}

// NewRefusingForwardProxy is NewForwardProxy whose answer to a CONNECT can be scripted (a refusal).
func NewRefusingForwardProxy(name string, resolve Resolver, refuse ConnectRefuser) (*Peer, error) {
	return startRaw(name, nil, func(p *Peer) func(pc *PeerConn) {
		return forwardProxyConnRefusing(p, resolve, refuse, "via-"+name)
	})
}

// NewTLSForwardProxy is NewForwardProxy behind TLS (an "HTTPS proxy").
func NewTLSForwardProxy(name string, conf *tls.Config, resolve Resolver) (*Peer, error) {
	return startRaw(name, conf, func(p *Peer) func(pc *PeerConn) { return forwardProxyConn(p, resolve, "via-"+name) })
}

// SocksRequest is one CONNECT command received by a scripted SOCKS5 server.
type SocksRequest struct {
	Target  string `json:"target"`
	HasAuth bool   `json:"has_auth,omitempty"`
	User    string `json:"user,omitempty"`
	Pass    string `json:"pass,omitempty"`
	At      time.Time
}

// Socks5 is a minimal scripted SOCKS5 server (RFC 1928 CONNECT; methods "no authentication" and
// RFC 1929 user/password, whichever the client offers — user/password is preferred when offered).
type Socks5 struct {
	*Peer
	mu   sync.Mutex
	reqs []SocksRequest
}

func (s *Socks5) Requests() []SocksRequest {
	s.mu.Lock()
	defer s.mu.Unlock()
	return append([]SocksRequest(nil), s.reqs...)
}

func (s *Socks5) ResetRequests() {
	s.mu.Lock()
	s.reqs = nil
	s.mu.Unlock()
}

func NewSocks5(name string, resolve Resolver) (*Socks5, error) {
	s := &Socks5{}
	p, err := NewRawPeer(name, func(pc *PeerConn) { s.serve(pc, resolve) })
	if err != nil {
		return nil, err
	}
	s.Peer = p
	return s, nil
}

func (s *Socks5) serve(pc *PeerConn, resolve Resolver) {
	pc.SetDeadline(time.Now().Add(10 * time.Second))
	hdr := make([]byte, 2)
	if _, err := io.ReadFull(pc.BR, hdr); err != nil || hdr[0] != 5 {
		return
	}
	methods := make([]byte, hdr[1])
	if _, err := io.ReadFull(pc.BR, methods); err != nil {
		return
	}
	var req SocksRequest
	userpass := false
	noauth := false
	for _, m := range methods {
		if m == 2 {
			userpass = true
		}
		if m == 0 {
			noauth = true
		}
	}
	switch {
	case userpass:
		pc.Write([]byte{5, 2})
		b := make([]byte, 2)
		if _, err := io.ReadFull(pc.BR, b); err != nil || b[0] != 1 {
			return
		}
		u := make([]byte, b[1])
		if _, err := io.ReadFull(pc.BR, u); err != nil {
			return
		}
		l := make([]byte, 1)
		if _, err := io.ReadFull(pc.BR, l); err != nil {
			return
		}
		pw := make([]byte, l[0])
		if _, err := io.ReadFull(pc.BR, pw); err != nil {
			return
		}
		req.HasAuth, req.User, req.Pass = true, string(u), string(pw)
		pc.Write([]byte{1, 0})
	case noauth:
		pc.Write([]byte{5, 0})
	default:
		pc.Write([]byte{5, 0xff})
		return
	}
	h := make([]byte, 4)
	if _, err := io.ReadFull(pc.BR, h); err != nil || h[0] != 5 || h[1] != 1 {
		return
	}
	var host string
	switch h[3] {
	case 1:
		a := make([]byte, 4)
		if _, err := io.ReadFull(pc.BR, a); err != nil {
			return
		}
		host = net.IP(a).String()
	case 4:
		a := make([]byte, 16)
		if _, err := io.ReadFull(pc.BR, a); err != nil {
			return
		}
		host = net.IP(a).String()
	case 3:
		l := make([]byte, 1)
		if _, err := io.ReadFull(pc.BR, l); err != nil {
			return
		}
		a := make([]byte, l[0])
		if _, err := io.ReadFull(pc.BR, a); err != nil {
			return
		}
		host = string(a)
	default:
		return
	}
	pb := make([]byte, 2)
	if _, err := io.ReadFull(pc.BR, pb); err != nil {
		return
	}
	req.Target = net.JoinHostPort(host, strconv.Itoa(int(binary.BigEndian.Uint16(pb))))
	req.At = time.Now()
	s.mu.Lock()
	s.reqs = append(s.reqs, req)
	s.mu.Unlock()
	dst := ""
	if resolve != nil {
		dst = resolve(req.Target)
	}
	if dst == "" {
		pc.Write([]byte{5, 4, 0, 1, 0, 0, 0, 0, 0, 0})
		return
	}
	up, err := net.DialTimeout("tcp", dst, 5*time.Second)
	if err != nil {
		pc.Write([]byte{5, 5, 0, 1, 0, 0, 0, 0, 0, 0})
		return
	}
	defer up.Close()
	pc.Write([]byte{5, 0, 0, 1, 127, 0, 0, 1, 0, 0})
	pc.SetDeadline(time.Time{})
	if n := pc.BR.Buffered(); n > 0 {
		b, _ := pc.BR.Peek(n)
		up.Write(b)
		pc.BR.Discard(n)
	}
	pipe(up, pc.Conn)
}

var _ = fmt.Sprint
