package rig

import (
	"crypto/ecdsa"
	"crypto/elliptic"
	"crypto/rand"
	"crypto/tls"
	"crypto/x509"
	"crypto/x509/pkix"
	"encoding/pem"
	"math/big"
	"net"
	"os"
	"path/filepath"
	"time"
)

// CA is a throw-away certificate authority for scripted TLS peers.
type CA struct {
	Cert *x509.Certificate
	Key  *ecdsa.PrivateKey
	PEM  []byte
}

func NewCA(cn string) (*CA, error) {
	key, err := ecdsa.GenerateKey(elliptic.P256(), rand.Reader)
	if err != nil {
		return nil, err
	}
	tmpl := &x509.Certificate{
		SerialNumber: big.NewInt(time.Now().UnixNano()), Subject: pkix.Name{CommonName: cn},
		NotBefore: time.Now().Add(-time.Hour), NotAfter: time.Now().Add(24 * time.Hour),
		IsCA: true, KeyUsage: x509.KeyUsageCertSign | x509.KeyUsageDigitalSignature, BasicConstraintsValid: true,
	}
	der, err := x509.CreateCertificate(rand.Reader, tmpl, tmpl, &key.PublicKey, key)
	if err != nil {
		return nil, err
	}
	cert, _ := x509.ParseCertificate(der)
	return &CA{Cert: cert, Key: key, PEM: pem.EncodeToMemory(&pem.Block{Type: "CERTIFICATE", Bytes: der})}, nil
}

// Leaf issues a server certificate for the given names (DNS names or IP literals).
func (ca *CA) Leaf(notBefore, notAfter time.Time, names ...string) (tls.Certificate, error) {
	key, err := ecdsa.GenerateKey(elliptic.P256(), rand.Reader)
	if err != nil {
		return tls.Certificate{}, err
	}
	tmpl := &x509.Certificate{
		SerialNumber: big.NewInt(time.Now().UnixNano()), Subject: pkix.Name{CommonName: names[0]},
		NotBefore: notBefore, NotAfter: notAfter,
		KeyUsage: x509.KeyUsageDigitalSignature, ExtKeyUsage: []x509.ExtKeyUsage{x509.ExtKeyUsageServerAuth},
	}
	for _, n := range names {
		if ip := net.ParseIP(n); ip != nil {
			tmpl.IPAddresses = append(tmpl.IPAddresses, ip)
		} else {
			tmpl.DNSNames = append(tmpl.DNSNames, n)
		}
	}
	der, err := x509.CreateCertificate(rand.Reader, tmpl, ca.Cert, &key.PublicKey, ca.Key)
	if err != nil {
		return tls.Certificate{}, err
	}
	return tls.Certificate{Certificate: [][]byte{der}, PrivateKey: key}, nil
}

// LeafSAN issues a server certificate with exactly the given subject alternative names: no sorting of
// strings into DNS names and IP addresses is done (a dNSName may spell an IP literal).
func (ca *CA) LeafSAN(notBefore, notAfter time.Time, cn string, dns []string, ips []net.IP) (tls.Certificate, error) {
	key, err := ecdsa.GenerateKey(elliptic.P256(), rand.Reader)
	if err != nil {
		return tls.Certificate{}, err
	}
	tmpl := &x509.Certificate{
		SerialNumber: big.NewInt(time.Now().UnixNano()), Subject: pkix.Name{CommonName: cn},
		NotBefore: notBefore, NotAfter: notAfter,
		KeyUsage: x509.KeyUsageDigitalSignature, ExtKeyUsage: []x509.ExtKeyUsage{x509.ExtKeyUsageServerAuth},
		DNSNames: dns, IPAddresses: ips,
	}
	der, err := x509.CreateCertificate(rand.Reader, tmpl, ca.Cert, &key.PublicKey, ca.Key)
	if err != nil {
		return tls.Certificate{}, err
	}
	return tls.Certificate{Certificate: [][]byte{der}, PrivateKey: key}, nil
}

// ValidLeaf issues a currently valid certificate.
func (ca *CA) ValidLeaf(names ...string) (tls.Certificate, error) {
	return ca.Leaf(time.Now().Add(-time.Hour), time.Now().Add(12*time.Hour), names...)
}

func (ca *CA) Pool() *x509.CertPool {
	p := x509.NewCertPool()
	p.AddCert(ca.Cert)
	return p
}

// WriteFile stores the CA certificate under dir and returns the path (for TLSClientConfig.CACertFiles).
func (ca *CA) WriteFile(dir, name string) (string, error) {
	if err := os.MkdirAll(dir, 0o755); err != nil {
		return "", err
	}
	p := filepath.Join(dir, name)
	return p, os.WriteFile(p, ca.PEM, 0o644)
}
