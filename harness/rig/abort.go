package rig

import (
	"crypto/tls"
	"fmt"
	"net"
	"syscall"
)

func tcpOf(c net.Conn) *net.TCPConn {
	for i := 0; i < 8 && c != nil; i++ {
		switch v := c.(type) {
		case *net.TCPConn:
			return v
		case *tls.Conn:
			c = v.NetConn()
		case countingConn:
			c = v.Conn
		case *prefixConn:
			c = v.Conn
		default:
			return nil
		}
	}
	return nil
}

// Abort resets the client connection.
func (c *Client) Abort() { AbortConn(c.Conn) }

// CloseWrite half-closes the client connection (FIN, reading stays possible).
func (c *Client) CloseWrite() error {
	switch v := c.Conn.(type) {
	case *net.TCPConn:
		return v.CloseWrite()
	case *tls.Conn:
		return v.CloseWrite()
	}
	return fmt.Errorf("CloseWrite: unsupported connection type %T", c.Conn)
}

// RefusedAddr is a loopback address that refuses connections for as long as the returned release
// function has not been called: a TCP socket that is bound but not listening (so the port cannot
// be taken by anyone else in the meantime).
func RefusedAddr() (addr string, release func(), err error) {
	fd, err := syscall.Socket(syscall.AF_INET, syscall.SOCK_STREAM, 0)
	if err != nil {
		return "", nil, err
	}
	sa := &syscall.SockaddrInet4{Port: 0, Addr: [4]byte{127, 0, 0, 1}}
	if err := syscall.Bind(fd, sa); err != nil {
		syscall.Close(fd)
		return "", nil, err
	}
	got, err := syscall.Getsockname(fd)
	if err != nil {
		syscall.Close(fd)
		return "", nil, err
	}
	in4, ok := got.(*syscall.SockaddrInet4)
	if !ok {
		syscall.Close(fd)
		return "", nil, fmt.Errorf("unexpected socket address %T", got)
	}
	return fmt.Sprintf("127.0.0.1:%d", in4.Port), func() { syscall.Close(fd) }, nil
}
