package rig

import (
	"crypto/tls"
	"net"
)

// RawTCP returns the TCP connection underneath a connection of a scripted peer or client - through a
// *PeerConn, the peer's byte counter and a *tls.Conn -, or nil when there is none. A scripted endpoint
// uses it to end its side ABRUPTLY: a reset (SetLinger(0) + Close), a FIN or raw bytes under a TLS leg.
func RawTCP(c net.Conn) *net.TCPConn {
	for i := 0; i < 8 && c != nil; i++ {
		switch x := c.(type) {
		case *net.TCPConn:
			return x
		case *tls.Conn:
			c = x.NetConn()
		case countingConn:
			c = x.Conn
		case *PeerConn:
			c = x.Conn
		default:
			return nil
		}
	}
	return nil
}
