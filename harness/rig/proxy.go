package rig

import (
	"context"
	"crypto/x509"
	"errors"
	"fmt"
	"net"
	"net/http"
	"net/url"
	"reflect"
	"time"
	"unsafe"

	"github.com/saucelabs/forwarder"
	"github.com/saucelabs/forwarder/log"
	"github.com/saucelabs/forwarder/pac"
)

// ProxyOpts configures a real forwarder HTTP proxy the way command/run does (transport from
// NewHTTPTransport, connect-to redirects on the dialer, credentials matcher, PAC resolver pool).
type ProxyOpts struct {
	// Configure edits the proxy configuration (starting from DefaultHTTPProxyConfig with
	// Address 127.0.0.1:0).
	Configure func(cfg *forwarder.HTTPProxyConfig)
	// Transport edits the transport configuration (starting from DefaultHTTPTransportConfig).
	Transport func(tc *forwarder.HTTPTransportConfig)
	// PostTransport edits the built *http.Transport (e.g. GetProxyConnectHeader).
	PostTransport func(rt *http.Transport)
	// ConnectTo are --connect-to rules (dial redirects): lets arbitrary host names reach loopback
	// listeners without DNS.
	ConnectTo []forwarder.HostPortPair
	// PACScript, when non-empty, selects upstream proxies through a PAC resolver pool.
	PACScript string
	// Credentials are --credentials entries.
	Credentials []*forwarder.HostPortUser
	// Logger defaults to the nop logger.
	Logger log.StructuredLogger
	// OnAccept, when set, is shown every connection the proxy's own listeners hand out (exactly what
	// forwarder.Listener.Accept returned: the tracked connection, or the tls.Conn over it) before
	// the proxy serves it. The listeners are private to HTTPProxy, so they are reached by
	// reflection; StartProxy fails with ErrNoListenerTap when that is no longer possible.
	OnAccept func(net.Conn)
	// Base, when set, is the configuration OBJECT handed to NewHTTPProxy (instead of a fresh
	// DefaultHTTPProxyConfig()): StartProxy sets its Address to 127.0.0.1:0, applies Configure to it
	// and passes this very pointer on. Lets a scenario build several instances from one config value
	// (a struct copy of a template, or the same object twice).
	Base *forwarder.HTTPProxyConfig
	// WrapListener, when set, replaces every listener of the proxy by what it returns for it (reached by
	// reflection like OnAccept, applied before OnAccept's tap and before Run starts serving): lets a scenario
	// script what Accept returns (see ScriptedListener).
	WrapListener func(net.Listener) net.Listener
	// Matcher, when set, is the credentials matcher OBJECT handed to NewHTTPProxy (instead of one built from
	// Credentials): lets a scenario give several instances the same matcher.
	Matcher *forwarder.CredentialsMatcher
	// Host, when set, decides HOW the proxy's Run is hosted: StartProxy runs Host(hp.Run)(ctx) instead of hp.Run(ctx) —
	// e.g. inside a runctx.Group next to other members, the way command/run composes the process (c11/group.go). Done()
	// then yields what the host returned; Cancel cancels the context the host was given.
	Host func(run func(context.Context) error) func(context.Context) error
}

// ErrNoListenerTap: the proxy's listener slice could not be reached (field renamed or retyped).
var ErrNoListenerTap = errors.New("rig: cannot tap the proxy's listeners")

type tapListener struct {
	net.Listener
	fn func(net.Conn)
}

func (t *tapListener) Accept() (net.Conn, error) {
	c, err := t.Listener.Accept()
	if err == nil {
		t.fn(c)
	}
	return c, err
}

func tapListeners(hp *forwarder.HTTPProxy, fn func(net.Conn)) (err error) {
	return wrapListeners(hp, func(l net.Listener) net.Listener { return &tapListener{Listener: l, fn: fn} })
}

func wrapListeners(hp *forwarder.HTTPProxy, wrap func(net.Listener) net.Listener) (err error) {
	defer func() {
		if r := recover(); r != nil {
			err = fmt.Errorf("%w: %v", ErrNoListenerTap, r)
		}
	}()
	f := reflect.ValueOf(hp).Elem().FieldByName("listeners")
	if !f.IsValid() || f.Kind() != reflect.Slice {
		return ErrNoListenerTap
	}
	ls, ok := reflect.NewAt(f.Type(), unsafe.Pointer(f.UnsafeAddr())).Elem().Interface().([]net.Listener)
	if !ok || len(ls) == 0 {
		return ErrNoListenerTap
	}
	for i := range ls { // shares the backing array with the proxy's slice
		ls[i] = wrap(ls[i])
	}
	return nil
}

// Proxy is a running forwarder proxy.
type Proxy struct {
	HP     *forwarder.HTTPProxy
	Addr   string
	Addrs  []string // every listener's address (main listener first, then ExtraListeners in order)
	cancel context.CancelFunc
	done   chan error
	RT     *http.Transport
}

// Route is a convenience constructor for a connect-to rule host:port -> addr ("ip:port").
func Route(host, port, addr string) forwarder.HostPortPair {
	h, p, _ := net.SplitHostPort(addr)
	return forwarder.HostPortPair{
		Src: forwarder.HostPort{Host: host, Port: port},
		Dst: forwarder.HostPort{Host: h, Port: p},
	}
}

func StartProxy(o ProxyOpts) (*Proxy, error) {
	cfg := o.Base
	if cfg == nil {
		cfg = forwarder.DefaultHTTPProxyConfig()
	}
	cfg.Address = "127.0.0.1:0"
	if o.Configure != nil {
		o.Configure(cfg)
	}
	tc := forwarder.DefaultHTTPTransportConfig()
	tc.DialTimeout = 5 * time.Second
	tc.Retry = forwarder.DialRetryConfig{Attempts: 1}
	if len(o.ConnectTo) > 0 {
		tc.RedirectFunc = forwarder.DialRedirectFromHostPortPairs(o.ConnectTo)
	}
	if o.Transport != nil {
		o.Transport(tc)
	}
	rt, err := forwarder.NewHTTPTransport(tc)
	if err != nil {
		return nil, fmt.Errorf("transport: %w", err)
	}
	if o.PostTransport != nil {
		o.PostTransport(rt)
	}
	lg := o.Logger
	if lg == nil {
		lg = log.NopLogger
	}
	var pr forwarder.PACResolver
	if o.PACScript != "" {
		p, err := pac.NewProxyResolverPool(&pac.ProxyResolverConfig{Script: o.PACScript}, nil)
		if err != nil {
			return nil, fmt.Errorf("pac: %w", err)
		}
		pr = p
	}
	cm := o.Matcher
	if cm == nil {
		if cm, err = forwarder.NewCredentialsMatcher(o.Credentials, lg); err != nil {
			return nil, fmt.Errorf("credentials: %w", err)
		}
	}
	hp, err := forwarder.NewHTTPProxy(cfg, pr, cm, rt, lg, nil)
	if err != nil {
		return nil, fmt.Errorf("proxy: %w", err)
	}
	if o.WrapListener != nil {
		if err := wrapListeners(hp, o.WrapListener); err != nil {
			hp.Close()
			return nil, err
		}
	}
	if o.OnAccept != nil {
		if err := tapListeners(hp, o.OnAccept); err != nil {
			hp.Close()
			return nil, err
		}
	}
	addrs, ok := hp.Addr()
	if !ok || len(addrs) == 0 {
		hp.Close()
		return nil, fmt.Errorf("proxy has no address")
	}
	ctx, cancel := context.WithCancel(context.Background())
	p := &Proxy{HP: hp, Addr: addrs[0], Addrs: addrs, cancel: cancel, done: make(chan error, 1), RT: rt}
	run := hp.Run
	if o.Host != nil {
		run = o.Host(hp.Run)
	}
	go func() { p.done <- run(ctx) }()
	return p, nil
}

// Stop cancels Run's context (graceful shutdown path) and waits for Run to return.
func (p *Proxy) Stop() error {
	p.cancel()
	select {
	case err := <-p.done:
		return err
	case <-time.After(15 * time.Second):
		return fmt.Errorf("proxy did not stop within 15s")
	}
}

// Done exposes Run's result channel (for shutdown scenarios).
func (p *Proxy) Done() <-chan error { return p.done }

// Cancel cancels Run's context without waiting.
func (p *Proxy) Cancel() { p.cancel() }

func (p *Proxy) CACert() *x509.Certificate { return p.HP.MITMCACert() }

func MustURL(s string) *url.URL {
	u, err := url.Parse(s)
	if err != nil {
		panic(err)
	}
	return u
}
