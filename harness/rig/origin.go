package rig

import (
	"bufio"
	"crypto/tls"
	"errors"
	"io"
	"net"
	"sync"
	"sync/atomic"
	"time"
)

// Exchange is one request received by a scripted peer.
type Exchange struct {
	ConnID int   `json:"conn"`
	Index  int   `json:"index"` // position on its connection
	Req    *Msg  `json:"req"`
	Err    error `json:"-"`
	At     time.Time
}

// Responder decides what a scripted peer writes back for a request. It may write in several
// steps, sleep, or close; returning false closes the connection after the response.
type Responder func(w *PeerConn, ex *Exchange) (keepAlive bool)

// PeerConn is the server side of one accepted connection of a scripted peer.
type PeerConn struct {
	net.Conn
	BR *bufio.Reader
	ID int
}

// WriteSegments writes b in the given segment sizes (rest in one piece), with a tiny pause
// between segments so that they tend to arrive as separate TCP segments.
func WriteSegments(c net.Conn, b []byte, sizes []int) error {
	for _, s := range sizes {
		if len(b) == 0 {
			break
		}
		if s <= 0 {
			continue
		}
		if s > len(b) {
			s = len(b)
		}
		if _, err := c.Write(b[:s]); err != nil {
			return err
		}
		b = b[s:]
		time.Sleep(200 * time.Microsecond)
	}
	if len(b) > 0 {
		_, err := c.Write(b)
		return err
	}
	return nil
}

// Peer is a scripted TCP (optionally TLS) server: origin, upstream proxy or redirect target.
type Peer struct {
	L       net.Listener
	Addr    string
	Name    string
	mu      sync.Mutex
	log     []*Exchange
	accepts atomic.Int64
	bytesIn atomic.Int64
	conns   []net.Conn
	respond Responder
	rawConn func(pc *PeerConn) // if set, the peer hands the connection to this instead of parsing HTTP
	closed  atomic.Bool
	wg      sync.WaitGroup
	tlsConf *tls.Config
	connSeq atomic.Int64
	// HandshakeTimeout bounds the TLS handshake of a TLS peer (default 10 s).
	HandshakeTimeout time.Duration
}

// countingConn counts bytes read from the client side.
type countingConn struct {
	net.Conn
	n *atomic.Int64
}

func (c countingConn) Read(b []byte) (int, error) {
	n, err := c.Conn.Read(b)
	c.n.Add(int64(n))
	return n, err
}

// CloseWrite shuts down the sending side of the underlying connection (TCP half-close), so that a
// scripted raw peer can finish its direction of a tunnel while it keeps reading.
func (c countingConn) CloseWrite() error {
	if cw, ok := c.Conn.(interface{ CloseWrite() error }); ok {
		return cw.CloseWrite()
	}
	return errNoHalfClose
}

var errNoHalfClose = errors.New("rig: underlying connection cannot half-close")

// NewPeer starts an HTTP/1 scripted peer on 127.0.0.1:0.
func NewPeer(name string, r Responder) (*Peer, error) {
	return newPeer(name, r, nil, nil)
}

// NewTLSPeer is NewPeer behind TLS.
func NewTLSPeer(name string, conf *tls.Config, r Responder) (*Peer, error) {
	return newPeer(name, r, nil, conf)
}

// NewRawPeer hands every accepted connection to fn (tunnel targets, SOCKS servers, fault injectors).
func NewRawPeer(name string, fn func(pc *PeerConn)) (*Peer, error) {
	return newPeer(name, nil, fn, nil)
}

func NewRawTLSPeer(name string, conf *tls.Config, fn func(pc *PeerConn)) (*Peer, error) {
	return newPeer(name, nil, fn, conf)
}

func newPeer(name string, r Responder, raw func(pc *PeerConn), conf *tls.Config) (*Peer, error) {
	l, err := net.Listen("tcp", "127.0.0.1:0")
	if err != nil {
		return nil, err
	}
	p := &Peer{L: l, Addr: l.Addr().String(), Name: name, respond: r, rawConn: raw, tlsConf: conf}
	p.wg.Add(1)
	go p.serve()
	return p, nil
}

func (p *Peer) serve() {
	defer p.wg.Done()
	for {
		c, err := p.L.Accept()
		if err != nil {
			return
		}
		p.accepts.Add(1)
		id := int(p.connSeq.Add(1))
		p.mu.Lock()
		p.conns = append(p.conns, c)
		p.mu.Unlock()
		p.wg.Add(1)
		go func() {
			defer p.wg.Done()
			defer c.Close()
			var conn net.Conn = countingConn{c, &p.bytesIn}
			if p.tlsConf != nil {
				tc := tls.Server(conn, p.tlsConf)
				hs := p.HandshakeTimeout
				if hs <= 0 {
					hs = 10 * time.Second
				}
				tc.SetDeadline(time.Now().Add(hs))
				if err := tc.Handshake(); err != nil {
					return
				}
				tc.SetDeadline(time.Time{})
				conn = tc
			}
			pc := &PeerConn{Conn: conn, BR: bufio.NewReaderSize(conn, 64<<10), ID: id}
			if p.rawConn != nil {
				p.rawConn(pc)
				return
			}
			for i := 0; ; i++ {
				req, err := ReadRequest(pc.BR)
				if err == io.EOF {
					return
				}
				ex := &Exchange{ConnID: id, Index: i, Req: req, Err: err, At: time.Now()}
				p.mu.Lock()
				p.log = append(p.log, ex)
				p.mu.Unlock()
				if err != nil {
					return
				}
				if !p.respond(pc, ex) {
					return
				}
			}
		}()
	}
}

// Log returns the exchanges received so far.
func (p *Peer) Log() []*Exchange {
	p.mu.Lock()
	defer p.mu.Unlock()
	return append([]*Exchange(nil), p.log...)
}

// Accepts is the number of TCP connections accepted so far; BytesIn the bytes received.
func (p *Peer) Accepts() int64 { return p.accepts.Load() }
func (p *Peer) BytesIn() int64 { return p.bytesIn.Load() }

// Reset forgets the log and counters.
func (p *Peer) Reset() {
	p.mu.Lock()
	p.log = nil
	p.mu.Unlock()
	p.accepts.Store(0)
	p.bytesIn.Store(0)
}

func (p *Peer) Close() {
	if p.closed.Swap(true) {
		return
	}
	p.L.Close()
	p.mu.Lock()
	for _, c := range p.conns {
		c.Close()
	}
	p.mu.Unlock()
	p.wg.Wait()
}

// OKResponder answers every request with a small 200 and keeps the connection alive.
func OKResponder(body string) Responder {
	return func(w *PeerConn, ex *Exchange) bool {
		if ex.Req.Method == "CONNECT" {
			w.Write([]byte("HTTP/1.1 200 OK\r\n\r\n"))
			return true
		}
		b := Head("HTTP/1.1 200 OK", []Field{{"Content-Length", itoa(len(body))}, {"Content-Type", "text/plain"}})
		if ex.Req.Method != "HEAD" {
			b = append(b, body...)
		}
		w.Write(b)
		return true
	}
}

func itoa(n int) string {
	if n == 0 {
		return "0"
	}
	neg := n < 0
	if neg {
		n = -n
	}
	var d []byte
	for n > 0 {
		d = append([]byte{byte('0' + n%10)}, d...)
		n /= 10
	}
	if neg {
		d = append([]byte{'-'}, d...)
	}
	return string(d)
}
