package rig

import (
	"net"
	"sync"
	"time"
)

// ScriptedListener wraps a listener so that a scenario decides what its Accept calls return: errors
// pushed with Inject are handed to the accept loop at once (also to an Accept call that is waiting for a
// connection), connections of the wrapped listener otherwise. It records every Accept call (when it was
// made, what it returned) and whether Close was called, so that a scenario can tell an accept loop that
// backs off and goes on from one that gave up. Use with ProxyOpts.WrapListener.
type ScriptedListener struct {
	net.Listener
	inject chan error
	conns  chan acceptResult

	mu          sync.Mutex
	calls       []AcceptCall
	closed      bool
	closeT      time.Time
	outstanding bool // a call of the wrapped listener's Accept is under way (or its result waits to be taken)
}

type acceptResult struct {
	c   net.Conn
	err error
}

// AcceptCall is one call of Accept: when it was entered, when it returned and with what.
type AcceptCall struct {
	Enter, Return time.Time
	Err           error // nil: a connection (Return is zero while the call is still waiting)
	Injected      bool
}

func NewScriptedListener(l net.Listener) *ScriptedListener {
	return &ScriptedListener{Listener: l, inject: make(chan error, 64), conns: make(chan acceptResult)}
}

// fetch calls the wrapped listener's Accept on behalf of an Accept call of the wrapper (only on demand: what
// it returns is as fresh as the call that asked for it, or the one that takes it over after an injection).
func (s *ScriptedListener) fetch() {
	c, err := s.Listener.Accept()
	s.conns <- acceptResult{c, err}
}

func (s *ScriptedListener) Accept() (net.Conn, error) {
	s.mu.Lock()
	i := len(s.calls)
	s.calls = append(s.calls, AcceptCall{Enter: time.Now()})
	if !s.outstanding {
		s.outstanding = true
		go s.fetch()
	}
	s.mu.Unlock()
	var r acceptResult
	injected := false
	// an injected error first: the order of the script is the order the loop sees
	select {
	case err := <-s.inject:
		r, injected = acceptResult{nil, err}, true
	default:
		select {
		case err := <-s.inject:
			r, injected = acceptResult{nil, err}, true
		case r = <-s.conns:
		}
	}
	s.mu.Lock()
	if !injected {
		s.outstanding = false
	}
	s.calls[i].Return, s.calls[i].Err, s.calls[i].Injected = time.Now(), r.err, injected
	s.mu.Unlock()
	return r.c, r.err
}

// Inject queues an error for the next Accept call (or the one that is waiting right now).
func (s *ScriptedListener) Inject(err error) { s.inject <- err }

func (s *ScriptedListener) Close() error {
	s.mu.Lock()
	if !s.closed {
		s.closed, s.closeT = true, time.Now()
	}
	s.mu.Unlock()
	return s.Listener.Close()
}

// Closed reports whether (and when) Close was called on the wrapper.
func (s *ScriptedListener) Closed() (bool, time.Time) {
	s.mu.Lock()
	defer s.mu.Unlock()
	return s.closed, s.closeT
}

// Calls returns a copy of the Accept calls made so far.
func (s *ScriptedListener) Calls() []AcceptCall {
	s.mu.Lock()
	defer s.mu.Unlock()
	return append([]AcceptCall(nil), s.calls...)
}

// Waiting reports whether an Accept call is waiting right now (entered, not returned).
func (s *ScriptedListener) Waiting() bool {
	s.mu.Lock()
	defer s.mu.Unlock()
	n := len(s.calls)
	return n > 0 && s.calls[n-1].Return.IsZero()
}
