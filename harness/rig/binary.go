package rig

import (
	"bytes"
	"fmt"
	"net"
	"os"
	"os/exec"
	"path/filepath"
	"strconv"
	"strings"
	"sync"
	"syscall"
	"time"
)

var (
	binOnce sync.Once
	binPath string
	binErr  error
)

// BuildBinary builds cmd/forwarder of the tree under verification ($VERIF_REPO, default /repo) once per process and returns the path of the executable.
func BuildBinary(root string) (string, error) {
	binOnce.Do(func() {
		out := filepath.Join(root, ".work", fmt.Sprintf("forwarder-%d", os.Getpid()))
		os.MkdirAll(filepath.Dir(out), 0o755)
		repo := os.Getenv("VERIF_REPO")
		if repo == "" {
			repo = "/repo"
		}
		cmd := exec.Command("go", "build", "-tags", "verif", "-o", out, "./cmd/forwarder")
		cmd.Dir = repo
		var b bytes.Buffer
		cmd.Stdout, cmd.Stderr = &b, &b
		if err := cmd.Run(); err != nil {
			binErr = fmt.Errorf("build cmd/forwarder: %v: %s", err, b.String())
			return
		}
		binPath = out
	})
	return binPath, binErr
}

// RemoveBinary deletes the executable built by BuildBinary.
func RemoveBinary() {
	if binPath != "" {
		os.Remove(binPath)
	}
}

// FreePort returns a loopback TCP port that was free a moment ago.
func FreePort() (int, error) {
	l, err := net.Listen("tcp", "127.0.0.1:0")
	if err != nil {
		return 0, err
	}
	defer l.Close()
	return l.Addr().(*net.TCPAddr).Port, nil
}

// Process is a running `forwarder run …` child.
type Process struct {
	Cmd    *exec.Cmd
	Addr   string // proxy listener
	Output *bytes.Buffer
	exited chan struct{}
}

// StartBinary starts `forwarder run --address 127.0.0.1:<free port> args…` and waits until the
// listener accepts connections. The port is picked beforehand, so another process may grab it in
// between: the child then exits ("address already in use") and the start is retried on a new port.
func StartBinary(root string, args []string, env []string) (*Process, error) {
	bin, err := BuildBinary(root)
	if err != nil {
		return nil, err
	}
	var lastErr error
	for attempt := 0; attempt < 4; attempt++ {
		p, err := startOnce(bin, args, env)
		if err == nil {
			return p, nil
		}
		lastErr = err
	}
	return nil, lastErr
}

// ExitedError: the child exited before its listener accepted connections.
type ExitedError struct{ Output string }

func (e *ExitedError) Error() string { return "forwarder exited during start-up: " + e.Output }

// StartBinaryVerdict is StartBinary for callers that ask WHETHER a configuration is accepted: a child that
// exits during start-up for a reason other than a taken port is the answer (refused = true, output = what it
// printed), not an error. A taken port is retried more often than StartBinary does.
func StartBinaryVerdict(root string, args []string, env []string) (p *Process, refused bool, output string, err error) {
	bin, err := BuildBinary(root)
	if err != nil {
		return nil, false, "", err
	}
	var lastErr error
	for attempt := 0; attempt < 10; attempt++ {
		p, err := startOnce(bin, args, env)
		if err == nil {
			return p, false, "", nil
		}
		lastErr = err
		if ee, ok := err.(*ExitedError); ok && !strings.Contains(ee.Output, "address already in use") {
			return nil, true, ee.Output, nil
		}
	}
	return nil, false, "", lastErr
}

func startOnce(bin string, args []string, env []string) (*Process, error) {
	port, err := FreePort()
	if err != nil {
		return nil, err
	}
	addr := fmt.Sprintf("127.0.0.1:%d", port)
	full := append([]string{"run", "--address", addr}, args...)
	// no API listener unless the caller asks for one: its fixed default port (10000) may be taken by
	// another process of this machine (e.g. a second check running at the same time)
	hasAPI := false
	for _, a := range args {
		if a == "--api-address" || strings.HasPrefix(a, "--api-address=") {
			hasAPI = true
		}
	}
	for _, e := range env {
		if strings.HasPrefix(e, "FORWARDER_API_ADDRESS=") {
			hasAPI = true
		}
	}
	if !hasAPI {
		full = append(full, "--api-address", "")
	}
	cmd := exec.Command(bin, full...)
	cmd.Env = append(os.Environ(), env...)
	out := &bytes.Buffer{}
	cmd.Stdout, cmd.Stderr = out, out
	if err := cmd.Start(); err != nil {
		return nil, err
	}
	p := &Process{Cmd: cmd, Addr: addr, Output: out, exited: make(chan struct{})}
	go func() { cmd.Wait(); close(p.exited) }()
	deadline := time.Now().Add(10 * time.Second)
	for time.Now().Before(deadline) {
		select {
		case <-p.exited:
			return nil, &ExitedError{Output: out.String()}
		default:
		}
		c, err := net.DialTimeout("tcp", addr, 200*time.Millisecond)
		if err == nil {
			c.Close()
			// Somebody listens on the port. On a busy machine that may be ANOTHER process which took the
			// port before the child got to bind it (the child then exits a little later): where /proc
			// can tell, go on only when the listening socket belongs to the child.
			if known, owns := childListens(cmd.Process.Pid, port); known && !owns {
				time.Sleep(30 * time.Millisecond)
				continue
			}
			// make sure it is OUR child that listens (it must still be running a moment later)
			time.Sleep(20 * time.Millisecond)
			select {
			case <-p.exited:
				return nil, &ExitedError{Output: out.String()}
			default:
				return p, nil
			}
		}
		time.Sleep(30 * time.Millisecond)
	}
	p.Stop()
	return nil, fmt.Errorf("forwarder did not start listening on %s: %s", addr, out.String())
}

// childListens looks up the LISTEN socket of 127.0.0.1:port (or the wildcard address) in
// /proc/net/tcp{,6} and reports whether one of the descriptors of process pid is that socket.
// known=false when /proc does not give the answer (not Linux, no permission): callers then fall
// back to "somebody listens".
func childListens(pid, port int) (known, owns bool) {
	inodes := map[string]bool{}
	tables := 0
	for _, f := range []string{"/proc/net/tcp", "/proc/net/tcp6"} {
		b, err := os.ReadFile(f)
		if err != nil {
			continue
		}
		tables++
		for _, line := range strings.Split(string(b), "\n")[1:] {
			fs := strings.Fields(line)
			if len(fs) < 10 || fs[3] != "0A" {
				continue
			}
			if i := strings.LastIndexByte(fs[1], ':'); i >= 0 {
				if p, err := strconv.ParseUint(fs[1][i+1:], 16, 32); err == nil && int(p) == port {
					inodes[fs[9]] = true
				}
			}
		}
	}
	dir := fmt.Sprintf("/proc/%d/fd", pid)
	ents, err := os.ReadDir(dir)
	if err != nil || tables == 0 {
		return false, false
	}
	if len(inodes) == 0 {
		return true, false
	}
	for _, e := range ents {
		if l, err := os.Readlink(filepath.Join(dir, e.Name())); err == nil && strings.HasPrefix(l, "socket:[") {
			if inodes[strings.TrimSuffix(strings.TrimPrefix(l, "socket:["), "]")] {
				return true, true
			}
		}
	}
	return true, false
}

// Stop sends SIGTERM and waits (SIGKILL after 5 s).
func (p *Process) Stop() {
	if p.Cmd.Process == nil {
		return
	}
	p.Cmd.Process.Signal(syscall.SIGTERM)
	select {
	case <-p.exited:
	case <-time.After(5 * time.Second):
		p.Cmd.Process.Kill()
		<-p.exited
	}
}

// Alive reports whether the child is still running.
func (p *Process) Alive() bool {
	select {
	case <-p.exited:
		return false
	default:
		return true
	}
}
