package rig

import (
	"bufio"
	"crypto/tls"
	"crypto/x509"
	"errors"
	"fmt"
	"io"
	"net"
	"time"
)

// Client is a raw client connection to the proxy.
type Client struct {
	Conn net.Conn
	BR   *bufio.Reader
}

func Dial(addr string) (*Client, error) {
	c, err := net.DialTimeout("tcp", addr, 5*time.Second)
	if err != nil {
		return nil, err
	}
	return &Client{Conn: c, BR: bufio.NewReaderSize(c, 64<<10)}, nil
}

func (c *Client) Close() { c.Conn.Close() }

// Send writes b split into the given segment sizes.
func (c *Client) Send(b []byte, sizes []int) error { return WriteSegments(c.Conn, b, sizes) }

// ReadResponse reads one response to a request of the given method within d.
func (c *Client) ReadResponse(reqMethod string, d time.Duration) (*Msg, error) {
	c.Conn.SetReadDeadline(time.Now().Add(d))
	defer c.Conn.SetReadDeadline(time.Time{})
	return ReadResponse(c.BR, reqMethod)
}

// ExpectClosed reports whether the peer closes the connection (EOF or reset) within d, and any
// bytes that arrived before that.
func (c *Client) ExpectClosed(d time.Duration) (closed bool, extra []byte) {
	c.Conn.SetReadDeadline(time.Now().Add(d))
	defer c.Conn.SetReadDeadline(time.Time{})
	buf := make([]byte, 4096)
	for {
		n, err := c.BR.Read(buf)
		extra = append(extra, buf[:n]...)
		if err != nil {
			var ne net.Error
			if errors.As(err, &ne) && ne.Timeout() {
				return false, extra
			}
			return true, extra
		}
	}
}

// ReadAll reads until EOF/reset or until d elapsed; timedOut tells which.
func (c *Client) ReadAll(d time.Duration) (b []byte, timedOut bool) {
	closed, extra := c.ExpectClosed(d)
	return extra, !closed
}

// StartTLS performs a client handshake over the connection (inside a CONNECT tunnel).
func (c *Client) StartTLS(serverName string, roots *x509.CertPool, insecure bool) (*tls.ConnectionState, error) {
	conf := &tls.Config{ServerName: serverName, RootCAs: roots, InsecureSkipVerify: insecure, NextProtos: []string{"http/1.1"}}
	// bytes already buffered by BR belong to the TLS stream
	var under net.Conn = c.Conn
	if n := c.BR.Buffered(); n > 0 {
		pre, _ := c.BR.Peek(n)
		under = &prefixConn{Conn: c.Conn, pre: append([]byte(nil), pre...)}
	}
	tc := tls.Client(under, conf)
	tc.SetDeadline(time.Now().Add(10 * time.Second))
	if err := tc.Handshake(); err != nil {
		return nil, fmt.Errorf("tls handshake: %w", err)
	}
	tc.SetDeadline(time.Time{})
	cs := tc.ConnectionState()
	c.Conn = tc
	c.BR = bufio.NewReaderSize(tc, 64<<10)
	return &cs, nil
}

type prefixConn struct {
	net.Conn
	pre []byte
}

func (p *prefixConn) Read(b []byte) (int, error) {
	if len(p.pre) > 0 {
		n := copy(b, p.pre)
		p.pre = p.pre[n:]
		return n, nil
	}
	return p.Conn.Read(b)
}

var _ io.Reader = (*prefixConn)(nil)
