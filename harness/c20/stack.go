package c20

// stack.go: the transfer clauses of C20 (bound over every observation time, direction independence,
// data unaltered) through forwarder.Listener - the product's own stacking of an accepted socket
// (net.go Listen/Accept: TCP, PROXY protocol, bandwidth limiter, connection tracker, TLS) - in EVERY
// stacking the product builds:
//
//	{plain, TLS} x {PROXY protocol off, v1 header, v2 header} x {traffic tracking off, on} x {read limit, write limit, both}
//
// (mode "stack": the harness dials, sends the PROXY header where the listener expects one, accepts from
// forwarder.Listener.Accept and is the server on the accepted connection, exactly as mode "listener" is on
// a bare ratelimit.NewListener), and through the full proxy started with a PROXY-protocol listener (modes
// "proxy-http"/"proxy-connect" with proxy_protocol set). Which limiters a connection of a stacking meters
// its bytes with is the model's answer (Model/C20Stack.lean limitersIn (listenerStack cfg) cfg, verb
// `stackwiring product`; c20_every_stacking_is_limited: the limiters of NewListener(ReadLimit, WriteLimit)
// whatever the other layers are); the bound is then judged on what the harness's ends observe:
//
//	down (proxy -> client, read limit): the RAW bytes the client's socket delivers, below TLS (handshake is
//	     over before the clock starts; record framing and post-handshake messages are counted: the limiter
//	     sits below TLS and meters them too);
//	up   (client -> proxy, write limit): the payload bytes the accepted connection hands to the application,
//	     above TLS (<= the raw bytes the limiter metered: one-sided).
//
// w (the bound on one call reaching the limiter): the harness's chunk on a plain connection; under TLS the
// calls are crypto/tls's (one record per Write, <= 16 KiB + framing; Reads into the spare capacity of its
// input buffer): 64 KiB is allowed.

import (
	"crypto/sha256"
	"crypto/tls"
	"encoding/binary"
	"fmt"
	"io"
	"net"
	"strconv"
	"strings"
	"sync"
	"sync/atomic"
	"time"

	"github.com/saucelabs/forwarder"
	"github.com/saucelabs/forwarder/verifharness/core"
	"github.com/saucelabs/forwarder/verifharness/rig"
)

const stackTLSCall = 64 * kib

var (
	stackTLSOnce sync.Once
	stackTLSSrv  *tls.Config
	stackTLSCli  *tls.Config
	stackTLSErr  error
)

func stackTLS() (*tls.Config, *tls.Config, error) {
	stackTLSOnce.Do(func() {
		ca, err := rig.NewCA("verif c20 stack CA")
		if err != nil {
			stackTLSErr = err
			return
		}
		leaf, err := ca.ValidLeaf("127.0.0.1")
		if err != nil {
			stackTLSErr = err
			return
		}
		stackTLSSrv = &tls.Config{Certificates: []tls.Certificate{leaf}}
		stackTLSCli = &tls.Config{RootCAs: ca.Pool(), ServerName: "127.0.0.1"}
	})
	return stackTLSSrv, stackTLSCli, stackTLSErr
}

// proxyHeader: a well-formed PROXY protocol header announcing a source of its own per connection.
func proxyHeader(version string, i int) []byte {
	src := [4]byte{10, 20, byte(i / 250), byte(i%250 + 1)}
	dst := [4]byte{10, 6, 5, 4}
	sport, dport := uint16(40000+i%20000), uint16(443)
	switch version {
	case "v1":
		return []byte(fmt.Sprintf("PROXY TCP4 %d.%d.%d.%d %d.%d.%d.%d %d %d\r\n", src[0], src[1], src[2], src[3], dst[0], dst[1], dst[2], dst[3], sport, dport))
	case "v2":
		h := []byte("\r\n\r\n\x00\r\nQUIT\n")
		h = append(h, 0x21, 0x11, 0, 12) // version 2 + PROXY, TCP over IPv4, 12 address bytes
		h = append(h, src[:]...)
		h = append(h, dst[:]...)
		h = binary.BigEndian.AppendUint16(h, sport)
		h = binary.BigEndian.AppendUint16(h, dport)
		return h
	}
	return nil
}

// observe accounts for n bytes seen on connection idx (observation time only; content is judged elsewhere).
func (d *dirState) observe(idx, n int, start time.Time) {
	ts := int64(time.Since(start))
	if idx < len(d.first) {
		d.first[idx].Store(true)
	}
	d.mu.Lock()
	d.evs = append(d.evs, ev{ts, n})
	d.mu.Unlock()
	for {
		old := d.last.Load()
		if ts <= old || d.last.CompareAndSwap(old, ts) {
			break
		}
	}
}

// tapConn is the harness's raw end of a connection (below TLS): once rec is set, every batch of raw bytes
// its Read delivers is an observation of that direction.
type tapConn struct {
	net.Conn
	run *xferRun
	idx int
	rec atomic.Pointer[dirState]
}

func (t *tapConn) Read(p []byte) (int, error) {
	n, err := t.Conn.Read(p)
	if n > 0 {
		if d := t.rec.Load(); d != nil {
			d.observe(t.idx, n, t.run.start)
		}
	}
	return n, err
}

// hashLoop reads exactly want bytes (or until an error) and keeps count and hash; the observation times
// are taken elsewhere (tapConn).
func hashLoop(d *dirState, idx int, r io.Reader, want int64, bufSize int) {
	h := sha256.New()
	buf := make([]byte, bufSize)
	var got int64
	for got < want {
		lim := int64(len(buf))
		if want-got < lim {
			lim = want - got
		}
		n, err := r.Read(buf[:lim])
		if n > 0 {
			h.Write(buf[:n])
			got += int64(n)
		}
		if err != nil {
			if !(err == io.EOF && got == want) {
				d.errf("%s reader %d: %v after %d of %d bytes", d.name, idx, err, got, want)
			}
			break
		}
	}
	d.mu.Lock()
	d.gotN[idx] = got
	copy(d.gotHash[idx][:], h.Sum(nil))
	d.mu.Unlock()
}

// stackLimiters: the model's stack of a connection accepted from forwarder.Listener in the case's
// configuration and the limiters on its byte path ([rate, burst]; rate 0 = none).
func stackLimiters(ctx *core.Ctx, c xferCase) (layers string, rx, tx [2]int64) {
	ans := ctx.Model.MustAsk("C20", "stackwiring", "product", core.B01(c.ProxyProto != ""), strconv.FormatInt(c.ReadLimit, 10),
		strconv.FormatInt(c.WriteLimit, 10), core.B01(c.Track), core.B01(c.TLS))
	parse := func(s string) (out [2]int64) {
		if s == "none" {
			return
		}
		a, b, ok := strings.Cut(s, "/")
		r, err1 := strconv.ParseInt(a, 10, 64)
		bu, err2 := strconv.ParseInt(b, 10, 64)
		if !ok || err1 != nil || err2 != nil {
			core.Fatalf("C20: model stackwiring limiter %q", s)
		}
		return [2]int64{r, bu}
	}
	f := strings.Fields(ans)
	if len(f) != 3 || !strings.HasPrefix(f[0], "layers=") || !strings.HasPrefix(f[1], "rx=") || !strings.HasPrefix(f[2], "tx=") {
		core.Fatalf("C20: model stackwiring answer %q", ans)
	}
	return strings.TrimPrefix(f[0], "layers="), parse(strings.TrimPrefix(f[1], "rx=")), parse(strings.TrimPrefix(f[2], "tx="))
}

// ---- mode "stack": the harness is the server on connections accepted from forwarder.Listener ----

func runStackMode(run *xferRun) {
	c := run.c
	run.base = time.Now()
	fl := &forwarder.Listener{
		ListenerConfig: forwarder.ListenerConfig{
			Address:      "127.0.0.1:0",
			TrackTraffic: c.Track,
			ReadLimit:    forwarder.SizeSuffix(c.ReadLimit),
			WriteLimit:   forwarder.SizeSuffix(c.WriteLimit),
		},
	}
	if c.ProxyProto != "" {
		fl.ProxyProtocolConfig = &forwarder.ProxyProtocolConfig{ReadHeaderTimeout: 5 * time.Second}
	}
	var cliTLS *tls.Config
	if c.TLS {
		srv, cli, err := stackTLS()
		if err != nil {
			run.setFatal("TLS material: " + err.Error())
			return
		}
		fl.TLSConfig, cliTLS = srv, cli
	}
	if err := fl.Listen(); err != nil {
		run.setFatal("forwarder.Listener: Listen: " + err.Error())
		return
	}
	defer fl.Close()

	var taps []*tapConn
	var pc, sc []net.Conn // the peer's end as the application uses it (TLS client where configured), the accepted connection
	defer func() {
		for _, x := range taps {
			x.Close()
		}
		for _, x := range sc {
			x.Close()
		}
	}()
	dl := time.Now().Add(maxDur(c))
	for i := 0; i < c.Conns; i++ {
		a, err := net.DialTimeout("tcp", fl.Addr().String(), 5*time.Second)
		if err != nil {
			run.setFatal(err.Error())
			return
		}
		t := &tapConn{Conn: a, run: run, idx: i}
		taps = append(taps, t)
		a.SetDeadline(dl)
		if h := proxyHeader(c.ProxyProto, i); len(h) > 0 {
			if _, err := a.Write(h); err != nil {
				run.setFatal(err.Error())
				return
			}
		}
		type acc struct {
			c   net.Conn
			err error
		}
		ch := make(chan acc, 1)
		go func() { s, err := fl.Accept(); ch <- acc{s, err} }()
		var b net.Conn
		select {
		case r := <-ch:
			if r.err != nil {
				run.setFatal("forwarder.Listener: Accept: " + r.err.Error())
				return
			}
			b = r.c
		case <-time.After(5 * time.Second):
			run.setFatal("forwarder.Listener: Accept did not return within 5 s of a connection being established")
			return
		}
		b.SetDeadline(dl)
		sc = append(sc, b)
		if !c.TLS {
			pc = append(pc, t)
			continue
		}
		// the handshake is over before the clock starts
		tc := tls.Client(t, cliTLS)
		pc = append(pc, tc)
		herr := make(chan error, 1)
		go func() { herr <- tc.Handshake() }()
		if ts, ok := b.(*tls.Conn); ok {
			if err := ts.Handshake(); err != nil {
				run.setFatal("forwarder.Listener: TLS handshake on the accepted connection: " + err.Error())
				return
			}
		} else {
			run.setFatal(fmt.Sprintf("forwarder.Listener: Accept with a TLS configuration returned %T, not *tls.Conn", b))
			return
		}
		if err := <-herr; err != nil {
			run.setFatal("forwarder.Listener: TLS handshake of the peer: " + err.Error())
			return
		}
	}

	var wg sync.WaitGroup
	goSafe := func(f func()) {
		wg.Add(1)
		go func() {
			defer wg.Done()
			defer func() {
				if p := recover(); p != nil {
					run.setCrash(fmt.Sprint(p))
				}
			}()
			f()
		}()
	}
	var writers sync.WaitGroup
	goWriter := func(f func()) {
		writers.Add(1)
		goSafe(func() { defer writers.Done(); f() })
	}
	run.start = time.Now()
	for i := 0; i < c.Conns; i++ {
		i := i
		if run.down != nil {
			taps[i].rec.Store(run.down)
			goWriter(func() { writerLoop(run.down, sc[i], run.down.payload[i], c.Chunk, run.base, true, false) })
			goSafe(func() { hashLoop(run.down, i, pc[i], run.down.per[i], 256*kib) })
		}
		if run.up != nil {
			goWriter(func() { writerLoop(run.up, pc[i], run.up.payload[i], 256*kib, run.base, false, false) })
			goSafe(func() { readerLoop(run.up, i, sc[i], run.up.per[i], c.Chunk, run.start, run.base, false) })
		}
	}
	// once every writer is done the readers only have socket buffers (and their own waits) left
	all := make(chan struct{})
	go func() {
		writers.Wait()
		select {
		case <-all:
		case <-time.After(time.Duration(c.Millis)*time.Millisecond + 5*time.Second):
			past := time.Now().Add(-time.Second)
			for i := range taps {
				taps[i].SetDeadline(past)
				sc[i].SetDeadline(past)
			}
		}
	}()
	wg.Wait()
	close(all)
}

// ---- generation ----

// genStack: every stacking of forwarder.Listener x {read limit, write limit, both}, and the full proxy behind
// a PROXY-protocol listener. A throttled direction carries burst + 0.8-1.2 s of rate (thorough: 1.5-3 s),
// an unthrottled one what would take >= 3 s if the limits were crossed.
func genStack(ctx *core.Ctx, r *core.Rand) []xferCase {
	var cases []xferCase
	rates := []int64{mib, 2 * mib}
	loMs, hiMs := 800, 1200
	if !ctx.Quick() {
		rates = append(rates, 512*kib, 8*mib)
		loMs, hiMs = 1500, 3000
	}
	rounds := ctx.N(1, 2)
	for round := 0; round < rounds; round++ {
		for _, useTLS := range []bool{false, true} {
			for _, pp := range []string{"", "v1", "v2"} {
				for _, track := range []bool{false, true} {
					for lim := 1; lim <= 3; lim++ {
						c := xferCase{Kind: "xfer", Mode: "stack", TLS: useTLS, ProxyProto: pp, Track: track, Conns: core.Pick(r, []int{1, 1, 2, 3}),
							Chunk: core.Pick(r, []int{16 * kib, 32 * kib, 64 * kib}), Millis: r.Range(loMs, hiMs), Seed: r.U64()}
						if lim&1 != 0 {
							c.ReadLimit = core.Pick(r, rates)
						}
						if lim&2 != 0 {
							c.WriteLimit = core.Pick(r, rates)
						}
						cases = append(cases, c)
					}
				}
			}
		}
		// the full proxy with --proxy-protocol-listener: plain requests and tunnels, clients announce themselves with v1 / v2
		nProxy := ctx.N(2, 6)
		for i := 0; i < nProxy; i++ {
			c := xferCase{Kind: "xfer", Mode: "proxy-http", ProxyProto: "v1", Conns: r.Range(1, 2), Chunk: 32 * kib, Millis: r.Range(loMs, hiMs) + 200, Seed: r.U64()}
			if i%2 == 1 {
				c.Mode = "proxy-connect"
			}
			if (i/2+i)%2 == 1 {
				c.ProxyProto = "v2"
			}
			switch (i + round) % 3 {
			case 0:
				c.ReadLimit, c.WriteLimit = core.Pick(r, rates), core.Pick(r, rates)
			case 1:
				c.ReadLimit = core.Pick(r, rates)
			default:
				c.WriteLimit = core.Pick(r, rates)
			}
			cases = append(cases, c)
		}
	}
	core.Shuffle(r, cases)
	return cases
}

func stackName(c xferCase) string {
	name := "plain"
	if c.TLS {
		name = "tls"
	}
	if c.ProxyProto != "" {
		name += "+proxy-" + c.ProxyProto
	}
	if c.Track {
		name += "+track"
	}
	switch {
	case c.ReadLimit > 0 && c.WriteLimit > 0:
		name += "+read-limit+write-limit"
	case c.ReadLimit > 0:
		name += "+read-limit"
	case c.WriteLimit > 0:
		name += "+write-limit"
	}
	return name
}
