package c20

import (
	"fmt"
	"strings"

	"github.com/saucelabs/forwarder"
	"github.com/saucelabs/forwarder/verifharness/core"
)

// sizeCase: the TEXT of a limit as --read-limit / --write-limit take it (SizeSuffix.Set):
// <integer>[.<fraction>]<suffix>. The rate the limiter is built with is the number this text denotes;
// the throughput bound is stated over that number, so a parser that reads a different number out of a
// legal text breaks the bound by configuration (a fraction with a zero right after the point —
// `0.05M` — read as `0.5M` gives a limiter ten times too fast). The model (Model/C20.lean sizeOf) is
// exact integer arithmetic on the digit strings; the code computes in float64, so the two are compared
// up to float64 rounding (1 + value x 2^-52 bytes per second).
type sizeCase struct {
	Kind   string `json:"kind"` // "size"
	Int    string `json:"int"`
	Frac   string `json:"frac"` // digits after the point ("" = no point, "." alone is written when Dot)
	Dot    bool   `json:"dot"`
	Suffix string `json:"suffix"`
}

var sizeSuffixes = []struct {
	s    string
	mult uint64
}{
	{"", 1 << 10}, {"B", 1}, {"b", 1}, {"K", 1 << 10}, {"k", 1 << 10}, {"Ki", 1 << 10}, {"KiB", 1 << 10}, {"kib", 1 << 10},
	{"M", 1 << 20}, {"m", 1 << 20}, {"Mi", 1 << 20}, {"MiB", 1 << 20}, {"G", 1 << 30}, {"Gi", 1 << 30}, {"GiB", 1 << 30},
	{"T", 1 << 40}, {"Ti", 1 << 40},
}

func (c sizeCase) text() string {
	s := c.Int
	if c.Dot || c.Frac != "" {
		s += "." + c.Frac
	}
	return s + c.Suffix
}

func genSize(r *core.Rand) sizeCase {
	c := sizeCase{Kind: "size", Suffix: core.Pick(r, sizeSuffixes).s}
	c.Int = core.Pick(r, []string{"0", "0", "1", "1", "2", "3", "7", "10", "12", "100", "256", "999", "1000", "01", "007"})
	if r.Chance(75) {
		n := r.Range(1, 5)
		var b strings.Builder
		for i := 0; i < n; i++ {
			switch {
			case i < n-1 && r.Chance(55):
				b.WriteByte('0') // zeros right after the point, and inside
			case r.Chance(15):
				b.WriteByte('0') // trailing zero
			default:
				b.WriteByte("123456789"[r.Intn(9)])
			}
		}
		c.Frac = b.String()
	} else if r.Chance(15) {
		c.Dot = true // "1.g"
	}
	return c
}

func checkSize(ctx *core.Ctx, c sizeCase) {
	txt := c.text()
	lead := strings.HasPrefix(c.Frac, "0") && strings.Trim(c.Frac, "0") != ""
	ctx.Case("size:"+txt, c.Frac != "")
	ctx.Count("size/suffix/" + c.Suffix)
	ctx.Count(fmt.Sprintf("size/fraction-digits/%d", len(c.Frac)))
	if lead {
		ctx.Count("size/fraction-with-leading-zero")
	}
	var mult uint64
	for _, s := range sizeSuffixes {
		if s.s == c.Suffix {
			mult = s.mult
		}
	}
	if mult == 0 {
		core.Fatalf("C20 size case: unknown suffix %q", c.Suffix)
	}
	var ss forwarder.SizeSuffix
	var err error
	func() {
		defer func() {
			if p := recover(); p != nil {
				err = fmt.Errorf("panic: %v", p)
				ctx.Crash("SizeSuffix.Set does not panic", "", c, err.Error())
			}
		}()
		err = ss.Set(txt)
	}()
	frac := c.Frac
	if frac == "" {
		frac = "~"
	}
	want := ctx.Model.MustAsk("C20", "size", strings.TrimLeft(c.Int, "0")+zeroIfEmpty(c.Int), frac, fmt.Sprint(mult))
	if err != nil {
		ctx.SpecFail("a limit written <integer>[.<fraction>]<suffix> is accepted", "", c, err.Error(), "text "+txt)
		return
	}
	// the code computes float64(text) x multiplier: the nearest double of the decimal carries a relative
	// error of at most 2^-53, so the truncated product is within 1 + value x 2^-52 of the exact one
	var w int64
	fmt.Sscan(want, &w)
	d := int64(ss) - w
	if d < 0 {
		d = -d
	}
	if d > 1+w>>52 {
		ctx.SpecFail("the limiter's rate is the number the text of the limit denotes (SizeSuffix.Set(text) = integer.fraction x binary multiplier, truncated, up to float64 rounding: 1 + value x 2^-52)", "", c,
			fmt.Sprint(int64(ss)), fmt.Sprintf("text %q: SizeSuffix.Set gives %d B/s, the text denotes %s B/s", txt, int64(ss), want))
		return
	}
	ctx.TraceValidated()
}

// zeroIfEmpty: "0" when the integer text is all zeros (TrimLeft left nothing).
func zeroIfEmpty(s string) string {
	if strings.Trim(s, "0") == "" {
		return "0"
	}
	return ""
}
