// Package c20 ties the Lean model of the listener bandwidth limits (Model/C20.lean) to
// /repo/ratelimit, /repo/net.go and golang.org/x/time/rate:
//
//   - "reserve": rate.Limiter.ReserveN(t, n) on explicit generated times (no wall clock) against the
//     model's exact integer bucket (tolerance 1 µs: the library computes in float64);
//   - "ctor": ratelimit.NewListener / forwarder.Listener.Listen (and SizeSuffix.Set for the flag
//     text) — which limiter exists, its rate and burst, whether accepted connections share it —
//     against the model's wiring and burst rule; the real limiters are then driven like "reserve";
//   - "xfer": wall-clock transfers on loopback through ratelimit.NewListener or the full proxy
//     (forwarder.NewHTTPProxy, plain requests and CONNECT tunnels): only one-sided bounds
//     (cumulative bytes by time t ≤ B + k·w + R·t; an unthrottled direction finishes quickly),
//     byte-for-byte equality by hash, and for a single connection the trace of call return times
//     against the model;
//   - "xfer" with deadlines armed (timed cases): 8-32 connections of one listener whose every
//     Read/Write is preceded by SetWriteDeadline/SetReadDeadline/SetDeadline a few hundred ms
//     ahead, and the full proxy with WriteTimeout/ReadTimeout and many concurrent downloads/
//     uploads; far more data is on offer than the bound allows, the transfer is cut after ~2 s:
//     same one-sided bound, and what arrived is a prefix of what was sent (the model's Conn waits
//     for its tokens whatever deadline is armed: c20_wait_ignores_deadline; a wait that gives up
//     breaks the bound: c20_unwaited_call_witness);
//   - "duplex" (duplex.go): one connection with both limits set carrying both directions at once
//     (ratelimit.NewListener, CONNECT tunnel): while the slow direction sits in its limiter's wait a
//     transfer in the other direction is timed against a control run with the slow direction idle —
//     a LOWER bound, relative and confirmed by repetition (the model's connection has two independent
//     wait queues: c20_progress_independent; a lock held across the wait: c20_shared_mutex_witness);
//   - "xfer" with close_at_ms (lifecycle cases): the listener is closed (ratelimit.Listener.Close) resp.
//     the proxy's graceful shutdown starts while transfers of burst + ≥ 3 s of rate are in flight; the
//     same bound over the whole transfer (the model's wait takes the state of its context as an input
//     and Conn's context is never done: c20_bound_survives_listener_close; a context that Close cancels:
//     c20_cancelled_context_witness);
//   - "xfer" in mode "stack" (stack.go): the same transfer clauses through forwarder.Listener in every stacking
//     the product builds ({plain, TLS} x {PROXY protocol off, v1, v2} x {traffic tracking off, on} x {read
//     limit, write limit, both}) and through the full proxy behind a PROXY-protocol listener (the model's
//     listener value chain: c20_every_stacking_is_limited; a PROXY wrapper handed the raw listener next to
//     the limiter: c20_sibling_proxy_drops_limits_witness);
//   - "stall" (stall.go): saturated connections next to connections whose Read/Write sits blocked for 50-400 ms
//     at a time on one shared limiter, the bound summed over all of them (reservations are stamped when the call
//     has returned: c20_bound_holds_for_monotone_reservation_times; stamped with the call's start:
//     c20_stale_stamp_recredits_interval).
package c20

import (
	"encoding/json"
	"fmt"
	"math"
	"net"
	"reflect"
	"strconv"
	"strings"
	"sync"
	"time"
	"unsafe"

	"github.com/saucelabs/forwarder"
	"github.com/saucelabs/forwarder/ratelimit"
	"github.com/saucelabs/forwarder/verifharness/core"
	"github.com/saucelabs/forwarder/verifharness/srcgen"
	"golang.org/x/time/rate"
)

func init() { core.Register("C20", core.Scenario{Run: Run, Replay: Replay, Prepare: srcgen.PrepareC20}) }

const (
	kib = 1 << 10
	mib = 1 << 20
)

// ---- cases ----

type reserveCase struct {
	Kind  string     `json:"kind"` // "reserve"
	Rate  int64      `json:"rate"`
	Burst int64      `json:"burst"`
	Ops   [][2]int64 `json:"ops"` // [t ns, n]
}

type ctorCase struct {
	Kind       string     `json:"kind"` // "ctor"
	Via        string     `json:"via"`  // "NewListener" | "Listen"
	ReadLimit  string     `json:"read_limit"`
	WriteLimit string     `json:"write_limit"` // decimal bytes/s for NewListener; flag text (SizeSuffix) for Listen
	Ops        [][2]int64 `json:"ops"`
}

type xferCase struct {
	Kind       string `json:"kind"` // "xfer"
	Mode       string `json:"mode"` // "listener" | "stack" | "proxy-http" | "proxy-connect"
	ReadLimit  int64  `json:"read_limit"`
	WriteLimit int64  `json:"write_limit"`
	Conns      int    `json:"conns"`
	Chunk      int    `json:"chunk"`                // bytes per Read/Write call on the rate-limited side (listener mode)
	Millis     int    `json:"millis"`               // a throttled direction carries burst + limit·millis/1000 bytes
	DownBytes  int64  `json:"down_bytes,omitempty"` // explicit totals (0 = derived)
	UpBytes    int64  `json:"up_bytes,omitempty"`
	NoUp       bool   `json:"no_up,omitempty"`
	NoDown     bool   `json:"no_down,omitempty"`
	Seed       uint64 `json:"seed"`
	// deadline-armed ("timed") cases: the transfer is cut after Millis ms instead of carrying a fixed
	// total, the payload on offer is far above the bound, and what arrived must be a prefix of it.
	DeadlineMs     int    `json:"deadline_ms,omitempty"`      // listener mode: deadline armed this far ahead before EVERY Read/Write on the accepted connection
	DeadlineAPI    string `json:"deadline_api,omitempty"`     // "rw" = SetWriteDeadline / SetReadDeadline, "both" = SetDeadline
	WriteTimeoutMs int    `json:"write_timeout_ms,omitempty"` // proxy modes: HTTPProxyConfig.WriteTimeout (deadline on the whole response)
	ReadTimeoutMs  int    `json:"read_timeout_ms,omitempty"`  // proxy modes: HTTPProxyConfig.ReadTimeout (deadline on the whole request; stays armed in a tunnel)
	// lifecycle cases: while the transfers are in flight (every connection is moving data and CloseAtMs ms have
	// passed) the listener is closed (listener mode: ratelimit.Listener.Close) resp. the graceful shutdown is
	// started (proxy modes: Run's context is cancelled, --shutdown-timeout far beyond the transfer); the
	// transfers go on over the accepted connections and the same bound is judged on the whole of them.
	CloseAtMs int `json:"close_at_ms,omitempty"`
	// stacking (stack.go): mode "stack" drives forwarder.Listener with these layers around the limiter; the proxy
	// modes take ProxyProto (the proxy's listener expects a PROXY header, the clients send one of that version).
	ProxyProto string `json:"proxy_protocol,omitempty"` // "" = off | "v1" | "v2"
	TLS        bool   `json:"tls,omitempty"`
	Track      bool   `json:"track_traffic,omitempty"`
}

// timed = a case in which deadlines are armed on the rate-limited connections.
func (c xferCase) timed() bool {
	return c.DeadlineMs > 0 || c.WriteTimeoutMs > 0 || c.ReadTimeoutMs > 0
}

// ---- model access ----

func modelBurst(ctx *core.Ctx, r int64) int64 {
	v, err := strconv.ParseInt(ctx.Model.MustAsk("C20", "burst", strconv.FormatInt(r, 10)), 10, 64)
	if err != nil {
		core.Fatalf("C20: model burst answer unparsable")
	}
	return v
}

func encOps(ops [][2]int64) string {
	xs := make([]string, len(ops))
	for i, o := range ops {
		xs[i] = fmt.Sprintf("%d,%d", o[0], o[1])
	}
	return core.JoinList2(xs)
}

// modelReserve returns the model's waits (-1 = not ok) and final token level (token-ns).
func modelReserve(ctx *core.Ctx, r, b int64, ops [][2]int64) ([]int64, float64) {
	if len(ops) == 0 {
		return nil, float64(b) * 1e9
	}
	ans := ctx.Model.MustAsk("C20", "reserve", strconv.FormatInt(r, 10), strconv.FormatInt(b, 10), encOps(ops))
	f := strings.Fields(ans)
	if len(f) != 4 || f[0] != "ok" {
		core.Fatalf("C20: model reserve answer %q", ans)
	}
	var ws []int64
	for _, a := range core.SplitList(f[1]) {
		if a == "x" {
			ws = append(ws, -1)
			continue
		}
		v, err := strconv.ParseInt(a, 10, 64)
		if err != nil {
			core.Fatalf("C20: model wait %q", a)
		}
		ws = append(ws, v)
	}
	tok, _ := strconv.ParseFloat(f[2], 64)
	return ws, tok
}

// ---- (a) bucket arithmetic on explicit times ----

var epoch = time.Date(2024, 1, 1, 0, 0, 0, 0, time.UTC)

// implReserve drives a real limiter with ReserveN on explicit times.
func implReserve(lim *rate.Limiter, ops [][2]int64) (waits []int64, tokens float64, crash string) {
	defer func() {
		if p := recover(); p != nil {
			crash = fmt.Sprint(p)
		}
	}()
	var last time.Time
	for _, o := range ops {
		t := epoch.Add(time.Duration(o[0]))
		r := lim.ReserveN(t, int(o[1]))
		if !r.OK() {
			waits = append(waits, -1)
			continue
		}
		waits = append(waits, int64(r.DelayFrom(t)))
		last = t
	}
	if !last.IsZero() {
		tokens = lim.TokensAt(last) * 1e9
	} else {
		tokens = float64(lim.Burst()) * 1e9
	}
	return
}

func cmpWaits(impl, model []int64) (int, bool) {
	if len(impl) != len(model) {
		return -1, false
	}
	for i := range impl {
		if (impl[i] < 0) != (model[i] < 0) {
			return i, false
		}
		d := impl[i] - model[i]
		if d < -1000 || d > 1000 { // 1 µs
			return i, false
		}
	}
	return 0, true
}

func genOps(r *core.Rand, rt, burst int64, n int) [][2]int64 {
	var ops [][2]int64
	t := int64(r.Intn(1000))
	for i := 0; i < n; i++ {
		// time step: same instant, a few µs, about the time to earn a chunk, or a long idle period
		switch r.Intn(10) {
		case 0:
		case 1, 2:
			t += int64(r.Intn(5000))
		case 3, 4, 5, 6:
			t += int64(float64(r.Intn(200000)+1) / float64(rt) * 1e9)
		case 7:
			t += int64(r.Intn(2000)) * 1e6
		case 8:
			t += int64(float64(burst) / float64(rt) * 1e9 * float64(r.Intn(300)) / 100)
		default:
			// the clock of a caller that took its time stamp earlier than the previous one
			if back := int64(r.Intn(2000)); back <= t {
				t -= back
			}
		}
		var sz int64
		switch r.Intn(12) {
		case 0:
			sz = 0
		case 1:
			sz = 1
		case 2:
			sz = burst
		case 3:
			sz = burst + 1 + int64(r.Intn(1000)) // not ok
		case 4:
			sz = burst - int64(r.Intn(1000))
		case 5, 6:
			sz = int64(r.Intn(int(min64(burst, 1<<30)))) + 1
		default:
			sz = int64(r.Intn(int(min64(burst, 256*kib)))) + 1
		}
		if sz < 0 {
			sz = 0
		}
		ops = append(ops, [2]int64{t, sz})
	}
	return ops
}

func min64(a, b int64) int64 {
	if a < b {
		return a
	}
	return b
}

func checkReserve(ctx *core.Ctx, c reserveCase) {
	lim := rate.NewLimiter(rate.Limit(c.Rate), int(c.Burst))
	checkReserveOn(ctx, c, lim, c.Rate, c.Burst, c.Ops, "reserve")
}

func checkReserveOn(ctx *core.Ctx, cs any, lim *rate.Limiter, rt, burst int64, ops [][2]int64, tag string) {
	iw, itok, crash := implReserve(lim, ops)
	mw, mtok := modelReserve(ctx, rt, burst, ops)
	waited, refused := 0, 0
	for _, w := range mw {
		if w > 0 {
			waited++
		}
		if w < 0 {
			refused++
		}
	}
	ctx.Case(fmt.Sprintf("%s:%d:%d:%s", tag, rt, burst, encOps(ops)), waited > 0)
	ctx.Count(tag + "/ops=" + bucket(len(ops)))
	ctx.CountN(tag+"/op/waited", waited)
	ctx.CountN(tag+"/op/refused(n>burst)", refused)
	ctx.CountN(tag+"/op/immediate", len(mw)-waited-refused)
	if crash != "" {
		ctx.Crash("ReserveN never panics", "", cs, crash)
		return
	}
	if i, ok := cmpWaits(iw, mw); !ok {
		ctx.Disagree(fmt.Sprintf("rate.Limiter.ReserveN(t,n).DelayFrom(t) = Model.C20.reserveN ±1µs (first difference at op %d)", i), cs, fmt.Sprint(iw), fmt.Sprint(mw))
		return
	}
	// final token level: 1 µs worth of rate
	if math.Abs(itok-mtok) > float64(rt)*1000+1 {
		ctx.Disagree("rate.Limiter.TokensAt(last) = Model.C20 tokens ±1µs·R", cs, fmt.Sprint(itok), fmt.Sprint(mtok))
		return
	}
	ctx.TraceValidated()
}

func bucket(n int) string {
	switch {
	case n == 0:
		return "0"
	case n <= 4:
		return "1-4"
	case n <= 16:
		return "5-16"
	case n <= 64:
		return "17-64"
	default:
		return "65+"
	}
}

// ---- constructors: wiring, burst rule, sharing ----

var limiterPtrType = reflect.TypeOf((*rate.Limiter)(nil))

// limiterField reads an unexported *rate.Limiter field of a struct (ratelimit.Listener / ratelimit.Conn).
func limiterField(v reflect.Value, name string) (*rate.Limiter, bool) {
	if v.Kind() == reflect.Pointer {
		v = v.Elem()
	}
	if v.Kind() != reflect.Struct || !v.CanAddr() {
		return nil, false
	}
	f := v.FieldByName(name)
	if !f.IsValid() || f.Type() != limiterPtrType {
		return nil, false
	}
	p, _ := reflect.NewAt(f.Type(), unsafe.Pointer(f.UnsafeAddr())).Elem().Interface().(*rate.Limiter)
	return p, true
}

func limitersOf(x any) (rx, tx *rate.Limiter, ok bool) {
	defer func() {
		if recover() != nil {
			ok = false
		}
	}()
	v := reflect.ValueOf(x)
	rx, ok1 := limiterField(v, "rxLimiter")
	tx, ok2 := limiterField(v, "txLimiter")
	return rx, tx, ok1 && ok2
}

// connLimiters digs the *ratelimit.Conn out of what Accept returned (connfu wraps it in an anonymous
// struct whose first field is the net.Conn).
func connLimiters(c net.Conn) (rx, tx *rate.Limiter, ok bool) {
	defer func() {
		if recover() != nil {
			ok = false
		}
	}()
	var x any = c
	for depth := 0; depth < 4; depth++ {
		if rc, is := x.(*ratelimit.Conn); is {
			return limitersOf(rc)
		}
		v := reflect.ValueOf(x)
		if v.Kind() == reflect.Pointer {
			v = v.Elem()
		}
		if v.Kind() != reflect.Struct || v.NumField() == 0 {
			return nil, nil, false
		}
		f := v.Field(0)
		if !f.CanInterface() {
			return nil, nil, false
		}
		x = f.Interface()
	}
	return nil, nil, false
}

// innerListener reads forwarder.Listener's unexported `listener` field.
func innerListener(l *forwarder.Listener) (inner net.Listener, ok bool) {
	defer func() {
		if recover() != nil {
			ok = false
		}
	}()
	f := reflect.ValueOf(l).Elem().FieldByName("listener")
	if !f.IsValid() {
		return nil, false
	}
	inner, ok = reflect.NewAt(f.Type(), unsafe.Pointer(f.UnsafeAddr())).Elem().Interface().(net.Listener)
	return
}

func encLim(l *rate.Limiter) string {
	if l == nil {
		return "none"
	}
	lim := float64(l.Limit())
	if lim != math.Trunc(lim) || lim > 1e18 {
		return fmt.Sprintf("%v/%d", lim, l.Burst())
	}
	return fmt.Sprintf("%d/%d", int64(lim), l.Burst())
}

// the flag texts the Listen variant goes through (SizeSuffix.Set), with the bytes/s they denote
var sizeTexts = []struct {
	s string
	v int64
}{
	{"0", 0}, {"off", -1}, {"1Mi", mib}, {"1M", mib}, {"1MiB", mib}, {"2Mi", 2 * mib}, {"8MiB", 8 * mib}, {"1024", mib},
	{"512Ki", 512 * kib}, {"1.5Mi", 3 * mib / 2}, {"100B", 100}, {"1Gi", 1 << 30}, {"4G", 4 << 30}, {"300Mi", 300 * mib},
	{"0.5", 512}, {"1K", kib}, {"1Ti", 1 << 40},
}

func checkCtor(ctx *core.Ctx, c ctorCase) {
	var rl, wl int64
	ctx.Count("ctor/via/" + c.Via)
	if c.Via == "Listen" {
		// flag text → SizeSuffix (sizesuffix.go)
		for i, txt := range []string{c.ReadLimit, c.WriteLimit} {
			var ss forwarder.SizeSuffix
			if err := ss.Set(txt); err != nil {
				core.Fatalf("C20: size text %q of a ctor case does not parse: %v", txt, err)
			}
			want, known := int64(0), false
			for _, st := range sizeTexts {
				if st.s == txt {
					want, known = st.v, true
				}
			}
			if known && int64(ss) != want {
				ctx.Disagree("SizeSuffix.Set(text) = bytes per second (binary suffixes; bare number = KiB)", c, fmt.Sprint(int64(ss)), fmt.Sprint(want))
			}
			if i == 0 {
				rl = int64(ss)
			} else {
				wl = int64(ss)
			}
		}
	} else {
		rl, _ = strconv.ParseInt(c.ReadLimit, 10, 64)
		wl, _ = strconv.ParseInt(c.WriteLimit, 10, 64)
	}
	ans := strings.Fields(ctx.Model.MustAsk("C20", "wiring", strconv.FormatInt(rl, 10), strconv.FormatInt(wl, 10)))
	if len(ans) != 5 {
		core.Fatalf("C20: model wiring answer %v", ans)
	}
	mWrap, mRx, mTx := ans[0], ans[1], ans[2]
	ctx.Count(fmt.Sprintf("ctor/limits/read%s-write%s", sign(rl), sign(wl)))
	ctx.Case(fmt.Sprintf("ctor:%s:%d:%d", c.Via, rl, wl), rl > 0 || wl > 0)

	base, err := net.Listen("tcp", "127.0.0.1:0")
	if err != nil {
		core.Fatalf("C20: listen: %v", err)
	}
	var rlis *ratelimit.Listener
	var acceptor net.Listener
	wrapped := "1"
	switch c.Via {
	case "Listen":
		addr := base.Addr().String()
		base.Close()
		fl := &forwarder.Listener{ListenerConfig: *forwarder.DefaultListenerConfig(addr)}
		fl.ReadLimit, fl.WriteLimit = forwarder.SizeSuffix(rl), forwarder.SizeSuffix(wl)
		if err := fl.Listen(); err != nil {
			ctx.Count("ctor/listen-error")
			return // port raced away: nothing to compare
		}
		defer fl.Close()
		acceptor = fl
		inner, ok := innerListener(fl)
		if !ok {
			ctx.Count("ctor/reflect-unavailable")
			return
		}
		if x, is := inner.(*ratelimit.Listener); is {
			rlis = x
		} else {
			wrapped = "0"
		}
	default:
		rlis = ratelimit.NewListener(base, rl, wl)
		acceptor = rlis
		defer rlis.Close()
		mWrap, mRx, mTx = "1", ans[3], ans[4]
	}
	var rx, tx *rate.Limiter
	if rlis != nil {
		var ok bool
		rx, tx, ok = limitersOf(rlis)
		if !ok {
			ctx.Count("ctor/reflect-unavailable")
			return
		}
	}
	impl := fmt.Sprintf("%s %s %s", wrapped, encLim(rx), encLim(tx))
	model := fmt.Sprintf("%s %s %s", mWrap, mRx, mTx)
	if impl != model {
		ctx.Disagree("limiters after "+c.Via+" (wrapped rx=rate/burst tx=rate/burst) = Model.C20.newListener/listenWiring/burstOf", c, impl, model)
		// the property's own clauses on what the constructor built
		if (tx != nil) != (rl > 0) || (rx != nil) != (wl > 0) || (tx != nil && int64(tx.Limit()) != rl) || (rx != nil && int64(rx.Limit()) != wl) {
			ctx.SpecFail("the read limit throttles what clients read (proxy writes), the write limit what they write; limit 0 ⇒ no limiter", "", c, impl,
				fmt.Sprintf("read-limit=%d write-limit=%d gave rx=%s tx=%s", rl, wl, encLim(rx), encLim(tx)))
		}
		for _, l := range []*rate.Limiter{rx, tx} {
			// a limiter whose rate is not a positive byte count (infinite, negative) has failed the clause above
			// already; the burst rule is only defined on configured limits
			if l != nil && int64(l.Limit()) > 0 && int64(l.Burst()) != modelBurst(ctx, int64(l.Limit())) {
				ctx.SpecFail("the burst allowance is max(limit/64, 4 MiB)", "", c, impl,
					fmt.Sprintf("limit %d B/s got burst %d, the rule gives %d", int64(l.Limit()), l.Burst(), modelBurst(ctx, int64(l.Limit()))))
			}
		}
		return
	}
	// accepted connections share the listener's limiters
	if rlis != nil {
		shared, ok := sharedLimiters(acceptor, rx, tx)
		if !ok {
			ctx.Count("ctor/conn-reflect-unavailable")
		} else if !shared {
			ctx.Disagree("accepted connections hold the listener's own limiters (shared bucket)", c, "per-connection limiter", "shared")
			ctx.SpecFail("the bound holds summed over all connections of the listener (one bucket per direction)", "", c,
				"two accepted connections hold different limiter objects", "limiter per connection instead of per listener")
			return
		} else {
			ctx.Count("ctor/shared-checked")
		}
	}
	// drive the real limiters with the reserve chain
	for _, p := range []struct {
		l    *rate.Limiter
		name string
	}{{rx, "rx"}, {tx, "tx"}} {
		if p.l == nil || float64(p.l.Burst())/float64(p.l.Limit()) > 4096 {
			continue // (a tiny rate with a 4 MiB burst: float64 rounding of the library exceeds the 1 µs tolerance)
		}
		checkReserveOn(ctx, c, p.l, int64(p.l.Limit()), int64(p.l.Burst()), c.Ops, "ctor-reserve/"+p.name)
	}
	ctx.TraceValidated()
}

func sign(v int64) string {
	switch {
	case v < 0:
		return "<0"
	case v == 0:
		return "=0"
	default:
		return ">0"
	}
}

// sharedLimiters accepts two loopback connections and compares the limiter objects they hold with
// the listener's.
func sharedLimiters(l net.Listener, rx, tx *rate.Limiter) (shared, ok bool) {
	var conns []net.Conn
	defer func() {
		for _, c := range conns {
			c.Close()
		}
	}()
	shared = true
	for i := 0; i < 2; i++ {
		cc, err := net.DialTimeout("tcp", l.Addr().String(), 5*time.Second)
		if err != nil {
			return false, false
		}
		conns = append(conns, cc)
		if tl, is := l.(interface{ SetDeadline(time.Time) error }); is {
			tl.SetDeadline(time.Now().Add(5 * time.Second))
		}
		sc, err := l.Accept()
		if err != nil {
			return false, false
		}
		conns = append(conns, sc)
		crx, ctx_, found := connLimiters(sc)
		if !found {
			return false, false
		}
		if crx != rx || ctx_ != tx {
			shared = false
		}
	}
	return shared, true
}

// ---- Run / Replay ----

var limitSet = []int64{0, 1 * mib, 2 * mib, 8 * mib}

func Run(ctx *core.Ctx) {
	ctx.SetRule("(a) ReserveN chains of 1-120 ops on explicit times (same instant / µs steps / chunk-earning steps / idle periods / backward clock; sizes 0, 1, around the burst, above it) " +
		"on limiters with rates 1 B/s-100 GiB/s, compared op by op with the integer model (±1 µs); non-trivial = some op had to wait. " +
		"(b) constructor cases (ratelimit.NewListener, forwarder.Listener.Listen with SizeSuffix flag texts): limiter presence/rate/burst/sharing vs. the model's wiring; non-trivial = some limit > 0. " +
		"(c) wall-clock transfers on loopback (ratelimit.NewListener; full proxy with plain requests and CONNECT tunnels) for limit pairs from {0,1,2,8 MiB/s}, 1-4 connections, both directions at once: " +
		"cumulative bytes by every observation time t ≤ B + k·w + R·t, unthrottled direction < 1.5 s, hashes equal; non-trivial = some direction throttled. " +
		"(d) the same bound with deadlines armed on the rate-limited connections: 8-32 connections of one ratelimit.NewListener (and a single one with 256 KiB calls) moving 32 KiB pieces at 256 KiB/s-1 MiB/s for ~2 s, " +
		"SetWriteDeadline / SetReadDeadline / SetDeadline 200-400 ms ahead re-armed before every call; the full proxy with WriteTimeout (24-32 concurrent downloads) and ReadTimeout (8-16 concurrent uploads; tunnels in the thorough tier); " +
		"the payload on offer exceeds the bound by 16 MiB, the transfer is cut after ~2 s, what arrived is a prefix of what was sent. " +
		"(e) full-duplex cases (always non-trivial: both limits set): one connection of ratelimit.NewListener / one CONNECT tunnel through the full proxy, 64 KiB/s against 1 GiB/s in both orders and moderate pairs (256 KiB/s-2 MiB/s against 8-64 MiB/s); " +
		"the slow direction has used up its burst and sits in its limiter's wait while 10-14 MiB (or burst + 0.4-0.8 s of rate) are timed in the other direction against a control run with the slow direction idle: " +
		"allowed = the model's own-limit time + 6 × the control's excess + 400 ms, a shortfall must repeat in 3 attempts; hashes equal. " +
		"(f) lifecycle cases: transfers of burst + ≥ 3 s of rate in flight when ratelimit.Listener.Close is called (1-3 accepted connections) resp. the graceful shutdown of forwarder.HTTPProxy starts " +
		"(Run's context cancelled 300-700 ms after the start, once every connection is moving data; shutdown timeout 10 min; downloads + uploads, tunnels): the bound of (c) over the whole transfer, " +
		"single-connection call trace against the model's history with the lifecycle event in place. " +
		"(g) stacking cases: the clauses of (c) through forwarder.Listener (Listen/Accept) in every stacking: {plain, TLS} x {PROXY protocol off, v1 header, v2 header} x {traffic tracking off, on} x " +
		"{read limit only, write limit only, both} (36 per round, 1-3 connections, 16-64 KiB calls, limits 1-2 MiB/s, thorough also 512 KiB/s and 8 MiB/s), each throttled direction carrying burst + 0.8-1.2 s of rate " +
		"(thorough 1.5-3 s), an unthrottled one burst + 3 s of the other direction's rate; downloads judged on the raw bytes the client's socket delivers (below TLS, handshake done before the clock starts), uploads on the payload " +
		"the accepted connection hands over (above TLS); w = the chunk (plain) or 64 KiB (TLS: the calls are crypto/tls's); which limiters the connection carries is the model's answer for the stack (verb stackwiring); " +
		"plus the full proxy started with a PROXY-protocol listener (plain requests and tunnels, v1 and v2 clients, read / write / both limits). " +
		"(h) blocked next to busy (stall cases): on one ratelimit.NewListener (and through CONNECT tunnels of the full proxy) 2-3 saturated connections plus 3-5 whose peer is scripted to stall - upload: the client sends nothing for 50-400 ms, " +
		"then one 1-16 KiB segment (the limited side's Read sits blocked); download: the client (4 KiB socket buffers) takes nothing for that long, then one 16 KiB segment (the limited side's Write sits blocked) - for 2.2-2.8 s at 1-8 MiB/s, " +
		"both directions; the bound of (c) summed over all connections of the listener (k = all of them), what arrives is the repeated block that was sent; non-trivial = at least 8 segments passed after a pause and the saturated " +
		"connections moved the burst + half of what the rate gives (the bucket was empty). distinct = distinct canonical inputs")
	ctx.Assume("golang.org/x/time/rate v0.12.0 is trusted; its reserve arithmetic is the modelled fact (float64 there, exact integers in the model; compared ±1 µs)")
	ctx.Assume("wall-clock behaviour (timers, scheduler, kernel socket buffers) is sampled, not proved: only one-sided bounds are asserted; the model treats a call's I/O as atomic at one instant and calls as reaching the limiter in time order")
	ctx.Assume("jitter: concurrent WaitN callers reach the bucket with time stamps out of order and x/time/rate credits every backward step twice (c20_throughput_bound_jitter_partial states the bound with that term); it cannot be observed from outside, the wall-clock bound allows 20 ms + 3 % of the elapsed time for it")
	for _, c := range core.LoadCorpus(ctx.Root, "C20") {
		Replay(ctx, c)
	}

	// (a) arithmetic
	nRes := ctx.N(1500, 40000)
	for i := 0; i < nRes; i++ {
		r := ctx.Rng.Sub()
		var rt, burst int64
		switch r.Intn(6) {
		case 0:
			rt = core.Pick(r, limitSet[1:])
			burst = modelBurst(ctx, rt)
		case 1:
			rt = int64(r.Intn(1<<20)) + 1
			burst = int64(r.Intn(1<<16)) + 1
		case 2:
			rt = int64(r.Intn(1<<30)) + 1024 // burst/rate ≤ 4096 s keeps float64 rounding far below 1 µs
			burst = modelBurst(ctx, rt)
		case 3:
			rt = (int64(r.Intn(100)) + 1) << 30 // up to 100 GiB/s: burst scales with the rate
			burst = modelBurst(ctx, rt)
		case 4:
			rt = int64(r.Intn(100)) + 1
			burst = int64(r.Intn(50)) + 1
		default:
			rt = int64(r.Intn(64*mib)) + 4096
			burst = int64(r.Intn(8*mib)) + 1
		}
		c := reserveCase{Kind: "reserve", Rate: rt, Burst: burst, Ops: genOps(r, rt, burst, r.Range(1, 120))}
		checkReserve(ctx, c)
		if i < 1 {
			ctx.Sample(c)
		}
	}

	// (b) constructors
	nCtor := ctx.N(120, 1500)
	for i := 0; i < nCtor; i++ {
		r := ctx.Rng.Sub()
		c := ctorCase{Kind: "ctor"}
		if r.Chance(50) {
			c.Via = "Listen"
			c.ReadLimit = core.Pick(r, sizeTexts).s
			c.WriteLimit = core.Pick(r, sizeTexts).s
		} else {
			c.Via = "NewListener"
			gen := func() int64 {
				switch r.Intn(8) {
				case 0:
					return 0
				case 1:
					return -int64(r.Intn(5)) - 1
				case 2:
					return core.Pick(r, limitSet)
				case 3:
					return int64(r.Intn(1 << 40))
				case 4:
					return 64*4*mib + int64(r.Intn(200)) - 100 // where the burst starts to scale
				default:
					return int64(r.Intn(1<<32)) + 1
				}
			}
			c.ReadLimit, c.WriteLimit = strconv.FormatInt(gen(), 10), strconv.FormatInt(gen(), 10)
		}
		c.Ops = genOps(r, 8*mib, 4*mib, r.Range(1, 40))
		checkCtor(ctx, c)
		if i < 1 {
			ctx.Sample(c)
		}
	}

	// (i) the text of a limit: what number SizeSuffix.Set reads out of it
	for i, n := 0, ctx.N(800, 8000); i < n; i++ {
		sc := genSize(ctx.Rng.Sub())
		checkSize(ctx, sc)
		if i == 0 {
			ctx.Sample(sc)
		}
	}

	// (c) wall clock; (e) the full-duplex cases run beside them
	xfers := genXfers(ctx)
	duplex := genDuplex(ctx, ctx.Rng.Sub())
	stack := genStack(ctx, ctx.Rng.Sub()) // (g) the stacking cases: a pool of their own beside the others
	stalls := genStall(ctx, ctx.Rng.Sub()) // (h) blocked next to busy: a pool of their own as well
	var dwg sync.WaitGroup
	dwg.Add(3)
	go func() { defer dwg.Done(); runStalls(ctx, stalls) }()
	go func() { defer dwg.Done(); runDuplex(ctx, duplex) }()
	go func() { defer dwg.Done(); runXfers(ctx, stack) }()
	runXfers(ctx, xfers)
	dwg.Wait()
}

func Replay(ctx *core.Ctx, raw json.RawMessage) {
	var k struct {
		Kind string `json:"kind"`
	}
	json.Unmarshal(raw, &k)
	switch k.Kind {
	case "reserve":
		var c reserveCase
		json.Unmarshal(raw, &c)
		if c.Rate <= 0 {
			core.Fatalf("C20: reserve case without a positive rate")
		}
		checkReserve(ctx, c)
	case "ctor":
		var c ctorCase
		json.Unmarshal(raw, &c)
		checkCtor(ctx, c)
	case "size":
		var c sizeCase
		json.Unmarshal(raw, &c)
		checkSize(ctx, c)
	case "xfer":
		var c xferCase
		json.Unmarshal(raw, &c)
		checkXfer(ctx, c)
	case "duplex":
		var c duplexCase
		json.Unmarshal(raw, &c)
		checkDuplex(ctx, c)
	case "stall":
		var c stallCase
		json.Unmarshal(raw, &c)
		checkStall(ctx, c)
	default:
		core.Fatalf("C20: unknown case kind %q", k.Kind)
	}
}
