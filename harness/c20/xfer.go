package c20

import (
	"bufio"
	"bytes"
	"context"
	"crypto/sha256"
	"encoding/binary"
	"fmt"
	"io"
	"net"
	"net/http"
	"net/url"
	"sort"
	"strconv"
	"strings"
	"sync"
	"sync/atomic"
	"time"

	"github.com/saucelabs/forwarder"
	fwdlog "github.com/saucelabs/forwarder/log"
	"github.com/saucelabs/forwarder/ratelimit"
	"github.com/saucelabs/forwarder/verifharness/core"
)

const (
	proxyCallBound = 128 * kib               // bound on one Read/Write of the proxy on a client connection (32 KiB copy buffers, 4 KiB bufio)
	fastLimit      = 1500 * time.Millisecond // an unthrottled direction must finish within this
)

type ev struct {
	t int64 // ns since the transfer started
	n int
}

type call struct {
	start, ret int64 // ns since base (taken before the listener was created)
	n          int
}

// dirState is one direction of a transfer case, summed over its connections.
type dirState struct {
	name    string // "down" (proxy → client, tx limiter, read limit) | "up" (client → proxy, rx limiter, write limit)
	limit   int64
	burst   int64
	total   int64
	per     []int64
	payload [][]byte
	want    [][32]byte

	mu      sync.Mutex
	evs     []ev
	calls   []call
	errs    []string
	gotN    []int64
	gotHash [][32]byte
	short   string
	last    atomic.Int64 // ns since start of the last byte observed

	// connection i has delivered its first bytes (it is being served)
	first []atomic.Bool

	// timed cases
	sent     []atomic.Int64 // bytes connection i's writer has handed to Write (and Write accepted) so far
	wdone    []atomic.Bool  // connection i's writer has stopped
	mismatch string         // first batch that was not the next piece of the payload
	timeouts atomic.Int64   // calls on the rate-limited side that ran into their own deadline (retried)
}

func (d *dirState) errf(format string, a ...any) {
	d.mu.Lock()
	if len(d.errs) < 8 {
		d.errs = append(d.errs, fmt.Sprintf(format, a...))
	}
	d.mu.Unlock()
}

func fillPayload(seed uint64, n int64) []byte {
	b := make([]byte, n)
	r := core.NewRand(seed)
	i := 0
	for ; i+8 <= len(b); i += 8 {
		binary.LittleEndian.PutUint64(b[i:], r.U64())
	}
	if i < len(b) {
		var t [8]byte
		binary.LittleEndian.PutUint64(t[:], r.U64())
		copy(b[i:], t[:])
	}
	return b
}

func planDir(ctx *core.Ctx, name string, limit, other int64, c xferCase, explicit int64, k int) *dirState {
	d := &dirState{name: name, limit: limit}
	switch {
	case explicit > 0:
		d.total = explicit
	case limit > 0 && c.timed():
		// on offer: everything the bound allows by the time the transfer is cut, and 16 MiB more
		kk, ww := kwOf(c)
		d.total = modelBurst(ctx, limit) + int64(kk)*int64(ww) + limit*int64(c.Millis)/1000 + 16*mib
	case limit > 0:
		d.total = modelBurst(ctx, limit) + limit*int64(c.Millis)/1000
	case other > 0:
		d.total = modelBurst(ctx, other) + other*3 // would take ≥ 3 s minus k·w/R if the limits were crossed
	default:
		d.total = 16 * mib
	}
	if limit > 0 {
		d.burst = modelBurst(ctx, limit)
	}
	d.per = make([]int64, k)
	d.payload = make([][]byte, k)
	d.want = make([][32]byte, k)
	d.gotN = make([]int64, k)
	d.gotHash = make([][32]byte, k)
	d.sent = make([]atomic.Int64, k)
	d.first = make([]atomic.Bool, k)
	d.wdone = make([]atomic.Bool, k)
	for i := 0; i < k; i++ {
		d.per[i] = d.total / int64(k)
		if i == 0 {
			d.per[i] += d.total % int64(k)
		}
		tag := uint64(1)
		if name == "up" {
			tag = 2
		}
		d.payload[i] = fillPayload(c.Seed^(tag<<56)^(uint64(i)<<48), d.per[i])
		d.want[i] = sha256.Sum256(d.payload[i])
	}
	return d
}

// writerLoop writes payload in chunks. limited = this is the rate-limited side (record the calls and
// hold Write to the io.Writer contract of the underlying TCP connection).
func writerLoop(d *dirState, w io.Writer, payload []byte, chunk int, base time.Time, limited, record bool) {
	for off := 0; off < len(payload); {
		end := off + chunk
		if end > len(payload) {
			end = len(payload)
		}
		t0 := time.Since(base)
		n, err := w.Write(payload[off:end])
		t1 := time.Since(base)
		if record && n > 0 {
			d.mu.Lock()
			d.calls = append(d.calls, call{int64(t0), int64(t1), n})
			d.mu.Unlock()
		}
		if limited && err == nil && n != end-off {
			d.mu.Lock()
			if d.short == "" {
				d.short = fmt.Sprintf("Write(%d bytes) returned n=%d, err=nil", end-off, n)
			}
			d.mu.Unlock()
		}
		if n < 0 || n > end-off {
			d.errf("%s writer: Write returned n=%d for %d bytes", d.name, n, end-off)
			return
		}
		off += n
		if err != nil {
			d.errf("%s writer: %v after %d bytes", d.name, err, off)
			return
		}
		if n == 0 {
			d.errf("%s writer: Write returned 0, nil", d.name)
			return
		}
	}
}

// readerLoop reads exactly want bytes (or until an error), hashing and recording the observation
// time of every batch.
func readerLoop(d *dirState, idx int, r io.Reader, want int64, bufSize int, start, base time.Time, record bool) {
	h := sha256.New()
	buf := make([]byte, bufSize)
	var got int64
	for got < want {
		lim := int64(len(buf))
		if want-got < lim {
			lim = want - got
		}
		t0 := time.Since(base)
		n, err := r.Read(buf[:lim])
		t1 := time.Since(base)
		if n > 0 {
			if got == 0 && idx < len(d.first) {
				d.first[idx].Store(true)
			}
			h.Write(buf[:n])
			got += int64(n)
			ts := int64(time.Since(start))
			d.mu.Lock()
			d.evs = append(d.evs, ev{ts, n})
			if record {
				d.calls = append(d.calls, call{int64(t0), int64(t1), n})
			}
			d.mu.Unlock()
			for {
				old := d.last.Load()
				if ts <= old || d.last.CompareAndSwap(old, ts) {
					break
				}
			}
		}
		if err != nil {
			if !(err == io.EOF && got == want) {
				d.errf("%s reader %d: %v after %d of %d bytes", d.name, idx, err, got, want)
			}
			break
		}
	}
	d.mu.Lock()
	d.gotN[idx] = got
	copy(d.gotHash[idx][:], h.Sum(nil))
	d.mu.Unlock()
}

type xferRun struct {
	c        xferCase
	down, up *dirState
	k, w     int // connections making calls per direction, bound on one call
	base     time.Time
	start    time.Time
	mu       sync.Mutex
	fatal    string // the rig could not be set up (not a verdict)
	crash    string
	closedAt atomic.Int64 // lifecycle cases: ns since base at which the listener was closed / the shutdown started (0 = not yet)
}

// whenInFlight runs f once every connection of every running direction has delivered data and
// c.CloseAtMs ms have passed since the start (at the latest 5 s after the start), unless stop is closed first.
func (r *xferRun) whenInFlight(stop <-chan struct{}, f func()) {
	at := r.start.Add(time.Duration(r.c.CloseAtMs) * time.Millisecond)
	latest := r.start.Add(5 * time.Second)
	for {
		select {
		case <-stop:
			return
		case <-time.After(2 * time.Millisecond):
		}
		now := time.Now()
		if now.Before(at) {
			continue
		}
		served := true
		for _, d := range []*dirState{r.down, r.up} {
			if d == nil {
				continue
			}
			for i := range d.first {
				served = served && d.first[i].Load()
			}
		}
		if served || now.After(latest) {
			r.closedAt.Store(int64(time.Since(r.base)))
			f()
			return
		}
	}
}

func (r *xferRun) setFatal(s string) {
	r.mu.Lock()
	if r.fatal == "" {
		r.fatal = s
	}
	r.mu.Unlock()
}

func (r *xferRun) setCrash(s string) {
	r.mu.Lock()
	if r.crash == "" {
		r.crash = s
	}
	r.mu.Unlock()
}

func maxDur(c xferCase) time.Duration {
	return time.Duration(c.Millis)*time.Millisecond*3 + 10*time.Second
}

// ---- mode "listener": the harness is the server on the accepted rate-limited connections ----

func runListenerMode(run *xferRun) {
	c := run.c
	run.base = time.Now()
	ln, err := net.Listen("tcp", "127.0.0.1:0")
	if err != nil {
		run.setFatal(err.Error())
		return
	}
	rl := ratelimit.NewListener(ln, c.ReadLimit, c.WriteLimit)
	defer rl.Close()
	var cc, sc []net.Conn
	defer func() {
		for _, x := range cc {
			x.Close()
		}
		for _, x := range sc {
			x.Close()
		}
	}()
	for i := 0; i < c.Conns; i++ {
		a, err := net.DialTimeout("tcp", ln.Addr().String(), 5*time.Second)
		if err != nil {
			run.setFatal(err.Error())
			return
		}
		cc = append(cc, a)
		b, err := rl.Accept()
		if err != nil {
			run.setFatal(err.Error())
			return
		}
		sc = append(sc, b)
	}
	dl := time.Now().Add(maxDur(c))
	for i := range cc {
		cc[i].SetDeadline(dl)
		sc[i].SetDeadline(dl)
	}
	var wg sync.WaitGroup
	goSafe := func(f func()) {
		wg.Add(1)
		go func() {
			defer wg.Done()
			defer func() {
				if p := recover(); p != nil {
					run.setCrash(fmt.Sprint(p))
				}
			}()
			f()
		}()
	}
	if c.timed() {
		runListenerTimed(run, cc, sc, goSafe)
		wg.Wait()
		return
	}
	single := c.Conns == 1
	var writers sync.WaitGroup
	goWriter := func(f func()) {
		writers.Add(1)
		goSafe(func() { defer writers.Done(); f() })
	}
	run.start = time.Now()
	if c.CloseAtMs > 0 {
		// the LISTENER is closed while its accepted connections go on moving data
		stopClose := make(chan struct{})
		defer close(stopClose)
		go run.whenInFlight(stopClose, func() { rl.Close() })
	}
	for i := 0; i < c.Conns; i++ {
		i := i
		if run.down != nil {
			goWriter(func() { writerLoop(run.down, sc[i], run.down.payload[i], c.Chunk, run.base, true, single) })
			goSafe(func() { readerLoop(run.down, i, cc[i], run.down.per[i], 256*kib, run.start, run.base, false) })
		}
		if run.up != nil {
			goWriter(func() { writerLoop(run.up, cc[i], run.up.payload[i], 256*kib, run.base, false, false) })
			goSafe(func() { readerLoop(run.up, i, sc[i], run.up.per[i], c.Chunk, run.start, run.base, single) })
		}
	}
	// once every writer is done the readers only have socket buffers (and their own waits) left:
	// bytes still missing a while later were lost; cut the wait short
	all := make(chan struct{})
	go func() {
		writers.Wait()
		select {
		case <-all:
		case <-time.After(time.Duration(c.Millis)*time.Millisecond + 5*time.Second):
			past := time.Now().Add(-time.Second)
			for i := range cc {
				cc[i].SetDeadline(past)
				sc[i].SetDeadline(past)
			}
		}
	}()
	wg.Wait()
	close(all)
}

// ---- proxy modes ----

type origin struct {
	run  *xferRun
	raw  net.Listener
	http *http.Server
	hl   net.Listener
	wg   sync.WaitGroup
}

func startOrigin(run *xferRun) (*origin, error) {
	o := &origin{run: run}
	var err error
	if o.raw, err = net.Listen("tcp", "127.0.0.1:0"); err != nil {
		return nil, err
	}
	if o.hl, err = net.Listen("tcp", "127.0.0.1:0"); err != nil {
		o.raw.Close()
		return nil, err
	}
	go func() {
		for {
			conn, err := o.raw.Accept()
			if err != nil {
				return
			}
			o.wg.Add(1)
			go func() {
				defer o.wg.Done()
				defer conn.Close()
				defer func() { recover() }()
				conn.SetDeadline(time.Now().Add(maxDur(run.c)))
				var hdr [4]byte
				if _, err := io.ReadFull(conn, hdr[:]); err != nil {
					return
				}
				i := int(binary.BigEndian.Uint32(hdr[:]))
				if i < 0 || i >= run.c.Conns {
					return
				}
				var w sync.WaitGroup
				if run.c.timed() {
					// (the proxy cuts the tunnel at its timeout: errors end the loops silently)
					if run.down != nil {
						w.Add(1)
						go func() { defer w.Done(); timedSource(run.down, i, conn, run.base) }()
					}
					if run.up != nil {
						timedSink(run.up, i, conn, run.start, run.base)
					}
					w.Wait()
					io.Copy(io.Discard, conn)
					return
				}
				if run.down != nil {
					w.Add(1)
					go func() {
						defer w.Done()
						writerLoop(run.down, conn, run.down.payload[i], 64*kib, run.base, false, false)
					}()
				}
				if run.up != nil {
					readerLoop(run.up, i, conn, run.up.per[i], 64*kib, run.start, run.base, false)
				}
				w.Wait()
				// keep the tunnel open until the client has everything (it closes first)
				io.Copy(io.Discard, conn)
			}()
		}
	}()
	mux := http.NewServeMux()
	mux.HandleFunc("/down/", func(w http.ResponseWriter, r *http.Request) {
		i, err := strconv.Atoi(strings.TrimPrefix(r.URL.Path, "/down/"))
		if err != nil || i < 0 || i >= run.c.Conns || run.down == nil {
			http.Error(w, "bad", 400)
			return
		}
		w.Header().Set("Content-Type", "application/octet-stream")
		w.Header().Set("Content-Length", strconv.FormatInt(run.down.per[i], 10))
		if run.c.timed() {
			timedSource(run.down, i, w, run.base)
			return
		}
		writerLoop(run.down, w, run.down.payload[i], 64*kib, run.base, false, false)
	})
	mux.HandleFunc("/up/", func(w http.ResponseWriter, r *http.Request) {
		i, err := strconv.Atoi(strings.TrimPrefix(r.URL.Path, "/up/"))
		if err != nil || i < 0 || i >= run.c.Conns || run.up == nil {
			http.Error(w, "bad", 400)
			return
		}
		if run.c.timed() {
			timedSink(run.up, i, r.Body, run.start, run.base)
			io.WriteString(w, "ok")
			return
		}
		readerLoop(run.up, i, r.Body, run.up.per[i], 64*kib, run.start, run.base, false)
		io.WriteString(w, "ok")
	})
	o.http = &http.Server{Handler: mux}
	go o.http.Serve(o.hl)
	return o, nil
}

func (o *origin) stop() {
	o.raw.Close()
	o.http.Close()
}

func runProxyMode(run *xferRun) {
	c := run.c
	run.base = time.Now()
	cfg := forwarder.DefaultHTTPProxyConfig()
	cfg.Address = "127.0.0.1:0"
	cfg.ReadLimit = forwarder.SizeSuffix(c.ReadLimit)
	cfg.WriteLimit = forwarder.SizeSuffix(c.WriteLimit)
	cfg.ProxyLocalhost = forwarder.AllowProxyLocalhost
	cfg.WriteTimeout = time.Duration(c.WriteTimeoutMs) * time.Millisecond
	cfg.ReadTimeout = time.Duration(c.ReadTimeoutMs) * time.Millisecond
	if c.CloseAtMs > 0 {
		cfg.ShutdownTimeout = 10 * time.Minute // the drain outlasts every transfer
	}
	if c.ProxyProto != "" {
		cfg.ProxyProtocolConfig = &forwarder.ProxyProtocolConfig{ReadHeaderTimeout: 5 * time.Second} // --proxy-protocol-listener
	}
	p, err := forwarder.NewHTTPProxy(cfg, nil, nil, nil, fwdlog.NopLogger, nil)
	if err != nil {
		run.setFatal("NewHTTPProxy: " + err.Error())
		return
	}
	pctx, cancel := context.WithCancel(context.Background())
	done := make(chan struct{})
	go func() { defer close(done); p.Run(pctx) }()
	defer func() {
		cancel()
		p.Close()
		select {
		case <-done:
		case <-time.After(3 * time.Second):
		}
	}()
	addrs, ok := p.Addr()
	if !ok || len(addrs) == 0 {
		run.setFatal("proxy has no address")
		return
	}
	paddr := addrs[0]
	var ppSeq atomic.Int64
	// dialProxy: a client connection to the proxy; behind a PROXY-protocol listener it announces itself first
	dialProxy := func(ctx context.Context) (net.Conn, error) {
		conn, err := (&net.Dialer{Timeout: 5 * time.Second}).DialContext(ctx, "tcp", paddr)
		if err != nil {
			return nil, err
		}
		if h := proxyHeader(c.ProxyProto, int(ppSeq.Add(1))); len(h) > 0 {
			if _, err := conn.Write(h); err != nil {
				conn.Close()
				return nil, err
			}
		}
		return conn, nil
	}
	o, err := startOrigin(run)
	if err != nil {
		run.setFatal(err.Error())
		return
	}
	defer o.stop()

	var wg sync.WaitGroup
	goSafe := func(f func()) {
		wg.Add(1)
		go func() {
			defer wg.Done()
			defer func() {
				if p := recover(); p != nil {
					run.setCrash(fmt.Sprint(p))
				}
			}()
			f()
		}()
	}
	run.start = time.Now()
	if c.CloseAtMs > 0 {
		// graceful shutdown (Run's context is cancelled: the listeners are closed first, then the connections
		// are drained) while the transfers are in flight
		stopClose := make(chan struct{})
		defer close(stopClose)
		go run.whenInFlight(stopClose, cancel)
	}
	switch c.Mode {
	case "proxy-connect":
		for i := 0; i < c.Conns; i++ {
			i := i
			goSafe(func() {
				conn, err := dialProxy(context.Background())
				if err != nil {
					run.setFatal(err.Error())
					return
				}
				defer conn.Close()
				conn.SetDeadline(time.Now().Add(maxDur(c)))
				target := o.raw.Addr().String()
				fmt.Fprintf(conn, "CONNECT %s HTTP/1.1\r\nHost: %s\r\n\r\n", target, target)
				br := bufio.NewReaderSize(conn, 64*kib)
				resp, err := http.ReadResponse(br, &http.Request{Method: "CONNECT"})
				if err != nil || resp.StatusCode != 200 {
					st := ""
					if resp != nil {
						st = resp.Status
					}
					run.setFatal(fmt.Sprintf("CONNECT through the proxy failed: %v %s", err, st))
					return
				}
				var hdr [4]byte
				binary.BigEndian.PutUint32(hdr[:], uint32(i))
				if _, err := conn.Write(hdr[:]); err != nil {
					run.setFatal(err.Error())
					return
				}
				var w sync.WaitGroup
				if c.timed() {
					if run.up != nil {
						w.Add(1)
						go func() { defer w.Done(); timedSource(run.up, i, conn, run.base) }()
					}
					if run.down != nil {
						timedSink(run.down, i, br, run.start, run.base)
					}
					w.Wait()
					// the proxy ends the tunnel at its timeout
					io.Copy(io.Discard, br)
					return
				}
				if run.up != nil {
					w.Add(1)
					go func() {
						defer w.Done()
						writerLoop(run.up, conn, run.up.payload[i], 64*kib, run.base, false, false)
					}()
				}
				if run.down != nil {
					readerLoop(run.down, i, br, run.down.per[i], 64*kib, run.start, run.base, false)
				}
				w.Wait()
				// the origin has counted the upload when its reader is done
				if run.up != nil {
					waitUntil(func() bool {
						run.up.mu.Lock()
						defer run.up.mu.Unlock()
						return run.up.gotN[i] >= run.up.per[i] || len(run.up.errs) > 0
					}, maxDur(c))
				}
			})
		}
	default: // proxy-http
		pu, _ := url.Parse("http://" + paddr)
		newClient := func() *http.Client {
			tr := &http.Transport{
				Proxy:              http.ProxyURL(pu),
				DisableKeepAlives:  true,
				DisableCompression: true,
			}
			if c.ProxyProto != "" {
				tr.DialContext = func(ctx context.Context, _, _ string) (net.Conn, error) { return dialProxy(ctx) }
			}
			return &http.Client{Timeout: maxDur(c), Transport: tr}
		}
		for i := 0; i < c.Conns; i++ {
			i := i
			if run.down != nil {
				goSafe(func() {
					resp, err := newClient().Get(fmt.Sprintf("http://%s/down/%d", o.hl.Addr().String(), i))
					if err != nil {
						if !c.timed() { // (timed: a download the proxy cut before its head arrived carries no data)
							run.down.errf("GET through the proxy: %v", err)
						}
						return
					}
					defer resp.Body.Close()
					if resp.StatusCode != 200 {
						run.setFatal("GET through the proxy: " + resp.Status)
						return
					}
					if c.timed() {
						timedSink(run.down, i, resp.Body, run.start, run.base)
						return
					}
					readerLoop(run.down, i, resp.Body, run.down.per[i], 64*kib, run.start, run.base, false)
				})
			}
			if run.up != nil {
				goSafe(func() {
					req, _ := http.NewRequest("POST", fmt.Sprintf("http://%s/up/%d", o.hl.Addr().String(), i), bytes.NewReader(run.up.payload[i]))
					req.ContentLength = run.up.per[i]
					resp, err := newClient().Do(req)
					if err != nil {
						if !c.timed() { // (timed: the proxy gives the upload up at its read timeout)
							run.up.errf("POST through the proxy: %v", err)
						}
						return
					}
					io.Copy(io.Discard, resp.Body)
					resp.Body.Close()
					if resp.StatusCode != 200 && !c.timed() {
						run.setFatal("POST through the proxy: " + resp.Status)
					}
				})
			}
		}
	}
	wg.Wait()
}

func waitUntil(f func() bool, d time.Duration) {
	end := time.Now().Add(d)
	for !f() && time.Now().Before(end) {
		time.Sleep(2 * time.Millisecond)
	}
}

// ---- evaluation ----

func knownClassXfer(ctx *core.Ctx, c xferCase, d *dirState) string {
	// decided from the input alone: a single call on the rate-limited side larger than the burst
	if c.Mode == "listener" && d.limit > 0 && int64(c.Chunk) > d.burst {
		return "call-exceeds-burst"
	}
	return ""
}

func evalDir(ctx *core.Ctx, run *xferRun, d *dirState) {
	c := run.c
	class := knownClassXfer(ctx, c, d)
	label := fmt.Sprintf("xfer/%s/%s/", c.Mode, d.name)
	throttled := d.limit > 0
	if throttled {
		ctx.Count(label + "throttled@" + strconv.FormatInt(d.limit/mib, 10) + "MiB/s")
	} else {
		ctx.Count(label + "unthrottled")
	}
	// data path
	if c.timed() {
		if !evalTimedData(ctx, run, d) {
			return
		}
	} else if d.short != "" {
		ctx.SpecFail("Conn.Write returns the underlying call's results unchanged", "", c, d.short, "short count without an error on a TCP connection")
	}
	okData := len(d.errs) == 0
	for i := range d.per {
		if !c.timed() && (d.gotN[i] != d.per[i] || d.gotHash[i] != d.want[i]) {
			okData = false
		}
	}
	if !okData {
		var got int64
		for _, n := range d.gotN {
			got += n
		}
		ctx.SpecFail("throttled transfers deliver exactly the bytes that were sent ("+d.name+")", "", c,
			fmt.Sprintf("received %d of %d bytes; hashes equal per connection: %v; errors: %v", got, d.total, hashEq(d), d.errs), "byte stream differs from what was sent")
		return
	}
	d.mu.Lock()
	evs := append([]ev(nil), d.evs...)
	calls := append([]call(nil), d.calls...)
	d.mu.Unlock()
	sort.Slice(evs, func(i, j int) bool { return evs[i].t < evs[j].t })
	dur := time.Duration(d.last.Load())
	moved := d.total // bytes observed (a timed case is cut before its payload is exhausted)
	if c.Mode == "stack" {
		// (downloads are observed as raw bytes below TLS: a little more than the payload)
		moved = 0
		for _, e := range evs {
			moved += int64(e.n)
		}
	}
	if c.timed() {
		moved = 0
		for _, e := range evs {
			moved += int64(e.n)
		}
		ctx.Count(fmt.Sprintf("%sdeadline-hits=%s", label, bucket(int(d.timeouts.Load()))))
		if moved < minProgress {
			// nothing was exercised: not a verdict on the bound, but not what the model says either
			// (the burst passes without waiting, whatever deadline is armed)
			ctx.Disagree("a transfer with deadlines armed makes progress: the model lets the burst pass at once ("+d.name+")", c,
				fmt.Sprintf("%d bytes arrived in %v", moved, dur), fmt.Sprintf("at least %d bytes", minProgress))
			return
		}
	}
	if !throttled {
		if dur >= fastLimit {
			ctx.SpecFail("a limit constrains only its own direction; limit 0 ⇒ no throttling ("+d.name+")", "", c,
				fmt.Sprintf("%d bytes took %v with no limit on this direction (read-limit=%d write-limit=%d)", d.total, dur, c.ReadLimit, c.WriteLimit),
				"an unthrottled direction must finish in < "+fastLimit.String())
		}
		return
	}
	// cumulative bytes observed by time t ≤ B + k·w + R·(t + J)  (observed ≤ moved: the bound is one-sided).
	// J = jitter term of c20_throughput_bound_jitter_partial: concurrent callers reach the limiter with
	// time stamps out of order (WaitN reads the clock before taking the lock) and every backward step is
	// credited twice. J is not observable from outside; measured leaks are ≈ 0.05 % of R·t on an idle
	// machine and a few ms under heavy CPU load, so 20 ms + 3 % of t is allowed for it.
	k, w := int64(run.k), int64(run.w)
	jitterNs := func(t int64) int64 { return 20_000_000 + t*3/100 }
	eps := int64(64 * kib)
	var cum int64
	margin := int64(1) << 62 // smallest distance to the bound seen (evidence only)
	for _, e := range evs {
		cum += int64(e.n)
		allowed := d.burst + k*w + int64(float64(d.limit)*float64(e.t+jitterNs(e.t))/1e9) + eps
		if allowed-cum < margin {
			margin = allowed - cum
		}
		if cum > allowed {
			ctx.SpecFail("bytes moved by time t ≤ burst + R·t + k·w, summed over the listener's connections ("+d.name+")", class, c,
				fmt.Sprintf("%d bytes observed %v after the start; allowed %d (R=%d B/s, B=%d, k=%d, w=%d); whole transfer of %d bytes took %v",
					cum, time.Duration(e.t), allowed, d.limit, d.burst, k, w, moved, dur)+timedNote(c)+run.lifeNote(),
				"throughput bound exceeded")
			return
		}
	}
	// the exact bound (no allowance for jitter; 1 µs of rate for float64 rounding): with several
	// concurrent callers an excess inside the allowance above is the recorded token leak F28
	// (class decided from the input: more than one connection calls in this direction); with a single
	// caller there is no reordering and any excess is a violation.
	exactClass := class
	if exactClass == "" && run.k >= 2 {
		exactClass = "stamp-reordering"
	}
	cum = 0
	for _, e := range evs {
		cum += int64(e.n)
		allowed := d.burst + k*w + int64(float64(d.limit)*float64(e.t+1000)/1e9) + 16
		if cum > allowed {
			ctx.SpecFail("bytes moved by time t ≤ burst + R·t + k·w exactly (no jitter allowance) ("+d.name+")", exactClass, c,
				fmt.Sprintf("%d bytes observed %v after the start; allowed %d (R=%d B/s, B=%d, k=%d, w=%d): excess %d bytes = %.3f ms of rate",
					cum, time.Duration(e.t), allowed, d.limit, d.burst, k, w, cum-allowed, float64(cum-allowed)/float64(d.limit)*1000),
				"throughput bound exceeded by the token leak of out-of-order time stamps")
			break
		}
	}
	minDur := time.Duration(float64(moved-d.burst-k*w) / float64(d.limit) * 1e9)
	if minDur < 0 {
		minDur = 0
	}
	mline := fmt.Sprintf("%s %s read-limit=%d write-limit=%d conns=%d call≤%d%s: %d bytes in %v (bound: ≥ %v; closest to the bound: %d bytes below)",
		c.Mode, d.name, c.ReadLimit, c.WriteLimit, c.Conns, w, timedNote(c)+run.lifeNote(), moved, dur.Round(time.Millisecond), minDur.Round(time.Millisecond), margin)
	if c.Mode == "stack" || c.ProxyProto != "" {
		noteStackMeasurement(ctx, "["+stackName(c)+"] "+mline)
	} else {
		noteMeasurement(ctx, c.timed(), c.CloseAtMs > 0, mline)
	}
	// the same clause decided by the model on the whole transfer
	ans := ctx.Model.MustAsk("C20", "holds", strconv.FormatInt(d.limit, 10), strconv.FormatInt(d.burst, 10), strconv.FormatInt(k, 10),
		strconv.FormatInt(w, 10), strconv.FormatInt(max64(moved-eps, 0), 10), "0", strconv.FormatInt(int64(dur)+jitterNs(int64(dur)), 10))
	if ans != "true" {
		ctx.SpecFail("bytes moved in [t0,t1] ≤ burst + R·(t1−t0) + k·w ("+d.name+")", class, c,
			fmt.Sprintf("%d bytes in %v (R=%d B/s, B=%d, k=%d, w=%d)", moved, dur, d.limit, d.burst, k, w)+run.lifeNote(), ans)
		return
	}
	// single connection on the harness-driven listener: every call returned no earlier than the
	// model's WaitN fed with the call's start time
	if c.Mode == "listener" && c.Conns == 1 && len(calls) > 0 && len(calls) <= 6000 && class == "" {
		ops := make([][2]int64, len(calls))
		for i, cl := range calls {
			ops[i] = [2]int64{cl.start, int64(cl.n)}
		}
		var waits []int64
		if c.CloseAtMs > 0 {
			// the model's history with the lifecycle event in its place (waits on the context Conn uses)
			waits = modelHistory(ctx, d.limit, d.burst, ops, run.closedAt.Load(), c.Mode)
		} else {
			waits, _ = modelReserve(ctx, d.limit, d.burst, ops)
		}
		for i, cl := range calls {
			if waits[i] < 0 {
				continue
			}
			if cl.ret+1000 < cl.start+waits[i] {
				ctx.Disagree("Conn.Read/Write returns no earlier than Model.C20.waitN entered at the call's start ("+d.name+")", c,
					fmt.Sprintf("call %d (%d bytes) started %v returned %v", i, cl.n, time.Duration(cl.start), time.Duration(cl.ret)),
					fmt.Sprintf("earliest return %v", time.Duration(cl.start+waits[i])))
				return
			}
		}
		ctx.Count(label + "call-trace-validated")
		ctx.TraceValidated()
	}
}

var (
	measMu    sync.Mutex
	meas      []string
	measTimed []string
	measLife  []string
	measStack []string
)

// noteStackMeasurement keeps a few measured transfers of the stacking cases for the evidence file.
func noteStackMeasurement(ctx *core.Ctx, s string) {
	measMu.Lock()
	defer measMu.Unlock()
	if len(measStack) < 16 {
		measStack = append(measStack, s)
		ctx.Extra("throttled_transfers_through_forwarder_listener_stackings_measured", append([]string(nil), measStack...))
	}
}

// noteMeasurement keeps a few measured transfers for the evidence file.
func noteMeasurement(ctx *core.Ctx, timed, lifecycle bool, s string) {
	measMu.Lock()
	defer measMu.Unlock()
	if lifecycle {
		if len(measLife) < 12 {
			measLife = append(measLife, s)
			ctx.Extra("throttled_transfers_across_listener_close_or_shutdown_measured", append([]string(nil), measLife...))
		}
		return
	}
	if timed {
		if len(measTimed) < 12 {
			measTimed = append(measTimed, s)
			ctx.Extra("throttled_transfers_with_deadlines_measured", append([]string(nil), measTimed...))
		}
		return
	}
	if len(meas) < 12 {
		meas = append(meas, s)
		ctx.Extra("throttled_transfers_measured", append([]string(nil), meas...))
	}
}

func max64(a, b int64) int64 {
	if a > b {
		return a
	}
	return b
}

// lifeNote describes the lifecycle event of a lifecycle case (empty otherwise).
func (r *xferRun) lifeNote() string {
	if r.c.CloseAtMs <= 0 {
		return ""
	}
	what := "graceful shutdown started (Run's context cancelled, listeners closed, connections draining)"
	if r.c.Mode == "listener" {
		what = "ratelimit.Listener.Close called"
	}
	at := r.closedAt.Load()
	if at == 0 {
		return " [" + what + ": not reached]"
	}
	return fmt.Sprintf(" [%s %v after the start, transfers in flight]", what, (time.Duration(at) - r.start.Sub(r.base)).Round(time.Millisecond))
}

// modelHistory: waits of the calls (start ns, n) of one connection in a history in which the listener is
// closed (listener mode) resp. Run's context is cancelled and the listener closed (proxy modes) at closedAt.
func modelHistory(ctx *core.Ctx, rate, burst int64, ops [][2]int64, closedAt int64, mode string) []int64 {
	ev := "C"
	if mode != "listener" {
		ev = "X;C"
	}
	var evs []string
	placed := closedAt == 0
	for _, o := range ops {
		if !placed && o[0] >= closedAt {
			evs = append(evs, ev)
			placed = true
		}
		evs = append(evs, fmt.Sprintf("%d,0,%d", o[0], o[1]))
	}
	if !placed {
		evs = append(evs, ev)
	}
	ans := strings.Fields(ctx.Model.MustAsk("C20", "history", strconv.FormatInt(rate, 10), strconv.FormatInt(burst, 10), "conn", "1", strings.Join(evs, ";")))
	if len(ans) != 2 || ans[0] != "ok" {
		core.Fatalf("C20: model history answer %v", ans)
	}
	rets := core.SplitList(ans[1])
	if len(rets) != len(ops) {
		core.Fatalf("C20: model history answered %d return times for %d calls", len(rets), len(ops))
	}
	waits := make([]int64, len(ops))
	for i, a := range rets {
		v, err := strconv.ParseInt(a, 10, 64)
		if err != nil {
			core.Fatalf("C20: model history return time %q", a)
		}
		waits[i] = v - ops[i][0]
		if ops[i][1] > burst {
			waits[i] = -1
		}
	}
	return waits
}

// timedNote describes the deadlines of a timed case (empty otherwise).
func timedNote(c xferCase) string {
	switch {
	case c.DeadlineMs > 0:
		api := "SetWriteDeadline/SetReadDeadline"
		if c.DeadlineAPI == "both" {
			api = "SetDeadline"
		}
		return fmt.Sprintf(" [%s(now+%dms) before every call, cut after %d ms]", api, c.DeadlineMs, c.Millis)
	case c.WriteTimeoutMs > 0 || c.ReadTimeoutMs > 0:
		return fmt.Sprintf(" [proxy WriteTimeout=%dms ReadTimeout=%dms]", c.WriteTimeoutMs, c.ReadTimeoutMs)
	}
	return ""
}

// kwOf: connections making calls per direction, and the bound on one call.
func kwOf(c xferCase) (k, w int) {
	switch c.Mode {
	case "listener":
		return c.Conns, c.Chunk
	case "stack":
		// under TLS the calls that reach the limiter are crypto/tls's, not the harness's
		if c.TLS && c.Chunk < stackTLSCall {
			return c.Conns, stackTLSCall
		}
		return c.Conns, c.Chunk
	case "proxy-connect":
		return c.Conns, proxyCallBound
	default: // proxy-http: downloads and uploads use separate connections, and both kinds call in both directions (heads)
		if c.timed() && (c.NoUp || c.NoDown) {
			return c.Conns, proxyCallBound
		}
		return 2 * c.Conns, proxyCallBound
	}
}

func hashEq(d *dirState) []bool {
	out := make([]bool, len(d.per))
	for i := range d.per {
		out[i] = d.gotHash[i] == d.want[i]
	}
	return out
}

func checkXfer(ctx *core.Ctx, c xferCase) {
	if c.Conns < 1 || c.Conns > 64 || c.Chunk < 1 || c.Millis < 0 || c.ReadLimit < 0 || c.WriteLimit < 0 {
		core.Fatalf("C20: malformed xfer case %+v", c)
	}
	if c.CloseAtMs < 0 || (c.CloseAtMs > 0 && c.timed()) {
		core.Fatalf("C20: malformed lifecycle xfer case %+v", c)
	}
	if c.timed() {
		// a timed case throttles every direction it runs; deadlines come from one source; a tunnel
		// only carries the read deadline
		bad := c.Millis < 100 || (!c.NoDown && c.ReadLimit <= 0) || (!c.NoUp && c.WriteLimit <= 0) || (c.NoUp && c.NoDown) ||
			c.DownBytes != 0 || c.UpBytes != 0 || c.DeadlineMs < 0 || c.WriteTimeoutMs < 0 || c.ReadTimeoutMs < 0
		switch c.Mode {
		case "listener":
			bad = bad || c.DeadlineMs <= 0 || c.WriteTimeoutMs != 0 || c.ReadTimeoutMs != 0 || (c.DeadlineAPI != "rw" && c.DeadlineAPI != "both")
		case "proxy-http":
			bad = bad || c.DeadlineMs != 0 || (!c.NoDown && c.WriteTimeoutMs <= 0) || (!c.NoUp && c.ReadTimeoutMs <= 0)
		case "proxy-connect":
			bad = bad || c.DeadlineMs != 0 || !c.NoDown || c.ReadTimeoutMs <= 0
		}
		if bad {
			core.Fatalf("C20: malformed timed xfer case %+v", c)
		}
	}
	if (c.ProxyProto != "" && c.ProxyProto != "v1" && c.ProxyProto != "v2") || (c.Mode == "listener" && c.ProxyProto != "") ||
		(c.Mode != "stack" && (c.TLS || c.Track)) || (c.Mode == "stack" && (c.timed() || c.CloseAtMs > 0)) {
		core.Fatalf("C20: malformed stacking of an xfer case %+v", c)
	}
	run := &xferRun{c: c}
	run.k, run.w = kwOf(c)
	downLimit, upLimit := c.ReadLimit, c.WriteLimit
	if c.Mode == "stack" || c.ProxyProto != "" {
		// the limiters a connection of this stacking meters its bytes with: the model's answer for the product's stack
		// (the full proxy builds its listener with forwarder.Listener from the same ListenerConfig)
		layers, rx, tx := stackLimiters(ctx, c)
		ctx.Count("xfer/" + c.Mode + "/model/layers=" + layers)
		downLimit, upLimit = tx[0], rx[0]
		for _, l := range [][2]int64{rx, tx} {
			if l[0] > 0 && l[1] != modelBurst(ctx, l[0]) {
				core.Fatalf("C20: model stackwiring burst %d for rate %d", l[1], l[0])
			}
		}
	}
	if !c.NoDown {
		run.down = planDir(ctx, "down", downLimit, upLimit, c, c.DownBytes, c.Conns)
	}
	if !c.NoUp {
		run.up = planDir(ctx, "up", upLimit, downLimit, c, c.UpBytes, c.Conns)
	}
	switch c.Mode {
	case "listener":
		runListenerMode(run)
	case "stack":
		runStackMode(run)
	case "proxy-connect", "proxy-http":
		runProxyMode(run)
	default:
		core.Fatalf("C20: unknown xfer mode %q", c.Mode)
	}
	key, _ := jsonKey(c)
	ctx.Case("xfer:"+key, c.ReadLimit > 0 || c.WriteLimit > 0)
	ctx.Count(fmt.Sprintf("xfer/config/%s/read=%dMiB/s,write=%dMiB/s", c.Mode, c.ReadLimit/mib, c.WriteLimit/mib))
	ctx.Count(fmt.Sprintf("xfer/conns=%d", c.Conns))
	if c.Mode == "listener" {
		ctx.Count(fmt.Sprintf("xfer/chunk=%dKiB", c.Chunk/kib))
	}
	if c.Mode == "stack" {
		ctx.Count("xfer/stack/" + stackName(c))
	} else if c.ProxyProto != "" {
		ctx.Count("xfer/" + c.Mode + "/proxy-protocol-listener/" + stackName(c))
	}
	if c.CloseAtMs > 0 {
		if c.Mode == "listener" {
			ctx.Count("xfer/lifecycle/listener-closed-with-transfers-in-flight")
		} else {
			ctx.Count("xfer/lifecycle/" + c.Mode + "/graceful-shutdown-with-transfers-in-flight")
		}
		if run.closedAt.Load() == 0 {
			ctx.Count("xfer/lifecycle/event-not-reached")
		}
	}
	switch {
	case c.DeadlineMs > 0:
		ctx.Count(fmt.Sprintf("xfer/deadlines/listener/%s/%dms-before-every-call", c.DeadlineAPI, c.DeadlineMs))
	case c.timed():
		ctx.Count(fmt.Sprintf("xfer/deadlines/%s/write-timeout=%v,read-timeout=%v", c.Mode, c.WriteTimeoutMs > 0, c.ReadTimeoutMs > 0))
	}
	if run.fatal != "" {
		// the rig could not be set up or the proxy refused to relay: with limits set this is the
		// implementation's doing only if construction failed
		if strings.HasPrefix(run.fatal, "NewHTTPProxy") || strings.Contains(run.fatal, "through the proxy") {
			ctx.Crash("a proxy with bandwidth limits serves requests", "", c, run.fatal)
			return
		}
		if strings.HasPrefix(run.fatal, "forwarder.Listener") {
			ctx.Crash("a listener with bandwidth limits starts, accepts and (with TLS) completes the handshake, in every stacking", "", c, run.fatal)
			return
		}
		core.Fatalf("C20: transfer rig: %s", run.fatal)
	}
	if run.crash != "" {
		ctx.Crash("Conn.Read/Write never panic", "", c, run.crash)
		return
	}
	before := ctx.NumFindings()
	for _, d := range []*dirState{run.down, run.up} {
		if d != nil {
			evalDir(ctx, run, d)
		}
	}
	if ctx.NumFindings() == before {
		ctx.TraceValidated()
	}
}

func jsonKey(c xferCase) (string, error) {
	key := fmt.Sprintf("%s|%d|%d|%d|%d|%d|%d|%d|%v|%v", c.Mode, c.ReadLimit, c.WriteLimit, c.Conns, c.Chunk, c.Millis, c.DownBytes, c.UpBytes, c.NoDown, c.NoUp)
	if c.timed() {
		key += fmt.Sprintf("|dl=%d/%s|wt=%d|rt=%d", c.DeadlineMs, c.DeadlineAPI, c.WriteTimeoutMs, c.ReadTimeoutMs)
	}
	if c.CloseAtMs > 0 {
		key += fmt.Sprintf("|close=%d", c.CloseAtMs)
	}
	if c.ProxyProto != "" || c.TLS || c.Track {
		key += fmt.Sprintf("|pp=%s|tls=%v|track=%v", c.ProxyProto, c.TLS, c.Track)
	}
	return key, nil
}

// ---- generation and scheduling ----

// genTimed: the deadline-armed cases. Connections × piece / rate is chosen so that a reservation's
// queueing delay (N·w/R ≈ 0.4-1 s, up to 2 s in the thorough tier) is well above the time a deadline
// leaves (200-400 ms per call; the last stretch before the proxy's timeout).
func genTimed(ctx *core.Ctx, r *core.Rand) []xferCase {
	var cases []xferCase
	type nr struct {
		n int
		r int64
	}
	combos := []nr{{8, 256 * kib}, {16, 512 * kib}, {32, mib}}
	if !ctx.Quick() {
		combos = append(combos, nr{16, 256 * kib}, nr{32, 512 * kib}, nr{24, 768 * kib})
	}
	dls := []int{200, 300, 400}
	apis := []string{"rw", "both"}
	rounds := ctx.N(1, 3)
	for round := 0; round < rounds; round++ {
		core.Shuffle(r, combos)
		a, b, d := combos[0], combos[1], combos[2]
		lis := func(c xferCase) xferCase {
			c.Kind, c.Mode, c.Chunk, c.Millis, c.DeadlineMs, c.Seed = "xfer", "listener", 32*kib, r.Range(1800, 2200), core.Pick(r, dls), r.U64()
			return c
		}
		// every Write preceded by SetWriteDeadline, every Read by SetReadDeadline, both by SetDeadline
		cases = append(cases,
			lis(xferCase{ReadLimit: a.r, Conns: a.n, NoUp: true, DeadlineAPI: "rw"}),
			lis(xferCase{WriteLimit: b.r, Conns: b.n, NoDown: true, DeadlineAPI: "rw"}),
			lis(xferCase{ReadLimit: d.r, WriteLimit: d.r * int64(r.Range(1, 2)), Conns: d.n, DeadlineAPI: "both"}))
		// one connection whose single call owes more than the deadline leaves (256 KiB at 256-512 KiB/s);
		// its call trace is also held against the model
		one := lis(xferCase{Conns: 1, DeadlineAPI: core.Pick(r, apis)})
		one.Chunk = 256 * kib
		if r.Chance(50) {
			one.ReadLimit, one.NoUp = core.Pick(r, []int64{256 * kib, 512 * kib}), true
		} else {
			one.WriteLimit, one.NoDown = core.Pick(r, []int64{256 * kib, 512 * kib}), true
		}
		cases = append(cases, one)
		// the full proxy: many concurrent downloads under WriteTimeout (4 KiB writes: N·4 KiB/R ≈ 0.4-0.5 s),
		// many concurrent uploads under ReadTimeout (32 KiB reads: N·32 KiB/R = 0.5 s)
		t := r.Range(1500, 2000)
		cases = append(cases, xferCase{Kind: "xfer", Mode: "proxy-http", ReadLimit: 256 * kib, Conns: core.Pick(r, []int{24, 28, 32}), Chunk: 32 * kib,
			Millis: t, WriteTimeoutMs: t, NoUp: true, Seed: r.U64()})
		u := core.Pick(r, []nr{{8, 512 * kib}, {16, mib}})
		t = r.Range(1500, 2000)
		cases = append(cases, xferCase{Kind: "xfer", Mode: "proxy-http", WriteLimit: u.r, Conns: u.n, Chunk: 32 * kib,
			Millis: t, ReadTimeoutMs: t, NoDown: true, Seed: r.U64()})
		if !ctx.Quick() {
			// a tunnel keeps the request's read deadline; and both timeouts with both directions at once
			u = core.Pick(r, []nr{{8, 512 * kib}, {16, mib}})
			t = r.Range(1500, 2500)
			cases = append(cases, xferCase{Kind: "xfer", Mode: "proxy-connect", WriteLimit: u.r, Conns: u.n, Chunk: 32 * kib,
				Millis: t, ReadTimeoutMs: t, NoDown: true, Seed: r.U64()})
			t = r.Range(1500, 2500)
			cases = append(cases, xferCase{Kind: "xfer", Mode: "proxy-http", ReadLimit: 256 * kib, WriteLimit: mib, Conns: 16, Chunk: 32 * kib,
				Millis: t, WriteTimeoutMs: t, ReadTimeoutMs: t, Seed: r.U64()})
		}
	}
	return cases
}

func genXfers(ctx *core.Ctx) []xferCase {
	var cases []xferCase
	r := ctx.Rng.Sub()
	loMs, hiMs := 1000, 2000
	if !ctx.Quick() {
		loMs, hiMs = 2000, 6000
	}
	chunks := []int{4 * kib, 16 * kib, 64 * kib, 256 * kib, mib}
	type pair struct{ r, w int64 }
	var pairs []pair
	for _, a := range limitSet {
		for _, b := range limitSet {
			pairs = append(pairs, pair{a, b})
		}
	}
	rounds := ctx.N(1, 4)
	for round := 0; round < rounds; round++ {
		ps := append([]pair(nil), pairs...)
		core.Shuffle(r, ps)
		for i, p := range ps {
			k := core.Pick(r, []int{1, 2, 2, 3, 4})
			if round == 0 && i%4 == 0 {
				k = 1 // single-connection runs also validate the call trace against the model
			}
			cases = append(cases, xferCase{Kind: "xfer", Mode: "listener", ReadLimit: p.r, WriteLimit: p.w, Conns: k,
				Chunk: core.Pick(r, chunks), Millis: r.Range(loMs, hiMs), Seed: r.U64()})
		}
	}
	nProxy := ctx.N(4, 40)
	for i := 0; i < nProxy; i++ {
		p := core.Pick(r, pairs)
		for p.r == 0 && p.w == 0 {
			p = core.Pick(r, pairs)
		}
		mode := "proxy-http"
		if i%2 == 1 {
			mode = "proxy-connect"
		}
		cases = append(cases, xferCase{Kind: "xfer", Mode: mode, ReadLimit: p.r, WriteLimit: p.w, Conns: r.Range(1, 3),
			Chunk: 32 * kib, Millis: r.Range(loMs, hiMs), Seed: r.U64()})
	}
	// the deadline-armed and the lifecycle cases are the longest: start them first
	// (the lifecycle cases draw from their own generator so that the cases above stay what they were)
	return append(append(genTimed(ctx, r), genLifecycle(ctx, r.Sub())...), cases...)
}

// genLifecycle: transfers of burst + ≥ 3 s of rate that are in flight when the listener is closed (listener
// mode) resp. the graceful shutdown starts (proxy modes: Run's context cancelled, long --shutdown-timeout);
// the accepted connections are measured for the ≥ 3 s that follow.
func genLifecycle(ctx *core.Ctx, r *core.Rand) []xferCase {
	var cases []xferCase
	rates := []int64{mib, 2 * mib}
	if !ctx.Quick() {
		rates = append(rates, 512*kib, 4*mib)
	}
	mk := func(mode string, rl, wl int64, conns int, noUp, noDown bool) xferCase {
		closeAt := r.Range(300, 700)
		return xferCase{Kind: "xfer", Mode: mode, ReadLimit: rl, WriteLimit: wl, Conns: conns, Chunk: core.Pick(r, []int{16 * kib, 32 * kib, 64 * kib}),
			Millis: closeAt + r.Range(3000, 3300), CloseAtMs: closeAt, NoUp: noUp, NoDown: noDown, Seed: r.U64()}
	}
	rounds := ctx.N(1, 3)
	for round := 0; round < rounds; round++ {
		// one connection (its call trace is held against the model's history), one direction
		if r.Bool() {
			cases = append(cases, mk("listener", core.Pick(r, rates), 0, 1, true, false))
		} else {
			cases = append(cases, mk("listener", 0, core.Pick(r, rates), 1, false, true))
		}
		cases = append(cases, mk("listener", core.Pick(r, rates), core.Pick(r, rates), r.Range(2, 3), false, false))
		cases = append(cases, mk("proxy-http", core.Pick(r, rates), core.Pick(r, rates), r.Range(1, 2), false, false))
		cases = append(cases, mk("proxy-connect", core.Pick(r, rates), core.Pick(r, rates), r.Range(1, 2), false, false))
		if !ctx.Quick() {
			cases = append(cases, mk("proxy-http", core.Pick(r, rates), 0, r.Range(2, 4), true, false))
			cases = append(cases, mk("proxy-connect", 0, core.Pick(r, rates), r.Range(1, 3), false, true))
			cases = append(cases, mk("listener", core.Pick(r, rates), core.Pick(r, rates), 1, false, false))
		}
	}
	return cases
}

func runXfers(ctx *core.Ctx, cases []xferCase) {
	sem := make(chan struct{}, 4)
	var wg sync.WaitGroup
	for i, c := range cases {
		if i < 3 {
			ctx.Sample(c)
		}
		if ctx.NumFindings() >= 12 {
			ctx.Count("xfer/skipped-after-findings")
			continue // enough failing inputs recorded; the verdict is settled
		}
		wg.Add(1)
		sem <- struct{}{}
		go func(c xferCase) {
			defer wg.Done()
			defer func() { <-sem }()
			checkXfer(ctx, c)
		}(c)
	}
	wg.Wait()
}
