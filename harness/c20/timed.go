package c20

// Timed ("deadline-armed") transfer cases.
//
// The accepted connections of a rate-limited listener carry deadlines while they move data:
// per-operation deadlines armed by the harness before every Read/Write (listener mode), or the
// proxy's own WriteTimeout / ReadTimeout (proxy modes). A deadline bounds the underlying I/O of a
// call; it says nothing about the tokens the call owes, so the throughput bound must hold exactly
// as without deadlines. What these cases add to the plain ones: many connections share the bucket
// (the queueing delay N·w/R of a reservation is well above the time left to the deadline), far more
// data is on offer than the bound allows, and the transfer is cut after c.Millis instead of running
// to a fixed total. Data check: what arrived on a connection is a prefix of what was sent on it
// (and, where the harness is the writer, exactly the bytes Write accepted).

import (
	"bytes"
	"errors"
	"fmt"
	"io"
	"net"
	"os"
	"time"

	"github.com/saucelabs/forwarder/verifharness/core"
)

// minProgress: a timed case in which less than this arrived has not exercised anything.
const minProgress = 256 * kib

func isTimeout(err error) bool {
	if errors.Is(err, os.ErrDeadlineExceeded) {
		return true
	}
	var ne net.Error
	return errors.As(err, &ne) && ne.Timeout()
}

// take accounts for a batch received on connection idx at stream offset off: observation time,
// and whether it is the next piece of what was sent.
func (d *dirState) take(idx int, off int64, p []byte, start time.Time) {
	ts := int64(time.Since(start))
	pl := d.payload[idx]
	ok := off+int64(len(p)) <= int64(len(pl)) && bytes.Equal(p, pl[off:off+int64(len(p))])
	d.mu.Lock()
	d.evs = append(d.evs, ev{ts, len(p)})
	if !ok && d.mismatch == "" {
		d.mismatch = fmt.Sprintf("connection %d: the %d bytes received at stream offset %d are not the bytes sent there", idx, len(p), off)
	}
	d.mu.Unlock()
	for {
		old := d.last.Load()
		if ts <= old || d.last.CompareAndSwap(old, ts) {
			break
		}
	}
}

type timedOpts struct {
	arm     func()           // called before every call (arms the deadline); nil = none
	stop    func(int64) bool // checked before every call with the bytes moved so far; nil = never
	limited bool             // the rate-limited side: hold Write to the io.Writer contract, count deadline hits
	errOK   bool             // an error (other than a deadline hit, which is always retried) ends the loop silently
	record  bool             // keep the call trace (single connection)
	base    time.Time
}

// timedWrite writes connection idx's payload in chunks until it is exhausted, stop says so, or an
// error ends it. A call that ran into its own deadline is continued behind the bytes it did write.
func timedWrite(d *dirState, idx int, w io.Writer, chunk int, o timedOpts) {
	defer d.wdone[idx].Store(true)
	payload := d.payload[idx]
	for off := 0; off < len(payload); {
		if o.stop != nil && o.stop(int64(off)) {
			return
		}
		end := off + chunk
		if end > len(payload) {
			end = len(payload)
		}
		if o.arm != nil {
			o.arm()
		}
		t0 := time.Since(o.base)
		n, err := w.Write(payload[off:end])
		t1 := time.Since(o.base)
		if n < 0 || n > end-off {
			d.errf("%s writer %d: Write returned n=%d for %d bytes", d.name, idx, n, end-off)
			return
		}
		if o.record && n > 0 {
			d.mu.Lock()
			d.calls = append(d.calls, call{int64(t0), int64(t1), n})
			d.mu.Unlock()
		}
		if o.limited && err == nil && n != end-off {
			d.mu.Lock()
			if d.short == "" {
				d.short = fmt.Sprintf("Write(%d bytes) returned n=%d, err=nil", end-off, n)
			}
			d.mu.Unlock()
		}
		off += n
		d.sent[idx].Store(int64(off))
		if err != nil {
			if isTimeout(err) && o.arm != nil {
				d.timeouts.Add(1)
				continue
			}
			if !o.errOK {
				d.errf("%s writer %d: %v after %d bytes", d.name, idx, err, off)
			}
			return
		}
		if n == 0 {
			d.errf("%s writer %d: Write returned 0, nil", d.name, idx)
			return
		}
	}
}

// timedRead reads connection idx's stream until the payload is exhausted, stop says so, or an error
// ends it; every batch is compared with the payload at its offset.
func timedRead(d *dirState, idx int, r io.Reader, bufSize int, start time.Time, o timedOpts) {
	buf := make([]byte, bufSize)
	want := int64(len(d.payload[idx]))
	var got int64
	defer func() {
		d.mu.Lock()
		d.gotN[idx] = got
		d.mu.Unlock()
	}()
	for got < want {
		if o.stop != nil && o.stop(got) {
			return
		}
		lim := int64(len(buf))
		if want-got < lim {
			lim = want - got
		}
		if o.arm != nil {
			o.arm()
		}
		t0 := time.Since(o.base)
		n, err := r.Read(buf[:lim])
		t1 := time.Since(o.base)
		if n < 0 || int64(n) > lim {
			d.errf("%s reader %d: Read returned n=%d for a buffer of %d", d.name, idx, n, lim)
			return
		}
		if n > 0 {
			d.take(idx, got, buf[:n], start)
			got += int64(n)
			if o.record {
				d.mu.Lock()
				d.calls = append(d.calls, call{int64(t0), int64(t1), n})
				d.mu.Unlock()
			}
		}
		if err != nil {
			if isTimeout(err) && o.arm != nil {
				if o.limited {
					d.timeouts.Add(1)
				}
				continue
			}
			if !o.errOK {
				d.errf("%s reader %d: %v after %d bytes", d.name, idx, err, got)
			}
			return
		}
	}
}

// armer returns the function that arms the per-operation deadline on an accepted connection.
func armer(c xferCase, conn net.Conn, write bool) func() {
	d := time.Duration(c.DeadlineMs) * time.Millisecond
	switch {
	case c.DeadlineAPI == "both":
		return func() { conn.SetDeadline(time.Now().Add(d)) }
	case write:
		return func() { conn.SetWriteDeadline(time.Now().Add(d)) }
	default:
		return func() { conn.SetReadDeadline(time.Now().Add(d)) }
	}
}

// queueDelay is the longest a reservation can be behind when every connection has one call of w
// bytes outstanding.
func queueDelay(k, w int, limit int64) time.Duration {
	if limit <= 0 {
		return 0
	}
	return time.Duration(float64(k) * float64(w) / float64(limit) * 1e9)
}

// runListenerTimed: the harness is the server on sc (accepted, rate-limited connections) and the
// client on cc (plain TCP). Every call on sc is preceded by a deadline c.DeadlineMs ahead.
func runListenerTimed(run *xferRun, cc, sc []net.Conn, goSafe func(func())) {
	c := run.c
	single := c.Conns == 1
	run.start = time.Now()
	end := run.start.Add(time.Duration(c.Millis) * time.Millisecond)
	boxed := func(int64) bool { return !time.Now().Before(end) }
	for i := 0; i < c.Conns; i++ {
		i := i
		if d := run.down; d != nil {
			// a writer may sit in its last wait for the whole queueing delay after the cut
			hard := end.Add(3*queueDelay(run.k, run.w, d.limit) + 5*time.Second)
			goSafe(func() {
				timedWrite(d, i, sc[i], c.Chunk, timedOpts{arm: armer(c, sc[i], true), stop: boxed, limited: true, record: single, base: run.base})
			})
			goSafe(func() {
				// plain side: poll with a short read deadline until everything Write accepted has arrived
				timedRead(d, i, cc[i], 256*kib, run.start, timedOpts{
					arm: func() { cc[i].SetReadDeadline(time.Now().Add(50 * time.Millisecond)) },
					stop: func(got int64) bool {
						return (d.wdone[i].Load() && got >= d.sent[i].Load()) || time.Now().After(hard)
					},
					base: run.base,
				})
			})
		}
		if u := run.up; u != nil {
			goSafe(func() {
				// plain side: offer data until the cut; the server stops reading then, so a blocked Write
				// is released by the deadline and ends the loop
				cc[i].SetWriteDeadline(end.Add(100 * time.Millisecond))
				timedWrite(u, i, cc[i], 256*kib, timedOpts{stop: boxed, errOK: true, base: run.base})
			})
			goSafe(func() {
				timedRead(u, i, sc[i], c.Chunk, run.start, timedOpts{arm: armer(c, sc[i], false), stop: boxed, limited: true, record: single, base: run.base})
			})
		}
	}
}

// proxy modes: the origin's and the client's ends of a timed transfer. Errors are the expected end
// of a transfer (the proxy cuts the connection at its timeout).

func timedSink(d *dirState, idx int, r io.Reader, start time.Time, base time.Time) {
	timedRead(d, idx, r, 64*kib, start, timedOpts{errOK: true, base: base})
}

func timedSource(d *dirState, idx int, w io.Writer, base time.Time) {
	timedWrite(d, idx, w, 64*kib, timedOpts{errOK: true, base: base})
}

// evalTimedData is the data clause of a timed case; false = a finding was reported.
func evalTimedData(ctx *core.Ctx, run *xferRun, d *dirState) bool {
	c := run.c
	ctxSpecFail := func(clause, impl, detail string) { ctx.SpecFail(clause, "", c, impl+timedNote(c), detail) }
	if d.short != "" {
		ctxSpecFail("Conn.Write returns the underlying call's results unchanged", d.short, "short count without an error on a TCP connection")
	}
	d.mu.Lock()
	mismatch, errs := d.mismatch, append([]string(nil), d.errs...)
	gotN := append([]int64(nil), d.gotN...)
	d.mu.Unlock()
	if mismatch != "" {
		ctxSpecFail("throttled transfers deliver exactly the bytes that were sent ("+d.name+"): what arrived is a prefix of what was sent", mismatch, "byte stream differs from what was sent")
		return false
	}
	if len(errs) > 0 {
		ctxSpecFail("throttled transfers deliver exactly the bytes that were sent ("+d.name+")", fmt.Sprintf("errors: %v", errs), "a call on a connection with an armed deadline failed although its peer kept up")
		return false
	}
	if c.Mode == "listener" && d.name == "down" {
		// the harness wrote: every byte Write accepted arrives
		for i := range gotN {
			if s := d.sent[i].Load(); gotN[i] != s {
				ctxSpecFail("throttled transfers deliver exactly the bytes that were sent ("+d.name+")",
					fmt.Sprintf("connection %d: Write accepted %d bytes, %d arrived", i, s, gotN[i]), "bytes lost")
				return false
			}
		}
	}
	return true
}
