package c20

// Full-duplex ("duplex") cases: direction independence judged on LOWER bounds.
//
// One connection of a listener with BOTH limits set carries traffic in both directions at once (the
// accepted connection of ratelimit.NewListener driven by the harness, or a CONNECT tunnel through the
// full proxy). The slow direction is kept saturated: it has used up its burst and every one of its
// calls sits in its limiter's wait. Meanwhile a transfer is timed in the other (fast) direction and
// compared with a control run on a fresh listener with the same limits in which the slow direction is
// idle. The model (Model/C20.lean, schedule layer: `stepQ`, two wait queues per connection) says the
// completion time of the fast direction is a function of its own limiter alone
// (c20_progress_independent); a connection-level lock held across the wait would make it wait for
// every wait of the slow direction (c20_shared_mutex_witness). Wall-clock verdicts are one-sided and
// relative: the duplex run may take the model's own-limit time + 6 × what the control run needed
// beyond that + 400 ms, and only a shortfall confirmed by three independent attempts is reported.

import (
	"bufio"
	"bytes"
	"context"
	"crypto/sha256"
	"fmt"
	"net"
	"net/http"
	"strconv"
	"strings"
	"sync"
	"sync/atomic"
	"time"

	"github.com/saucelabs/forwarder"
	fwdlog "github.com/saucelabs/forwarder/log"
	"github.com/saucelabs/forwarder/ratelimit"
	"github.com/saucelabs/forwarder/verifharness/core"
)

type duplexCase struct {
	Kind       string `json:"kind"` // "duplex"
	Mode       string `json:"mode"` // "listener" | "proxy-connect"
	ReadLimit  int64  `json:"read_limit"`
	WriteLimit int64  `json:"write_limit"`
	Slow       string `json:"slow"`       // "down" | "up": the direction kept stalled in its limiter; the other one is timed
	Chunk      int    `json:"chunk"`      // listener mode: bytes per Read/Write call on the accepted connection
	FastBytes  int64  `json:"fast_bytes"` // the transfer timed in the fast direction
	Seed       uint64 `json:"seed"`
}

const (
	duplexAttempts = 3
	duplexFactor   = 6
	duplexSlack    = 400 * time.Millisecond
	slowBlock      = mib // the slow direction repeats this block for ever
)

// duplexLink is one full-duplex connection: lim = the end whose calls go through ratelimit.Conn
// (listener mode: the accepted connection) or whose peer is the proxy (tunnel: the client end);
// far = the other end (listener mode: the dialling client; tunnel: the origin's accepted connection).
type duplexLink struct {
	lim, far net.Conn
	close    func()
}

func (c duplexCase) limits() (slow, fast int64) {
	if c.Slow == "down" {
		return c.ReadLimit, c.WriteLimit
	}
	return c.WriteLimit, c.ReadLimit
}

// ends: who writes and who reads in each direction. "down" = proxy → client: written by the
// rate-limited side in listener mode (sc.Write), by the origin in a tunnel.
func (c duplexCase) ends(l *duplexLink) (slowSrc, slowDst, fastSrc, fastDst net.Conn) {
	var downSrc, downDst, upSrc, upDst net.Conn
	if c.Mode == "listener" {
		downSrc, downDst, upSrc, upDst = l.lim, l.far, l.far, l.lim
	} else {
		downSrc, downDst, upSrc, upDst = l.far, l.lim, l.lim, l.far
	}
	if c.Slow == "down" {
		return downSrc, downDst, upSrc, upDst
	}
	return upSrc, upDst, downSrc, downDst
}

// callSize: bytes per call on conn x (the harness's own calls on the accepted connection use c.Chunk).
func (c duplexCase) callSize(l *duplexLink, x net.Conn) int {
	if c.Mode == "listener" && x == l.lim {
		return c.Chunk
	}
	return 256 * kib
}

func openDuplexListener(c duplexCase) (*duplexLink, error) {
	ln, err := net.Listen("tcp", "127.0.0.1:0")
	if err != nil {
		return nil, err
	}
	rl := ratelimit.NewListener(ln, c.ReadLimit, c.WriteLimit)
	cc, err := net.DialTimeout("tcp", ln.Addr().String(), 5*time.Second)
	if err != nil {
		rl.Close()
		return nil, err
	}
	sc, err := rl.Accept()
	if err != nil {
		cc.Close()
		rl.Close()
		return nil, err
	}
	return &duplexLink{lim: sc, far: cc, close: func() { sc.Close(); cc.Close(); rl.Close() }}, nil
}

type proxyRefused string

func (e proxyRefused) Error() string { return string(e) }

func openDuplexTunnel(c duplexCase) (*duplexLink, error) {
	cfg := forwarder.DefaultHTTPProxyConfig()
	cfg.Address = "127.0.0.1:0"
	cfg.ReadLimit = forwarder.SizeSuffix(c.ReadLimit)
	cfg.WriteLimit = forwarder.SizeSuffix(c.WriteLimit)
	cfg.ProxyLocalhost = forwarder.AllowProxyLocalhost
	p, err := forwarder.NewHTTPProxy(cfg, nil, nil, nil, fwdlog.NopLogger, nil)
	if err != nil {
		return nil, proxyRefused("NewHTTPProxy: " + err.Error())
	}
	pctx, cancel := context.WithCancel(context.Background())
	done := make(chan struct{})
	go func() { defer close(done); p.Run(pctx) }()
	var conns []net.Conn
	var ol net.Listener
	stop := func() {
		for _, x := range conns {
			x.Close()
		}
		if ol != nil {
			ol.Close()
		}
		cancel()
		p.Close()
		select {
		case <-done:
		case <-time.After(3 * time.Second):
		}
	}
	addrs, ok := p.Addr()
	if !ok || len(addrs) == 0 {
		stop()
		return nil, fmt.Errorf("proxy has no address")
	}
	if ol, err = net.Listen("tcp", "127.0.0.1:0"); err != nil {
		stop()
		return nil, err
	}
	accepted := make(chan net.Conn, 1)
	go func() {
		if x, err := ol.Accept(); err == nil {
			accepted <- x
		}
	}()
	conn, err := net.DialTimeout("tcp", addrs[0], 5*time.Second)
	if err != nil {
		stop()
		return nil, err
	}
	conns = append(conns, conn)
	conn.SetDeadline(time.Now().Add(10 * time.Second))
	target := ol.Addr().String()
	fmt.Fprintf(conn, "CONNECT %s HTTP/1.1\r\nHost: %s\r\n\r\n", target, target)
	br := bufio.NewReader(conn)
	resp, err := http.ReadResponse(br, &http.Request{Method: "CONNECT"})
	if err != nil || resp.StatusCode != 200 || br.Buffered() != 0 {
		st := ""
		if resp != nil {
			st = resp.Status
		}
		stop()
		return nil, proxyRefused(fmt.Sprintf("CONNECT through the proxy failed: %v %s", err, st))
	}
	conn.SetDeadline(time.Time{})
	select {
	case up := <-accepted:
		conns = append(conns, up)
		return &duplexLink{lim: conn, far: up, close: stop}, nil
	case <-time.After(5 * time.Second):
		stop()
		return nil, proxyRefused("CONNECT through the proxy: 200 but the target was not dialled")
	}
}

type duplexResult struct {
	elapsed   time.Duration // of the fast transfer (until complete, or until the cut)
	delivered int64         // bytes of the fast transfer that arrived by then
	complete  bool
	hashOK    bool
	slowSeen  int64 // bytes of the slow direction that had arrived when the fast transfer started / ended
	slowEnd   int64
	dataErr   string // the slow stream differed from what was sent
	stalled   string // the slow direction did not even move its burst
	setupErr  error
	crash     string
}

// duplexAttempt runs the fast transfer once; withSlow = the slow direction is saturated meanwhile.
func duplexAttempt(c duplexCase, slowBurst int64, payload []byte, want [32]byte, withSlow bool, cut time.Duration) (res duplexResult) {
	var link *duplexLink
	var err error
	if c.Mode == "listener" {
		link, err = openDuplexListener(c)
	} else {
		link, err = openDuplexTunnel(c)
	}
	if err != nil {
		res.setupErr = err
		return
	}
	slowSrc, slowDst, fastSrc, fastDst := c.ends(link)
	var wg sync.WaitGroup
	var crashMu sync.Mutex
	goSafe := func(f func()) {
		wg.Add(1)
		go func() {
			defer wg.Done()
			defer func() {
				if p := recover(); p != nil {
					crashMu.Lock()
					res.crash = fmt.Sprint(p)
					crashMu.Unlock()
				}
			}()
			f()
		}()
	}
	defer func() {
		link.close()
		wg.Wait()
	}()
	hard := time.Now().Add(cut + 40*time.Second)
	link.lim.SetDeadline(hard)
	link.far.SetDeadline(hard)

	var slowCnt atomic.Int64
	var slowBad atomic.Value
	if withSlow {
		block := fillPayload(c.Seed^0x5105, slowBlock)
		goSafe(func() { // slow writer: for ever
			n := c.callSize(link, slowSrc)
			for off := 0; ; {
				end := off + n
				if end > len(block) {
					end = len(block)
				}
				m, err := slowSrc.Write(block[off:end])
				if err != nil {
					return
				}
				off = (off + m) % len(block)
			}
		})
		goSafe(func() { // slow reader
			buf := make([]byte, c.callSize(link, slowDst))
			var got int64
			for {
				n, err := slowDst.Read(buf)
				if n > 0 {
					o := int(got % int64(len(block)))
					for i := 0; i < n; {
						m := n - i
						if m > len(block)-o {
							m = len(block) - o
						}
						if !bytes.Equal(buf[i:i+m], block[o:o+m]) && slowBad.Load() == nil {
							slowBad.Store(fmt.Sprintf("the bytes received at stream offset %d of the slow direction are not the bytes sent there", got+int64(i)))
						}
						i += m
						o = (o + m) % len(block)
					}
					got += int64(n)
					slowCnt.Store(got)
				}
				if err != nil {
					return
				}
			}
		})
		// the burst passes at once; after it every call of the slow direction waits for its tokens
		// (the call that delivered the first byte beyond the burst has overdrawn the bucket)
		need := slowBurst + 1
		t0 := time.Now()
		for slowCnt.Load() < need && time.Since(t0) < 15*time.Second {
			time.Sleep(time.Millisecond)
		}
		if slowCnt.Load() < need {
			res.stalled = fmt.Sprintf("the slow direction delivered %d bytes in %v (its burst is %d)", slowCnt.Load(), time.Since(t0).Round(time.Millisecond), slowBurst)
			return
		}
		time.Sleep(30 * time.Millisecond)
		res.slowSeen = slowCnt.Load()
	}

	// the timed transfer
	var got atomic.Int64
	h := sha256.New()
	readerDone := make(chan struct{})
	start := time.Now()
	goSafe(func() {
		n := c.callSize(link, fastSrc)
		for off := 0; off < len(payload); {
			end := off + n
			if end > len(payload) {
				end = len(payload)
			}
			m, err := fastSrc.Write(payload[off:end])
			off += m
			if err != nil {
				return
			}
		}
	})
	goSafe(func() {
		defer close(readerDone)
		buf := make([]byte, c.callSize(link, fastDst))
		for got.Load() < int64(len(payload)) {
			n, err := fastDst.Read(buf)
			if n > 0 {
				h.Write(buf[:n])
				got.Add(int64(n))
			}
			if err != nil {
				return
			}
		}
	})
	select {
	case <-readerDone:
	case <-time.After(cut):
	}
	res.elapsed = time.Since(start)
	res.delivered = got.Load()
	res.complete = res.delivered >= int64(len(payload))
	res.slowEnd = slowCnt.Load()
	if res.complete {
		<-readerDone
		var sum [32]byte
		copy(sum[:], h.Sum(nil))
		res.hashOK = sum == want
	}
	if b := slowBad.Load(); b != nil {
		res.dataErr = b.(string)
	}
	return
}

// modelDuplex asks the model for the completion time (ns) of the fast direction's calls, issued back to
// back (no I/O time) while the slow direction's calls are interleaved: with two wait queues per connection
// (what Conn does), alone, and with a connection-level mutex held across the wait.
func modelDuplex(ctx *core.Ctx, c duplexCase, slowBurst int64) (own, alone, mutex int64) {
	slowDir, fastDir := "1", "0" // Dir: 0 = rx (Conn.Read, up), 1 = tx (Conn.Write, down)
	if c.Slow == "up" {
		slowDir, fastDir = "0", "1"
	}
	const piece = 256 * kib
	var fast, mixed []string
	for b := int64(0); b < slowBurst; b += mib {
		mixed = append(mixed, fmt.Sprintf("0,%s,0,%d", slowDir, min64(mib, slowBurst-b)))
	}
	var fastIdx []int
	for b := int64(0); b < c.FastBytes; b += piece {
		op := fmt.Sprintf("0,%s,0,%d", fastDir, min64(piece, c.FastBytes-b))
		fast = append(fast, op)
		mixed = append(mixed, fmt.Sprintf("0,%s,0,%d", slowDir, 32*kib))
		fastIdx = append(fastIdx, len(mixed))
		mixed = append(mixed, op)
	}
	ask := func(variant string, ops []string) []int64 {
		ans := strings.Fields(ctx.Model.MustAsk("C20", "duplex", strconv.FormatInt(c.ReadLimit, 10), strconv.FormatInt(c.WriteLimit, 10), variant, strings.Join(ops, ";")))
		if len(ans) != 2 || ans[0] != "ok" {
			core.Fatalf("C20: model duplex answer %v", ans)
		}
		var out []int64
		for _, a := range core.SplitList(ans[1]) {
			v, err := strconv.ParseInt(a, 10, 64)
			if err != nil {
				core.Fatalf("C20: model duplex return time %q", a)
			}
			out = append(out, v)
		}
		if len(out) != len(ops) {
			core.Fatalf("C20: model duplex answered %d return times for %d calls", len(out), len(ops))
		}
		return out
	}
	a := ask("conn", fast)
	m := ask("conn", mixed)
	x := ask("mutex", mixed)
	alone = a[len(a)-1]
	own = m[fastIdx[len(fastIdx)-1]]
	mutex = x[fastIdx[len(fastIdx)-1]]
	return
}

func checkDuplex(ctx *core.Ctx, c duplexCase) {
	slowLimit, fastLimit := c.limits()
	if (c.Mode != "listener" && c.Mode != "proxy-connect") || (c.Slow != "down" && c.Slow != "up") || slowLimit <= 0 || fastLimit <= 0 ||
		c.Chunk < 1 || c.Chunk > 4*mib || c.FastBytes < 1 || c.FastBytes > 256*mib {
		core.Fatalf("C20: malformed duplex case %+v", c)
	}
	fastDir := "up"
	if c.Slow == "up" {
		fastDir = "down"
	}
	slowBurst, fastBurst := modelBurst(ctx, slowLimit), modelBurst(ctx, fastLimit)
	ctx.Case(fmt.Sprintf("duplex:%s|%d|%d|%s|%d|%d", c.Mode, c.ReadLimit, c.WriteLimit, c.Slow, c.Chunk, c.FastBytes), true)
	ctx.Count(fmt.Sprintf("duplex/%s/slow=%s@%s,fast=%s@%s", c.Mode, c.Slow, rateText(slowLimit), fastDir, rateText(fastLimit)))
	if c.FastBytes <= fastBurst {
		ctx.Count("duplex/fast-transfer/within-its-burst")
	} else {
		ctx.Count("duplex/fast-transfer/above-its-burst")
	}
	own, alone, mutex := modelDuplex(ctx, c, slowBurst)
	if own != alone {
		// (an instance of c20_progress_noninterference; cannot happen unless the driver is broken)
		core.Fatalf("C20: model duplex: completion of the fast direction %d ns with the slow calls interleaved, %d ns alone", own, alone)
	}
	ownDur := time.Duration(own)
	payload := fillPayload(c.Seed, c.FastBytes)
	want := sha256.Sum256(payload)

	var log []string
	fails := 0
	for attempt := 1; attempt <= duplexAttempts; attempt++ {
		ctl := duplexAttempt(c, slowBurst, payload, want, false, ownDur*2+30*time.Second)
		if duplexTrouble(ctx, c, ctl, "control run (slow direction idle)") {
			return
		}
		if !ctl.complete {
			// the property's older clause (a transfer takes about what its own limit says) is judged by the xfer cases;
			// without a control there is nothing to compare with
			ctx.Disagree("a transfer in one direction with the other direction idle completes in about the time its own limiter takes ("+fastDir+")", c,
				fmt.Sprintf("%d of %d bytes in %v", ctl.delivered, c.FastBytes, ctl.elapsed.Round(time.Millisecond)), fmt.Sprintf("complete after about %v", ownDur.Round(time.Millisecond)))
			return
		}
		noise := ctl.elapsed - ownDur
		if noise < 0 {
			noise = 0
		}
		allowed := ownDur + duplexFactor*noise + duplexSlack
		dup := duplexAttempt(c, slowBurst, payload, want, true, allowed)
		if duplexTrouble(ctx, c, dup, "duplex run") {
			return
		}
		if dup.stalled != "" {
			ctx.Disagree("the burst of a direction passes without waiting ("+c.Slow+")", c, dup.stalled, "the model lets the burst pass at once")
			return
		}
		if dup.dataErr != "" {
			ctx.SpecFail("throttled transfers deliver exactly the bytes that were sent ("+c.Slow+")", "", c, dup.dataErr, "byte stream differs from what was sent")
			return
		}
		line := fmt.Sprintf("attempt %d: control (slow direction idle) %d bytes in %v; with the %s direction stalled in its limiter (%d bytes delivered, then %d more during the transfer): %d of %d bytes in %v (allowed %v)",
			attempt, c.FastBytes, ctl.elapsed.Round(100*time.Microsecond), c.Slow, dup.slowSeen, dup.slowEnd-dup.slowSeen, dup.delivered, c.FastBytes, dup.elapsed.Round(100*time.Microsecond), allowed.Round(time.Millisecond))
		log = append(log, line)
		if dup.complete {
			if !dup.hashOK || !ctl.hashOK {
				ctx.SpecFail("throttled transfers deliver exactly the bytes that were sent ("+fastDir+")", "", c,
					fmt.Sprintf("hash of the %d bytes received equals the hash of the bytes sent: duplex run %v, control run %v", c.FastBytes, dup.hashOK, ctl.hashOK), "byte stream differs from what was sent")
				return
			}
			noteDuplex(ctx, fmt.Sprintf("%s read-limit=%d write-limit=%d slow=%s call=%d: %s", c.Mode, c.ReadLimit, c.WriteLimit, c.Slow, c.Chunk, line))
			if fails > 0 {
				ctx.Count("duplex/passed-after-retry")
			}
			ctx.TraceValidated()
			return
		}
		fails++
	}
	ctx.SpecFail("each limit constrains only its own direction: while the "+c.Slow+" direction of the same connection waits for its tokens, a transfer in the "+fastDir+
		" direction completes about as fast as with that direction idle", "", c, strings.Join(log, "; "),
		fmt.Sprintf("read-limit=%d write-limit=%d: the %s transfer of %d bytes needs %v by its own limiter (burst %d) whatever the other direction does (Model.C20 stepQ, c20_progress_independent); "+
			"it was cut short in %d of %d attempts, each allowed the own-limit time + %d × the control run's excess over it + %v; a connection-level lock held across the wait would give ≥ %v on the model's schedule (c20_shared_mutex_witness)",
			c.ReadLimit, c.WriteLimit, fastDir, c.FastBytes, ownDur.Round(time.Millisecond), fastBurst, fails, duplexAttempts, duplexFactor, duplexSlack, time.Duration(mutex).Round(time.Millisecond)))
}

// duplexTrouble reports what is not a timing verdict; true = the case is over.
func duplexTrouble(ctx *core.Ctx, c duplexCase, r duplexResult, what string) bool {
	switch {
	case r.crash != "":
		ctx.Crash("Conn.Read/Write never panic", "", c, what+": "+r.crash)
		return true
	case r.setupErr != nil:
		if pr, is := r.setupErr.(proxyRefused); is {
			ctx.Crash("a proxy with bandwidth limits serves requests", "", c, what+": "+string(pr))
			return true
		}
		core.Fatalf("C20: duplex rig: %v", r.setupErr)
	}
	return false
}

func rateText(v int64) string {
	switch {
	case v >= 1<<30 && v%(1<<30) == 0:
		return fmt.Sprintf("%dGiB/s", v>>30)
	case v >= mib && v%mib == 0:
		return fmt.Sprintf("%dMiB/s", v/mib)
	default:
		return fmt.Sprintf("%dKiB/s", v/kib)
	}
}

var measDuplex []string

func noteDuplex(ctx *core.Ctx, s string) {
	measMu.Lock()
	defer measMu.Unlock()
	if len(measDuplex) < 12 {
		measDuplex = append(measDuplex, s)
		ctx.Extra("full_duplex_transfers_measured", append([]string(nil), measDuplex...))
	}
}

// genDuplex: the very asymmetric pairs in both orders through both rigs, and moderate pairs whose
// fast transfer is above its own burst (so the control run is dominated by the fast limiter itself).
func genDuplex(ctx *core.Ctx, r *core.Rand) []duplexCase {
	var cases []duplexCase
	chunks := []int{16 * kib, 32 * kib, 64 * kib}
	type pair struct{ slow, fast int64 }
	moderate := []pair{{mib, 8 * mib}, {512 * kib, 16 * mib}, {2 * mib, 8 * mib}, {256 * kib, 32 * mib}, {mib, 64 * mib}}
	mk := func(mode, slow string, p pair, fastBytes int64) duplexCase {
		c := duplexCase{Kind: "duplex", Mode: mode, Slow: slow, Chunk: core.Pick(r, chunks), FastBytes: fastBytes, Seed: r.U64()}
		if slow == "down" {
			c.ReadLimit, c.WriteLimit = p.slow, p.fast
		} else {
			c.ReadLimit, c.WriteLimit = p.fast, p.slow
		}
		return c
	}
	rounds := ctx.N(1, 4)
	for round := 0; round < rounds; round++ {
		for _, mode := range []string{"listener", "proxy-connect"} {
			for _, slow := range []string{"down", "up"} {
				// 64 KiB/s against 1 GiB/s: 12 MiB is below the fast direction's burst (16 MiB) and needs no waiting at all
				cases = append(cases, mk(mode, slow, pair{64 * kib, 1 << 30}, int64(r.Range(10, 14))*mib))
			}
		}
		ms := append([]pair(nil), moderate...)
		core.Shuffle(r, ms)
		n := 2
		if !ctx.Quick() {
			n = len(ms)
		}
		for i, p := range ms[:n] {
			mode, slow := "listener", "down"
			if (i+round)%2 == 1 {
				mode = "proxy-connect"
			}
			if r.Bool() {
				slow = "up"
			}
			// burst + 0.4-0.8 s of the fast direction's own rate
			fb := modelBurst(ctx, p.fast) + p.fast*int64(r.Range(400, 800))/1000
			cases = append(cases, mk(mode, slow, p, fb))
		}
	}
	return cases
}

func runDuplex(ctx *core.Ctx, cases []duplexCase) {
	sem := make(chan struct{}, 3)
	var wg sync.WaitGroup
	for i, c := range cases {
		if i < 2 {
			ctx.Sample(c)
		}
		if ctx.NumFindings() >= 12 {
			ctx.Count("duplex/skipped-after-findings")
			continue
		}
		wg.Add(1)
		sem <- struct{}{}
		go func(c duplexCase) {
			defer wg.Done()
			defer func() { <-sem }()
			checkDuplex(ctx, c)
		}(c)
	}
	wg.Wait()
}
