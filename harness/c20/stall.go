// "stall" cases: blocked next to busy. On one rate-limited listener (ratelimit.NewListener, or the full
// proxy with CONNECT tunnels) k connections are saturated in the judged direction while m others have a
// peer that is scripted to stall: in the upload direction the client sends nothing for 50-400 ms and then
// one segment (the rate-limited side's Read sits blocked in the socket for that long), in the download
// direction the client takes nothing for that long and then one segment (small socket buffers: the
// rate-limited side's Write sits blocked). The saturated connections keep the shared bucket empty and make
// reservations all the while. The code reserves when the I/O call has returned (WaitN after the call: every
// reservation is stamped with its own "now", so the stamps the limiter sees do not go backwards -
// c20_bound_holds_for_monotone_reservation_times); a reservation stamped with the time the call STARTED
// lies before the limiter's last event by the time the call was blocked and x/time/rate credits that
// interval a second time (c20_stale_stamp_recredits_interval). Judged by the bound of the transfer cases
// summed over ALL connections of the listener: bytes observed by time t ≤ burst + R·(t + J) + k·w.
package c20

import (
	"bufio"
	"bytes"
	"context"
	"fmt"
	"net"
	"net/http"
	"sort"
	"strconv"
	"sync"
	"sync/atomic"
	"syscall"
	"time"

	"github.com/saucelabs/forwarder"
	fwdlog "github.com/saucelabs/forwarder/log"
	"github.com/saucelabs/forwarder/ratelimit"
	"github.com/saucelabs/forwarder/verifharness/core"
)

type stallCase struct {
	Kind    string `json:"kind"`     // "stall"
	Mode    string `json:"mode"`     // "listener" | "proxy-connect"
	Dir     string `json:"dir"`      // judged (rate-limited) direction: "up" (client → listener, write limit) | "down" (listener → client, read limit)
	Limit   int64  `json:"limit"`    // bytes/s in that direction; the other direction has no limit and carries nothing
	Busy    int    `json:"busy"`     // saturated connections
	Stalled int    `json:"stalled"`  // connections whose peer stalls
	BlockMs [2]int `json:"block_ms"` // each scripted pause is drawn from [lo, hi] ms
	Segment int    `json:"segment"`  // bytes that pass after each pause
	Chunk   int    `json:"chunk"`    // bytes per call on a saturated connection (listener mode: the rate-limited side's calls)
	Millis  int    `json:"millis"`   // the case is cut after this long
	Seed    uint64 `json:"seed"`
}

const (
	stallBlock   = mib  // every connection carries this block over and over
	stallSockBuf = 4096 // SO_SNDBUF / SO_RCVBUF of a connection whose client does not take bytes
)

type stallLink struct {
	src, dst net.Conn // writer and reader of the judged direction
	stalled  bool
}

type stallRig struct {
	links []*stallLink
	close func()
}

func setSockBuf(fd uintptr, opt int) {
	syscall.SetsockoptInt(int(fd), syscall.SOL_SOCKET, opt, stallSockBuf)
}

// stallDialer: a client that does not take bytes has a small receive buffer (set before connecting).
func stallDialer(small bool) *net.Dialer {
	d := &net.Dialer{Timeout: 5 * time.Second}
	if small {
		d.Control = func(_, _ string, rc syscall.RawConn) error {
			return rc.Control(func(fd uintptr) { setSockBuf(fd, syscall.SO_RCVBUF) })
		}
	}
	return d
}

func (c stallCase) limits() (readLimit, writeLimit int64) {
	if c.Dir == "down" {
		return c.Limit, 0
	}
	return 0, c.Limit
}

func openStallListener(c stallCase) (*stallRig, error) {
	ln, err := net.Listen("tcp", "127.0.0.1:0")
	if err != nil {
		return nil, err
	}
	rd, wr := c.limits()
	rl := ratelimit.NewListener(ln, rd, wr)
	rig := &stallRig{}
	rig.close = func() {
		for _, l := range rig.links {
			l.src.Close()
			l.dst.Close()
		}
		rl.Close()
	}
	for i := 0; i < c.Busy+c.Stalled; i++ {
		stalled := i >= c.Busy
		small := stalled && c.Dir == "down"
		if small && i == c.Busy {
			// accepted sockets inherit the listening socket's buffer sizes: the connections accepted from here
			// on have a small send buffer, so a Write to a client that takes nothing blocks after a few KiB
			if rc, err := ln.(*net.TCPListener).SyscallConn(); err == nil {
				rc.Control(func(fd uintptr) { setSockBuf(fd, syscall.SO_SNDBUF) })
			}
		}
		cc, err := stallDialer(small).Dial("tcp", ln.Addr().String())
		if err != nil {
			rig.close()
			return nil, err
		}
		sc, err := rl.Accept()
		if err != nil {
			cc.Close()
			rig.close()
			return nil, err
		}
		l := &stallLink{src: cc, dst: sc, stalled: stalled}
		if c.Dir == "down" {
			l.src, l.dst = sc, cc
		}
		rig.links = append(rig.links, l)
	}
	return rig, nil
}

func openStallProxy(c stallCase) (*stallRig, error) {
	cfg := forwarder.DefaultHTTPProxyConfig()
	cfg.Address = "127.0.0.1:0"
	rd, wr := c.limits()
	cfg.ReadLimit = forwarder.SizeSuffix(rd)
	cfg.WriteLimit = forwarder.SizeSuffix(wr)
	cfg.ProxyLocalhost = forwarder.AllowProxyLocalhost
	p, err := forwarder.NewHTTPProxy(cfg, nil, nil, nil, fwdlog.NopLogger, nil)
	if err != nil {
		return nil, proxyRefused("NewHTTPProxy: " + err.Error())
	}
	pctx, cancel := context.WithCancel(context.Background())
	done := make(chan struct{})
	go func() { defer close(done); p.Run(pctx) }()
	rig := &stallRig{}
	var ol net.Listener
	rig.close = func() {
		for _, l := range rig.links {
			l.src.Close()
			l.dst.Close()
		}
		if ol != nil {
			ol.Close()
		}
		cancel()
		p.Close()
		select {
		case <-done:
		case <-time.After(3 * time.Second):
		}
	}
	addrs, ok := p.Addr()
	if !ok || len(addrs) == 0 {
		rig.close()
		return nil, fmt.Errorf("proxy has no address")
	}
	if ol, err = net.Listen("tcp", "127.0.0.1:0"); err != nil {
		rig.close()
		return nil, err
	}
	accepted := make(chan net.Conn)
	go func() {
		for {
			x, err := ol.Accept()
			if err != nil {
				return
			}
			select {
			case accepted <- x:
			case <-done:
				x.Close()
				return
			}
		}
	}()
	target := ol.Addr().String()
	for i := 0; i < c.Busy+c.Stalled; i++ {
		stalled := i >= c.Busy
		conn, err := stallDialer(stalled && c.Dir == "down").Dial("tcp", addrs[0])
		if err != nil {
			rig.close()
			return nil, err
		}
		conn.SetDeadline(time.Now().Add(10 * time.Second))
		fmt.Fprintf(conn, "CONNECT %s HTTP/1.1\r\nHost: %s\r\n\r\n", target, target)
		br := bufio.NewReader(conn)
		resp, err := http.ReadResponse(br, &http.Request{Method: "CONNECT"})
		if err != nil || resp.StatusCode != 200 || br.Buffered() != 0 {
			st := ""
			if resp != nil {
				st = resp.Status
			}
			conn.Close()
			rig.close()
			return nil, proxyRefused(fmt.Sprintf("CONNECT through the proxy failed: %v %s", err, st))
		}
		conn.SetDeadline(time.Time{})
		select {
		case up := <-accepted:
			l := &stallLink{src: conn, dst: up, stalled: stalled}
			if c.Dir == "down" {
				l.src, l.dst = up, conn
			}
			rig.links = append(rig.links, l)
		case <-time.After(5 * time.Second):
			conn.Close()
			rig.close()
			return nil, proxyRefused("CONNECT through the proxy: 200 but the target was not dialled")
		}
	}
	return rig, nil
}

type stallResult struct {
	setupErr error
	crash    string
	evs      []ev  // every batch a reader of the judged direction got, over all connections
	events   int64 // scripted pauses after which a segment passed
	errs     []string
	hung     bool
}

func runStall(c stallCase) (res stallResult) {
	var rig *stallRig
	var err error
	if c.Mode == "listener" {
		rig, err = openStallListener(c)
	} else {
		rig, err = openStallProxy(c)
	}
	if err != nil {
		res.setupErr = err
		return
	}
	var (
		mu      sync.Mutex
		stop    atomic.Bool
		events  atomic.Int64
		wg      sync.WaitGroup
		scripts = core.NewRand(c.Seed)
	)
	fail := func(format string, a ...any) {
		if stop.Load() {
			return // the cut closes the connections under the calls
		}
		mu.Lock()
		if len(res.errs) < 8 {
			res.errs = append(res.errs, fmt.Sprintf(format, a...))
		}
		mu.Unlock()
	}
	goSafe := func(f func()) {
		wg.Add(1)
		go func() {
			defer wg.Done()
			defer func() {
				if p := recover(); p != nil {
					mu.Lock()
					res.crash = fmt.Sprint(p)
					mu.Unlock()
				}
			}()
			f()
		}()
	}
	pause := func(r *core.Rand) bool {
		end := time.Now().Add(time.Duration(r.Range(c.BlockMs[0], c.BlockMs[1])) * time.Millisecond)
		for time.Now().Before(end) {
			if stop.Load() {
				return false
			}
			time.Sleep(5 * time.Millisecond)
		}
		return !stop.Load()
	}
	t0 := time.Now()
	for i, l := range rig.links {
		i, l := i, l
		block := fillPayload(c.Seed+uint64(i)+1, stallBlock)
		r := scripts.Sub()
		scriptedWriter := l.stalled && c.Dir == "up"
		scriptedReader := l.stalled && c.Dir == "down"
		wsize, rsize := c.Chunk, c.Chunk
		if l.stalled {
			wsize = c.Segment
		}
		if scriptedReader {
			rsize = c.Segment
		}
		goSafe(func() { // writer: the block over and over
			var sent int64
			for !stop.Load() {
				if scriptedWriter && !pause(r) {
					return
				}
				o := int(sent % stallBlock)
				n := wsize
				if n > stallBlock-o {
					n = stallBlock - o
				}
				m, err := l.src.Write(block[o : o+n])
				sent += int64(m)
				if err != nil {
					fail("connection %d: Write after %d bytes: %v", i, sent, err)
					return
				}
				if m != n {
					fail("connection %d: Write of %d bytes returned %d without an error", i, n, m)
					return
				}
				if scriptedWriter {
					events.Add(1)
				}
			}
		})
		goSafe(func() { // reader: records what arrives when, checks it is the next piece of the block
			buf := make([]byte, rsize)
			var got int64
			for !stop.Load() {
				if scriptedReader && !pause(r) {
					return
				}
				n, err := l.dst.Read(buf)
				if n > 0 {
					t := int64(time.Since(t0))
					for p := 0; p < n; {
						o := int((got + int64(p)) % stallBlock)
						q := n - p
						if q > stallBlock-o {
							q = stallBlock - o
						}
						if !bytes.Equal(buf[p:p+q], block[o:o+q]) {
							fail("connection %d: the %d bytes received at offset %d are not the bytes sent there", i, q, got+int64(p))
							return
						}
						p += q
					}
					got += int64(n)
					mu.Lock()
					res.evs = append(res.evs, ev{t: t, n: n})
					mu.Unlock()
					if scriptedReader {
						events.Add(1)
					}
				}
				if err != nil {
					fail("connection %d: Read after %d bytes: %v", i, got, err)
					return
				}
			}
		})
	}
	time.Sleep(time.Duration(c.Millis) * time.Millisecond)
	stop.Store(true)
	rig.close()
	fin := make(chan struct{})
	go func() { wg.Wait(); close(fin) }()
	select {
	case <-fin:
	case <-time.After(15 * time.Second):
		res.hung = true
	}
	mu.Lock()
	res.evs = append([]ev(nil), res.evs...)
	mu.Unlock()
	res.events = events.Load()
	return
}

func stallKW(c stallCase) (k, w int64) {
	k = int64(c.Busy + c.Stalled)
	if c.Mode != "listener" {
		return k, proxyCallBound
	}
	w = int64(c.Chunk)
	if int64(c.Segment) > w {
		w = int64(c.Segment)
	}
	return k, w
}

func checkStall(ctx *core.Ctx, c stallCase) {
	if (c.Mode != "listener" && c.Mode != "proxy-connect") || (c.Dir != "up" && c.Dir != "down") || c.Limit < 64*kib || c.Limit > 64*mib ||
		c.Busy < 0 || c.Busy > 32 || c.Stalled < 0 || c.Stalled > 32 || c.Busy+c.Stalled < 1 || c.BlockMs[0] < 1 || c.BlockMs[1] < c.BlockMs[0] || c.BlockMs[1] > 5000 ||
		c.Segment < 1 || c.Segment > mib || c.Chunk < 1 || c.Chunk > mib || c.Millis < 100 || c.Millis > 30000 {
		core.Fatalf("C20: malformed stall case %+v", c)
	}
	burst := modelBurst(ctx, c.Limit)
	k, w := stallKW(c)
	res := runStall(c)
	switch {
	case res.crash != "":
		ctx.Case(stallKey(c), true)
		ctx.Crash("Conn.Read/Write never panic", "", c, res.crash)
		return
	case res.setupErr != nil:
		if pr, is := res.setupErr.(proxyRefused); is {
			ctx.Case(stallKey(c), true)
			ctx.Crash("a proxy with bandwidth limits serves requests", "", c, string(pr))
			return
		}
		core.Fatalf("C20: stall rig: %v", res.setupErr)
	}
	evs := res.evs
	sort.Slice(evs, func(i, j int) bool { return evs[i].t < evs[j].t })
	var moved, dur int64
	for _, e := range evs {
		moved += int64(e.n)
		dur = e.t
	}
	// exercised = the peers did stall and pass segments, and the saturated connections used up the burst and
	// at least half of what the rate then gives (the bucket was empty while the blocked calls returned)
	saturated := c.Busy > 0 && moved >= burst+c.Limit*int64(c.Millis)/2000
	nontrivial := res.events >= 8 && saturated
	ctx.Case(stallKey(c), nontrivial)
	label := fmt.Sprintf("stall/%s/%s/", c.Mode, c.Dir)
	ctx.Count(label + "limit=" + rateText(c.Limit))
	ctx.Count(fmt.Sprintf("%sbusy=%d,stalled=%d", label, c.Busy, c.Stalled))
	ctx.Count(label + "segments-after-a-pause=" + bucket(int(res.events)))
	if !saturated {
		ctx.Count(label + "bucket-not-kept-empty")
	}
	if res.hung {
		ctx.SpecFail("a rate-limited connection's calls return once the connection is closed and the tokens are paid for ("+c.Dir+")", "", c,
			"calls still pending 15 s after every connection of the listener was closed", "the longest wait of the case is k·w/R")
		return
	}
	if len(res.errs) > 0 {
		ctx.SpecFail("throttled transfers deliver exactly the bytes that were sent ("+c.Dir+")", "", c,
			fmt.Sprintf("%v (%d bytes had arrived)", res.errs, moved), "byte stream differs from what was sent, or a connection failed before the case was cut")
		return
	}
	// the bound of evalDir: cumulative bytes by time t ≤ B + k·w + R·(t + J) + eps, J = 20 ms + 3 % of t for the
	// token leak of concurrent callers (F28 explains milliseconds of rate). An excess beyond that allowance is never
	// classed as F28: a reservation stamped before the limiter's last event re-credits R × the time the call was blocked,
	// tens to hundreds of ms of rate per event.
	jitterNs := func(t int64) int64 { return 20_000_000 + t*3/100 }
	eps := int64(64 * kib)
	var cum, worstCum, worstAllowed, worstT int64
	margin := int64(1) << 62
	for _, e := range evs {
		cum += int64(e.n)
		allowed := burst + k*w + int64(float64(c.Limit)*float64(e.t+jitterNs(e.t))/1e9) + eps
		if allowed-cum < margin {
			margin, worstCum, worstAllowed, worstT = allowed-cum, cum, allowed, e.t
		}
	}
	if margin < 0 {
		// reported at the observation furthest above the bound, so that the size of the excess is on record
		ctx.SpecFail("bytes moved by time t ≤ burst + R·t + k·w, summed over the listener's connections ("+c.Dir+")", "", c,
			fmt.Sprintf("%d bytes observed %v after the start; allowed %d (R=%d B/s, B=%d, k=%d, w=%d, 20 ms + 3 %% of t of rate for out-of-order stamps): excess %d bytes = %.0f ms of rate; in the whole case %d bytes passed in %v, "+
				"%d busy connections next to %d whose peer paused %d-%d ms before each %d-byte segment (%d segments passed)",
				worstCum, time.Duration(worstT), worstAllowed, c.Limit, burst, k, w, -margin, float64(-margin)/float64(c.Limit)*1000, moved, time.Duration(dur).Round(time.Millisecond),
				c.Busy, c.Stalled, c.BlockMs[0], c.BlockMs[1], c.Segment, res.events),
			"throughput bound exceeded with calls that sat blocked next to busy connections (Model.C20: c20_bound_holds_for_monotone_reservation_times; a reservation stamped with the time its call started: c20_stale_stamp_recredits_interval)")
		return
	}
	ans := ctx.Model.MustAsk("C20", "holds", strconv.FormatInt(c.Limit, 10), strconv.FormatInt(burst, 10), strconv.FormatInt(k, 10),
		strconv.FormatInt(w, 10), strconv.FormatInt(max64(moved-eps, 0), 10), "0", strconv.FormatInt(dur+jitterNs(dur), 10))
	if ans != "true" {
		ctx.SpecFail("bytes moved in [t0,t1] ≤ burst + R·(t1−t0) + k·w ("+c.Dir+")", "", c,
			fmt.Sprintf("%d bytes in %v (R=%d B/s, B=%d, k=%d, w=%d)", moved, time.Duration(dur), c.Limit, burst, k, w), ans)
		return
	}
	noteStall(ctx, fmt.Sprintf("%s %s limit=%s busy=%d stalled=%d pause=%d-%dms segment=%d call≤%d: %d bytes in %v, %d segments after a pause (closest to the bound: %d bytes below)",
		c.Mode, c.Dir, rateText(c.Limit), c.Busy, c.Stalled, c.BlockMs[0], c.BlockMs[1], c.Segment, w, moved, time.Duration(dur).Round(time.Millisecond), res.events, margin))
	if nontrivial {
		ctx.TraceValidated()
	}
}

func stallKey(c stallCase) string {
	return fmt.Sprintf("stall:%s|%s|%d|%d|%d|%d-%d|%d|%d|%d|%d", c.Mode, c.Dir, c.Limit, c.Busy, c.Stalled, c.BlockMs[0], c.BlockMs[1], c.Segment, c.Chunk, c.Millis, c.Seed)
}

var measStall []string

func noteStall(ctx *core.Ctx, s string) {
	measMu.Lock()
	defer measMu.Unlock()
	if len(measStall) < 12 {
		measStall = append(measStall, s)
		ctx.Extra("blocked_next_to_busy_transfers_measured", append([]string(nil), measStall...))
	}
}

// genStall: quick = both directions on the listener rig, one more listener case and one tunnel case; thorough = a grid.
// Σ pause ≈ stalled × millis, so a reservation stamped at the start of its call would let ≈ R × stalled × millis
// more pass than the bound: the rates and durations keep that above 1 MiB several times over.
func genStall(ctx *core.Ctx, r *core.Rand) []stallCase {
	limits := []int64{mib, 2 * mib, 4 * mib, 8 * mib}
	pauses := [][2]int{{50, 120}, {80, 200}, {150, 400}, {50, 400}}
	mk := func(mode, dir string) stallCase {
		c := stallCase{Kind: "stall", Mode: mode, Dir: dir, Limit: core.Pick(r, limits), Busy: r.Range(2, 3), Stalled: r.Range(3, 5),
			BlockMs: core.Pick(r, pauses), Segment: core.Pick(r, []int{1 * kib, 4 * kib, 16 * kib}), Chunk: core.Pick(r, []int{16 * kib, 32 * kib, 64 * kib}),
			Millis: r.Range(2200, 2800), Seed: r.U64()}
		if dir == "down" && c.Segment < 16*kib {
			c.Segment = 16 * kib // above the small socket buffers, so that every Write has to wait for the client
		}
		return c
	}
	dirs := []string{"up", "down"}
	var cases []stallCase
	if ctx.Quick() {
		cases = append(cases, mk("listener", "up"), mk("listener", "down"), mk("listener", core.Pick(r, dirs)), mk("proxy-connect", core.Pick(r, dirs)))
		return cases
	}
	for round := 0; round < 3; round++ {
		for _, dir := range dirs {
			for _, lim := range limits {
				c := mk("listener", dir)
				c.Limit = lim
				cases = append(cases, c)
			}
			cases = append(cases, mk("proxy-connect", dir))
		}
	}
	// the edges of the family: a single stalled connection next to one busy one; many stalled ones; no busy one at all
	// (nothing keeps the bucket empty: the bound holds trivially, counted as not exercised)
	e1 := mk("listener", "up")
	e1.Busy, e1.Stalled = 1, 1
	e2 := mk("listener", "down")
	e2.Busy, e2.Stalled = 1, 8
	e3 := mk("listener", "up")
	e3.Busy, e3.Stalled = 0, 4
	return append(cases, e1, e2, e3)
}

func runStalls(ctx *core.Ctx, cases []stallCase) {
	sem := make(chan struct{}, 4)
	var wg sync.WaitGroup
	for i, c := range cases {
		if i < 2 {
			ctx.Sample(c)
		}
		if ctx.NumFindings() >= 12 {
			ctx.Count("stall/skipped-after-findings")
			continue
		}
		wg.Add(1)
		sem <- struct{}{}
		go func(c stallCase) {
			defer wg.Done()
			defer func() { <-sem }()
			checkStall(ctx, c)
		}(c)
	}
	wg.Wait()
}
