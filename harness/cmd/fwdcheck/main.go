// fwdcheck decides one property of /verif/properties.jsonl for /repo's current working tree:
// proof obligations (Lean) + correspondence of the Lean model with the real code.
package main

import (
	"flag"
	"fmt"
	"os"
	"path/filepath"

	"github.com/saucelabs/forwarder/verifharness/core"
)

func main() {
	tier := flag.String("tier", envOr("VERIF_TIER", "quick"), "quick | thorough")
	replay := flag.String("replay", "", "replay file (or corpus case) to re-run alone")
	root := flag.String("root", envOr("VERIF_ROOT", "/verif"), "verification root")
	noProofs := flag.Bool("no-proofs", false, "skip the proof-obligation step (development only; never used by registered commands)")
	flag.Usage = func() {
		fmt.Fprintf(os.Stderr, "usage: fwdcheck [flags] <property>\nregistered: %v\n", core.Registered())
		flag.PrintDefaults()
	}
	// allow "C16 --tier quick" as well as "--tier quick C16"
	args := os.Args[1:]
	var prop string
	var rest []string
	for i := 0; i < len(args); i++ {
		if len(args[i]) > 0 && args[i][0] != '-' && prop == "" {
			prop = args[i]
			continue
		}
		rest = append(rest, args[i])
		if (args[i] == "--tier" || args[i] == "-tier" || args[i] == "--replay" || args[i] == "-replay" || args[i] == "--root" || args[i] == "-root") && i+1 < len(args) {
			i++
			rest = append(rest, args[i])
		}
	}
	flag.CommandLine.Parse(rest)
	if prop == "" {
		flag.Usage()
		os.Exit(2)
	}
	sc, ok := core.Lookup(prop)
	if !ok {
		core.Fatalf("no scenario registered for %s", prop)
	}
	if *tier != "quick" && *tier != "thorough" {
		core.Fatalf("unknown tier %q", *tier)
	}
	model, err := core.NewModel(filepath.Join(*root, "lean", ".lake", "build", "bin", "fwdmodel"))
	if err != nil {
		core.Fatalf("%v", err)
	}
	defer model.Close()
	ctx := core.NewCtx(*root, prop, *tier, core.SeedFromEnv(), model)

	if sc.Prepare != nil {
		sc.Prepare(ctx)
	}
	var pr *core.ProofResult
	if !*noProofs {
		pr = core.CheckProofs(*root, prop, *tier == "thorough")
	}
	if *replay != "" {
		b, err := os.ReadFile(*replay)
		if err != nil {
			core.Fatalf("%v", err)
		}
		sc.Replay(ctx, core.CaseOf(b))
	} else {
		sc.Run(ctx)
	}
	st := ctx.Finish(pr)
	model.Close()
	os.Exit(st)
}

func envOr(k, d string) string {
	if v := os.Getenv(k); v != "" {
		return v
	}
	return d
}
