package main

// one blank import per property scenario
import (
	_ "github.com/saucelabs/forwarder/verifharness/c01"
	_ "github.com/saucelabs/forwarder/verifharness/c02"
	_ "github.com/saucelabs/forwarder/verifharness/c03"
	_ "github.com/saucelabs/forwarder/verifharness/c04"
	_ "github.com/saucelabs/forwarder/verifharness/c05"
	_ "github.com/saucelabs/forwarder/verifharness/c06"
	_ "github.com/saucelabs/forwarder/verifharness/c07"
	_ "github.com/saucelabs/forwarder/verifharness/c08"
	_ "github.com/saucelabs/forwarder/verifharness/c09"
	_ "github.com/saucelabs/forwarder/verifharness/c10"
	_ "github.com/saucelabs/forwarder/verifharness/c11"
	_ "github.com/saucelabs/forwarder/verifharness/c12"
	_ "github.com/saucelabs/forwarder/verifharness/c13"
	_ "github.com/saucelabs/forwarder/verifharness/c14"
	_ "github.com/saucelabs/forwarder/verifharness/c15"
	_ "github.com/saucelabs/forwarder/verifharness/c16"
	_ "github.com/saucelabs/forwarder/verifharness/c17"
	_ "github.com/saucelabs/forwarder/verifharness/c18"
	_ "github.com/saucelabs/forwarder/verifharness/c19"
	_ "github.com/saucelabs/forwarder/verifharness/c20"
)
