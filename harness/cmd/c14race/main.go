// Command c14race hosts the pool scenarios of property C14 (harness/c14: the child-process side of the "pool",
// "poolh" and "poolf" cases) in a binary built with the Go race detector: the scenario builds it with
// `go build -race` and feeds it a case on stdin, exactly as it feeds its own executable.
package main

import (
	"fmt"
	"os"

	_ "github.com/saucelabs/forwarder/verifharness/c14"
)

func main() {
	// with FWDCHECK_C14_POOL_CHILD set the package's init has run the case and exited
	fmt.Fprintln(os.Stderr, "c14race: FWDCHECK_C14_POOL_CHILD is not set")
	os.Exit(3)
}
