// flagtable regenerates lean/FwdVerif/Model/C19FlagTable.lean from the flag declarations of the
// tree under verification ($VERIF_REPO, default /repo).  `bin/check C19` runs the same generator
// in-process before the proof step; this command exists for use by hand:
//
//	cd harness && go run ./cmd/flagtable [-repo DIR] [-root DIR] [-print]
package main

import (
	"flag"
	"fmt"
	"os"

	"github.com/saucelabs/forwarder/verifharness/c19/flagtable"
)

func envOr(k, d string) string {
	if v := os.Getenv(k); v != "" {
		return v
	}
	return d
}

func main() {
	repo := flag.String("repo", envOr("VERIF_REPO", "/repo"), "tree to read the flag declarations from")
	root := flag.String("root", envOr("VERIF_ROOT", "/verif"), "verification root (the Lean file is written below it)")
	print := flag.Bool("print", false, "print the Lean module instead of writing it")
	flag.Parse()
	if *print {
		es, err := flagtable.Extract(*repo)
		if err != nil {
			fmt.Fprintln(os.Stderr, "flagtable:", err)
			os.Exit(1)
		}
		fmt.Print(flagtable.RenderLean(es))
		return
	}
	es, rewritten, err := flagtable.Generate(*repo, *root)
	if err != nil {
		fmt.Fprintln(os.Stderr, "flagtable:", err)
		os.Exit(1)
	}
	fmt.Printf("flagtable: %d flags, rewritten=%v\n", len(es), rewritten)
}
