// srcgen regenerates the source-derived Lean modules (Model/C01Gen, C02Gen, C09Gen, C20Gen) outside a
// check run: `go run ./cmd/srcgen [-root /verif]` with VERIF_REPO naming the tree (default /repo).
package main

import (
	"flag"
	"fmt"

	"github.com/saucelabs/forwarder/verifharness/core"
	"github.com/saucelabs/forwarder/verifharness/srcgen"
)

func main() {
	root := flag.String("root", "/verif", "verification root")
	flag.Parse()
	for _, g := range []struct {
		prop string
		f    func(*core.Ctx)
	}{{"C01", srcgen.PrepareC01}, {"C02", srcgen.PrepareC02}, {"C09", srcgen.PrepareC09}, {"C20", srcgen.PrepareC20}, {"C12", srcgen.PrepareC12}, {"C04", srcgen.PrepareC04}, {"C05", srcgen.PrepareC05}} {
		ctx := core.NewCtx(*root, g.prop, "quick", 1, nil)
		g.f(ctx)
		fmt.Println(g.prop, "generated")
	}
}
