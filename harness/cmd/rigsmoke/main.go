// rigsmoke: development probe — sends raw requests given on stdin (separated by a line "----") through
// a real proxy to a scripted origin and prints what the origin received and what the client got back.
package main

import (
	"fmt"
	"io"
	"os"
	"strings"
	"time"

	"github.com/saucelabs/forwarder"
	"github.com/saucelabs/forwarder/verifharness/rig"
)

func main() {
	origin, err := rig.NewPeer("origin", rig.OKResponder("hello"))
	if err != nil {
		panic(err)
	}
	defer origin.Close()
	p, err := rig.StartProxy(rig.ProxyOpts{
		ConnectTo: []forwarder.HostPortPair{rig.Route("origin.test", "80", origin.Addr)},
	})
	if err != nil {
		panic(err)
	}
	defer p.Stop()
	in, _ := io.ReadAll(os.Stdin)
	raw := strings.ReplaceAll(string(in), "\n", "\r\n")
	raw = strings.ReplaceAll(raw, "\\r", "\r")
	c, err := rig.Dial(p.Addr)
	if err != nil {
		panic(err)
	}
	c.Send([]byte(raw), nil)
	b, _ := c.ReadAll(500 * time.Millisecond)
	fmt.Printf("=== client got ===\n%s\n", b)
	for _, ex := range origin.Log() {
		fmt.Printf("=== origin got (conn %d #%d) ===\n%s%q\n", ex.ConnID, ex.Index, ex.Req.HeadBytes, ex.Req.Body)
	}
}
