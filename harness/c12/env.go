package c12

import (
	"crypto/tls"
	"errors"
	"fmt"
	"io"
	"net"
	"net/http"
	"net/url"
	"strings"
	"sync"
	"syscall"
	"time"

	"github.com/prometheus/client_golang/prometheus"
	"github.com/saucelabs/forwarder"
	"github.com/saucelabs/forwarder/header"
	"github.com/saucelabs/forwarder/httplog"
	"github.com/saucelabs/forwarder/verifharness/rig"
)

// script is what a scripted peer does for one case.
type script struct {
	reply  []byte // origin reply
	k      int    // bytes to write (-1 = all, regular end)
	reset  bool
	eof    bool // close-delimited reply: close after writing everything
	creply []byte
	ck     int
	creset bool
	cstall bool
	has    bool // has a CONNECT script
	// reply cases: close the connection properly after the reply (fin); after a 2xx CONNECT reply go on
	// as a tunnel to the scripted peer behind the virtual port (ctunnel)
	fin     bool
	ctunnel bool
}

// env is everything a child process sets up: scripted peers and the proxies under test.
type env struct {
	root      string
	ca        *rig.CA
	origin    *rig.Peer
	tlsOrigin *rig.Peer
	upstream  *rig.Peer
	probe     *rig.Peer
	tlsFaults map[string]*rig.Peer
	blackhole *rig.Blackhole
	refused   string
	refuser   *rig.Refuser
	resetter  *rig.Peer
	proxies   map[string]*rig.Proxy
	labelReg  *prometheus.Registry
	regs      map[string]*prometheus.Registry // proxy name -> the registry its transport and the proxy share
	dialMu    sync.Mutex
	dials     map[string]map[string]bool // proxy name -> every address its dialer was left with (after --connect-to)
	scripts   sync.Map // case id -> *script
	rigNotes  sync.Map // case id -> string: the rig did not carry out the script of the case (rigFailed)
	used      sync.Map // proxy name -> true: the instances the batch went through
	targets   map[string]string // virtual port -> real address (for the upstream proxy's tunnels)
	routes    []forwarder.HostPortPair // the --connect-to rules of every proxy instance
	uploads   sync.Map                 // case id -> *uploadSeen: what the origin read of an upload case's request
	// mk starts one more proxy instance the way newEnv starts all of them (lattice.go: the instances of the batch's
	// dialtl cases, started before any case runs)
	mk func(name, upstream string, mitm, tlsListener, handler bool, reg *prometheus.Registry, logMode string) error
}

const probeBody = "probe-ok"

// upResponseRules are the --response-header rules of the proxies that go through the scripted upstream
// proxy ("up", "upmitm"): they apply to every response to a non-CONNECT request — error responses and
// relayed CONNECT rejections of the transport included.
var upResponseRules = []string{"X-C12-Rule: seen", "-X-Up-Strip"}

// responseRules builds the modifier the way command/run configureHeadersModifiers does.
func responseRules(rules []string) ([]forwarder.ResponseModifier, error) {
	var hdrs []header.Header
	for _, rs := range rules {
		h, err := header.ParseHeader(rs)
		if err != nil {
			return nil, fmt.Errorf("rule %q: %w", rs, err)
		}
		hdrs = append(hdrs, h)
	}
	hs := header.Headers(hdrs)
	return []forwarder.ResponseModifier{forwarder.ResponseModifierFunc(func(resp *http.Response) error {
		if req := resp.Request; req != nil && req.Method == http.MethodConnect {
			return nil
		}
		return hs.ModifyResponse(resp)
	})}, nil
}

func idOfHost(h string) string {
	if i := strings.IndexByte(h, '.'); i > 0 {
		return strings.ToUpper(h[:i])
	}
	return ""
}

// serveOrigin answers requests on one connection according to the scripts.
func (e *env) serveOrigin(pc *rig.PeerConn) {
	for {
		req, err := rig.ReadRequest(pc.BR)
		e.noteUpload(req, err)
		if err != nil {
			return
		}
		id := req.Get("Case-Id")
		v, ok := e.scripts.Load(id)
		if ok && v.(*script).has && len(v.(*script).reply) == 0 {
			ok = false // the case scripts the CONNECT reply only: the request behind the tunnel is served normally
		}
		if !ok {
			keep := !strings.EqualFold(req.Get("Connection"), "close")
			h := "HTTP/1.1 200 OK\r\nContent-Length: 8\r\nX-Probe: " + id + "\r\n"
			if !keep {
				h += "Connection: close\r\n"
			}
			b := []byte(h + "\r\n")
			if req.Method != "HEAD" {
				b = append(b, probeBody...)
			}
			if _, err := pc.Write(b); err != nil || !keep {
				return
			}
			continue
		}
		sc := v.(*script)
		if !e.play(pc, id, sc.reply, sc.k, sc.reset) || sc.eof {
			if sc.fin {
				pc.Close() // a TLS peer ends with close_notify
			}
			return
		}
	}
}

// drainWait bounds the wait of a scripted peer for its bytes to be taken before it resets the connection.
const drainWait = 8 * time.Second

// rigFailed records that the rig could not carry out the script of a case: the case is not judged.
func (e *env) rigFailed(id, what string) {
	if id != "" {
		e.rigNotes.LoadOrStore(id, what)
	}
}

// play writes b[:k] and then ends the connection by FIN or RST; k < 0 writes everything and keeps
// the connection. It reports whether the connection is still usable. The end is byte-driven: a reset
// goes out only when the peer's TCP has every byte of b[:k] (rig.Drain), so that "k bytes, then RST"
// is what happens however slowly the other side reads; if that cannot be arranged within drainWait
// the script was not performed and the case (id) is marked so.
func (e *env) play(pc *rig.PeerConn, id string, b []byte, k int, reset bool) bool {
	if k < 0 {
		_, err := pc.Write(b)
		return err == nil
	}
	if k > len(b) {
		k = len(b)
	}
	if k > 0 {
		pc.Write(b[:k])
	}
	if reset {
		// the bytes first: a reset discards what is still in the send queue
		if k > 0 && !rig.Drain(pc.Conn, drainWait) {
			e.rigFailed(id, fmt.Sprintf("origin: %d of the %d bytes before the reset still unsent after %v", rig.SendQueue(pc.Conn), k, drainWait))
		}
		time.Sleep(25 * time.Millisecond)
		pc.Abort()
	} else {
		pc.Close()
	}
	return false
}

// serveUpstream is the scripted upstream proxy: CONNECT is answered per script or tunnelled to the
// scripted peer behind the virtual port; other requests are answered like an origin.
func (e *env) serveUpstream(pc *rig.PeerConn) {
	for {
		req, err := rig.ReadRequest(pc.BR)
		if err != nil {
			return
		}
		if req.Method != "CONNECT" {
			id := req.Get("Case-Id")
			v, ok := e.scripts.Load(id)
			if !ok {
				pc.Write([]byte("HTTP/1.1 200 OK\r\nContent-Length: 8\r\nX-Probe: " + id + "\r\n\r\n" + probeBody))
				continue
			}
			sc := v.(*script)
			if !e.play(pc, id, sc.reply, sc.k, sc.reset) || sc.eof {
				if sc.fin {
					pc.Close()
				}
				return
			}
			continue
		}
		id := req.Get("Case-Id")
		if id == "" {
			id = idOfHost(req.Target)
		}
		if v, ok := e.scripts.Load(id); ok && v.(*script).has {
			sc := v.(*script)
			if sc.cstall {
				time.Sleep(4 * time.Second)
				return
			}
			e.play(pc, id, sc.creply, sc.ck, sc.creset)
			if sc.ctunnel && sc.ck < 0 && replyIs2xx(sc.creply) {
				// the reply, however odd, says the tunnel stands: behave like it
				_, port, _ := net.SplitHostPort(req.Target)
				if addr, ok := e.targets[port]; ok {
					if back, err := net.DialTimeout("tcp", addr, 2*time.Second); err == nil {
						e.pipe(pc, back, id)
						return
					}
				}
			}
			if sc.ck < 0 {
				// a complete rejection: a real proxy would keep or close the connection; close it
				pc.Close()
			}
			return
		}
		_, port, _ := net.SplitHostPort(req.Target)
		addr, ok := e.targets[port]
		if !ok {
			pc.Write([]byte("HTTP/1.1 502 Bad Gateway\r\nContent-Length: 0\r\n\r\n"))
			return
		}
		back, err := net.DialTimeout("tcp", addr, 2*time.Second)
		if err != nil {
			pc.Write([]byte("HTTP/1.1 502 Bad Gateway\r\nContent-Length: 0\r\n\r\n"))
			return
		}
		pc.Write([]byte("HTTP/1.1 200 OK\r\n\r\n"))
		e.pipe(pc, back, id)
		return
	}
}

// pipe relays both directions and propagates how the far side ended (FIN as FIN, RST as RST; the reset only
// when everything relayed before it has been taken, like play).
func (e *env) pipe(pc *rig.PeerConn, back net.Conn, id string) {
	front := pc.TCPConn()
	done := make(chan struct{}, 2)
	cp := func(dst net.Conn, src io.Reader, dstTCP *net.TCPConn) {
		defer func() { done <- struct{}{} }()
		_, err := io.Copy(dst, src)
		if err != nil && errors.Is(err, syscall.ECONNRESET) {
			if !rig.Drain(dst, drainWait) {
				e.rigFailed(id, fmt.Sprintf("upstream relay: %d relayed bytes still unsent before the reset after %v", rig.SendQueue(dst), drainWait))
			}
			rig.AbortConn(dst)
			return
		}
		if dstTCP != nil {
			dstTCP.CloseWrite()
		} else {
			dst.Close()
		}
	}
	go cp(back, pc.BR, rig.UnderlyingTCP(back))
	go cp(pc.Conn, back, front)
	<-done
	<-done
	back.Close()
	pc.Close()
}

func newEnv(root string) (*env, error) {
	e := &env{root: root, tlsFaults: map[string]*rig.Peer{}, proxies: map[string]*rig.Proxy{}, targets: map[string]string{},
		regs: map[string]*prometheus.Registry{}, dials: map[string]map[string]bool{}}
	var err error
	if e.ca, err = rig.NewCA("c12 origin CA"); err != nil {
		return nil, err
	}
	if e.origin, err = rig.NewRawPeer("origin", e.serveOrigin); err != nil {
		return nil, err
	}
	if e.probe, err = rig.NewRawPeer("probe", e.serveOrigin); err != nil {
		return nil, err
	}
	leaf, err := e.ca.ValidLeaf("*.tls.test", "tls.test")
	if err != nil {
		return nil, err
	}
	if e.tlsOrigin, err = rig.NewRawTLSPeer("tls-origin", &tls.Config{Certificates: []tls.Certificate{leaf}}, e.serveOrigin); err != nil {
		return nil, err
	}
	if e.upstream, err = rig.NewRawPeer("upstream", e.serveUpstream); err != nil {
		return nil, err
	}
	if e.blackhole, err = rig.NewBlackhole(); err != nil {
		return nil, err
	}
	rf, err := rig.NewRefuser()
	if err != nil {
		return nil, err
	}
	e.refuser, e.refused = rf, rf.Addr
	if e.resetter, err = rig.NewRawPeer("resetter", func(pc *rig.PeerConn) { pc.Abort() }); err != nil {
		return nil, err
	}
	// TLS fault endpoints
	okTLS := func(pc *rig.PeerConn) { e.serveOrigin(pc) }
	expired, err := e.ca.Leaf(time.Now().Add(-48*time.Hour), time.Now().Add(-24*time.Hour), "*.expired.test")
	if err != nil {
		return nil, err
	}
	wrong, err := e.ca.ValidLeaf("other.example")
	if err != nil {
		return nil, err
	}
	ca2, err := rig.NewCA("c12 untrusted CA")
	if err != nil {
		return nil, err
	}
	untrusted, err := ca2.ValidLeaf("*.untrusted.test")
	if err != nil {
		return nil, err
	}
	mkTLS := func(name string, cert tls.Certificate) error {
		p, err := rig.NewRawTLSPeer(name, &tls.Config{Certificates: []tls.Certificate{cert}}, okTLS)
		e.tlsFaults[name] = p
		return err
	}
	if err := mkTLS("expired", expired); err != nil {
		return nil, err
	}
	if err := mkTLS("wrong-name", wrong); err != nil {
		return nil, err
	}
	if err := mkTLS("untrusted", untrusted); err != nil {
		return nil, err
	}
	rawAfterHello := func(name string, fn func(pc *rig.PeerConn)) error {
		p, err := rig.NewRawPeer(name, func(pc *rig.PeerConn) {
			buf := make([]byte, 4096)
			pc.SetReadDeadline(time.Now().Add(2 * time.Second))
			if _, err := pc.Read(buf); err != nil { // the ClientHello
				return
			}
			fn(pc)
		})
		e.tlsFaults[name] = p
		return err
	}
	linger := func(pc *rig.PeerConn) { // give the peer time to read what was written before the FIN
		pc.SetReadDeadline(time.Now().Add(300 * time.Millisecond))
		io.Copy(io.Discard, pc)
	}
	for name, fn := range map[string]func(pc *rig.PeerConn){
		"garbage":     func(pc *rig.PeerConn) { pc.Write([]byte("\x16\x03\x03\x00\x05hello-this-is-no-server-hello")); linger(pc) },
		"plain-http":  func(pc *rig.PeerConn) { pc.Write([]byte("HTTP/1.1 400 Bad Request\r\nContent-Length: 0\r\n\r\n")); linger(pc) },
		"not-tls":     func(pc *rig.PeerConn) { pc.Write([]byte("SSH-2.0-OpenSSH_9.6\r\n")); linger(pc) },
		"alert":       func(pc *rig.PeerConn) { pc.Write([]byte{0x15, 0x03, 0x03, 0x00, 0x02, 0x02, 0x28}); linger(pc) },
		"local-alert": func(pc *rig.PeerConn) { pc.Write([]byte{0x16, 0x03, 0x03, 0x00, 0x04, 0x0b, 0x00, 0x00, 0x00}); linger(pc) },
		"closed":      func(pc *rig.PeerConn) {},
		"reset":       func(pc *rig.PeerConn) { pc.Abort() },
		"stall":       func(pc *rig.PeerConn) { time.Sleep(4 * time.Second) },
	} {
		if err := rawAfterHello(name, fn); err != nil {
			return nil, err
		}
	}
	// routes by virtual port
	e.targets[portOrigin] = e.origin.Addr
	e.targets[portTLSOrigin] = e.tlsOrigin.Addr
	e.targets[portProbe] = e.probe.Addr
	e.targets[portRefused] = e.refused
	e.targets[portReset] = e.resetter.Addr
	for name, p := range e.tlsFaults {
		e.targets[tlsFaultPorts[name]] = p.Addr
	}
	routes := []forwarder.HostPortPair{
		rig.Route("", portBlackhole, e.blackhole.Addr),
		rig.Route("", portUpstream, e.upstream.Addr),
		rig.Route("", portUpDead, e.refused),
		rig.Route("", portUpHole, e.blackhole.Addr),
		rig.Route("", portUpReset, e.resetter.Addr),
	}
	for port, addr := range e.targets {
		routes = append(routes, rig.Route("", port, addr))
	}
	e.routes = routes
	caFile, err := e.ca.WriteFile(root+"/.work", fmt.Sprintf("c12-ca-%d-%d.pem", time.Now().UnixNano(), syscall.Getpid()))
	if err != nil {
		return nil, err
	}
	upRules, err := responseRules(upResponseRules)
	if err != nil {
		return nil, err
	}
	mk := func(name, upstream string, mitm, tlsListener, handler bool, reg *prometheus.Registry, logMode string) error {
		// command/run hands ONE registry to the transport (whose forwarder.Dialer labels its metrics with the
		// host of every address it dials) and to the proxy; MITM and the TLS listener need one
		if reg == nil {
			reg = prometheus.NewRegistry()
		}
		e.regs[name] = reg
		p, err := rig.StartProxy(rig.ProxyOpts{
			ConnectTo: routes,
			Transport: func(tc *forwarder.HTTPTransportConfig) {
				tc.CACertFiles = []string{caFile}
				// generous where a healthy peer has to make it in time under CPU load; the stalling peers
				// are the only ones that run into these
				tc.DialTimeout = 2 * time.Second
				tc.TLSClientConfig.HandshakeTimeout = 2500 * time.Millisecond
				tc.PromRegistry = reg
				tc.PromNamespace = promNamespace
				// every address the dialer is left with after --connect-to: what its metrics are labelled from
				inner := tc.RedirectFunc
				tc.RedirectFunc = func(network, address string) (string, string) {
					if inner != nil {
						network, address = inner(network, address)
					}
					e.noteDial(name, address)
					return network, address
				}
				if lp, ok := parseLatticeProxy(name); ok {
					// the dial limits of this point of the lattice (lattice.go), retries as the product has them
					tc.DialTimeout = lp.cfg.Dial
					tc.Retry = forwarder.DialRetryConfig{Attempts: lp.cfg.Attempts, Backoff: lp.cfg.Backoff}
				}
			},
			PostTransport: func(rt *http.Transport) { rt.DisableKeepAlives = true },
			Configure: func(cfg *forwarder.HTTPProxyConfig) {
				cfg.Name = "fwdverif"
				cfg.ReadHeaderTimeout = 3 * time.Second
				cfg.IdleTimeout = 30 * time.Second
				cfg.TLSServerConfig.HandshakeTimeout = 3 * time.Second
				cfg.ConnectTimeout = 2500 * time.Millisecond
				switch upstream {
				case "up":
					cfg.UpstreamProxy = rig.MustURL("http://upstream.test:" + portUpstream)
					cfg.ResponseModifiers = append(cfg.ResponseModifiers, upRules...)
				case "dead", "hole", "rst", "sdead", "shole", "srst":
					scheme := "http"
					if strings.HasPrefix(upstream, "s") {
						scheme = "https"
					}
					port := map[string]string{"dead": portUpDead, "hole": portUpHole, "rst": portUpReset}[strings.TrimPrefix(upstream, "s")]
					cfg.UpstreamProxy = rig.MustURL(scheme + "://upstream.test:" + port)
				}
				cfg.PromRegistry = reg
				cfg.PromNamespace = promNamespace
				if mitm {
					cfg.MITM = forwarder.DefaultMITMConfig()
				}
				if tlsListener {
					cfg.Protocol = forwarder.HTTPSScheme
				}
				// martian's http.Handler under net/http's server instead of the TCP server (proxy_handler.go)
				cfg.TestingHTTPHandler = handler
				if logMode != "" {
					// --log-http: the logger is a response modifier whatever the log sink is
					cfg.LogHTTPMode = httplog.Mode(logMode)
				}
				if authProxies[name] {
					// --basic-auth: the parser of Proxy-Authorization runs on every request (fields.go)
					cfg.BasicAuth = url.UserPassword(authUser, authPass)
				}
				if lp, ok := parseLatticeProxy(name); ok {
					cfg.ConnectTimeout = lp.cfg.Connect
					if lp.scheme != "" {
						cfg.UpstreamProxy = rig.MustURL(lp.scheme + "://upstream.test:" + portUpHole)
					}
				}
			},
			Credentials: credentialsFor(name),
		})
		e.proxies[name] = p
		return err
	}
	e.labelReg = prometheus.NewRegistry()
	for _, pd := range []struct {
		name, up  string
		mitm, tls bool
		reg       *prometheus.Registry
	}{
		{"direct", "", false, false, nil}, {"mitm", "", true, false, nil}, {"up", "up", false, false, nil},
		{"upmitm", "up", true, false, nil}, {"dead", "dead", false, false, nil}, {"deadmitm", "dead", true, false, nil},
		{"tls", "", false, true, nil}, {"label", "", false, false, e.labelReg},
		{"hole", "hole", false, false, nil}, {"holemitm", "hole", true, false, nil},
		{"rst", "rst", false, false, nil}, {"rstmitm", "rst", true, false, nil},
		{"sdead", "sdead", false, false, nil}, {"sdeadmitm", "sdead", true, false, nil},
		{"shole", "shole", false, false, nil}, {"sholemitm", "shole", true, false, nil},
		{"srst", "srst", false, false, nil}, {"srstmitm", "srst", true, false, nil},
		// the same proxy served through martian's http.Handler (no interception there)
		{"hdirect", "", false, false, nil}, {"hup", "up", false, false, nil}, {"htls", "", false, true, nil},
		// started with --basic-auth and --credentials: the proxy parses Proxy-Authorization / looks at Authorization (fields.go)
		{"auth", "", false, false, nil}, {"authmitm", "", true, false, nil}, {"authtls", "", false, true, nil}, {"hauth", "", false, false, nil},
	} {
		if err := mk(pd.name, pd.up, pd.mitm, pd.tls, handlerProxies[pd.name], pd.reg, ""); err != nil {
			return nil, fmt.Errorf("proxy %s: %w", pd.name, err)
		}
	}
	e.mk = mk
	// the plain proxy again under every HTTP log mode of the product (logmode.go), both server variants
	for _, m := range logModes() {
		for _, h := range []bool{false, true} {
			name := logProxyName(m, h)
			if err := mk(name, "", false, false, h, nil, m); err != nil {
				return nil, fmt.Errorf("proxy %s: %w", name, err)
			}
		}
	}
	return e, nil
}

// handlerProxies are the instances served through martian's http.Handler (HTTPProxyConfig.TestingHTTPHandler).
var handlerProxies = map[string]bool{"hdirect": true, "hup": true, "htls": true, "hauth": true}

// promNamespace is the metrics namespace of every proxy instance (command/run: the same for transport and proxy).
const promNamespace = "fwdverif"

func (e *env) noteDial(proxy, address string) {
	e.dialMu.Lock()
	m := e.dials[proxy]
	if m == nil {
		m = map[string]bool{}
		e.dials[proxy] = m
	}
	m[address] = true
	e.dialMu.Unlock()
}

// proxyFor picks the proxy instance a case goes through.
func (e *env) proxyFor(c *Case) (string, *rig.Proxy) {
	name := "direct"
	switch {
	case c.Kind == "dialtl":
		name = latticeProxyName(c)
	case c.Kind == "certname":
		name = map[bool]string{false: "mitm", true: "authmitm"}[c.Auth != ""]
	case c.LogMode != "":
		name = logProxyName(c.LogMode, c.Server == "handler")
	case c.Kind == "client" && c.Auth != "":
		name = authProxyName(c.Via, c.Server == "handler")
	case c.Kind == "client" && c.Upstream == "up":
		name = map[string]string{"plain": "up", "mitm": "upmitm"}[c.Via]
		if c.Server == "handler" {
			name = "hup"
		}
	case c.Server == "handler" && c.Kind == "client" && c.Via == "tls":
		name = "htls"
	case c.Server == "handler" && c.Kind == "client":
		name = "hdirect"
	case c.Server == "handler" && c.Upstream == "":
		name = "hdirect"
	case c.Server == "handler":
		name = "h" + c.Upstream
	case c.Kind == "label":
		name = "label"
	case c.Kind == "client" && c.Via == "tls":
		name = "tls"
	case c.Via == "mitm":
		name = c.Upstream + "mitm"
	case c.Upstream == "":
		name = "direct"
	default:
		name = c.Upstream
	}
	e.used.Store(name, true)
	return name, e.proxies[name]
}
