package c12

import (
	"fmt"
	"sort"
	"strings"
	"unicode/utf8"

	"github.com/saucelabs/forwarder/verifharness/core"
)

// The HOST dimension of hostile client input.
//
// The host a client names — CONNECT authority, authority of an absolute-form target, Host field, on a plain
// or TLS listener or inside an intercepted tunnel — ends up, byte for byte, as the address forwarder.Dialer
// dials, and from there in the `host` label of its metrics (net_metrics.go addr2Host). Every step between
// the request line and the label has limits of its own (63 / 253 / 255 octets of DNS, 1 KiB, 4 KiB and
// 64 KiB buffers), and the label has one hard requirement: valid UTF-8, or prometheus panics on a goroutine
// nobody recovers. So the generator composes hosts of lengths around every such limit out of ASCII, 2-, 3-
// and 4-byte encodings placed so that each byte offset in 240..260 is an encoding boundary in one host and
// the middle of an encoding in another, invalid UTF-8, percent-encoded forms (net/url decodes %80..%FF in a
// host), IDN / punycode look-alikes and IPv6 literals with zones. Each request must end in a well-formed
// response or a close, the child process must survive, and the labels the registry holds afterwards must
// be Model.C12.addr2Host of the addresses the dialer saw.

const hostPort = "81" // no connect-to rule names it: the address reaches the dialer as the client spelled it

type hostCase struct{ class, host string }

var hostRunes = []string{"é", "€", "😀"} // 2, 3 and 4 bytes

// fillTo pads s with ASCII letters to exactly n bytes (s is returned as it is when it is longer).
func fillTo(s string, n int) string {
	if len(s) >= n {
		return s
	}
	return s + strings.Repeat("a", n-len(s))
}

// labelled cuts an ASCII name into DNS labels of at most 63 octets.
func labelled(n int) string {
	var sb strings.Builder
	for sb.Len() < n {
		if sb.Len() > 0 {
			sb.WriteByte('.')
		}
		k := n - sb.Len()
		if k > 63 {
			k = 63
		}
		sb.WriteString(strings.Repeat("b", k))
	}
	return sb.String()[:n]
}

var hostLimits = []int{63, 64, 253, 254, 255, 256, 1 << 10, 4 << 10, 64 << 10}

func hostileHosts(r *core.Rand, quick bool) []hostCase {
	var out []hostCase
	add := func(class, host string) { out = append(out, hostCase{class, host}) }
	// 1. every byte offset 240..260 is the start of an encoding of every width (so that the offsets behind it,
	// up to three, fall inside the encoding), in a host longer than every DNS limit
	for _, ru := range hostRunes {
		for off := 240; off <= 260; off++ {
			total := core.Pick(r, []int{266, 270, 300, 400})
			h := strings.Repeat("a", off) + ru
			switch r.Intn(3) {
			case 0:
				h = fillTo(h, total)
			case 1: // encodings all the way
				for len(h) < total {
					h += core.Pick(r, hostRunes)
				}
			case 2:
				h = fillTo(h, total-9) + ".invalid"
			}
			add(fmt.Sprintf("straddle/w=%d", len(ru)), h)
		}
	}
	// hosts made of encodings only, shifted by 0..3 ASCII bytes: the boundaries fall on every residue
	for _, ru := range hostRunes {
		for shift := 0; shift < len(ru); shift++ {
			add(fmt.Sprintf("all-runes/w=%d", len(ru)), strings.Repeat("a", shift)+strings.Repeat(ru, core.Pick(r, []int{70, 90, 130, 300})))
		}
	}
	// 2. lengths around every limit x composition
	comps := []string{"ascii", "labels", "r2", "r3", "r4", "mixed", "bad-tail", "bad-inside", "bad-only"}
	for _, lim := range hostLimits {
		for _, d := range []int{-1, 0, 1} {
			n := lim + d
			cs := comps
			if quick {
				cs = []string{core.Pick(r, comps), core.Pick(r, comps[2:])}
				if lim >= 4<<10 && d != 0 {
					continue
				}
			}
			for _, comp := range cs {
				var h string
				switch comp {
				case "ascii":
					h = strings.Repeat("a", n)
				case "labels":
					h = labelled(n)
				case "r2", "r3", "r4":
					ru := hostRunes[int(comp[1]-'2')]
					h = fillTo(strings.Repeat(ru, n/len(ru)), n)
					if r.Bool() {
						h = fillTo(strings.Repeat("a", n%len(ru))+strings.Repeat(ru, n/len(ru)), n)
					}
				case "mixed":
					for len(h) < n-4 {
						h += core.Pick(r, []string{"a", "b.", "é", "€", "😀", "-", "1"})
					}
					h = fillTo(h, n)
				case "bad-tail":
					h = strings.Repeat("a", n-1) + core.Pick(r, []string{"\xc3", "\xe2", "\xf0", "\xff", "\x80"})
				case "bad-inside":
					pos := core.Pick(r, []int{0, n / 2, 251, 252, 253, n - 2})
					if pos < 0 || pos >= n-1 {
						pos = n / 2
					}
					h = strings.Repeat("a", pos) + core.Pick(r, []string{"\xc3\x28", "\xe2\x82", "\xed\xa0\x80", "\xf4\x90\x80\x80", "\xc0\xaf", "\xfe"})
					h = fillTo(h, n)
				case "bad-only":
					h = strings.Repeat(core.Pick(r, []string{"\xff", "\x80", "\xc3"}), n)
				}
				add(fmt.Sprintf("len/%d/%s", lim, comp), h)
			}
		}
	}
	// 3. IDN and punycode look-alikes
	for _, h := range []string{
		"xn--caf-dma.invalid", "XN--CAF-DMA.invalid", "xn--.invalid", "xn---.invalid", "xn--a.xn--b.invalid", "xn--\xff.invalid", "xn--é.invalid",
		"xn--" + strings.Repeat("a", 59) + ".invalid", "xn--" + strings.Repeat("a", 60) + ".invalid", "xn--" + strings.Repeat("a", 300),
		"caf\u00e9.invalid", "cafe\u0301.invalid", "\uff41\uff42\uff43.invalid", "a\u3002b\u3002invalid", "a\uff0eb.invalid", "\u200dzwj.invalid", "\u00df.invalid", "\u0130.invalid",
		"\u0440\u0430ypal.invalid", "a\u202eb.invalid", "\ufeffbom.invalid", "x.\U000e0041.invalid", strings.Repeat("é.", 130) + "invalid", strings.Repeat("xn--caf-dma.", 30) + "invalid",
	} {
		add("idn", h)
	}
	// 4. IPv6 literals with zones (none that names an interface of this machine: such a dial would hang)
	for _, h := range []string{
		"[fe80::1%25zz9]", "[fe80::1%zz9]", "[::1%25x]", "[::1%x]", "[fe80::1%25" + strings.Repeat("z", 300) + "]", "[fe80::1%25é]", "[fe80::1%25\xff]",
		"[fe80::1%25" + strings.Repeat("a", 240) + "é" + strings.Repeat("a", 30) + "]", "[::ffff:127.0.0.1%251]", "[::%25]", "[fe80::1%]", "[fe80::%zz9%zz9]",
		"[" + strings.Repeat("a", 252) + "é]", "[é" + strings.Repeat("a", 300) + "]", "[::1", "::1]", "[]", "[%25]",
	} {
		add("zone", h)
	}
	return out
}

// pctHost percent-encodes the bytes of a host that net/url decodes in a host (%80..%FF), and only those.
func pctHost(h string) string {
	var sb strings.Builder
	for i := 0; i < len(h); i++ {
		if h[i] >= 0x80 {
			fmt.Fprintf(&sb, "%%%02X", h[i])
		} else {
			sb.WriteByte(h[i])
		}
	}
	return sb.String()
}

var hostForms = []string{"connect", "absolute", "absolute-other-host", "host-field"}

func renderHostReq(form, h string) string {
	hp := h + ":" + hostPort
	switch form {
	case "connect":
		return "CONNECT " + hp + " HTTP/1.1\r\nHost: " + hp + "\r\n\r\n"
	case "absolute":
		return "GET http://" + hp + "/p?q=1 HTTP/1.1\r\nHost: " + hp + "\r\n\r\n"
	case "absolute-other-host":
		return "GET http://" + hp + "/ HTTP/1.1\r\nHost: x\r\n\r\n"
	}
	return "GET /x HTTP/1.1\r\nHost: " + hp + "\r\n\r\n"
}

// genHosts adds the host cases: the whole straddle family as CONNECT on the plain listener every run (the
// authority of a CONNECT is dialled as it stands), everything else spread over request form x listener x
// server variant x raw / percent-encoded.
func genHosts(g *gen, quick bool) {
	r := g.r
	addCase := func(hc hostCase, form, via, server string, pct bool) {
		h := hc.host
		what := "host/" + hc.class
		if pct {
			h = pctHost(h)
			what += "/pct"
		}
		g.add(&Case{Kind: "client", Via: via, Server: server, What: what, Dims: form, HostHex: core.HexS(hc.host), InputHex: hexes(renderHostReq(form, h)),
			Sentinel: r.Chance(85)})
	}
	place := func(hc hostCase) (form, via, server string, pct bool) {
		form = core.Pick(r, hostForms)
		via = core.Pick(r, []string{"plain", "plain", "tls", "mitm"})
		if via == "mitm" && form == "connect" {
			form = "host-field" // inside the intercepted tunnel
		}
		if via != "mitm" && r.Chance(25) {
			server = "handler"
		}
		return form, via, server, r.Chance(30)
	}
	reps := 1
	if !quick {
		reps = 6
	}
	for _, hc := range hostileHosts(r, quick) {
		if strings.HasPrefix(hc.class, "straddle/") {
			addCase(hc, "connect", "plain", "", false)
			if quick && !r.Chance(35) {
				continue
			}
		}
		for i := 0; i < reps; i++ {
			form, via, server, pct := place(hc)
			addCase(hc, form, via, server, pct)
		}
	}
	// some of the extremes in every form on the plain listener of both server variants
	for _, server := range []string{"", "handler"} {
		for _, form := range hostForms {
			for _, h := range []string{strings.Repeat("a", 252) + "é.invalid", strings.Repeat("a", 251) + "€" + strings.Repeat("a", 20), strings.Repeat("é", 127) + ".invalid"} {
				addCase(hostCase{"extreme", h}, form, "plain", server, false)
				addCase(hostCase{"extreme", h}, form, "plain", server, true)
			}
		}
	}
}

// ---- the labels of the dialer's metrics ----

func zoneLiteral(addr string) bool {
	return strings.HasPrefix(addr, "[") && strings.Contains(addr, "%")
}

const (
	clauseDialLabel = "the host labels of the dialer's metrics = Model.C12.addr2Host of the addresses dialled"
	clauseLabelUTF8 = "every metric label is valid UTF-8 (the registry can be gathered)"
)

// judgeLabels compares, per proxy instance of a batch, the `host` labels its registry holds at the end of
// the batch with the model's addr2Host of every address its dialer was left with.
func judgeLabels(ctx *core.Ctx, cases []*Case, d *childDone) {
	if d.LabelErr != "" {
		ctx.SpecFail(clauseLabelUTF8, "", map[string]any{"kind": "batch", "cases": ids(cases)}, d.LabelErr, "the registry a proxy instance shares with its dialer can no longer be gathered")
	}
	names := make([]string, 0, len(d.Labels))
	for name := range d.Labels {
		names = append(names, name)
	}
	sort.Strings(names)
	for _, name := range names {
		got := map[string]bool{}
		for _, l := range d.Labels[name] {
			got[l] = true
			if b := core.MustUnHex(orEmpty(l)); !utf8.Valid(b) {
				ctx.SpecFail(clauseLabelUTF8, "", map[string]any{"kind": "batch", "proxy": name, "cases": ids(cases)}, fmt.Sprintf("label %q", b), "a label value that is not valid UTF-8")
			}
		}
		want := map[string]string{} // label -> an address that yields it
		for _, a := range d.Dials[name] {
			l := ctx.Model.MustAsk("C12", "label", orEmpty(a))
			if _, ok := want[l]; !ok {
				want[l] = a
			}
			addr := string(core.MustUnHex(orEmpty(a)))
			ctx.Count("dial-label/" + labelClass(string(core.MustUnHex(orEmpty(l))), addr))
			if !got[l] && !zoneLiteral(addr) {
				ctx.Disagree(clauseDialLabel, map[string]any{"kind": "batch", "proxy": name, "address_hex": a, "cases": ids(cases)},
					fmt.Sprintf("no metric of the dialer carries the label; labels: %s", shortList(d.Labels[name])), l)
			}
		}
		for l := range got {
			if _, ok := want[l]; !ok {
				ctx.Disagree(clauseDialLabel, map[string]any{"kind": "batch", "proxy": name, "label_hex": l, "cases": ids(cases)},
					fmt.Sprintf("a label that is addr2Host of no address dialled (%d addresses)", len(d.Dials[name])), "")
			}
		}
		ctx.TraceValidated()
	}
}

func labelClass(label, _ string) string {
	switch {
	case label == "localhost" || label == "unknown" || label == "invalid":
		return label
	case len(label) > 253 && !isASCII(label):
		return "host/longer-than-253/non-ascii"
	case len(label) > 253:
		return "host/longer-than-253/ascii"
	case !isASCII(label):
		return "host/non-ascii"
	}
	return "host/ascii"
}

func isASCII(s string) bool {
	for i := 0; i < len(s); i++ {
		if s[i] >= 0x80 {
			return false
		}
	}
	return true
}

func shortList(hx []string) string {
	var out []string
	for _, h := range hx {
		b := core.MustUnHex(orEmpty(h))
		if len(b) > 40 {
			out = append(out, fmt.Sprintf("%q…(%d bytes)", b[:40], len(b)))
		} else {
			out = append(out, fmt.Sprintf("%q", b))
		}
	}
	return strings.Join(out, " ")
}

// judgeHost: what is specific to a host case (the stream itself is judged by judgeClient).
func judgeHost(ctx *core.Ctx, c *Case) {
	h := core.MustUnHex(orEmpty(c.HostHex))
	ctx.Count("host/form/" + c.Dims + "/" + c.Via + map[string]string{"": "", "handler": "+handler"}[c.Server])
	ctx.Count("host/" + strings.SplitN(strings.TrimPrefix(c.What, "host/"), "/", 2)[0] + map[bool]string{true: "/valid-utf8", false: "/invalid-utf8"}[utf8.Valid(h)])
	// the validity predicate of the model is the library's
	if ans := ctx.Model.MustAsk("C12", "utf8", orEmpty(c.HostHex)); (ans == "1") != utf8.Valid(h) {
		ctx.Disagree("Model.C12.validUTF8 = utf8.Valid", c, fmt.Sprint(utf8.Valid(h)), ans)
	}
}
