package c12

import (
	"bufio"
	"bytes"
	"encoding/json"
	"fmt"
	"os"
	"os/exec"
	"path/filepath"
	"strings"
	"sync"
	"time"

	"github.com/saucelabs/forwarder/verifharness/core"
	"github.com/saucelabs/forwarder/verifharness/srcgen"
)

func init() { core.Register("C12", core.Scenario{Run: Run, Replay: Replay, Prepare: srcgen.PrepareC12}) }

const childEnv = "VERIF_CHILD"

// maybeChild turns this process into a batch executor when it was started as one.
func maybeChild(ctx *core.Ctx) {
	v := os.Getenv(childEnv)
	if !strings.HasPrefix(v, "c12:") {
		return
	}
	childMain(ctx.Root, strings.TrimPrefix(v, "c12:"))
}

type batchResult struct {
	obs     map[string]*Obs
	done    *childDone
	exitErr error
	stderr  string
	wall    time.Duration
}

var batchSeq struct {
	sync.Mutex
	n int
}

// runBatch executes cases in a child process and collects what it reports.
func runBatch(ctx *core.Ctx, cases []*Case, workers int) *batchResult {
	batchSeq.Lock()
	batchSeq.n++
	n := batchSeq.n
	batchSeq.Unlock()
	dir := filepath.Join(ctx.Root, ".work")
	os.MkdirAll(dir, 0o755)
	file := filepath.Join(dir, fmt.Sprintf("c12-batch-%d-%d.json", os.Getpid(), n))
	b, _ := json.Marshal(batchFile{Cases: cases, Workers: workers})
	if err := os.WriteFile(file, b, 0o644); err != nil {
		core.Fatalf("cannot write batch file: %v", err)
	}
	defer os.Remove(file)
	cmd := exec.Command(os.Args[0], "--root", ctx.Root, "--no-proofs", "C12")
	cmd.Env = append(os.Environ(), childEnv+"=c12:"+file)
	var stderr bytes.Buffer
	cmd.Stderr = &stderr
	stdout, err := cmd.StdoutPipe()
	if err != nil {
		core.Fatalf("child pipe: %v", err)
	}
	t0 := time.Now()
	if err := cmd.Start(); err != nil {
		core.Fatalf("cannot start child process: %v", err)
	}
	res := &batchResult{obs: map[string]*Obs{}}
	// a child that hangs is killed: generous bound (cases have their own waits)
	timer := time.AfterFunc(time.Duration(60+len(cases)/4)*time.Second, func() { cmd.Process.Kill() })
	sc := bufio.NewScanner(stdout)
	sc.Buffer(make([]byte, 1<<20), 64<<20)
	for sc.Scan() {
		line := sc.Bytes()
		if bytes.Contains(line, []byte(`"done":true`)) {
			var d childDone
			if json.Unmarshal(line, &d) == nil && d.Done {
				res.done = &d
				continue
			}
		}
		var o Obs
		if json.Unmarshal(line, &o) == nil && o.ID != "" {
			res.obs[o.ID] = &o
		}
	}
	res.exitErr = cmd.Wait()
	timer.Stop()
	res.stderr = stderr.String()
	res.wall = time.Since(t0)
	return res
}

func tailStr(s string, n int) string {
	if len(s) > n {
		return "…" + s[len(s)-n:]
	}
	return s
}

// crashed reports whether the child died (rather than finished or failed to set up).
func (r *batchResult) crashed() bool { return r.done == nil }

func (r *batchResult) setupFailure() bool {
	return r.done == nil && strings.Contains(r.stderr, "c12 child:")
}

// crashChain bounds how many crashing inputs are searched for in one batch before the rest of it is
// left unexecuted (each one costs a batch run that dies).
const crashChain = 3

// execute runs a batch, judges what came back and, if the child died, finds the crashing input: the
// cases that were in flight when it died (the first unreported ones, in batch order) are re-run
// alone, the remainder of the batch is run again as a batch (depth counts the deaths so far).
func execute(ctx *core.Ctx, cases []*Case, workers int, depth int) {
	res := runBatch(ctx, cases, workers)
	if res.setupFailure() {
		core.Fatalf("child could not set up its environment: %s", tailStr(res.stderr, 800))
	}
	var missing []*Case
	for _, c := range cases {
		if o, ok := res.obs[c.ID]; ok {
			judge(ctx, c, o)
		} else {
			missing = append(missing, c)
		}
	}
	if !res.crashed() {
		for name, st := range res.done.Probes {
			ctx.Count("probe/" + name + "/" + map[bool]string{true: "ok", false: "failed"}[st == "ok"])
			if st != "ok" {
				ctx.Crash("after every batch a probe request is still served by the same proxy instance", "",
					map[string]any{"kind": "batch", "proxy": name, "cases": ids(cases)}, fmt.Sprintf("probe through proxy %q: %s", name, st))
			}
		}
		for _, c := range missing {
			ctx.Crash("every case is executed", "", c, "child finished without reporting this case")
		}
		judgeLabels(ctx, cases, res.done)
		return
	}
	// the child died
	ctx.Count("child/died")
	if os.Getenv("C12_DEBUG") != "" {
		fmt.Fprintf(os.Stderr, "C12 debug: child died: %v; %d missing; stderr:\n%s\n", res.exitErr, len(missing), tailStr(res.stderr, 6000))
	}
	detail := fmt.Sprintf("child process died (%v) with %d of %d cases unreported; stderr: %s", res.exitErr, len(missing), len(cases), tailStr(res.stderr, 1500))
	if len(cases) == 1 {
		ctx.Crash("no sequence of bytes from a client or an upstream crashes the process", knownClass(cases[0]), cases[0], detail)
		return
	}
	if len(missing) == 0 {
		ctx.Crash("no sequence of bytes from a client or an upstream crashes the process", "",
			map[string]any{"kind": "batch", "cases": cases}, detail+" (every case had been reported)")
		return
	}
	// the cases in flight when the child died: as many as it has workers, and a few more for those
	// whose report was lost with the process
	nSus := 2*workers + 4
	if nSus > len(missing) {
		nSus = len(missing)
	}
	suspects, rest := missing[:nSus], missing[nSus:]
	found := false
	var mu sync.Mutex
	var wg sync.WaitGroup
	sem := make(chan struct{}, 6)
	for _, c := range suspects {
		wg.Add(1)
		sem <- struct{}{}
		go func(c *Case) {
			defer wg.Done()
			defer func() { <-sem }()
			r1 := runBatch(ctx, []*Case{c}, 1)
			if r1.crashed() && !r1.setupFailure() {
				mu.Lock()
				found = true
				mu.Unlock()
				ctx.Crash("no sequence of bytes from a client or an upstream crashes the process", knownClass(c), c,
					fmt.Sprintf("child process died (%v) running this case alone; stderr: %s", r1.exitErr, tailStr(r1.stderr, 1500)))
			} else if o, ok := r1.obs[c.ID]; ok {
				judge(ctx, c, o)
			}
		}(c)
	}
	wg.Wait()
	if !found {
		ctx.Crash("no sequence of bytes from a client or an upstream crashes the process", "",
			map[string]any{"kind": "batch", "cases": suspects}, detail+" (not reproduced with single cases)")
	}
	switch {
	case len(rest) == 0:
	case depth+1 >= crashChain:
		// enough crashing inputs of this batch are on record
		for range rest {
			ctx.Count("not-run/after-repeated-crashes")
		}
	default:
		execute(ctx, rest, workers, depth+1)
	}
}

func ids(cs []*Case) []string {
	out := make([]string, len(cs))
	for i, c := range cs {
		out[i] = c.ID
	}
	return out
}

func Run(ctx *core.Ctx) {
	maybeChild(ctx)
	ctx.SetRule("one fault per exchange, injected by scripted origins / upstream proxies / TLS endpoints: the reply cut at every byte offset of head and body " +
		"(small replies, FIN and RST: exhaustive; large replies: sampled) under Content-Length / chunked / close-delimited framing, through a plain proxy, " +
		"GET https://, an intercepted tunnel and an upstream proxy; the dial matrix refused / timed out / reset x origin / http upstream proxy / https upstream " +
		"proxy x plain / https / intercepted / client CONNECT; ten TLS failure shapes; CONNECT replies rejected, torn and " +
		"garbled; malformed and oversized heads; hostile client bytes on plain, TLS and intercepting listeners (mutated requests, binary, partial TLS records, " +
		"heads over 1 MiB, pipelined garbage, bad chunk sizes); upstream replies as a product space: status (1xx, 101, 2xx, 204, 205, 206, 304, 4xx, 5xx, 600+, 000) x " +
		"upgrade fields x Content-Type (text/event-stream variants and others) x Content-Length / Transfer-Encoding shapes x body x request kind (GET, HEAD, " +
		"POST, upgrade request, CONNECT through an upstream proxy, intercepted) with the core status x upgrade class x content-type class x request kind " +
		"enumerated every run; consecutive failures on one connection and the consecutive-error counter; the reply cuts (every offset of a small chunked " +
		"reply, sampled offsets under each framing, large and gzip-coded bodies, FIN and RST, plain / GET https:// / via the upstream proxy, rejected client " +
		"CONNECTs) and the early faults again with the proxy served through martian's http.Handler under net/http's server; the HOST dimension of hostile " +
		"requests: lengths around 63 / 64 / 253..256 / 1 KiB / 4 KiB / 64 KiB x ASCII, 2-, 3-, 4-byte encodings (every byte offset 240..260 the start of one), " +
		"invalid UTF-8, percent-encoded, IDN / punycode look-alikes, IPv6 zones x CONNECT authority / absolute-form / Host field x plain, TLS, intercepting " +
		"listeners and the handler variant, every proxy built as command/run builds it (one registry shared by proxy and transport: forwarder.Dialer labels " +
		"its metrics with the host), the labels read back after every batch and compared with Model.C12.addr2Host of the addresses dialled; the torn-reply matrix " +
		"(cuts in head and body under chunked / close-delimited / Content-Length framing, gzip-coded and large bodies, FIN and RST, TCP server and handler variant) and " +
		"client uploads torn mid-body (FIN and RST, Content-Length and chunked; what the ORIGIN reads is judged) under every HTTP log mode of httplog (none, short-url, url, " +
		"headers, body; errors is the default of all other cases), compared with Model.C12.clientStreamLogged / forwardedUpload; Accept errors of the listener: the proxy's " +
		"listener wrapped and made to return the net package's error objects (EMFILE, ENFILE, EINTR, ECONNABORTED, ECONNRESET, deadline, ETIMEDOUT; net.ErrClosed, EINVAL, a " +
		"non-net.Error) in scripted sequences between probe requests on fresh connections, both server variants, per error: what it says of itself, retry (and the delay) or " +
		"return, compared with Model.C12.acceptRun, and real descriptor exhaustion in a child process of its own (RLIMIT_NOFILE lowered, connections held until accept4 " +
		"fails, released, a fresh client must be served); the HEADER-VALUE dimension of hostile requests (fields.go): every field the proxy itself reads (Proxy-Authorization, " +
		"Authorization, Via, X-Forwarded-*, Connection / Upgrade / Proxy-Connection / Keep-Alive / TE / Trailer, Content-Length / Transfer-Encoding, Host, Expect, Range, " +
		"X-Martian-Terminate-Tls, X-Request-Id, Content-Type and others) x values (empty, SP / HTAB, every Unicode space the header reader lets through, C0 controls, separators " +
		"only, very long, several field lines, the field's own degenerate forms; Proxy-Authorization: scheme only, scheme + blanks, blanks only, every padding shape of invalid " +
		"base64, no colon, near misses of the valid value) x GET / POST / CONNECT x plain / TLS / intercepting listener x TCP server / handler variant x proxy instances started " +
		"with --basic-auth and --credentials (so that the parsers run), plain ones and ones behind an upstream proxy; on the --basic-auth instances the decision is compared with " +
		"Model.C12.authenticatedGo of the first field value (407 / 400 / 431 / close when it rejects, served when it accepts); the DIAL PHASE as a lattice of time " +
		"limits (lattice.go): an address that drops SYNs (the origin's, or that of an http / https / socks5 upstream proxy) x who gives up first (the dialer's DialTimeout " +
		"after 1, 2 or 3 attempts with backoff; dialvia's ConnectTimeout during the first attempt, with 1 and 3 attempts, or during the second one; the client, which closes " +
		"its connection while the dial hangs) x client CONNECT / plain / GET https:// / intercepted x TCP server / handler variant, limits of 250..450 ms, every instance with the " +
		"forwarder.Dialer of NewHTTPTransport and connection tracking as command/run leaves it: 504 with X-Forwarder-Error (status and label compared with Model.C12.dialContext " +
		"of the attempt outcomes), the same again on the same connection, the instance still serving afterwards; hostile NAMES at the interception point " +
		"(certnames.go): CONNECT authority (non-ASCII UTF-8, raw bytes >= 0x80, percent-encoded, empty / over-long labels, over-long names, IP-literal look-alikes, " +
		"odd ASCII) x server name of the ClientHello (same / absent / another hostile / good) on the mitm and authmitm instances, the handshake started, each phase " +
		"a well-formed response or a close, the handshake outcome compared with Model.C12.certGen, and after each (and beside crowds of 3..8 at once) a connection " +
		"to a host the instance has never seen intercepted within 2 s (MITM handshake time-out 3 s). Every case with a " +
		"fault, hostile input or scripted reply is non-trivial; distinct = distinct (kind, path, framing, fault point, FIN/RST, input / reply bytes)")
	// the corpus: single cases as one batch (ids made distinct), recorded batches as they are
	var corpus []*Case
	seenID := map[string]bool{}
	for _, raw := range core.LoadCorpus(ctx.Root, "C12") {
		var c Case
		if json.Unmarshal(raw, &c) == nil && c.Kind != "" && c.Kind != "batch" {
			if c.ID == "" || seenID[c.ID] {
				c.ID = fmt.Sprintf("W%d", 9000+len(corpus))
			}
			seenID[c.ID] = true
			corpus = append(corpus, &c)
			continue
		}
		Replay(ctx, raw)
	}
	if len(corpus) > 0 {
		execute(ctx, corpus, 10, 0)
	}
	cases := generate(ctx.Rng.Sub(), ctx.Quick())
	if only := os.Getenv("C12_ONLY"); only != "" {
		// development aid: run a slice of the generated cases (handler | host | a kind)
		var sel []*Case
		for _, c := range cases {
			if (only == "handler" && c.Server == "handler") || (only == "host" && strings.HasPrefix(c.What, "host/")) || (only == "log" && c.LogMode != "") || (only == "field" && strings.HasPrefix(c.What, "field/")) || (only == "lattice" && c.Kind == "dialtl") || only == c.Kind {
				sel = append(sel, c)
			}
		}
		cases = sel
	}
	if os.Getenv("C12_SKIP") == "field" {
		// development aid: the run without the header-value dimension (to time it)
		var sel []*Case
		for _, c := range cases {
			if !strings.HasPrefix(c.What, "field/") {
				sel = append(sel, c)
			}
		}
		cases = sel
	}
	for i, c := range cases {
		if i%97 == 0 && c.Kind != "client" {
			ctx.Sample(c)
		}
	}
	// interleave so that every batch mixes kinds (and the slow ones spread out)
	nb := ctx.N(6, 12)
	batches := make([][]*Case, nb)
	var crowdParts [][]*Case
	var alone, lattice []*Case
	for i, c := range cases {
		if c.Kind == "label" {
			batches[0] = append(batches[0], c) // the label proxy is used sequentially by one child
			continue
		}
		if c.ownProcess() {
			alone = append(alone, c) // changes a limit of the whole process (accept.go)
			continue
		}
		if c.Kind == "dialtl" {
			lattice = append(lattice, c) // a batch of their own: they need proxy instances nobody else does (lattice.go)
			continue
		}
		batches[i%nb] = append(batches[i%nb], c)
	}
	for _, c := range alone {
		batches = append(batches, []*Case{c})
	}
	if len(lattice) > 0 {
		batches = append(batches, lattice)
	}
	// a crowd of local error responses at once: error responses are built on one connection and written
	// later, after the response modifiers; storage shared between connections in that window (a pooled
	// body buffer handed out again before the first response was written) shows only when many refused
	// dials are answered concurrently. Each case names its own host, so a body is attributable.
	if os.Getenv("C12_ONLY") == "" || os.Getenv("C12_ONLY") == "crowd" {
		var crowd []*Case
		for i, n := 0, ctx.N(1600, 8000); i < n; i++ {
			via := []string{"plain", "connect", "plain", "https"}[i%4]
			crowd = append(crowd, &Case{ID: fmt.Sprintf("C%d", 900001+i), Kind: "dial", Via: via, Fault: "refused", ReqMinor: 1, What: "crowd/refused/" + via})
		}
		for len(crowd) > 0 {
			n := min(len(crowd), 800)
			part := crowd[:n]
			crowd = crowd[n:]
			crowdParts = append(crowdParts, part)
		}
	}
	maxPer := 700
	var wg sync.WaitGroup
	sem := make(chan struct{}, ctx.N(6, 7))
	for _, b := range batches {
		for len(b) > 0 {
			n := len(b)
			if n > maxPer {
				n = maxPer
			}
			part := b[:n]
			b = b[n:]
			wg.Add(1)
			sem <- struct{}{}
			go func() {
				defer wg.Done()
				defer func() { <-sem }()
				execute(ctx, part, 10, 0)
			}()
		}
	}
	wg.Wait()
	for _, part := range crowdParts {
		execute(ctx, part, 48, 0) // one after the other, 48 clients each: the crowd is the point
	}
	ctx.Extra("exhaustive_offsets", "every byte offset (head and body) x FIN/RST for the small replies of families A (plain: cl, chunked, eof; https: cl; thorough tier: also https chunked/eof, intercepted cl/chunked/eof, via upstream) and every offset of a small CONNECT rejection; handler variant: plain chunked (thorough tier: also plain eof/cl, https chunked, via upstream chunked); hosts: every byte offset 240..260 as the start of a 2-, 3- and 4-byte encoding, as CONNECT authority")
}

func Replay(ctx *core.Ctx, raw json.RawMessage) {
	maybeChild(ctx)
	var probe struct {
		Kind  string  `json:"kind"`
		Cases []*Case `json:"cases"`
	}
	json.Unmarshal(raw, &probe)
	if probe.Kind == "batch" && len(probe.Cases) > 0 {
		execute(ctx, probe.Cases, 10, 0)
		return
	}
	var c Case
	if err := json.Unmarshal(raw, &c); err != nil || c.Kind == "" {
		core.Fatalf("C12: cannot read case: %v", err)
	}
	if c.ID == "" {
		c.ID = "R1"
	}
	execute(ctx, []*Case{&c}, 1, 0)
}
