package c12

import (
	"errors"
	"fmt"
	"net"
	"net/http"
	"os"
	"strconv"
	"strings"
	"syscall"
	"time"

	"github.com/saucelabs/forwarder"
	"github.com/saucelabs/forwarder/verifharness/core"
	"github.com/saucelabs/forwarder/verifharness/rig"
)

// Resource faults at the listener: "no sequence of bytes … can stop it from serving other connections"
// includes the connections a peer merely holds open. When Accept fails — the process or the system is out of
// descriptors (EMFILE, ENFILE), the connection was gone before it was accepted (ECONNABORTED, ECONNRESET),
// the call was interrupted (EINTR), a deadline on the listener passed — the accept loop (martian.Proxy.Serve;
// net/http's Server.Serve in the handler variant) must back off and go on: these conditions pass. Only an
// error that does not pass (the listener was closed, EINVAL, something that is no net.Error) ends the loop.
// A loop that ends closes the listening socket while the process lives on: every later client is refused.
//
// Scripted cases: the proxy's listener is wrapped (rig.ScriptedListener via ProxyOpts.WrapListener) and made
// to return the error objects the net package returns, one by one, between probe requests on fresh
// connections; per error the harness records what the error says of itself (net.Error? Temporary()? Timeout()?
// net.ErrClosed?), whether the loop called Accept again and after how long, or closed the listener. Compared
// with Model.C12 §9 (`AcceptErr.shape`, `acceptRun`: retry with the delay 5 ms · 2^i capped at 1 s, reset by
// an accepted connection | return), and judged directly: after errors of the passing kind a probe is served.
// The real thing: in a child process of its own RLIMIT_NOFILE is lowered, connections to the proxy are
// opened and held until accept4 itself fails with EMFILE, then released: a fresh client must be served.

type acceptErr struct {
	mk      func() error
	passing bool // the condition passes by itself: the property asks the proxy to go on accepting
}

func sysErr(e syscall.Errno) func() error {
	return func() error { return &net.OpError{Op: "accept", Net: "tcp", Err: os.NewSyscallError("accept4", e)} }
}

// acceptErrs are the error objects as the net package builds them.
var acceptErrs = map[string]acceptErr{
	"emfile": {sysErr(syscall.EMFILE), true},
	"enfile": {sysErr(syscall.ENFILE), true},
	"eintr":  {sysErr(syscall.EINTR), true},
	// (*net.OpError).Temporary: "Treat ECONNRESET and ECONNABORTED as temporary errors when they come from calling accept"
	"econnaborted": {func() error { return &net.OpError{Op: "accept", Net: "tcp", Err: syscall.ECONNABORTED} }, true},
	"econnreset":   {func() error { return &net.OpError{Op: "accept", Net: "tcp", Err: syscall.ECONNRESET} }, true},
	"deadline":     {func() error { return &net.OpError{Op: "accept", Net: "tcp", Err: os.ErrDeadlineExceeded} }, true},
	"etimedout":    {sysErr(syscall.ETIMEDOUT), true},
	"closed":       {func() error { return &net.OpError{Op: "accept", Net: "tcp", Err: net.ErrClosed} }, false},
	"einval":       {sysErr(syscall.EINVAL), false},
	"plain":        {func() error { return errors.New("accept: the listener broke") }, false},
}

var passingAcceptErrs = []string{"emfile", "enfile", "eintr", "econnaborted", "econnreset", "deadline", "etimedout"}
var permanentAcceptErrs = []string{"closed", "einval", "plain"}

func genAccept(g *gen, quick bool) {
	r := g.r
	add := func(server string, evs ...string) {
		g.add(&Case{Kind: "accept", Via: "plain", Server: server, Accept: evs})
	}
	for _, e := range passingAcceptErrs {
		add("", "c", e, "c")
	}
	for _, e := range permanentAcceptErrs {
		add("", "c", e, "c")
	}
	// descriptor exhaustion that lasts: the loop backs off 5, 10, 20 ms …; a connection in between resets the delay
	add("", "c", "emfile", "emfile", "emfile", "c", "enfile", "c")
	add("", "emfile", "c")
	add("", "c", "emfile", "emfile", "emfile", "emfile", "emfile", "emfile", "emfile", "emfile", "emfile", "emfile", "c") // up to the cap of 1 s
	add("", "c", "enfile", "eintr", "closed", "emfile", "c")
	n := 4
	if !quick {
		n = 40
	}
	for i := 0; i < n; i++ {
		evs := []string{"c"}
		for j, l := 0, r.Range(2, 6); j < l; j++ {
			evs = append(evs, core.Pick(r, passingAcceptErrs))
			if r.Chance(20) {
				evs = append(evs, "c")
			}
		}
		if r.Chance(30) {
			evs = append(evs, core.Pick(r, permanentAcceptErrs))
		}
		add(core.Pick(r, []string{"", "", "handler"}), append(evs, "c")...)
	}
	// the handler variant: net/http's accept loop
	add("handler", "c", "emfile", "enfile", "c")
	add("handler", "c", "econnaborted", "eintr", "deadline", "c")
	add("handler", "c", "closed", "c")
	// the real thing, each in a process of its own
	g.add(&Case{Kind: "accept", Via: "plain", What: "rlimit"})
	g.add(&Case{Kind: "accept", Via: "plain", What: "rlimit", Server: "handler"})
}

// ownProcess: the case changes a limit of the whole process and runs in a child of its own.
func (c *Case) ownProcess() bool { return c.Kind == "accept" && c.What == "rlimit" }

func (e *env) runAccept(c *Case) *Obs {
	o := &Obs{ID: c.ID}
	t0 := time.Now()
	defer func() { o.Ms = time.Since(t0).Milliseconds() }()
	var sl *rig.ScriptedListener
	p, err := rig.StartProxy(rig.ProxyOpts{
		ConnectTo:     e.routes,
		Transport:     func(tc *forwarder.HTTPTransportConfig) { tc.DialTimeout = 2 * time.Second },
		PostTransport: func(rt *http.Transport) { rt.DisableKeepAlives = true },
		Configure: func(cfg *forwarder.HTTPProxyConfig) {
			cfg.Name = "fwdverif"
			cfg.ReadHeaderTimeout = 30 * time.Second
			cfg.IdleTimeout = 30 * time.Second
			cfg.TestingHTTPHandler = c.Server == "handler"
		},
		WrapListener: func(l net.Listener) net.Listener { sl = rig.NewScriptedListener(l); return sl },
	})
	if err != nil || sl == nil {
		o.Setup = fmt.Sprintf("proxy with a scripted listener: %v", err)
		return o
	}
	defer p.Cancel()
	if c.What == "rlimit" {
		e.runExhaustion(o, p, sl)
		return o
	}
	injected := 0
	for _, ev := range c.Accept {
		if ev == "c" {
			o.Steps = append(o.Steps, "c:"+e.probeOne("accept", p))
			continue
		}
		ae, ok := acceptErrs[ev]
		if !ok {
			o.Setup = "unknown accept error " + ev
			return o
		}
		err := ae.mk()
		var ne net.Error
		isNet := errors.As(err, &ne)
		shape := core.B01(isNet) + core.B01(isNet && ne.Temporary()) + core.B01(isNet && ne.Timeout()) + core.B01(errors.Is(err, net.ErrClosed))
		if closed, _ := sl.Closed(); closed {
			o.Steps = append(o.Steps, ev+":"+shape+":unseen")
			continue
		}
		sl.Inject(err)
		injected++
		// the injected call returns at once when the loop is in Accept (or comes back to it); then the loop either
		// calls Accept again (after its delay) or closes the listener
		step := "stuck"
		deadline := time.Now().Add(3500 * time.Millisecond)
		for time.Now().Before(deadline) {
			calls := sl.Calls()
			idx, seen := -1, 0
			for i, cc := range calls {
				if cc.Injected {
					seen++
					if seen == injected {
						idx = i
					}
				}
			}
			if idx >= 0 && idx+1 < len(calls) {
				step = fmt.Sprintf("retry:%d", calls[idx+1].Enter.Sub(calls[idx].Return).Microseconds())
				break
			}
			if closed, _ := sl.Closed(); closed && idx >= 0 {
				// (a loop that closes the listener does not call Accept again)
				time.Sleep(20 * time.Millisecond)
				if len(sl.Calls()) == len(calls) {
					step = "ret"
					break
				}
			}
			time.Sleep(time.Millisecond)
		}
		o.Steps = append(o.Steps, ev+":"+shape+":"+step)
	}
	closed, _ := sl.Closed()
	o.Closed = map[bool]string{true: "listener-closed", false: "listening"}[closed]
	return o
}

func maxFD() (int, error) {
	ents, err := os.ReadDir("/proc/self/fd")
	if err != nil {
		return 0, err
	}
	m := 0
	for _, en := range ents {
		if n, err := strconv.Atoi(en.Name()); err == nil && n > m {
			m = n
		}
	}
	return m, nil
}

// runExhaustion lowers RLIMIT_NOFILE, holds connections to the proxy open until its accept fails, releases
// them and asks for service again.
func (e *env) runExhaustion(o *Obs, p *rig.Proxy, sl *rig.ScriptedListener) {
	if st := e.probeOne("accept", p); st != "ok" {
		o.Setup = "probe before the exhaustion: " + st
		return
	}
	var lim syscall.Rlimit
	if err := syscall.Getrlimit(syscall.RLIMIT_NOFILE, &lim); err != nil {
		o.Steps = append(o.Steps, "rlimit-unavailable:"+err.Error())
		return
	}
	orig := lim
	m, err := maxFD()
	if err != nil {
		o.Steps = append(o.Steps, "rlimit-unavailable:"+err.Error())
		return
	}
	lim.Cur = uint64(m + 1 + 15)
	if err := syscall.Setrlimit(syscall.RLIMIT_NOFILE, &lim); err != nil {
		o.Steps = append(o.Steps, "rlimit-unavailable:"+err.Error())
		return
	}
	defer syscall.Setrlimit(syscall.RLIMIT_NOFILE, &orig)
	acceptErrors := func() (n int, names []string) {
		for _, cc := range sl.Calls() {
			if cc.Err != nil && !cc.Injected {
				n++
				var en syscall.Errno
				name := "other"
				if errors.As(cc.Err, &en) {
					name = map[syscall.Errno]string{syscall.EMFILE: "emfile", syscall.ENFILE: "enfile"}[en]
					if name == "" {
						name = "errno-" + strconv.Itoa(int(en))
					}
				}
				if len(names) == 0 || names[len(names)-1] != name {
					names = append(names, name)
				}
			}
		}
		return
	}
	var held []net.Conn
	for i := 0; i < 400; i++ {
		if n, _ := acceptErrors(); n > 0 {
			break
		}
		c, err := net.DialTimeout("tcp", p.Addr, time.Second)
		if err != nil {
			// the harness's own socket() ran out first: room for exactly one more descriptor, which the dial takes
			lim.Cur++
			syscall.Setrlimit(syscall.RLIMIT_NOFILE, &lim)
			continue
		}
		held = append(held, c)
		before := len(sl.Calls())
		for w := 0; w < 100 && len(sl.Calls()) == before; w++ {
			time.Sleep(time.Millisecond)
		}
	}
	// the exhaustion lasts: a loop that goes on fails again after each delay (5, 10, 20 ms …)
	for w := 0; w < 150; w++ {
		if n, _ := acceptErrors(); n >= 3 {
			break
		}
		if closed, _ := sl.Closed(); closed {
			break
		}
		time.Sleep(10 * time.Millisecond)
	}
	n, names := acceptErrors()
	closed, _ := sl.Closed()
	o.Steps = append(o.Steps, fmt.Sprintf("exhausted:held=%d:errors=%d:%s:%s", len(held), n, strings.Join(names, "+"), map[bool]string{true: "listener-closed", false: "listening"}[closed]))
	for _, c := range held {
		c.Close()
	}
	time.Sleep(50 * time.Millisecond) // the proxy notices and closes its ends: the descriptors are free again (the limit stays)
	o.Steps = append(o.Steps, "c:"+e.probeOne("accept", p))
	closed, _ = sl.Closed()
	o.Closed = map[bool]string{true: "listener-closed", false: "listening"}[closed]
}

const clauseAccept = "the proxy keeps serving: an Accept error that passes by itself (descriptor exhaustion, aborted connection, interrupted call, time-out) does not end the accept loop — later clients are served"

func judgeAccept(ctx *core.Ctx, c *Case, o *Obs) {
	impl := fmt.Sprintf("steps=%v listener=%s %s", o.Steps, o.Closed, o.Setup)
	srv := map[string]string{"": "", "handler": "@handler"}[c.Server]
	if o.Setup != "" {
		ctx.Crash(clauseServing, "", c, "accept scenario could not start: "+o.Setup)
		return
	}
	if c.What == "rlimit" {
		judgeExhaustion(ctx, c, o, impl)
		return
	}
	ans := ctx.Model.MustAsk("C12", "accept", core.JoinList(c.Accept)) // serve | refused | <shape>:retry:<ms> | <shape>:ret | <shape>:unseen
	model := core.SplitList(ans)
	if len(model) != len(c.Accept) || len(o.Steps) != len(c.Accept) {
		ctx.Disagree("accept loop = Model.C12.acceptRun", c, impl, ans)
		return
	}
	agree := true
	onlyPassing := true // so far the script held connections and errors of the passing kind only
	for i, ev := range c.Accept {
		st, m := o.Steps[i], model[i]
		if ev == "c" {
			ctx.Count("accept/probe/" + map[bool]string{true: "served", false: "not-served"}[st == "c:ok"] + srv)
			if (st == "c:ok") != (m == "serve") {
				agree = false
			}
			if onlyPassing && st != "c:ok" {
				ctx.SpecFail(clauseAccept, "", c, impl, fmt.Sprintf("after %v a fresh client is not served: %s", c.Accept[:i], strings.TrimPrefix(st, "c:")))
			}
			continue
		}
		if !acceptErrs[ev].passing {
			onlyPassing = false
		}
		sf, mf := strings.Split(st, ":"), strings.Split(m, ":")
		ctx.Count("accept/" + ev + "/" + sf[2] + srv)
		// what the error object says of itself = the model's table
		if sf[1] != mf[0] {
			ctx.Disagree("the Accept error's (net.Error, Temporary, Timeout, net.ErrClosed) = Model.C12.AcceptErr.shape", c, ev+": "+sf[1], mf[0])
		}
		switch {
		case sf[2] != mf[1]:
			agree = false
		case sf[2] == "retry":
			// one-sided: the loop sleeps at least the model's delay (and comes back within the bound of the wait)
			us, _ := strconv.Atoi(sf[3])
			ms, _ := strconv.Atoi(mf[2])
			if us < ms*1000 || us > (ms+2000)*1000 {
				ctx.Disagree("delay before the next Accept call >= Model.C12.nextDelay (5 ms doubling, capped at 1 s, reset by a connection)", c, fmt.Sprintf("event %d %s: %d us | %s", i, ev, us, impl), m)
			}
			ctx.Count(fmt.Sprintf("accept/delay-ms/%d", ms))
		}
		if onlyPassing && sf[2] != "retry" {
			ctx.SpecFail(clauseAccept, "", c, impl, fmt.Sprintf("the accept loop did not go on after %s (event %d of %v): %s", ev, i, c.Accept, sf[2]))
		}
	}
	if agree {
		ctx.TraceValidated()
	} else {
		ctx.Disagree("accept loop = Model.C12.acceptRun (retry | return per error, served | refused per connection)", c, impl, ans)
	}
}

func judgeExhaustion(ctx *core.Ctx, c *Case, o *Obs, impl string) {
	srv := map[string]string{"": "", "handler": "@handler"}[c.Server]
	if len(o.Steps) != 2 || !strings.HasPrefix(o.Steps[0], "exhausted:") {
		ctx.Count("accept/rlimit/unavailable" + srv)
		ctx.Disagree("RLIMIT_NOFILE can be lowered in the child process", c, impl, "")
		return
	}
	f := strings.Split(o.Steps[0], ":") // exhausted held=… errors=… names listener
	nErr, _ := strconv.Atoi(strings.TrimPrefix(f[2], "errors="))
	ctx.Count("accept/rlimit/" + f[3] + "/" + f[4] + srv)
	if nErr == 0 {
		ctx.Disagree("holding connections open under a low RLIMIT_NOFILE makes accept fail", c, impl, "")
		return
	}
	// the model on the errors that occurred, then a connection
	var evs []string
	for _, n := range strings.Split(f[3], "+") {
		if _, ok := acceptErrs[n]; ok {
			evs = append(evs, n)
		}
	}
	if len(evs) == 0 {
		ctx.Disagree("descriptor exhaustion surfaces as EMFILE / ENFILE", c, impl, "")
		return
	}
	ans := ctx.Model.MustAsk("C12", "accept", core.JoinList(append(evs, "c")))
	model := core.SplitList(ans)
	served := o.Steps[1] == "c:ok"
	if (model[len(model)-1] == "serve") == served && (f[4] == "listening") == served {
		ctx.TraceValidated()
	} else {
		ctx.Disagree("accept loop under real descriptor exhaustion = Model.C12.acceptRun", c, impl, ans)
	}
	if !served || f[4] != "listening" || o.Closed != "listening" {
		ctx.SpecFail(clauseAccept, "", c, impl, fmt.Sprintf("connections held open exhausted the descriptors (accept failed %d times: %s); after they were released a fresh client is not served: %s, listener %s",
			nErr, f[3], strings.TrimPrefix(o.Steps[1], "c:"), o.Closed))
	}
	if nErr < 2 && f[4] == "listening" {
		ctx.Count("accept/rlimit/single-error" + srv)
	}
}
