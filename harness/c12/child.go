package c12

import (
	"bufio"
	"crypto/tls"
	"encoding/json"
	"errors"
	"fmt"
	"io"
	"net"
	"os"
	"runtime/debug"
	"sort"
	"strings"
	"sync"
	"syscall"
	"time"

	"github.com/saucelabs/forwarder/verifharness/core"
	"github.com/saucelabs/forwarder/verifharness/rig"
)

// Obs is what the child saw for one case.
type Obs struct {
	ID     string `json:"id"`
	Setup  string `json:"setup,omitempty"`  // the client could not get as far as sending the input
	RawHex string `json:"raw_hex"`          // every byte the client read (capped)
	RawLen int    `json:"raw_len"`          // uncapped length
	Closed string `json:"closed"`           // fin | rst | open (nothing more within the wait) | err:<text>
	Follow string `json:"follow,omitempty"` // after a complete framed response: "ok" (follow-up answered) | "closed" | "garbage:<hex>" | "timeout"
	First  int    `json:"first,omitempty"`  // bytes of the stream up to the end of the first response (0 = all of it)
	Stray  int    `json:"stray,omitempty"`  // bytes that had arrived behind the first response before anything else was sent
	Panic  string `json:"panic,omitempty"`  // a panic in harness-owned goroutines
	Label  string `json:"label,omitempty"`  // label cases: the proxy_errors_total{reason} that moved
	Steps  []string `json:"steps,omitempty"` // repeat / counter / accept cases: per-step outcome
	Up     string `json:"up,omitempty"`     // upload cases: what the origin read: complete:<n> | incomplete:<n> | nothing
	Rig    string `json:"rig,omitempty"`    // the rig itself did not carry out the script of the case (what it could not do): the case is not judged
	Ms     int64  `json:"ms"`
}

type batchFile struct {
	Cases   []*Case `json:"cases"`
	Workers int     `json:"workers"`
}

type childDone struct {
	Done   bool              `json:"done"`
	Probes map[string]string `json:"probes"`
	// per proxy instance: every address its dialer was left with (hex), and the `host` label values (hex) of
	// its dialer_* metric families as the shared registry reports them at the end of the batch
	Dials  map[string][]string `json:"dials,omitempty"`
	Labels map[string][]string `json:"labels,omitempty"`
	LabelErr string            `json:"label_err,omitempty"` // a registry that can no longer be gathered
}

// recConn records what is read and how the stream ended.
type recConn struct {
	net.Conn
	mu      sync.Mutex
	buf     []byte
	total   int
	lastErr error
}

const rawCap = 1 << 20

func (r *recConn) Read(b []byte) (int, error) {
	n, err := r.Conn.Read(b)
	r.mu.Lock()
	if n > 0 {
		r.total += n
		if len(r.buf) < rawCap {
			r.buf = append(r.buf, b[:n]...)
		}
	}
	if err != nil {
		r.lastErr = err
	}
	r.mu.Unlock()
	return n, err
}

func (r *recConn) ending() string {
	r.mu.Lock()
	defer r.mu.Unlock()
	return endingOf(r.lastErr)
}

func endingOf(err error) string {
	switch {
	case err == nil:
		return "open"
	case errors.Is(err, io.EOF):
		return "fin"
	case errors.Is(err, syscall.ECONNRESET):
		return "rst"
	case errors.Is(err, io.ErrUnexpectedEOF):
		return "fin" // TLS: TCP FIN without close_notify
	}
	var ne net.Error
	if errors.As(err, &ne) && ne.Timeout() {
		return "open"
	}
	return "err:" + err.Error()
}

const caseWait = 5 * time.Second

// client is a raw client connection whose reads are recorded.
type client struct {
	c   *rig.Client
	rec *recConn
	// auth: the Proxy-Authorization field line a well-behaved client of this proxy instance sends ("" = none)
	auth string
}

func dialClient(addr string) (*client, error) {
	c, err := rig.Dial(addr)
	if err != nil {
		return nil, err
	}
	cl := &client{c: c}
	cl.wrap()
	return cl, nil
}

func (cl *client) wrap() {
	cl.rec = &recConn{Conn: cl.c.Conn}
	cl.c.BR = bufio.NewReaderSize(cl.rec, 64<<10)
}

func (cl *client) close() { cl.c.Close() }

// enterMITM performs CONNECT + TLS with the intercepting proxy.
func (cl *client) enterMITM(e *env, p *rig.Proxy, host string) error {
	cl.c.Send([]byte("CONNECT "+host+" HTTP/1.1\r\nHost: "+host+"\r\n"+cl.auth+"\r\n"), nil)
	res, err := cl.c.ReadResponse("CONNECT", caseWait)
	if err != nil || res.Status != 200 {
		return fmt.Errorf("CONNECT for interception not answered with 200: %v %v", err, res)
	}
	name, _, _ := net.SplitHostPort(host)
	pool := e.ca.Pool()
	pool.AddCert(p.CACert())
	cl.c.Conn = cl.rec.Conn // StartTLS layers over the raw connection (buffered bytes are carried over)
	if _, err := cl.c.StartTLS(name, pool, false); err != nil {
		return err
	}
	cl.wrap()
	return nil
}

func (cl *client) enterTLSListener() error {
	tc := tls.Client(cl.rec.Conn, &tls.Config{InsecureSkipVerify: true, NextProtos: []string{"http/1.1"}})
	tc.SetDeadline(time.Now().Add(caseWait))
	if err := tc.Handshake(); err != nil {
		return err
	}
	tc.SetDeadline(time.Time{})
	cl.c.Conn = tc
	cl.wrap()
	return nil
}

// request renders the client's request of a fault case.
func (c *Case) request() (method string, b []byte) {
	host := c.host()
	var sb strings.Builder
	method = "GET"
	if c.Method != "" {
		method = c.Method
	}
	switch c.Via {
	case "plain":
		fmt.Fprintf(&sb, "%s http://%s/r/%s HTTP/1.%d\r\n", method, host, c.ID, c.ReqMinor)
	case "https":
		fmt.Fprintf(&sb, "%s https://%s/r/%s HTTP/1.%d\r\n", method, host, c.ID, c.ReqMinor)
	case "mitm":
		fmt.Fprintf(&sb, "%s /r/%s HTTP/1.%d\r\n", method, c.ID, c.ReqMinor)
	case "connect":
		method = "CONNECT"
		fmt.Fprintf(&sb, "CONNECT %s HTTP/1.%d\r\n", host, c.ReqMinor)
	}
	fmt.Fprintf(&sb, "Host: %s\r\nCase-Id: %s\r\n", host, c.ID)
	if c.ReqClose {
		sb.WriteString("Connection: close\r\n")
	}
	if c.ReqUp != "" {
		fmt.Fprintf(&sb, "Connection: Upgrade\r\nUpgrade: %s\r\n", c.ReqUp)
	}
	if strings.Contains(string(c.head()), "Content-Encoding: gzip") {
		// the client asks for the coding itself: the transport relays the coded body as it is (it decodes
		// only what it asked for on its own)
		sb.WriteString("Accept-Encoding: gzip\r\n")
	}
	body := ""
	if method == "POST" {
		body = "ping"
		sb.WriteString("Content-Type: text/plain\r\nContent-Length: 4\r\n")
	}
	sb.WriteString("\r\n" + body)
	return method, []byte(sb.String())
}

func (e *env) install(c *Case) {
	sc := &script{k: c.K, reset: c.Reset, eof: c.Framing == "eof" || c.Kind == "malformed"}
	switch c.Kind {
	case "cut", "malformed":
		sc.reply = c.reply()
	case "connect":
		sc.has = true
		sc.creply = core.MustUnHex(orEmpty(c.ReplyHex))
		sc.ck = c.CK
		sc.creset = c.CReset
		sc.cstall = c.Fault == "stall"
	case "reply":
		sc.k = -1
		sc.fin = c.After != "keep"
		if c.At == "connect" {
			sc.has = true
			sc.creply = core.MustUnHex(orEmpty(c.ReplyHex))
			sc.ck = -1
			sc.ctunnel = true
		} else {
			sc.reply = c.reply()
			sc.eof = sc.fin
		}
	default:
		return
	}
	e.scripts.Store(c.ID, sc)
}

// observe reads one response (independent parser) and establishes what happens to the connection.
func (e *env) observe(cl *client, method, via string, dead bool, o *Obs) { // dead: the proxy's upstream cannot be reached
	res, err := cl.c.ReadResponse(method, caseWait)
	switch {
	case err == nil && res != nil && res.Complete && res.Framing != "eof":
		if (method == "CONNECT" && res.Status/100 == 2) || res.Status == 101 {
			// what follows belongs to the tunnelled / switched-to protocol
			o.Closed = "open"
			o.Follow = "tunnel"
			return
		}
		// a framed complete response: is the connection still serving?
		probe := "GET http://" + probeHost + "/follow HTTP/1.1\r\nHost: " + probeHost + "\r\nCase-Id: follow-" + o.ID + "\r\n\r\n"
		if via == "mitm" {
			probe = "GET /follow HTTP/1.1\r\nHost: follow.tls.test:" + portTLSOrigin + "\r\nCase-Id: follow-" + o.ID + "\r\n\r\n"
		}
		time.Sleep(2 * time.Millisecond) // anything the proxy wrongly appends would be on its way
		o.Stray = cl.c.BR.Buffered()
		before := cl.rec.total
		o.First = before - o.Stray
		cl.c.Send([]byte(probe), nil)
		r2, err2 := cl.c.ReadResponse("GET", caseWait)
		switch {
		case o.Stray > 0:
			o.Follow = "garbage:stray"
			o.Closed = cl.rec.ending()
		case err2 == nil && r2.Complete && r2.Status == 200 && string(r2.Body) == probeBody && r2.Get("X-Probe") == "follow-"+o.ID:
			o.Follow = "ok"
			o.Closed = "open"
		case dead && err2 == nil && r2.Complete && (r2.Status == 502 || r2.Status == 504) && r2.Has("X-Forwarder-Error"):
			// this proxy's upstream cannot be reached: a clean error response for the follow-up shows the connection is served
			o.Follow = "ok"
			o.Closed = "open"
		case cl.rec.total == before && cl.rec.ending() != "open":
			o.Follow = "closed"
			o.Closed = cl.rec.ending()
		case cl.rec.total == before:
			o.Follow = "timeout"
			o.Closed = "open"
		default:
			cl.rec.mu.Lock()
			extra := append([]byte{}, cl.rec.buf[min(before, len(cl.rec.buf)):]...)
			cl.rec.mu.Unlock()
			if len(extra) > 600 {
				extra = extra[:600]
			}
			o.Follow = "garbage:" + core.Hex(extra)
			o.Closed = cl.rec.ending()
		}
	default:
		// incomplete, close-delimited, or nothing at all: the stream ended (or the wait ran out)
		// "open" here means: the stream stopped short and the proxy did not close within the wait
		// (its own idle time-out is far longer than that)
		o.Closed = cl.rec.ending()
		if err != nil && err != rig.ErrIncomplete && o.Closed == "open" {
			// a parse error with the connection still open: collect what else is on its way
			cl.c.Conn.SetReadDeadline(time.Now().Add(300 * time.Millisecond))
			io.Copy(io.Discard, cl.c.BR)
		}
	}
}

func (o *Obs) fill(cl *client) {
	if cl == nil || cl.rec == nil {
		return
	}
	cl.rec.mu.Lock()
	o.RawHex = core.Hex(cl.rec.buf)
	o.RawLen = cl.rec.total
	cl.rec.mu.Unlock()
}

// runFault executes a cut / dial / tls / connect / malformed / label case.
func (e *env) runFault(c *Case) *Obs {
	o := &Obs{ID: c.ID}
	t0 := time.Now()
	defer func() { o.Ms = time.Since(t0).Milliseconds() }()
	e.install(c)
	defer e.scripts.Delete(c.ID)
	_, p := e.proxyFor(c)
	cl, err := dialClient(p.Addr)
	if err != nil {
		o.Setup = "dial proxy: " + err.Error()
		return o
	}
	defer cl.close()
	if c.Via == "mitm" {
		if err := cl.enterMITM(e, p, c.host()); err != nil {
			o.Setup = "enter MITM: " + err.Error()
			o.fill(cl)
			return o
		}
	}
	method, req := c.request()
	if err := cl.c.Send(req, nil); err != nil {
		o.Setup = "send: " + err.Error()
		return o
	}
	e.observe(cl, method, c.Via, upstreamFault(c.Upstream) != "", o)
	o.fill(cl)
	o.rigNote(e)
	return o
}

// rigNote takes over what the scripted peers noted about the case (env.rigFailed).
func (o *Obs) rigNote(e *env) {
	if v, ok := e.rigNotes.LoadAndDelete(o.ID); ok && o.Rig == "" {
		o.Rig = v.(string)
	}
}

// runLabel runs a fault case alone on the proxy that has a metrics registry and reports which
// proxy_errors_total{reason} counter moved.
func (e *env) runLabel(c *Case) *Obs {
	before := e.errorCounts()
	fc := *c
	fc.Kind = c.What
	fc.K = -1
	o := func() *Obs {
		o := &Obs{ID: c.ID}
		_, p := e.proxyFor(c)
		cl, err := dialClient(p.Addr)
		if err != nil {
			o.Setup = err.Error()
			return o
		}
		defer cl.close()
		method, req := fc.request()
		cl.c.Send(req, nil)
		e.observe(cl, method, fc.Via, false, o)
		o.fill(cl)
		return o
	}()
	after := e.errorCounts()
	var moved []string
	for k, v := range after {
		if v > before[k] {
			moved = append(moved, k)
		}
	}
	o.Label = strings.Join(moved, "|")
	return o
}

func (e *env) errorCounts() map[string]float64 {
	out := map[string]float64{}
	mfs, err := e.labelReg.Gather()
	if err != nil {
		return out
	}
	for _, mf := range mfs {
		if !strings.HasSuffix(mf.GetName(), "proxy_errors_total") {
			continue
		}
		for _, m := range mf.GetMetric() {
			reason := ""
			for _, lp := range m.GetLabel() {
				if lp.GetName() == "reason" {
					reason = lp.GetValue()
				}
			}
			out[reason] = m.GetCounter().GetValue()
		}
	}
	return out
}

// dialLabels reports, for every proxy instance the batch went through, the addresses its dialer saw and the
// `host` label values of the dialer's metric families (dialer_errors_total, dialer_retries_total,
// dialer_cx_total, dialer_cx_active).
func (e *env) dialLabels() (dials, labels map[string][]string, gatherErr string) {
	dials, labels = map[string][]string{}, map[string][]string{}
	e.dialMu.Lock()
	for name, m := range e.dials {
		for a := range m {
			dials[name] = append(dials[name], core.HexS(a))
		}
		sort.Strings(dials[name])
	}
	e.dialMu.Unlock()
	for name, reg := range e.regs {
		if _, ok := e.used.Load(name); !ok && name != "direct" {
			continue
		}
		mfs, err := reg.Gather()
		if err != nil {
			gatherErr = name + ": " + err.Error()
			continue
		}
		seen := map[string]bool{}
		for _, mf := range mfs {
			if !strings.HasPrefix(mf.GetName(), promNamespace+"_dialer_") {
				continue
			}
			for _, m := range mf.GetMetric() {
				for _, lp := range m.GetLabel() {
					if lp.GetName() == "host" && !seen[lp.GetValue()] {
						seen[lp.GetValue()] = true
						labels[name] = append(labels[name], core.HexS(lp.GetValue()))
					}
				}
			}
		}
		sort.Strings(labels[name])
	}
	return dials, labels, gatherErr
}

// runClient feeds hostile bytes to a listener and records everything that comes back.
func (e *env) runClient(c *Case) *Obs {
	o := &Obs{ID: c.ID}
	t0 := time.Now()
	defer func() { o.Ms = time.Since(t0).Milliseconds() }()
	_, p := e.proxyFor(c)
	cl, err := dialClient(p.Addr)
	if err != nil {
		o.Setup = "dial proxy: " + err.Error()
		return o
	}
	defer cl.close()
	if c.Auth != "" {
		cl.auth = authLine
	}
	switch c.Via {
	case "tls":
		if !c.Raw {
			if err := cl.enterTLSListener(); err != nil {
				o.Setup = "tls listener handshake: " + err.Error()
				return o
			}
		}
	case "mitm":
		host := "hostile.tls.test:" + portTLSOrigin
		if c.Raw {
			cl.c.Send([]byte("CONNECT "+host+" HTTP/1.1\r\nHost: "+host+"\r\n"+cl.auth+"\r\n"), nil)
			res, err := cl.c.ReadResponse("CONNECT", caseWait)
			if err != nil || res.Status != 200 {
				o.Setup = fmt.Sprintf("CONNECT for interception not answered with 200: %v", err)
				return o
			}
			cl.rec.mu.Lock()
			cl.rec.buf, cl.rec.total = nil, 0
			cl.rec.mu.Unlock()
		} else if err := cl.enterMITM(e, p, host); err != nil {
			o.Setup = "enter MITM: " + err.Error()
			return o
		}
	}
	var parts [][]byte
	for _, h := range c.InputHex {
		parts = append(parts, core.MustUnHex(h))
	}
	if c.BigInput > 0 {
		parts = append(parts, []byte("GET http://"+probeHost+"/big HTTP/1.1\r\nHost: "+probeHost+"\r\nX-Big: "+strings.Repeat("b", c.BigInput)+"\r\n\r\n"))
	}
	if c.Sentinel {
		parts = append(parts, []byte("GET http://"+probeHost+"/sentinel HTTP/1.1\r\nHost: "+probeHost+"\r\nCase-Id: sentinel-"+c.ID+"\r\n"+cl.auth+"Connection: close\r\n\r\n"))
	}
	// write in the background: the proxy may stop reading (and close) in the middle of a big input
	wdone := make(chan struct{})
	go func() {
		defer close(wdone)
		for i, part := range parts {
			if i > 0 {
				time.Sleep(3 * time.Millisecond)
			}
			cl.c.Conn.SetWriteDeadline(time.Now().Add(caseWait))
			if _, err := cl.c.Conn.Write(part); err != nil {
				return
			}
		}
		if c.HalfClose {
			if tc := rig.UnderlyingTCP(cl.c.Conn); tc != nil {
				if _, isTLS := cl.c.Conn.(*tls.Conn); !isTLS {
					tc.CloseWrite()
				}
			}
		}
	}()
	// read until the proxy closes or stays quiet
	quiet := 1200 * time.Millisecond
	buf := make([]byte, 32<<10)
	for {
		cl.c.Conn.SetReadDeadline(time.Now().Add(quiet))
		_, err := cl.c.BR.Read(buf)
		if err != nil {
			break
		}
		if time.Since(t0) > 4*caseWait {
			break
		}
	}
	o.Closed = cl.rec.ending()
	cl.c.Conn.Close()
	<-wdone
	o.fill(cl)
	return o
}

// runRepeat sends N failing exchanges on one connection.
func (e *env) runRepeat(c *Case) *Obs {
	o := &Obs{ID: c.ID}
	_, p := e.proxyFor(c)
	cl, err := dialClient(p.Addr)
	if err != nil {
		o.Setup = err.Error()
		return o
	}
	defer cl.close()
	fc := Case{ID: c.ID, Kind: "dial", Via: c.Via, Fault: "refused", ReqMinor: 1}
	if c.Via == "mitm" {
		if err := cl.enterMITM(e, p, fc.host()); err != nil {
			o.Setup = err.Error()
			return o
		}
	}
	for i := 0; i < c.N; i++ {
		method, req := fc.request()
		cl.c.Send(req, nil)
		res, err := cl.c.ReadResponse(method, caseWait)
		if err != nil || res == nil || !res.Complete {
			o.Steps = append(o.Steps, fmt.Sprintf("none:%s", cl.rec.ending()))
			break
		}
		o.Steps = append(o.Steps, fmt.Sprintf("%d:%v", res.Status, res.Has("X-Forwarder-Error")))
	}
	o.Closed = cl.rec.ending()
	o.fill(cl)
	return o
}

func (e *env) runOne(c *Case) (o *Obs) {
	defer func() {
		if r := recover(); r != nil {
			o = &Obs{ID: c.ID, Panic: fmt.Sprintf("%v\n%s", r, debug.Stack())}
		}
	}()
	switch c.Kind {
	case "client":
		return e.runClient(c)
	case "repeat":
		return e.runRepeat(c)
	case "counter":
		return runCounter(c)
	case "label":
		return e.runLabel(c)
	case "upload":
		return e.runUpload(c)
	case "accept":
		return e.runAccept(c)
	case "dialtl":
		return e.runLattice(c)
	case "certname":
		return e.runCertName(c)
	default:
		return e.runFault(c)
	}
}

// probeAll checks that every proxy instance still serves a fresh client.
func (e *env) probeAll() map[string]string {
	out := map[string]string{}
	var mu sync.Mutex
	var wg sync.WaitGroup
	for name, p := range e.proxies {
		// every instance the batch went through, and the plain one in any case (the instances whose upstream
		// drops SYNs take a dial time-out to probe)
		if _, ok := e.used.Load(name); !ok && name != "direct" {
			continue
		}
		wg.Add(1)
		go func() {
			defer wg.Done()
			st := e.probeOne(name, p)
			mu.Lock()
			out[name] = st
			mu.Unlock()
		}()
	}
	wg.Wait()
	return out
}

// upstreamFault tells how the upstream proxy of a proxy instance fails to be reached ("" = it does not).
func upstreamFault(upstream string) string {
	if lp, ok := parseLatticeProxy(upstream); ok {
		// an instance of the lattice (lattice.go): its upstream proxy, if it has one, drops SYNs
		if lp.scheme != "" {
			return "timeout"
		}
		return ""
	}
	return map[string]string{"dead": "refused", "hole": "timeout", "rst": "reset"}[strings.TrimPrefix(upstream, "s")]
}

func (e *env) probeOne(name string, p *rig.Proxy) string {
	cl, err := dialClient(p.Addr)
	if err != nil {
		return "dial: " + err.Error()
	}
	defer cl.close()
	if authProxies[name] {
		cl.auth = authLine
	}
	req := "GET http://" + probeHost + "/probe HTTP/1.1\r\nHost: " + probeHost + "\r\nCase-Id: probe-" + name + "\r\n" + cl.auth + "\r\n"
	switch {
	case name == "tls" || name == "htls" || name == "authtls":
		if err := cl.enterTLSListener(); err != nil {
			return "tls: " + err.Error()
		}
	case strings.HasSuffix(name, "mitm") && upstreamFault(strings.TrimSuffix(name, "mitm")) == "":
		if err := cl.enterMITM(e, p, "probe.tls.test:"+portTLSOrigin); err != nil {
			return "mitm: " + err.Error()
		}
		req = "GET /probe HTTP/1.1\r\nHost: probe.tls.test:" + portTLSOrigin + "\r\nCase-Id: probe-" + name + "\r\n" + cl.auth + "\r\n"
	}
	cl.c.Send([]byte(req), nil)
	res, err := cl.c.ReadResponse("GET", caseWait)
	if err != nil {
		return "no response: " + err.Error()
	}
	if upstreamFault(strings.TrimSuffix(name, "mitm")) != "" {
		// its upstream cannot be reached; a clean error response shows it is serving (which status is due is
		// judged on the cases, not here)
		if (res.Status != 502 && res.Status != 504) || !res.Has("X-Forwarder-Error") || !res.Complete {
			return fmt.Sprintf("status %d body %q", res.Status, res.Body)
		}
		return "ok"
	}
	if res.Status != 200 || string(res.Body) != probeBody {
		return fmt.Sprintf("status %d body %q", res.Status, res.Body)
	}
	return "ok"
}

// childMain runs a batch and prints one JSON line per observation, then a final line with the probes.
func childMain(root, file string) {
	b, err := os.ReadFile(file)
	if err != nil {
		fmt.Fprintln(os.Stderr, "c12 child: cannot read batch:", err)
		os.Exit(3)
	}
	var bf batchFile
	if err := json.Unmarshal(b, &bf); err != nil {
		fmt.Fprintln(os.Stderr, "c12 child: bad batch:", err)
		os.Exit(3)
	}
	e, err := func() (e *env, err error) {
		defer func() {
			if r := recover(); r != nil {
				err = fmt.Errorf("panic while setting up: %v\n%s", r, debug.Stack())
			}
		}()
		e, err = newEnv(root)
		if err == nil {
			err = e.startLattice(bf.Cases)
		}
		return e, err
	}()
	if err != nil {
		fmt.Fprintln(os.Stderr, "c12 child: environment:", err)
		os.Exit(4)
	}
	out := bufio.NewWriter(os.Stdout)
	var mu sync.Mutex
	emit := func(v any) {
		j, _ := json.Marshal(v)
		mu.Lock()
		out.Write(j)
		out.WriteByte('\n')
		out.Flush()
		mu.Unlock()
	}
	workers := bf.Workers
	if workers <= 0 {
		workers = 8
	}
	var seqCases []*Case
	jobs := make(chan *Case)
	var wg sync.WaitGroup
	for w := 0; w < workers; w++ {
		wg.Add(1)
		go func() {
			defer wg.Done()
			for c := range jobs {
				emit(e.runOne(c))
			}
		}()
	}
	for _, c := range bf.Cases {
		if c.Kind == "label" {
			seqCases = append(seqCases, c)
			continue
		}
		jobs <- c
	}
	close(jobs)
	wg.Wait()
	for _, c := range seqCases {
		emit(e.runOne(c))
	}
	done := childDone{Done: true, Probes: e.probeAll()}
	done.Dials, done.Labels, done.LabelErr = e.dialLabels()
	emit(done)
	os.Exit(0)
}
