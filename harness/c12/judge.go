package c12

import (
	"bufio"
	"bytes"
	"encoding/json"
	"errors"
	"fmt"
	"io"
	"net/http"
	"regexp"
	"sort"
	"strconv"
	"strings"
	"unicode/utf8"

	"github.com/saucelabs/forwarder/verifharness/core"
	"github.com/saucelabs/forwarder/verifharness/rig"
)

// readResp is rig.ReadResponse shielded against inputs the shared parser was not written for
// (a negative Content-Length makes it panic).
func readResp(br *bufio.Reader, method string) (m *rig.Msg, err error) {
	defer func() {
		if r := recover(); r != nil {
			m, err = nil, fmt.Errorf("parser gave up: %v", r)
		}
	}()
	return rig.ReadResponse(br, method)
}

// ---- what the model is asked ----

func (c *Case) reqClose() bool { return c.ReqClose || c.ReqMinor == 0 }

func (c *Case) modelKind() string {
	return map[string]string{"plain": "plain", "https": "https", "mitm": "mitm", "connect": "connect"}[c.Via]
}

// message is the body of the message the origin sends. A close-delimited body ends where the origin
// closes: with a FIN after k payload bytes those k bytes are the whole message (the framing gives no
// other definition), whereas a reset says the message was not finished.
func (c *Case) message() []byte {
	b := c.body()
	if c.Kind == "cut" && c.Framing == "eof" && !c.Reset && c.K >= len(c.head()) {
		if pay, _ := c.payloadIn(c.K - len(c.head())); pay < len(b) {
			return b[:pay]
		}
	}
	return b
}

// exchangeToks renders the Exchange of the model.
func (c *Case) exchangeToks(idn int) []string {
	fr, head, body := "cl:0", 0, 0
	if c.Kind == "cut" {
		head = len(c.head())
		body = len(c.message())
		switch c.Framing {
		case "cl":
			fr = "cl:" + strconv.Itoa(body)
		default:
			fr = c.Framing
		}
	}
	return []string{"id=" + strconv.Itoa(idn), "log=" + logLabel(c.LogMode), "kind=" + c.modelKind(), "up=" + core.B01(c.Upstream != ""),
		"uptls=" + core.B01(upstreamFault(c.Upstream) != "" && strings.HasPrefix(c.Upstream, "s")), "close=" + core.B01(c.reqClose()), "minor=" + strconv.Itoa(c.ReqMinor),
		"head=" + strconv.Itoa(head), "framing=" + fr, "body=" + strconv.Itoa(body)}
}

// parsedReply is the upstream's CONNECT reply as a client of it would read it.
type parsedReply struct {
	ok      bool
	status  int
	framed  bool
	headLen int
	bodyLen int
	header  http.Header // as net/http (and so OnProxyConnectResponse) reads it
	declLen int64       // Response.ContentLength
	body    []byte
	xfe     []string // the upstream proxy's own X-Forwarder-Error values
}

func parseReply(b []byte) parsedReply {
	res, err := readResp(bufio.NewReader(bytes.NewReader(b)), "GET")
	if err != nil || res == nil || !res.Complete || res.Status < 100 {
		return parsedReply{}
	}
	hr, err := http.ReadResponse(bufio.NewReader(bytes.NewReader(b)), nil)
	if err != nil {
		return parsedReply{}
	}
	return parsedReply{ok: true, status: res.Status, framed: res.Proto == "HTTP/1.1" && res.Framing == "cl", headLen: len(res.HeadBytes), bodyLen: len(res.Body),
		header: hr.Header, declLen: hr.ContentLength, body: res.Body, xfe: res.Values("X-Forwarder-Error")}
}

// rejection returns the upstream proxy's reply of a connect case when it is a rejection whose head
// reaches the proxy completely (the case of the CONNECT-rejection relay).
func (c *Case) rejection() (parsedReply, bool) {
	if c.Kind != "connect" || c.Fault == "stall" {
		return parsedReply{}, false
	}
	pr := parseReply(core.MustUnHex(orEmpty(c.ReplyHex)))
	if pr.ok && pr.status/100 != 2 && (c.CK < 0 || c.CK >= pr.headLen) {
		return pr, true
	}
	return parsedReply{}, false
}

// transportRejection: the rejected CONNECT is the proxy transport's own (GET https:// or a request
// inside an intercepted session through the upstream proxy) — the path repaired for F12.
func (c *Case) transportRejection() (parsedReply, bool) {
	if c.Via != "https" && c.Via != "mitm" {
		return parsedReply{}, false
	}
	return c.rejection()
}

// responseRules are the --response-header rules of the proxy instance a case goes through.
func (c *Case) responseRules() []string {
	if c.Upstream == "up" {
		return upResponseRules
	}
	return nil
}

func rulesTok(rules []string) string {
	var hx []string
	for _, r := range rules {
		hx = append(hx, core.HexS(r))
	}
	return core.JoinList(hx)
}

// tornHeadEOF is the `eof` parameter of the model's head-cut faults, decided by the parser the proxy reads
// replies with: does http.ReadResponse find the first bytes of a torn reply well-formed as far as they go
// and report the end of input (io.ErrUnexpectedEOF: the cut falls behind a complete line or behind the
// colon of a field line), or does it take the last, partial line for a malformed one?
func tornHeadEOF(prefix []byte) bool {
	_, err := http.ReadResponse(bufio.NewReader(bytes.NewReader(prefix)), nil)
	return errors.Is(err, io.EOF) || errors.Is(err, io.ErrUnexpectedEOF)
}

// faults returns the fault tokens the observation may correspond to: the intended one first, then,
// for resets, the ones that arise when the reset overtakes bytes or surfaces as such.
func (c *Case) faults(observedBody int) []string {
	rst := core.B01(c.Reset)
	dialFault := func(f string) []string {
		if f == "reset" {
			// where the reset surfaces is the scheduler's choice: in the connect, the first write, the first read
			return []string{"dial-reset:read", "dial-reset:write", "dial-reset:dial"}
		}
		return []string{"dial-" + f}
	}
	if uf := upstreamFault(c.Upstream); uf != "" {
		return dialFault(uf)
	}
	switch c.Kind {
	case "dial":
		return dialFault(c.Fault)
	case "tls":
		return []string{"tls:" + c.Fault}
	case "malformed":
		return []string{"head-malformed"}
	case "connect":
		if c.Fault == "stall" {
			return []string{"connect:timeout"}
		}
		reply := core.MustUnHex(orEmpty(c.ReplyHex))
		pr := parseReply(reply)
		crst := core.B01(c.CReset)
		if c.CK < 0 || c.CK >= len(reply) {
			if !pr.ok {
				return []string{"connect:malformed"}
			}
			return []string{fmt.Sprintf("connect:rejected:%d:%s", pr.status, core.B01(pr.framed))}
		}
		if pr.ok && c.CK >= pr.headLen {
			k := c.CK - pr.headLen
			fs := []string{fmt.Sprintf("connect:rejected-cut:%d:%d:%d", pr.status, pr.bodyLen, min(k, max(observedBody, 0)))}
			if c.CReset {
				// a reset may overtake bytes already sent: the reader saw any prefix of them
				fs = append(fs, "connect:cut:0:1:0:0", "connect:cut:1:1:0:0", "connect:cut:1:1:0:1", "connect:cut:1:1:1:0")
			}
			return fs
		}
		fs := []string{fmt.Sprintf("connect:cut:%d:%s:0:%s", c.CK, crst, core.B01(tornHeadEOF(reply[:c.CK])))}
		if c.CReset {
			fs = append(fs, fmt.Sprintf("connect:cut:%d:1:1:0", c.CK), "connect:cut:0:1:0:0",
				fmt.Sprintf("connect:cut:%d:1:0:%s", c.CK, core.B01(!tornHeadEOF(reply[:c.CK]))))
		}
		return fs
	case "cut":
		head := len(c.head())
		total := len(c.reply())
		if c.K < 0 || c.K >= total && !c.Reset {
			return []string{"none"}
		}
		k := c.K
		if k > total {
			k = total
		}
		if k < head {
			eof := tornHeadEOF(c.reply()[:k])
			fs := []string{fmt.Sprintf("head-cut:%d:%s:0:%s", k, rst, core.B01(eof))}
			if c.Reset {
				// a reset may overtake bytes already sent: the reader saw any prefix of them
				fs = append(fs, fmt.Sprintf("head-cut:%d:1:1:0", k), "head-cut:0:1:0:0", fmt.Sprintf("head-cut:%d:1:0:%s", k, core.B01(!eof)))
			}
			return fs
		}
		pay, term := c.payloadIn(k - head)
		var fs []string
		if c.Framing == "eof" && !c.Reset {
			return []string{"none"} // the origin ended its close-delimited message here
		}
		if term && (c.Framing != "eof" || !c.Reset) {
			fs = append(fs, "none") // everything arrived; how the connection ended afterwards is immaterial
		} else {
			lost := 0
			if observedBody >= 0 && observedBody < pay {
				lost = pay - observedBody
			}
			if c.Framing == "eof" && c.Reset && pay >= len(c.body()) {
				// all payload, then a reset: nothing is missing
				fs = append(fs, "none")
			}
			fs = append(fs, fmt.Sprintf("body-cut:%d:%s:%d", pay, rst, lost))
		}
		if c.Reset {
			fs = append(fs, "head-cut:0:1:0:0", "head-cut:1:1:0:0", "head-cut:1:1:0:1", "head-cut:1:1:1:0")
		}
		return fs
	}
	return []string{"none"}
}

// ---- what the client saw, in the model's vocabulary ----

type seen struct {
	res     *rig.Msg
	err     error
	obsTok  string // observation in the driver's encoding ("" when it has no counterpart)
	kind    string // error | relayed | complete | prefix | close | silent | partial-head | unparsable | tunnel
	body    int
	hasXFE  bool
	status  int
	ka      bool
	extra   int // bytes after the first response
	garbage bool
}

func idNum(id string) int {
	n, _ := strconv.Atoi(strings.TrimLeft(id, "ABCDEFGHIJKLMNOPQRSTUVWXYZabcdefghijklmnopqrstuvwxyz"))
	return n
}

func frTok(res *rig.Msg) string {
	switch res.Framing {
	case "cl":
		n, _ := strconv.Atoi(strings.TrimSpace(res.Get("Content-Length")))
		return "cl:" + strconv.Itoa(n)
	case "chunked":
		return "chunked"
	case "none":
		return "cl:0"
	}
	return "eof"
}

// look parses the client's byte stream with the independent parser.
func look(c *Case, o *Obs, method string) *seen {
	s := &seen{}
	raw := core.MustUnHex(orEmpty(o.RawHex))
	if o.First > 0 && o.First <= len(raw) {
		raw = raw[:o.First] // what follows is the answer to the follow-up request (or stray bytes, counted in o.Stray)
	}
	idn := idNum(c.ID)
	closeTok := "fin"
	switch o.Closed {
	case "rst":
		closeTok = "rst"
	case "fin":
	default:
		closeTok = "open" // no counterpart in the model: a torn response always ends with a close
	}
	if len(raw) == 0 {
		if o.Closed == "fin" || o.Closed == "rst" {
			s.kind, s.obsTok = "close", "close"
		} else {
			s.kind = "silent"
		}
		return s
	}
	br := bufio.NewReader(bytes.NewReader(raw))
	res, err := readResp(br, method)
	s.res, s.err = res, err
	if res == nil || len(res.HeadBytes) == 0 || (err != nil && err != rig.ErrIncomplete) {
		s.kind = "unparsable"
		return s
	}
	if !bytes.HasSuffix(res.HeadBytes, []byte("\r\n\r\n")) {
		s.kind = "partial-head"
		return s
	}
	s.status = res.Status
	s.body = len(res.Body)
	s.hasXFE = res.Has("X-Forwarder-Error")
	s.ka = o.Follow == "ok"
	s.extra = br.Buffered() + o.Stray
	s.garbage = strings.HasPrefix(o.Follow, "garbage:")
	switch {
	case method == "CONNECT" && res.Status/100 == 2:
		s.kind, s.obsTok = "tunnel", fmt.Sprintf("tunnel %d", idn)
	case err == rig.ErrIncomplete || !res.Complete:
		s.kind = "prefix"
		s.obsTok = fmt.Sprintf("prefix %d %s %d 0 %s", idn, frTok(res), len(res.Body), closeTok)
	case s.hasXFE && !relaysUpstreamXFE(c, res):
		s.kind = "error"
		s.obsTok = fmt.Sprintf("error %d %d _ %s", idn, res.Status, core.B01(s.ka))
	case c.Kind == "connect" || (c.Kind != "cut" && c.Kind != "malformed"):
		// a complete response that forwarder did not mark as its own error: the upstream's
		wf := res.Proto == "HTTP/1.1" || res.Proto == "HTTP/1.0"
		s.kind = "relayed"
		s.obsTok = fmt.Sprintf("relayed %d %d %s %s", idn, res.Status, core.B01(wf), core.B01(s.ka))
	default:
		s.kind = "complete"
		tornEOF := c.Framing == "eof" && c.Reset
		if c.Framing == "chunked" && c.ReqMinor == 0 && c.K >= 0 {
			_, term := c.payloadIn(c.K - len(c.head()))
			tornEOF = !term
		}
		if res.Framing == "eof" && c.Kind == "cut" && tornEOF && len(res.Body) < len(c.body()) {
			// on the wire this is what a truncated close-delimited message looks like: complete
			s.kind = "prefix"
			s.obsTok = fmt.Sprintf("prefix %d eof %d 0 %s", idn, len(res.Body), closeTok)
		} else {
			s.obsTok = fmt.Sprintf("complete %d %s %d %s", idn, frTok(res), len(res.Body), core.B01(s.ka))
		}
	}
	return s
}

// relaysUpstreamXFE reports whether the X-Forwarder-Error of a response is the upstream proxy's own
// (an upstream forwarder marks its rejections too), passed through by the relay — not forwarder's.
func relaysUpstreamXFE(c *Case, res *rig.Msg) bool {
	pr, ok := c.rejection()
	if !ok || len(pr.xfe) == 0 {
		return false
	}
	return strings.Join(res.Values("X-Forwarder-Error"), "\x00") == strings.Join(pr.xfe, "\x00")
}

// sameObs compares the model's observation with the client's, ignoring what the client cannot see
// (the metric label) and what the model leaves open (framing detail of complete messages).
func sameObs(model, got string) bool {
	m, g := strings.Fields(model), strings.Fields(got)
	if len(m) == 0 || len(g) == 0 || m[0] != g[0] || len(m) != len(g) {
		return false
	}
	switch m[0] {
	case "error":
		return m[1] == g[1] && m[2] == g[2] && m[4] == g[4]
	case "complete":
		return m[1] == g[1] && strings.SplitN(m[2], ":", 2)[0] == strings.SplitN(g[2], ":", 2)[0] && m[3] == g[3] && m[4] == g[4]
	}
	return model == got
}

const (
	clauseStream   = "client stream = Model.C12.clientStream (status, kind of outcome, body bytes, keep-alive)"
	clauseClean    = "the client reads a complete well-formed error response or a prefix no parser accepts as complete"
	clauseXFE      = "every error response carries X-Forwarder-Error"
	clauseOwnText  = "an error response describes its own exchange: never a response that parses as complete but is mixed with the text of another"
	clauseFramed   = "every error response is self-delimiting (Content-Length = body length) and well-formed"
	clauseStatus   = "502 for connection and TLS failures, 504 for connect time-outs, the upstream proxy's status for a rejected CONNECT, otherwise 5xx"
	clauseClose    = "a torn response is followed by a close"
	clauseForeign  = "never bytes of another exchange or of another response"
	clauseServing  = "the proxy keeps serving"
	clauseCounter  = "after 5 consecutive failed exchanges the connection is closed"
	clauseHostile  = "hostile client bytes yield well-formed responses or a close"
	clauseLabel    = "errorResponse label = Model.C12.classify"
	clauseTorn     = "a reply torn upstream is never delivered as a complete message (chunked: no terminating chunk), and the connection is not reusable afterwards"
	clauseRelay    = "a relayed CONNECT rejection is a well-formed answer to the client's request: its protocol version, Connection: close as it asked"
)

var opErrorRe = regexp.MustCompile(`^fwdverif (proxyconnect|dial|read|write) tcp[46]?\b`)

var hostIDRe = regexp.MustCompile(`\b(c[0-9]+|w[0-9]+|r[0-9]+)\.[a-z-]+\.test`)

// nonUTF8Host reports whether the host a client request names (authority of an absolute-form or
// CONNECT target, or the Host field) contains bytes that are not valid UTF-8.
func nonUTF8Host(input []byte) bool {
	lines := bytes.Split(input, []byte("\n"))
	bad := func(b []byte) bool { return !utf8.Valid(b) }
	for i, ln := range lines {
		ln = bytes.TrimRight(ln, "\r")
		if i == 0 || bytes.Contains(ln, []byte(" HTTP/1.")) {
			// request line: METHOD SP target SP version
			parts := bytes.Fields(ln)
			if len(parts) >= 2 {
				t := parts[1]
				if j := bytes.Index(t, []byte("://")); j >= 0 {
					t = t[j+3:]
					if k := bytes.IndexAny(t, "/?#"); k >= 0 {
						t = t[:k]
					}
					if bad(t) {
						return true
					}
				} else if bytes.EqualFold(parts[0], []byte("CONNECT")) && bad(t) {
					return true
				}
			}
			continue
		}
		if len(ln) > 5 && bytes.EqualFold(ln[:5], []byte("host:")) && bad(ln[5:]) {
			return true
		}
	}
	return false
}

var reqLineRe = regexp.MustCompile(`(?m)^[!-~]+ [^\r\n]* HTTP/([0-9]+)\.([0-9]+)\r?$`)

// oddVersion reports whether some request line of the input names a protocol version other than
// HTTP/1.0 and HTTP/1.1.
func oddVersion(input []byte) bool {
	for _, m := range reqLineRe.FindAllSubmatch(input, -1) {
		if v := string(m[1]) + "." + string(m[2]); v != "1.0" && v != "1.1" {
			return true
		}
	}
	return false
}

func (c *Case) input() []byte {
	var b []byte
	for _, h := range c.InputHex {
		b = append(b, core.MustUnHex(h)...)
	}
	return b
}

// knownClass decides the known-finding class from the input alone.
func knownClass(c *Case) string {
	switch c.Kind {
	case "cut":
		if c.Framing == "chunked" && c.ReqMinor == 0 && c.K >= len(c.head()) {
			if _, term := c.payloadIn(c.K - len(c.head())); !term {
				return "http10-client-torn-chunked" // F37
			}
		}
		if c.Framing == "eof" && c.Reset && c.K >= len(c.head()) {
			// (a reset right behind the last byte included: it may overtake bytes the proxy has not read yet)
			return "eof-body-reset" // F13
		}
	case "tls", "label":
		if c.Kind == "label" && c.What != "tls" {
			return ""
		}
		if c.Fault == "garbage" {
			// F33, the part still open: crypto/tls reports what it detects itself as errors.New("tls: …")
			// (the peer closing and the handshake time-out are repaired: 502 and 504)
			return "tls-failure-untyped"
		}
	}
	return ""
}

func describeObs(o *Obs) string {
	raw := core.MustUnHex(orEmpty(o.RawHex))
	if o.First > 0 && o.First < len(raw) && o.Stray == 0 {
		raw = raw[:o.First]
	}
	if len(raw) > 500 {
		raw = append(append([]byte{}, raw[:400]...), []byte(fmt.Sprintf("…(%d bytes)", o.RawLen))...)
	}
	s := fmt.Sprintf("stream=%q closed=%s", raw, o.Closed)
	if o.Follow != "" {
		f := o.Follow
		if len(f) > 200 {
			f = f[:200]
		}
		s += " follow=" + f
	}
	if o.Setup != "" {
		s += " setup=" + o.Setup
	}
	return s
}

func caseKey(c *Case) string {
	k := *c
	k.ID = ""
	if k.Kind == "client" && strings.HasPrefix(k.What, "tls-") {
		k.InputHex = []string{fmt.Sprint(len(k.InputHex[0]))} // the hello carries fresh randomness
	}
	b, _ := json.Marshal(k)
	return string(b)
}

func judge(ctx *core.Ctx, c *Case, o *Obs) {
	defer func() {
		// an observation the judge was not written for must surface as a finding, not end the run
		if r := recover(); r != nil {
			ctx.Disagree("the observation can be evaluated", c, fmt.Sprintf("%s | judge panicked: %v", describeObs(o), r), "")
		}
	}()
	ctx.Case(caseKey(c), !(c.Kind == "cut" && c.K < 0))
	ctx.Count("kind/" + c.Kind)
	if o.Panic != "" {
		ctx.Crash("harness goroutine panicked", "", c, o.Panic)
		return
	}
	switch c.Kind {
	case "client":
		judgeClient(ctx, c, o)
	case "repeat":
		judgeRepeat(ctx, c, o)
	case "counter":
		judgeCounter(ctx, c, o)
	case "label":
		judgeLabel(ctx, c, o)
	case "reply":
		judgeReply(ctx, c, o)
	case "upload":
		judgeUpload(ctx, c, o)
	case "accept":
		judgeAccept(ctx, c, o)
	case "dialtl":
		judgeLattice(ctx, c, o)
	case "certname":
		judgeCertName(ctx, c, o)
	default:
		judgeFault(ctx, c, o)
	}
}

// rigDidNotPerform: a case whose script the rig itself could not carry out (a scripted peer that could not get
// its bytes out before the end it was to produce: Obs.Rig) says nothing about the proxy; it is counted, not judged.
func rigDidNotPerform(ctx *core.Ctx, o *Obs) bool {
	if o.Rig == "" {
		return false
	}
	ctx.Count("inconclusive/rig-did-not-perform-its-script/" + strings.SplitN(o.Rig, ":", 2)[0])
	return true
}

func judgeFault(ctx *core.Ctx, c *Case, o *Obs) {
	impl := describeObs(o)
	class := knownClass(c)
	ctx.Count("via/" + c.Via + map[string]string{"": "", "up": "+upstream"}[c.Upstream] + map[string]string{"": "", "handler": "@handler"}[c.Server])
	if c.LogMode != "" && c.Kind == "cut" {
		where := map[bool]string{true: "complete", false: map[bool]string{true: "head", false: "body"}[c.K < len(c.head())]}[c.K < 0]
		ctx.Count("log-mode/" + c.LogMode + "/" + c.Framing + "/" + where + map[bool]string{true: "/rst", false: "/fin"}[c.Reset] + map[string]string{"": "", "handler": "@handler"}[c.Server])
	}
	if c.Kind == "dial" {
		party := "origin"
		if upstreamFault(c.Upstream) != "" {
			party = map[bool]string{false: "http-upstream", true: "https-upstream"}[strings.HasPrefix(c.Upstream, "s")]
		}
		ctx.Count("dial/" + c.Fault + "/" + party + "/" + c.Via)
	}
	if c.Kind == "cut" {
		where := "complete"
		switch {
		case c.K >= 0 && c.K < len(c.head()):
			where = "head"
		case c.K >= 0:
			where = "body"
		}
		ctx.Count("cut/" + c.Framing + "/" + where + map[bool]string{true: "/rst", false: "/fin"}[c.Reset] + map[string]string{"": "", "handler": "@handler"}[c.Server])
	} else if c.Fault != "" {
		ctx.Count(c.Kind + "/" + c.Fault)
	}
	if c.ReqMinor > 1 {
		// regression target (F36, repaired): the version of the request line is not echoed
		ctx.Count(fmt.Sprintf("odd-version-request/%s/%s", c.Kind, c.Via))
	}
	if _, ok := c.transportRejection(); ok {
		// regression target (F12, repaired): how often the run exercises the relay of a transport-level rejection
		ctx.Count(fmt.Sprintf("connect/transport-rejection/%s/minor=%d/close=%s", c.Via, c.ReqMinor, core.B01(c.reqClose())))
	}
	if o.Setup != "" {
		ctx.SpecFail(clauseServing, "", c, impl, "the client could not reach the point of sending its request: "+o.Setup)
		return
	}
	if rigDidNotPerform(ctx, o) {
		return
	}
	method := "GET"
	if c.Via == "connect" {
		method = "CONNECT"
	}
	if c.BigHead > 0 && c.BigHead < 10<<20 && o.RawLen > rawCap {
		// a head below the transport's limit is relayed; the recorder keeps the first MiB only
		ctx.Count("malformed/big-head-relayed")
		if o.Follow != "ok" {
			ctx.SpecFail(clauseClean, "", c, impl, "a large but acceptable head was not relayed completely")
		}
		return
	}
	s := look(c, o, method)
	ctx.Count("seen/" + s.kind)
	idn := idNum(c.ID)
	ex := c.exchangeToks(idn)

	// a malformed head that net/http accepts after all is an ordinary reply: only the direct checks apply
	skipModel := false
	if c.Kind == "malformed" {
		if _, err := http.ReadResponse(bufio.NewReader(bytes.NewReader(c.reply())), nil); err == nil && c.BigHead < 10<<20 {
			skipModel = true
			ctx.Count("malformed/accepted-by-net-http")
		}
	}

	// ---- correspondence with the model ----
	var modelFirst, modelMatched string
	matched := skipModel
	if !skipModel {
		obsBody := -1
		if s.kind == "prefix" {
			obsBody = s.body
		}
		fs := c.faults(obsBody)
		if s.res != nil && len(fs) > 1 && strings.HasPrefix(fs[0], "dial-reset:") {
			// the error text says where the reset surfaced
			if m := opErrorRe.FindStringSubmatch(s.res.Get("X-Forwarder-Error")); m != nil {
				op := m[1]
				if op == "proxyconnect" {
					if m2 := regexp.MustCompile(`proxyconnect tcp[46]?: (dial|read|write) `).FindStringSubmatch(s.res.Get("X-Forwarder-Error")); m2 != nil {
						op = m2[1]
					}
				}
				sort.SliceStable(fs, func(a, b int) bool { return fs[a] == "dial-reset:"+op && fs[b] != "dial-reset:"+op })
			}
		}
		for i, f := range fs {
			ans := ctx.Model.MustAsk(append([]string{"C12", c.streamVerb(), "fault=" + f}, ex...)...)
			if i == 0 {
				modelFirst = ans
				if f := strings.Fields(ans); len(f) > 3 && f[0] == "error" {
					ctx.Count("model/label/" + string(core.MustUnHex(f[3])))
				}
				ctx.Count("model/" + strings.Fields(ans)[0])
			}
			if s.obsTok != "" && sameObs(ans, s.obsTok) {
				matched = true
				modelMatched = ans
				if i > 0 && c.Kind != "dial" {
					ctx.Count("reset-overtook-or-surfaced")
				}
				break
			}
		}
		if matched {
			ctx.TraceValidated()
		} else {
			ctx.Disagree(clauseStream, c, s.kind+" | "+s.obsTok+" | "+impl, modelFirst)
		}
		// The metric label is not on the wire, but the error text is: it spells the chain of *net.OpError
		// ("proxyconnect tcp: dial tcp …: i/o timeout"), and the label is net_<Op of the outermost one>.
		if mf := strings.Fields(modelMatched); matched && c.Kind == "dial" && s.kind == "error" && len(mf) > 3 && mf[0] == "error" {
			if m := opErrorRe.FindStringSubmatch(s.res.Get("X-Forwarder-Error")); m != nil {
				if want := string(core.MustUnHex(mf[3])); want != "net_"+m[1] {
					ctx.Disagree("errorResponse label (Model.C12.classify) = net_<Op of the outermost *net.OpError in the error text>", c, impl, want)
				} else {
					ctx.Count("dial/error-chain/" + m[1])
				}
			}
		}
	}

	// ---- the property, evaluated directly ----
	fail := func(clause, detail string) { ctx.SpecFail(clause, class, c, impl, detail) }
	if s.obsTok != "" {
		ht := s.obsTok
		if strings.HasSuffix(ht, " open") {
			ht = strings.TrimSuffix(ht, " open") + " fin" // the missing close is judged by its own clause below
		}
		ans := ctx.Model.MustAsk(append(append([]string{"C12", "holds"}, ex...), "obs="+strings.ReplaceAll(ht, " ", ","))...)
		if ans != "true" && !skipModel {
			fail(clauseClean, strings.TrimPrefix(ans, "false "))
		}
	}
	res := s.res
	switch s.kind {
	case "silent":
		fail(clauseClean, "no byte and no close within the wait")
	case "unparsable", "partial-head":
		fail(clauseClean, fmt.Sprintf("the stream is not the beginning of an HTTP/1 response (%v)", s.err))
	case "close":
		// a clean close is acceptable only where the failure precedes every byte of a response; for an
		// upstream fault the property asks for an error response
		fail(clauseClean, "connection closed without any response to an upstream fault")
	case "error":
		// (through net/http's server the handler's early flush leaves the framing to the server: chunked, or
		// close-delimited for an HTTP/1.0 client — self-delimiting all the same)
		framed := res.Framing == "cl" || (c.Server == "handler" && (res.Framing == "chunked" || (res.Framing == "eof" && c.ReqMinor == 0)))
		if !framed || !res.Complete || (res.Proto != "HTTP/1.1" && res.Proto != "HTTP/1.0") || !strings.HasPrefix(res.Get("Content-Type"), "text/plain") {
			fail(clauseFramed, fmt.Sprintf("proto=%s framing=%s complete=%v content-type=%q", res.Proto, res.Framing, res.Complete, res.Get("Content-Type")))
		}
		if s.extra > 0 || s.garbage {
			fail(clauseForeign, fmt.Sprintf("%d stray bytes after the error response (follow-up: %.80s)", s.extra, o.Follow))
		}
		checkErrorShape(ctx, c, s, fail)
		wantKA := !c.reqClose()
		if s.ka != wantKA && o.Follow != "timeout" {
			ctx.Disagree("an error response keeps the connection unless the request said close", c, fmt.Sprintf("keep-alive=%v follow=%s", s.ka, o.Follow), fmt.Sprint(wantKA))
		}
		checkStatus(ctx, c, s, fail)
	case "relayed", "complete":
		if s.extra > 0 || s.garbage {
			fail(clauseForeign, fmt.Sprintf("%d stray bytes after the response (follow-up: %.80s)", s.extra, o.Follow))
		}
		if s.kind == "complete" && c.Kind == "cut" && !bytes.Equal(res.Body, c.message()) {
			fail(clauseClean, fmt.Sprintf("a response that parses as complete carries %d body bytes, the origin's message has %d", len(res.Body), len(c.message())))
		}
		if s.kind == "relayed" {
			checkStatus(ctx, c, s, fail)
			checkRelay(ctx, c, s, fail)
		}
		// a fault that precedes the head must not produce an unmarked 2xx/5xx of the proxy's own
		if !skipModel && c.Kind != "connect" && c.Kind != "cut" {
			fail(clauseXFE, fmt.Sprintf("status %d without X-Forwarder-Error", s.status))
		}
		if !skipModel && c.Kind == "cut" && c.K >= 0 && c.K < len(c.head()) {
			fail(clauseXFE, fmt.Sprintf("status %d without X-Forwarder-Error after a reply that ended inside its head", s.status))
		}
	case "prefix":
		if o.Closed != "fin" && o.Closed != "rst" {
			fail(clauseClose, "the connection stays open after a response that stops short: "+o.Closed)
		}
		if c.Kind == "cut" {
			if !bytes.HasPrefix(c.body(), res.Body) {
				fail(clauseForeign, fmt.Sprintf("the %d body bytes received are not a prefix of the origin's body", len(res.Body)))
			}
		} else if c.Kind == "connect" {
			pr := parseReply(core.MustUnHex(orEmpty(c.ReplyHex)))
			body := core.MustUnHex(orEmpty(c.ReplyHex))
			if !pr.ok || !bytes.HasPrefix(body[pr.headLen:], res.Body) {
				fail(clauseForeign, "the body bytes received are not a prefix of the upstream's reply body")
			}
		} else {
			fail(clauseClean, "a truncated response where an error response is due")
		}
	}
	for _, m := range hostIDRe.FindAllStringSubmatch(strings.ToLower(string(core.MustUnHex(orEmpty(o.RawHex)))), -1) {
		if m[1] != strings.ToLower(c.ID) && m[1] != "follow" {
			fail(clauseForeign, "the stream names another exchange: "+m[0])
			break
		}
	}
}

// quotedHostRe: a generated case host (c<seq>.<class>.test[:port]) quoted in an error message.
var quotedHostRe = regexp.MustCompile(`host \\?"(c[0-9]+\.[a-z0-9.-]*\.test(?::[0-9]+)?)\\?"`)

// checkErrorShape compares the error response field by field with Model.C12.writtenError: status line,
// Content-Length = body length, Content-Type, X-Forwarder-Error = name SP error, Connection: close iff
// the request asked for it, body = name SP msg LF error LF.
func checkErrorShape(ctx *core.Ctx, c *Case, s *seen, fail func(clause, detail string)) {
	res := s.res
	const name = "fwdverif"
	xfe := res.Get("X-Forwarder-Error")
	if !strings.HasPrefix(xfe, name+" ") {
		fail(clauseXFE, "X-Forwarder-Error does not start with the proxy's name: "+strconv.Quote(xfe))
		return
	}
	errText := strings.TrimPrefix(xfe, name+" ")
	body := string(res.Body)
	// every case names a host of its own (c<seq>.….test): an error body that quotes the host of ANOTHER
	// case is the text of another exchange (error responses are built on one connection and written later;
	// storage shared between connections in that window shows here, under concurrent faults only)
	for _, m := range quotedHostRe.FindAllStringSubmatch(body, -1) {
		if own := strings.ToLower(c.ID) + "."; !strings.HasPrefix(strings.ToLower(m[1]), own) {
			fail(clauseOwnText, fmt.Sprintf("the body of the error response to %s quotes host %q of another exchange (X-Forwarder-Error: %q; body %q)", c.host(), m[1], xfe, tailStr(body, 200)))
			return
		}
	}
	tail := "\n" + errText + "\n"
	if !strings.HasPrefix(body, name+" ") || !strings.HasSuffix(body, tail) {
		// the error text is folded to one line in the field (line breaks become spaces): only when it has
		// none can the body be taken apart here
		ctx.Count("error-shape/multi-line-error-text")
		return
	}
	msg := strings.TrimSuffix(strings.TrimPrefix(body, name+" "), tail)
	// the version the REQUEST line named: the model applies proxyutil.SetProto to it
	ans := ctx.Model.MustAsk("C12", "errresp", "name="+core.HexS(name), "major=1", "minor="+core.Itoa(c.ReqMinor), "close="+core.B01(c.reqClose()),
		"connect="+core.B01(c.Via == "connect"), "rules="+rulesTok(c.responseRules()), "status="+core.Itoa(res.Status), "msg="+core.HexS(msg), "err="+core.HexS(errText))
	diffs := wireDiffs(ans, res)
	if mf := strings.Fields(ans); "HTTP/1."+mf[1] != res.Proto {
		diffs = append(diffs, fmt.Sprintf("status line: got %s, model HTTP/1.%s", res.Proto, mf[1]))
	}
	if c.Server == "handler" {
		// the fields of the response are the model's; its framing (and the Date field) are net/http's server's
		kept := diffs[:0]
		for _, d := range diffs {
			if !strings.HasPrefix(d, "date: ") && !strings.HasPrefix(d, "transfer-encoding: ") && !strings.HasPrefix(d, "content-length: ") &&
				!(strings.HasPrefix(d, "connection: ") && c.ReqMinor == 0) {
				kept = append(kept, d)
			}
		}
		diffs = kept
	}
	if len(diffs) > 0 {
		ctx.Disagree("error response fields = Model.C12.writtenError", c, strings.Join(diffs, "; "), ans)
	} else {
		ctx.Count("error-shape/agrees")
	}
}

// wireDiffs compares a response with the model's answer "<status> <minor> <keepAlive> <declared> <bodyLen> <fieldmap>":
// every field, and the declared and actual body length.
func wireDiffs(ans string, res *rig.Msg) []string {
	f := strings.Fields(ans)
	want := map[string][]string{}
	for _, e := range core.SplitList2(f[5]) {
		atoms := core.SplitList(e)
		k := string(core.MustUnHex(atoms[0]))
		if _, ok := want[k]; !ok {
			want[k] = nil
		}
		for _, a := range atoms[1:] {
			want[k] = append(want[k], string(core.MustUnHex(a)))
		}
	}
	got := res.FieldMap()
	var diffs []string
	for k, v := range want {
		if strings.Join(got[k], "\x00") != strings.Join(v, "\x00") {
			diffs = append(diffs, fmt.Sprintf("%s: got %q want %q", k, got[k], v))
		}
	}
	for k, v := range got {
		if _, ok := want[k]; !ok {
			diffs = append(diffs, fmt.Sprintf("%s: got %q, not in the model", k, v))
		}
	}
	if f[3] != strconv.Itoa(len(res.Body)) || f[4] != strconv.Itoa(len(res.Body)) {
		diffs = append(diffs, fmt.Sprintf("declared/body length: model %s/%s, body has %d", f[3], f[4], len(res.Body)))
	}
	sort.Strings(diffs)
	return diffs
}

// checkRelay judges the relayed rejection of a transport-level CONNECT (GET https:// or a request in an
// intercepted session through the upstream proxy): it answers the CLIENT's request. Evaluated directly —
// protocol version of the request, "Connection: close" exactly when the request asked for it, the
// connection kept otherwise — and compared field by field with Model.C12.writtenRelay (the upstream
// proxy's fields incl. its own X-Forwarder-Error if it sent one, the proxy's response rules applied,
// Content-Length = the body OnProxyConnectResponse could read).
func checkRelay(ctx *core.Ctx, c *Case, s *seen, fail func(clause, detail string)) {
	pr, ok := c.transportRejection()
	if !ok {
		return
	}
	res := s.res
	line := strconv.Quote(strings.SplitN(string(res.HeadBytes), "\r\n", 2)[0])
	want := fmt.Sprintf("HTTP/1.%d", c.ReqMinor)
	if c.ReqMinor > 1 {
		want = "HTTP/1.1" // a request line naming another version is answered HTTP/1.1
	}
	if res.Proto != want {
		fail(clauseRelay, fmt.Sprintf("status line %s, the request was %s", line, want))
	}
	closeTok := false
	for _, v := range res.Values("Connection") {
		for _, t := range strings.Split(v, ",") {
			if strings.EqualFold(strings.TrimSpace(t), "close") {
				closeTok = true
			}
		}
	}
	if closeTok != c.reqClose() {
		fail(clauseRelay, fmt.Sprintf("Connection: close present=%v, the request asked for close=%v (%s)", closeTok, c.reqClose(), line))
	}
	if c.reqClose() && s.ka {
		fail(clauseRelay, "the connection is kept although the request asked for close")
	}
	if res.Status == 204 || res.Status == 304 || res.Status/100 == 1 {
		return // header-only statuses: written by another routine than the one modelled
	}
	// the body OnProxyConnectResponse could read: all of it, or none when the reply was torn / announced none
	body := []byte{}
	if pr.declLen > 0 && (c.CK < 0 || c.CK >= pr.headLen+int(pr.declLen)) {
		body = pr.body
		if int64(len(body)) > pr.declLen {
			body = body[:pr.declLen]
		}
	}
	var keys []string
	for k := range pr.header {
		keys = append(keys, k)
	}
	sort.Strings(keys)
	var ents []string
	for _, k := range keys {
		atoms := []string{core.HexS(k)}
		for _, v := range pr.header[k] {
			atoms = append(atoms, core.HexS(v))
		}
		ents = append(ents, core.JoinList(atoms))
	}
	ans := ctx.Model.MustAsk("C12", "relayresp", "major=1", "minor="+core.Itoa(c.ReqMinor), "close="+core.B01(c.reqClose()), "rules="+rulesTok(c.responseRules()),
		"status="+core.Itoa(pr.status), "hdr="+core.JoinList2(ents), "body="+core.Hex(body))
	diffs := wireDiffs(ans, res)
	if mf := strings.Fields(ans); mf[0] != strconv.Itoa(res.Status) || "HTTP/1."+mf[1] != res.Proto {
		diffs = append(diffs, fmt.Sprintf("status line: got %s %d, model HTTP/1.%s %s", res.Proto, res.Status, mf[1], mf[0]))
	}
	if len(diffs) > 0 {
		ctx.Disagree("relayed rejection fields = Model.C12.writtenRelay", c, strings.Join(diffs, "; "), ans)
	} else {
		ctx.Count("relay-shape/agrees")
	}
}

// checkStatus evaluates the status clause of the property for what the input was.
func checkStatus(ctx *core.Ctx, c *Case, s *seen, fail func(clause, detail string)) {
	want := 0
	switch {
	case upstreamFault(c.Upstream) != "":
		want = map[string]int{"refused": 502, "timeout": 504, "reset": 502}[upstreamFault(c.Upstream)]
	case c.Kind == "dial" && (c.Fault == "refused" || c.Fault == "reset"):
		want = 502
	case c.Kind == "dial" && c.Fault == "timeout":
		want = 504
	case c.Kind == "tls" && c.Fault == "stall":
		want = 504 // the connection to the remote host is not established in time: a connect time-out
	case c.Kind == "tls":
		want = 502
	case c.Kind == "connect" && c.Fault == "stall":
		want = 504
	case c.Kind == "connect":
		reply := core.MustUnHex(orEmpty(c.ReplyHex))
		if pr := parseReply(reply); pr.ok && (c.CK < 0 || c.CK >= pr.headLen) {
			want = pr.status
		}
	}
	switch {
	case want != 0 && s.status != want:
		fail(clauseStatus, fmt.Sprintf("status %d, the property asks for %d", s.status, want))
	case want == 0 && s.kind == "error" && s.status/100 != 5:
		fail(clauseStatus, fmt.Sprintf("status %d for an upstream fault, the property asks for 5xx", s.status))
	}
	if s.kind == "relayed" && s.res.Proto != "HTTP/1.1" && s.res.Proto != "HTTP/1.0" {
		fail(clauseFramed, "status line "+strconv.Quote(strings.SplitN(string(s.res.HeadBytes), "\r\n", 2)[0]))
	}
}

// ---- hostile client input ----

func judgeClient(ctx *core.Ctx, c *Case, o *Obs) {
	if strings.HasPrefix(c.What, "host/") {
		judgeHost(ctx, c)
		// the histogram keeps the class, not the single host
		ctx.Count("client/" + c.Via + "/host")
	} else if strings.HasPrefix(c.What, "field/") {
		judgeField(ctx, c, o)
		ctx.Count("client/" + c.Via + "/field")
	} else {
		ctx.Count("client/" + c.Via + "/" + c.What)
	}
	if !(c.Raw && c.Via == "tls") && nonUTF8Host(c.input()) {
		// regression target (F35, repaired): the host reaches the dialer's metric labels
		ctx.Count("client/non-utf8-host/" + c.Via)
	}
	impl := describeObs(o)
	if o.Setup != "" {
		ctx.SpecFail(clauseServing, "", c, impl, "a well-behaved preamble (TLS handshake / CONNECT for interception) failed: "+o.Setup)
		return
	}
	if strings.HasPrefix(o.Closed, "err:") {
		ctx.Count("client/closed-with-error")
	}
	raw := core.MustUnHex(orEmpty(o.RawHex))
	if len(raw) == 0 {
		ctx.Count("client/out/nothing-" + o.Closed)
		ctx.TraceValidated()
		return
	}
	if c.Raw && c.Via == "tls" || (c.Raw && (raw[0] == 0x15 || raw[0] == 0x16)) {
		// TLS records (alerts, a ServerHello) on a listener that speaks TLS: not HTTP, nothing to parse
		ctx.Count("client/out/tls-records")
		ctx.TraceValidated()
		return
	}
	br := bufio.NewReader(bytes.NewReader(raw))
	n := 0
	for {
		if _, err := br.Peek(1); err != nil {
			break
		}
		res, err := readResp(br, "GET")
		if err == nil && res.Complete {
			n++
			if res.Proto != "HTTP/1.1" && res.Proto != "HTTP/1.0" {
				// (F36, repaired: the version of the request line was echoed)
				ctx.SpecFail(clauseHostile, "", c, impl, "status line with protocol "+res.Proto)
				return
			}
			if oddVersion(c.input()) {
				// regression target (F36): request lines naming another version than HTTP/1.0 and HTTP/1.1
				ctx.Count("client/odd-version-request/answered-" + res.Proto)
			}
			if res.Has("X-Forwarder-Error") && res.Framing != "cl" && !(c.Server == "handler" && res.Framing == "chunked") && !bytes.Contains(bytes.ToUpper(c.input()), []byte("HEAD")) {
				ctx.SpecFail(clauseFramed, "", c, impl, "error response without Content-Length")
				return
			}
			ctx.Count(fmt.Sprintf("client/status/%dxx", res.Status/100))
			continue
		}
		// the last thing in the stream may be cut short by the close; anything else is ill-formed output
		if err == rig.ErrIncomplete && res != nil && bytes.HasPrefix(res.HeadBytes, []byte("HTTP/1.")) && (o.Closed == "fin" || o.Closed == "rst" || o.RawLen > len(raw)) {
			ctx.Count("client/out/cut-short")
			break
		}
		// a HEAD-like reply (framing fields without a body) directly followed by the next response
		if res != nil && bytes.HasPrefix(res.HeadBytes, []byte("HTTP/1.")) && bytes.HasPrefix(res.Body, []byte("HTTP/1.")) {
			ctx.Count("client/out/header-only-reply")
			break
		}
		ctx.SpecFail(clauseHostile, "", c, impl, fmt.Sprintf("after %d complete responses the stream does not continue with an HTTP/1 response: %v", n, err))
		return
	}
	ctx.Count(fmt.Sprintf("client/out/responses-%d", min(n, 3)))
	ctx.TraceValidated()
}

// ---- N consecutive failing exchanges on one connection ----

func judgeRepeat(ctx *core.Ctx, c *Case, o *Obs) {
	impl := fmt.Sprintf("steps=%v closed=%s %s", o.Steps, o.Closed, o.Setup)
	rs := make([]string, c.N)
	for i := range rs {
		rs[i] = "o" // handle() returns nil after a written error response
	}
	ans := ctx.Model.MustAsk("C12", "loop", core.JoinList(rs))
	ok := len(o.Steps) == c.N && o.Setup == ""
	for _, st := range o.Steps {
		if st != "502:true" {
			ok = false
		}
	}
	if ok && strings.HasPrefix(ans, "open") {
		ctx.TraceValidated()
	} else {
		ctx.Disagree("N failed exchanges on one connection: each answered, the connection kept (Model.C12.connStream / runLoop)", c, impl, ans)
		ctx.SpecFail(clauseClean, "", c, impl, "a failed exchange on a kept-alive connection was not answered with a complete 502")
	}
}

// ---- the counter of handleLoop ----

func judgeCounter(ctx *core.Ctx, c *Case, o *Obs) {
	impl := fmt.Sprintf("steps=%v final=%s %s", o.Steps, o.Closed, o.Setup)
	if o.Setup != "" {
		ctx.Crash(clauseServing, "", c, "counter scenario could not start: "+o.Setup)
		return
	}
	var rs []string
	for _, ch := range c.Seq {
		rs = append(rs, string(ch))
	}
	ans := ctx.Model.MustAsk("C12", "loop", core.JoinList(rs)) // closed n | open k
	done := 0
	broken := ""
	for _, st := range o.Steps {
		if st == "x" || st == "o" {
			done++
			continue
		}
		if st != "closed" {
			broken = st
		}
		break
	}
	if broken != "" {
		ctx.Disagree("counter scenario step", c, impl, ans)
		return
	}
	var got string
	if done < len(rs) || o.Closed != "open" {
		got = fmt.Sprintf("closed %d", done)
	} else {
		got = "open"
	}
	ctx.Count("counter/" + strings.Fields(ans)[0])
	if strings.Fields(ans)[0] == strings.Fields(got)[0] && (got == "open" || ans == got) {
		ctx.TraceValidated()
	} else {
		ctx.Disagree("connection closed exactly when Model.C12.closedAt says (5 consecutive non-closeable errors)", c, got+" | "+impl, ans)
	}
	// the clause itself: five x in a row must have closed the connection
	if strings.Contains(c.Seq, "xxxxx") && got == "open" {
		ctx.SpecFail(clauseCounter, "", c, impl, "five consecutive failing sessions and the connection is still served")
	}
	if !strings.Contains(c.Seq, "xxxxx") && got != "open" {
		ctx.SpecFail(clauseServing, "", c, impl, "the connection was dropped before five consecutive errors")
	}
}

// ---- metric label of the error response ----

func judgeLabel(ctx *core.Ctx, c *Case, o *Obs) {
	impl := describeObs(o) + " label=" + o.Label
	kind := map[string]string{
		"dial/refused": "refused", "dial/timeout": "op:dial:1",
		"tls/expired": "tls-cert", "tls/plain-http": "tls-record:1", "tls/alert": "tls-alert-remote", "tls/local-alert": "tls-alert-local",
		"tls/garbage": "tls-generic", "tls/reset": "reset", "tls/closed": "eof", "tls/stall": "tls-hs-timeout",
	}[c.What+"/"+c.Fault]
	if kind == "" {
		core.Fatalf("C12: label case without a kind: %+v", c)
	}
	f := strings.Fields(ctx.Model.MustAsk("C12", "classify", kind))
	wantStatus, wantLabel := f[0], string(core.MustUnHex(f[1]))
	fc := *c
	fc.Kind = c.What
	s := look(&fc, o, map[bool]string{true: "CONNECT", false: "GET"}[c.Via == "connect"])
	ctx.Count("label/" + wantLabel)
	if s.kind == "error" && strconv.Itoa(s.status) == wantStatus && o.Label == wantLabel {
		ctx.TraceValidated()
	} else {
		ctx.Disagree(clauseLabel, c, fmt.Sprintf("status=%d %s", s.status, impl), wantStatus+" "+wantLabel)
	}
	if s.kind == "error" {
		checkStatus(ctx, &fc, s, func(clause, detail string) { ctx.SpecFail(clause, knownClass(c), c, impl, detail) })
	}
}
