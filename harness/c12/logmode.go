package c12

import (
	"bytes"
	"compress/gzip"
	"fmt"
	"strings"
	"time"

	"github.com/saucelabs/forwarder/httplog"
	"github.com/saucelabs/forwarder/verifharness/core"
	"github.com/saucelabs/forwarder/verifharness/rig"
)

// The HTTP log mode (--log-http, HTTPProxyConfig.LogHTTPMode) is a dimension the property does not mention:
// whatever is logged, a reply torn upstream must not reach the client as a complete message, and a client
// upload torn mid-body must not reach the origin as a complete request. The logger is a response modifier
// (httplog.Logger.LogFunc, added by middlewareStack whatever the log sink is); in mode `body` it reads the
// whole response body (and what is left of the request body) and puts a replaying reader back
// (structuredLogBuilder.WithBody) — the one place outside writeResponse that decides what the body of the
// relayed message is and how it ends. Model: Model.C12 §10 (`wrapBody`, `clientStreamLogged`).
//
// The rest of the matrix runs with the default mode; here the torn-reply part (cuts in head and body under
// chunked / close-delimited / Content-Length framing, gzip-coded bodies, FIN and RST, TCP server and handler
// variant) and torn uploads run under every other mode.

// logModes are the modes of httplog other than the default one (which every other case runs with).
func logModes() []string {
	var out []string
	for _, m := range []httplog.Mode{httplog.None, httplog.ShortURL, httplog.URL, httplog.Headers, httplog.Body, httplog.Errors} {
		if m != httplog.DefaultMode {
			out = append(out, string(m))
		}
	}
	return out
}

func logProxyName(mode string, handler bool) string {
	if handler {
		return "hlog:" + mode
	}
	return "log:" + mode
}

// logCuts picks the offsets a reply is cut at: inside the head, right behind it, inside the body, close to
// its end, and the regular end; heavy adds more offsets inside the body.
func logCuts(r *core.Rand, head, total int, heavy bool) []int {
	seen := map[int]bool{}
	var ks []int
	add := func(k int) {
		if k >= 0 && k <= total && !seen[k] {
			seen[k] = true
			ks = append(ks, k)
		}
	}
	add(head / 2)
	add(head)
	if total-head > 2 {
		add(head + 1 + r.Intn(total-head-2))
	}
	add(total - 1 - r.Intn(3))
	add(total)
	if heavy {
		add(1 + r.Intn(head-1))
		for i := 0; i < 4 && total > head; i++ {
			add(head + r.Intn(total-head))
		}
		add(total - 5) // chunked: all payload, the terminating chunk missing
	}
	return ks
}

func gzipBody(r *core.Rand) []byte {
	var zb bytes.Buffer
	zw := gzip.NewWriter(&zb)
	zw.Write(textBody(r, r.Range(200, 4000)))
	zw.Close()
	return zb.Bytes()
}

func genLogModes(g *gen, quick bool) {
	r := g.r
	both := []bool{false, true}
	for _, mode := range logModes() {
		for _, server := range []string{"", "handler"} {
			from := len(g.out)
			heavy := mode == string(httplog.Body) || !quick
			var tmpls []Case
			for _, fr := range []string{"chunked", "eof", "cl"} {
				body := textBody(r, r.Range(8, 14))
				var sizes []int
				if fr == "chunked" {
					sizes = []int{r.Range(1, 5), r.Range(1, 5)}
				}
				extra := core.Pick(r, []string{"", "X-A: b\r\n", "Content-Type: text/plain\r\n"})
				tmpls = append(tmpls, Case{Kind: "cut", Via: core.Pick(r, []string{"plain", "plain", "https"}), Framing: fr,
					HeadHex: core.HexS(smallHead(fr, len(body), extra)), BodyHex: core.Hex(body), ChunkSizes: sizes})
			}
			// a coded body (relayed as it is): torn gzip under chunked and close-delimited framing
			for _, fr := range []string{"chunked", "eof"} {
				body := gzipBody(r)
				var sizes []int
				if fr == "chunked" {
					sizes = []int{r.Range(1, 40), r.Range(1, len(body)/2)}
				}
				tmpls = append(tmpls, Case{Kind: "cut", Via: core.Pick(r, []string{"plain", "https"}), Framing: fr,
					HeadHex: core.HexS(smallHead(fr, len(body), "Content-Encoding: gzip\r\nContent-Type: text/plain\r\n")), BodyHex: core.Hex(body), ChunkSizes: sizes})
			}
			if heavy {
				// several reads of the body have succeeded before the fault
				body := textBody(r, 70000)
				tmpls = append(tmpls, Case{Kind: "cut", Via: "plain", Framing: "chunked", HeadHex: core.HexS(smallHead("chunked", len(body), "")),
					BodyHex: core.Hex(body), ChunkSizes: []int{r.Range(1000, 9000), r.Range(1000, 30000)}})
			}
			for _, t := range tmpls {
				total := len(t.reply())
				for _, k := range logCuts(r, len(t.head()), total, heavy) {
					for _, rst := range both {
						c := t
						c.K, c.Reset = k, rst
						if k == total && !rst {
							c.K = -1
						}
						c.ReqClose = r.Chance(15)
						g.add(&c)
					}
				}
			}
			for _, c := range g.out[from:] {
				c.LogMode, c.Server = mode, server
			}
		}
	}
	// the request side: an upload that the client tears mid-body (FIN or RST), under every mode (the default included)
	for _, mode := range append([]string{""}, logModes()...) {
		for _, server := range []string{"", "handler"} {
			for _, fr := range []string{"cl", "chunked"} {
				body := textBody(r, r.Range(20, 60))
				var sizes []int
				if fr == "chunked" {
					sizes = []int{r.Range(1, 9), r.Range(1, 9)}
				}
				t := Case{Kind: "upload", Via: "plain", Method: "POST", Framing: fr, BodyHex: core.Hex(body), ChunkSizes: sizes, LogMode: mode, Server: server}
				wire := len(t.wireBody())
				ks := []int{1 + r.Intn(wire-6)}
				if fr == "chunked" {
					ks = append(ks, wire-5) // every chunk, the terminating one missing
				}
				if !quick {
					ks = append(ks, 0, wire-1, 1+r.Intn(wire-2))
				}
				for _, k := range ks {
					for _, rst := range both {
						c := t
						c.K, c.Reset = k, rst
						g.add(&c)
					}
				}
				c := t
				c.K = -1 // the control: a complete upload arrives completely
				g.add(&c)
			}
		}
	}
}

// ---- uploads ----

// uploadSeen is what the scripted origin read of a request marked X-Upload.
type uploadSeen struct {
	complete bool
	body     int
}

func (e *env) noteUpload(req *rig.Msg, err error) {
	if req == nil || !req.Has("X-Upload") {
		return
	}
	e.uploads.Store(req.Get("Case-Id"), &uploadSeen{complete: err == nil && req.Complete, body: len(req.Body)})
}

// runUpload sends a request whose body stops after K bytes of its wire form (FIN or RST), and reports what
// the origin read of it.
func (e *env) runUpload(c *Case) *Obs {
	o := &Obs{ID: c.ID}
	t0 := time.Now()
	defer func() { o.Ms = time.Since(t0).Milliseconds() }()
	_, p := e.proxyFor(c)
	cl, err := dialClient(p.Addr)
	if err != nil {
		o.Setup = "dial proxy: " + err.Error()
		return o
	}
	defer cl.close()
	host := c.host()
	var sb strings.Builder
	fmt.Fprintf(&sb, "POST http://%s/u/%s HTTP/1.1\r\nHost: %s\r\nCase-Id: %s\r\nX-Upload: 1\r\nContent-Type: text/plain\r\n", host, c.ID, host, c.ID)
	if c.Framing == "chunked" {
		sb.WriteString("Transfer-Encoding: chunked\r\n\r\n")
	} else {
		fmt.Fprintf(&sb, "Content-Length: %d\r\n\r\n", len(c.body()))
	}
	wire := c.wireBody()
	if c.K < 0 {
		cl.c.Send(append([]byte(sb.String()), wire...), nil)
		e.observe(cl, "POST", c.Via, false, o)
	} else {
		k := min(c.K, len(wire))
		cl.c.Send([]byte(sb.String()), nil)
		time.Sleep(2 * time.Millisecond)
		if k > 0 {
			cl.c.Send(wire[:k], nil)
		}
		// what was sent is with the proxy before the end (a reset discards what the send queue still holds)
		if c.Reset && !rig.Drain(cl.rec.Conn, drainWait) {
			o.Rig = fmt.Sprintf("client: %d of the %d body bytes before the reset still unsent after %v", rig.SendQueue(cl.rec.Conn), k, drainWait)
		}
		time.Sleep(30 * time.Millisecond)
		if c.Reset {
			rig.AbortConn(cl.rec.Conn)
			o.Closed = "aborted"
		} else {
			if tc := rig.UnderlyingTCP(cl.rec.Conn); tc != nil {
				tc.CloseWrite()
			}
			buf := make([]byte, 8<<10)
			for {
				cl.c.Conn.SetReadDeadline(time.Now().Add(1500 * time.Millisecond))
				if _, err := cl.c.BR.Read(buf); err != nil {
					break
				}
			}
			o.Closed = cl.rec.ending()
		}
	}
	// what the origin made of it (it reports when its read of the request ends: completely, or with its connection)
	deadline := time.Now().Add(3 * time.Second)
	o.Up = "nothing"
	for {
		if v, ok := e.uploads.Load(c.ID); ok {
			u := v.(*uploadSeen)
			o.Up = fmt.Sprintf("%s:%d", map[bool]string{true: "complete", false: "incomplete"}[u.complete], u.body)
			break
		}
		if time.Now().After(deadline) {
			break
		}
		time.Sleep(5 * time.Millisecond)
	}
	e.uploads.Delete(c.ID)
	o.fill(cl)
	return o
}

const clauseTornUpload = "a client upload torn mid-body is never forwarded as a complete request (whatever the HTTP log mode)"

func logLabel(m string) string {
	if m == "" {
		return "default"
	}
	return m
}

func judgeUpload(ctx *core.Ctx, c *Case, o *Obs) {
	impl := "origin saw: " + o.Up + " | client: " + describeObs(o)
	srv := map[string]string{"": "", "handler": "@handler"}[c.Server]
	ctx.Count("upload/" + logLabel(c.LogMode) + "/" + c.Framing + map[bool]string{true: "/complete", false: map[bool]string{true: "/rst", false: "/fin"}[c.Reset]}[c.K < 0] + srv)
	if o.Setup != "" {
		ctx.SpecFail(clauseServing, "", c, impl, "the client could not send its request: "+o.Setup)
		return
	}
	if rigDidNotPerform(ctx, o) {
		return
	}
	wire := c.wireBody()
	sent, end := len(c.body()), "clean"
	if c.K >= 0 {
		sent, _ = c.payloadIn(min(c.K, len(wire)))
		end = "err"
	}
	fr := "chunked"
	if c.Framing == "cl" {
		fr = fmt.Sprintf("cl:%d", len(c.body()))
	}
	ans := ctx.Model.MustAsk("C12", "upload", "log="+logLabel(c.LogMode), "framing="+fr, "sent="+core.Itoa(sent), "end="+end) // complete <n> | incomplete <n>
	mf := strings.Fields(ans)
	var seenKind string
	var seenN int
	if o.Up == "nothing" {
		seenKind = "incomplete"
	} else {
		parts := strings.SplitN(o.Up, ":", 2)
		seenKind = parts[0]
		fmt.Sscanf(parts[1], "%d", &seenN)
	}
	var modelN int
	fmt.Sscanf(mf[1], "%d", &modelN)
	ok := seenKind == mf[0] && ((seenKind == "complete" && seenN == modelN) || (seenKind == "incomplete" && seenN <= modelN))
	if ok {
		ctx.TraceValidated()
	} else {
		ctx.Disagree("what the origin reads of an upload = Model.C12.forwardedUpload (complete iff the client's body ended regularly; never more bytes than were sent)", c, impl, ans)
	}
	if c.K >= 0 && seenKind == "complete" {
		ctx.SpecFail(clauseTornUpload, "", c, impl, fmt.Sprintf("the client sent %d of %d body bytes and ended the connection; the origin read a complete request with %d body bytes", sent, len(c.body()), seenN))
	}
	if c.K < 0 {
		// the control: the response to a complete upload is the origin's
		s := look(c, o, "POST")
		if s.res == nil || s.status != 200 {
			ctx.Disagree("a complete upload is answered by the origin", c, impl, "200")
		}
	}
}
