// Package c12 ties the fault model (Model/C12.lean) to the real proxy: fault-injecting scripted
// origins / upstream proxies / TLS endpoints, hostile client input on plain, TLS and MITM listeners,
// the whole thing executed in child processes so that a panic inside a proxy goroutine is caught,
// bisected and reported as the replay.
package c12

import (
	"bytes"
	"fmt"
	"strings"

	"github.com/saucelabs/forwarder/verifharness/core"
	"github.com/saucelabs/forwarder/verifharness/rig"
)

// Virtual ports: connect-to rules with an empty host route "<anything>:<port>" to a scripted peer.
const (
	portOrigin    = "8080" // plain fault origin
	portTLSOrigin = "8443" // TLS fault origin with a valid certificate for *.tls.test
	portRefused   = "8081" // nothing listens
	portBlackhole = "8082" // SYNs are dropped
	portReset     = "8083" // accepts and resets at once
	portProbe     = "8088" // healthy origin
	portUpstream  = "3128" // scripted upstream proxy
	portUpDead    = "3129" // upstream proxy that refuses connections
	portUpHole    = "3130" // upstream proxy whose address drops SYNs: the dial times out
	portUpReset   = "3131" // upstream proxy that accepts and resets at once
)

// TLS fault kinds and their virtual ports.
var tlsFaultPorts = map[string]string{
	"expired": "9001", "wrong-name": "9002", "untrusted": "9003", "garbage": "9004", "plain-http": "9005",
	"not-tls": "9006", "alert": "9007", "closed": "9008", "reset": "9009", "stall": "9010", "local-alert": "9011",
}

// Case is one replayable input.
type Case struct {
	ID   string `json:"id"`
	Kind string `json:"kind"` // cut | dial | tls | connect | malformed | client | repeat | counter | label | reply | dialtl | certname
	// how the client asks: plain (GET http://), https (GET https://), mitm (inside an intercepted
	// tunnel), connect (client CONNECT). For kind=client: the listener: plain | tls | mitm.
	Via      string `json:"via"`
	// "" | "up" (scripted upstream proxy) | an upstream proxy that cannot be reached: "dead" (refuses) | "hole"
	// (the dial times out) | "rst" (accepts and resets); "sdead" | "shole" | "srst": the same, configured as https://
	Upstream string `json:"upstream,omitempty"`
	// "" = the proxy's own TCP server (proxy_conn.go) | "handler" = martian's http.Handler under net/http's
	// server (proxy_handler.go, HTTPProxyConfig.TestingHTTPHandler; no interception there)
	Server   string `json:"server,omitempty"`
	ReqClose bool   `json:"req_close,omitempty"`
	ReqMinor int    `json:"req_minor"`

	// cut / malformed: the origin's reply and where it stops
	Framing    string `json:"framing,omitempty"` // cl | chunked | eof
	HeadHex    string `json:"head_hex,omitempty"`
	BodyHex    string `json:"body_hex,omitempty"` // payload
	ChunkSizes []int  `json:"chunk_sizes,omitempty"`
	BigHead    int    `json:"big_head,omitempty"` // malformed: a head with one field value of this many bytes
	K          int    `json:"k"`                  // bytes written before the close (-1 = everything, regular end)
	Reset      bool   `json:"reset,omitempty"`

	Fault string `json:"fault,omitempty"` // dial: refused | timeout | reset ; tls: a key of tlsFaultPorts

	// connect: the upstream proxy's reply to CONNECT, cut after CK bytes (-1 = all of it)
	ReplyHex string `json:"reply_hex,omitempty"`
	CK       int    `json:"ck,omitempty"`
	CReset   bool   `json:"creset,omitempty"`

	// client: raw bytes sent to the listener, in pieces; Wait = what to do after sending
	InputHex  []string `json:"input_hex,omitempty"`
	Raw       bool     `json:"raw,omitempty"`        // tls/mitm listeners: send the bytes instead of a TLS handshake
	HalfClose bool     `json:"half_close,omitempty"` // close the write side after sending
	Sentinel  bool     `json:"sentinel,omitempty"`   // a valid "Connection: close" request follows the input
	What      string   `json:"what,omitempty"`       // generator label
	BigInput  int      `json:"big_input,omitempty"`  // request head padded with a field of this many bytes

	// repeat: N consecutive failing exchanges on one connection; counter: result sequence (x = failing
	// h2 session, o = successful plain exchange)
	N   int    `json:"n,omitempty"`
	Seq string `json:"seq,omitempty"`

	// reply (reply.go): one upstream reply out of the product space status x upgrade fields x Content-Type x
	// framing fields x body x request kind. HeadHex = every head of the reply (interim ones included),
	// BodyHex = the bytes that follow on the wire, as they are; ReplyHex when the reply answers a CONNECT.
	Method string `json:"method,omitempty"` // GET | HEAD | POST: the client's request (Via connect: CONNECT)
	ReqUp  string `json:"req_up,omitempty"` // the protocol the request asks to upgrade to ("" = no upgrade request)
	At     string `json:"at,omitempty"`     // origin: the reply answers the request | connect: it is the upstream proxy's answer to CONNECT
	After  string `json:"after,omitempty"`  // fin: the peer closes after its reply | keep: it goes on serving the connection
	Dims   string `json:"dims,omitempty"`   // generator coordinates status/upgrade/content-type/framing/body (label)

	// client cases of the host dimension (hosts.go): the host the request names, before any percent-encoding
	HostHex string `json:"host_hex,omitempty"`

	// cut / upload cases under an HTTP log mode other than the default (logmode.go): none | short-url | url |
	// headers | body | errors ("" = the configuration's default)
	LogMode string `json:"log_mode,omitempty"`
	// accept (accept.go): what the listener's Accept calls return, in order: "c" = a connection (a probe request
	// on a fresh connection) | the name of an error (acceptErrs); What = "rlimit": real descriptor exhaustion
	Accept []string `json:"accept,omitempty"`
	// client cases of the header-field dimension (fields.go): Auth = "basic": the proxy instance is started with
	// --basic-auth (and --credentials for the probe origin), the well-behaved preamble and the sentinel carry valid
	// credentials; PAHex = the value Header.Get("Proxy-Authorization") returns for the first request of the input
	// ("_" = absent or empty; "" = the basic-auth decision of this case is not judged); Method: GET | POST | CONNECT
	Auth  string `json:"auth,omitempty"`
	PAHex string `json:"pa_hex,omitempty"`
	// dialtl (lattice.go): the dial phase against an address that drops SYNs, under one configuration of the time
	// limits (Lattice = a key of latticeCfgs: who gives up first — the dialer's DialTimeout, dialvia's ConnectTimeout,
	// within which of the 1..3 attempts), Scheme = what is dialled: "" the origin itself | http | https | socks5 (the
	// upstream proxy of that scheme), GoneMs > 0: the client closes its connection that long after its request
	Lattice string `json:"lattice,omitempty"`
	Scheme  string `json:"scheme,omitempty"`
	GoneMs  int    `json:"gone_ms,omitempty"`
	// certname (certnames.go): hostile names at the interception point. HostHex = the host of the CONNECT authority
	// (Dims "pct": its bytes >= 0x80 percent-encoded on the wire), SNI = the server name of the ClientHello that follows
	// the 200: same (the authority's host) | absent | other | good (SNIHex), N > 1: that many such connections at once;
	// after them (and beside a crowd) the same instance must intercept a connection to a host it has never seen
	SNI    string `json:"sni,omitempty"`
	SNIHex string `json:"sni_hex,omitempty"`
}

func (c *Case) head() []byte { return core.MustUnHex(orEmpty(c.HeadHex)) }
func (c *Case) body() []byte { return core.MustUnHex(orEmpty(c.BodyHex)) }

func orEmpty(s string) string {
	if s == "" {
		return "_"
	}
	return s
}

// wireBody is what the origin writes after the head.
func (c *Case) wireBody() []byte {
	switch c.Framing {
	case "chunked":
		return rig.ChunkEncode(c.body(), c.ChunkSizes, nil)
	default:
		return c.body()
	}
}

func (c *Case) reply() []byte {
	if c.BigHead > 0 {
		return []byte("HTTP/1.1 200 OK\r\nX-Big: " + strings.Repeat("a", c.BigHead) + "\r\nContent-Length: 2\r\n\r\nok")
	}
	return append(append([]byte{}, c.head()...), c.wireBody()...)
}

// payloadIn returns how many payload bytes the first n bytes of the wire body carry, and whether the
// terminating chunk (incl. the final CRLF) lies completely inside them.
func (c *Case) payloadIn(n int) (int, bool) {
	wb := c.wireBody()
	if n > len(wb) {
		n = len(wb)
	}
	if n < 0 {
		n = 0
	}
	if c.Framing != "chunked" {
		return n, n == len(wb)
	}
	// walk the chunks
	got, pos := 0, 0
	b := wb[:n]
	for {
		i := bytes.Index(b[pos:], []byte("\r\n"))
		if i < 0 {
			return got, false
		}
		var sz int
		fmt.Sscanf(string(b[pos:pos+i]), "%x", &sz)
		pos += i + 2
		if sz == 0 {
			return got, pos+2 <= len(b)
		}
		avail := len(b) - pos
		if avail <= sz {
			if avail > 0 {
				got += avail
			}
			return got, false
		}
		got += sz
		pos += sz + 2
		if pos > len(b) {
			return got, false
		}
	}
}

// host the client names (unique per case so that error texts identify the exchange).
func (c *Case) host() string {
	id := strings.ToLower(c.ID)
	switch c.Kind {
	case "dial":
		p := portRefused
		switch c.Fault {
		case "timeout":
			p = portBlackhole
		case "reset":
			p = portReset
		}
		return id + ".dial.test:" + p
	case "tls":
		return id + "." + c.Fault + ".test:" + tlsFaultPorts[c.Fault]
	case "dialtl":
		if c.Scheme == "" {
			return id + ".dial.test:" + portBlackhole
		}
	}
	if c.Via == "plain" {
		return id + ".origin.test:" + portOrigin
	}
	return id + ".tls.test:" + portTLSOrigin
}

// ---- generator ----

type gen struct {
	r   *core.Rand
	seq int
	out []*Case
}

func (g *gen) add(c *Case) *Case {
	g.seq++
	c.ID = fmt.Sprintf("C%d", g.seq)
	c.ReqMinor = 1
	if c.Kind == "cut" && g.r.Chance(10) {
		c.ReqMinor = 0 // an HTTP/1.0 client: the request asks for close
	}
	g.out = append(g.out, c)
	return c
}

func smallHead(framing string, bodyLen int, extra string) string {
	h := "HTTP/1.1 200 OK\r\n"
	switch framing {
	case "cl":
		h += fmt.Sprintf("Content-Length: %d\r\n", bodyLen)
	case "chunked":
		h += "Transfer-Encoding: chunked\r\n"
	}
	return h + extra + "\r\n"
}

func textBody(r *core.Rand, n int) []byte {
	const cs = "abcdefghijklmnopqrstuvwxyz0123456789 \n"
	b := make([]byte, n)
	for i := range b {
		b[i] = cs[r.Intn(len(cs))]
	}
	return b
}

// cutsOf enumerates (exhaustive) or samples cut offsets of a reply of length n with head length h.
func cutsOf(r *core.Rand, n, h int, exhaustive bool, samples int) []int {
	var ks []int
	if exhaustive {
		for k := 0; k <= n; k++ {
			ks = append(ks, k)
		}
		return ks
	}
	seen := map[int]bool{}
	addk := func(k int) {
		if k >= 0 && k <= n && !seen[k] {
			seen[k] = true
			ks = append(ks, k)
		}
	}
	for _, k := range []int{0, 1, h - 1, h, h + 1, n - 1, n, n - 5, n - 2, h / 2} {
		addk(k)
	}
	if samples > n+1 {
		samples = n + 1
	}
	for len(ks) < samples {
		if r.Chance(25) {
			addk(r.Intn(h + 1))
		} else {
			addk(h + r.Intn(n-h+1))
		}
	}
	return ks
}

func (g *gen) cutFamily(via, upstream, framing string, bodyLen int, exhaustive bool, samples int, resets []bool) {
	r := g.r
	body := textBody(r, bodyLen)
	extra := core.Pick(r, []string{"", "X-A: b\r\n", "Content-Type: text/plain\r\nX-Pad: " + strings.Repeat("p", r.Intn(30)) + "\r\n"})
	if exhaustive {
		extra = core.Pick(r, []string{"", "X-A: b\r\n"})
	}
	head := smallHead(framing, bodyLen, extra)
	var sizes []int
	if framing == "chunked" {
		n := r.Range(1, 4)
		for i := 0; i < n; i++ {
			sizes = append(sizes, r.Range(1, bodyLen/2+1))
		}
	}
	g.cutTemplate(Case{Kind: "cut", Via: via, Upstream: upstream, Framing: framing, HeadHex: core.HexS(head), BodyHex: core.Hex(body), ChunkSizes: sizes},
		exhaustive, samples, resets)
}

// cutTemplate adds the cuts of one scripted reply: every offset or sampled ones, ended by FIN and / or RST.
func (g *gen) cutTemplate(tmpl Case, exhaustive bool, samples int, resets []bool) {
	r := g.r
	total := len(tmpl.reply())
	for _, k := range cutsOf(r, total, len(tmpl.head()), exhaustive, samples) {
		for _, rst := range resets {
			c := tmpl
			c.K = k
			c.Reset = rst
			if k == total && !rst {
				c.K = -1
			}
			if r.Chance(15) {
				c.ReqClose = true
			}
			g.add(&c)
		}
	}
}

var rejections = []string{
	"HTTP/1.1 403 Forbidden\r\nContent-Length: 0\r\n\r\n",
	"HTTP/1.1 403 Forbidden\r\nContent-Length: 6\r\nX-Up: 1\r\n\r\ndenied",
	"HTTP/1.1 407 Proxy Authentication Required\r\nProxy-Authenticate: Basic realm=\"up\"\r\nContent-Length: 4\r\n\r\nauth",
	"HTTP/1.1 407 Proxy Authentication Required\r\nProxy-Authenticate: Basic realm=\"up\"\r\nContent-Length: 0\r\n\r\n",
	"HTTP/1.1 502 Bad Gateway\r\nContent-Length: 11\r\nContent-Type: text/plain\r\n\r\nbad gateway",
	"HTTP/1.1 502 Bad Gateway\r\n\r\n",
	"HTTP/1.1 503 Service Unavailable\r\nRetry-After: 3\r\nContent-Length: 0\r\n\r\n",
	"HTTP/1.0 403 Forbidden\r\n\r\nno",
	"HTTP/1.1 429 Too Many Requests\r\nContent-Length: 3\r\n\r\n429",
	// an upstream forwarder marks its own rejections: the field is the upstream's and must pass through
	"HTTP/1.1 403 Forbidden\r\nContent-Type: text/plain; charset=utf-8\r\nX-Forwarder-Error: upstream-fwd proxying denied\r\nContent-Length: 33\r\n\r\nupstream-fwd denied\nproxy denied\n",
	"HTTP/1.1 502 Bad Gateway\r\nX-Forwarder-Error: upstream-fwd dial tcp: lookup failed\r\nX-Up-Strip: gone\r\nContent-Length: 0\r\n\r\n",
	"HTTP/1.1 302 Found\r\nLocation: http://login.up.test/\r\nConnection: X-Hop\r\nX-Hop: 1\r\nContent-Length: 0\r\n\r\n",
}

var malformedHeads = []string{
	"HTTP/1.1 abc OK\r\n\r\n",
	"garbage without any structure\r\n\r\n",
	"HTTP/1.1 200 OK\r\nContent-Length: 3\r\nContent-Length: 4\r\n\r\nabcd",
	"HTTP/1.1 200 OK\r\nBad Header Line\r\n\r\n",
	"HTTP/1.1 200 OK\r\nTransfer-Encoding: gzip\r\n\r\nxx",
	"HTTP/1.1 200 OK\r\nContent-Length: -1\r\n\r\n",
	"HTTP/1.1 200 OK\r\nContent-Length: 12abc\r\n\r\n",
	"HTTP/1.1 200 OK\r\n: empty-name\r\n\r\n",
	"HTTP/1.1 200\r\n \r\n\r\n",
	"HTTP/9.9.9 200 OK\r\n\r\n",
	"\x00\x01\x02\x03\xff\xfe binary\r\n\r\n",
	"HTTP/1.1 200 OK\r\nTransfer-Encoding: chunked\r\nTransfer-Encoding: chunked\r\n\r\n0\r\n\r\n",
	"HTTP/1.1 2000 OK\r\nContent-Length: 0\r\n\r\n",
	"HTTP/1.1 -5 OK\r\nContent-Length: 0\r\n\r\n",
	"HTTP/1.1 200 OK\r\nX-Nul: a\x00b\r\nContent-Length: 0\r\n\r\n",
}

// generate builds the case list of a run.
func generate(r *core.Rand, quick bool) []*Case {
	g := &gen{r: r}
	both := []bool{false, true}
	// A. small replies, every byte offset of head and body, FIN and RST (exhaustive)
	g.cutFamily("plain", "", "cl", 12, true, 0, both)
	g.cutFamily("plain", "", "chunked", 12, true, 0, both)
	g.cutFamily("plain", "", "eof", 12, true, 0, both)
	g.cutFamily("https", "", "cl", 9, true, 0, both)
	g.cutFamily("https", "", "chunked", 9, true, 0, both)
	g.cutFamily("mitm", "", "eof", 9, true, 0, both)
	if !quick {
		g.cutFamily("https", "", "eof", 9, true, 0, both)
		g.cutFamily("mitm", "", "cl", 9, true, 0, both)
		g.cutFamily("mitm", "", "chunked", 9, true, 0, both)
		g.cutFamily("plain", "up", "cl", 9, true, 0, both)
		g.cutFamily("plain", "up", "chunked", 9, true, 0, both)
		g.cutFamily("https", "up", "cl", 9, true, 0, both)
	}
	// A'. the same cuts with the proxy served through martian's http.Handler under net/http's server (handler.go)
	genHandler(g, quick)
	// sampled offsets on the other paths
	n := 10
	if !quick {
		n = 80
	}
	for _, fr := range []string{"cl", "chunked", "eof"} {
		g.cutFamily("mitm", "", fr, 10, false, n, both)
		g.cutFamily("plain", "up", fr, 10, false, n, both)
		g.cutFamily("https", "up", fr, 10, false, n/2+3, both)
		g.cutFamily("mitm", "up", fr, 10, false, n/2+3, both)
	}
	// B. large replies, sampled offsets
	sizes := []int{5000, 33000, 70000}
	if !quick {
		sizes = []int{5000, 20000, 33000, 70000, 140000, 300000}
	}
	reps := 1
	if !quick {
		reps = 24
	}
	for i := 0; i < reps; i++ {
		for _, fr := range []string{"cl", "chunked", "eof"} {
			for _, sz := range sizes {
				via := core.Pick(r, []string{"plain", "plain", "https", "mitm"})
				up := core.Pick(r, []string{"", "", "up"})
				m := 10
				if !quick {
					m = 16
				}
				g.cutFamily(via, up, fr, sz, false, m, both)
			}
		}
	}
	// C. dial faults
	for _, f := range []string{"refused", "refused", "timeout"} {
		for _, via := range []string{"plain", "https", "connect", "mitm"} {
			g.add(&Case{Kind: "dial", Via: via, Fault: f, ReqClose: r.Chance(20)})
		}
	}
	// the whole matrix: dial outcome x dialled party (origin, upstream http proxy, upstream https proxy) x
	// request kind (plain and https through the transport, inside an intercepted tunnel, client CONNECT via
	// dialvia): 502 for refused and reset, 504 for a dial that times out, on every path (the transport wraps
	// failures to reach its proxy in a "proxyconnect" OpError)
	for _, f := range []string{"refused", "timeout", "reset"} {
		for _, up := range []string{"", "http", "https"} {
			for _, via := range []string{"plain", "https", "connect", "mitm"} {
				c := &Case{Kind: "dial", Via: via, Fault: f, ReqClose: r.Chance(20)}
				if up != "" {
					c.Upstream = map[string]string{"refused": "dead", "timeout": "hole", "reset": "rst"}[f]
					if up == "https" {
						c.Upstream = "s" + c.Upstream
					}
				} else if f != "reset" {
					continue // generated above
				}
				g.add(c)
			}
		}
	}
	// D. TLS faults
	tn := 1
	if !quick {
		tn = 12
	}
	for i := 0; i < tn; i++ {
		for f := range tlsFaultPorts {
			for _, via := range []string{"https", "mitm"} {
				if f == "stall" && (i > 0 || via == "mitm") {
					continue
				}
				g.add(&Case{Kind: "tls", Via: via, Fault: f, ReqClose: r.Chance(20)})
			}
		}
	}
	// E. upstream proxy rejecting / tearing / garbling its CONNECT reply. The rejection of a CONNECT of
	// the proxy's own transport (https, mitm) is relayed as the answer to the client's request (F12,
	// repaired): every reply x keep-alive / Connection: close / an HTTP/1.0 client, each round.
	for _, rej := range rejections {
		for _, via := range []string{"connect", "https", "mitm"} {
			g.add(&Case{Kind: "connect", Via: via, Upstream: "up", ReplyHex: core.HexS(rej), CK: -1, ReqClose: r.Chance(25)})
			if via != "connect" {
				g.add(&Case{Kind: "connect", Via: via, Upstream: "up", ReplyHex: core.HexS(rej), CK: -1, ReqClose: true})
				g.add(&Case{Kind: "connect", Via: via, Upstream: "up", ReplyHex: core.HexS(rej), CK: -1, ReqClose: r.Chance(50)}).ReqMinor = 0
			}
		}
	}
	small := rejections[1]
	for k := 0; k < len(small); k++ {
		for _, rst := range both {
			vias := []string{"connect"}
			if !quick || k%4 == 0 {
				vias = []string{"connect", "https", "mitm"}
			}
			for _, via := range vias {
				c := g.add(&Case{Kind: "connect", Via: via, Upstream: "up", ReplyHex: core.HexS(small), CK: k, CReset: rst, ReqClose: via != "connect" && r.Chance(30)})
				if via != "connect" && r.Chance(15) {
					c.ReqMinor = 0
				}
			}
		}
	}
	if !quick {
		for i := 0; i < 200; i++ {
			c := g.add(&Case{Kind: "connect", Via: core.Pick(r, []string{"https", "mitm"}), Upstream: "up", ReplyHex: core.HexS(core.Pick(r, rejections)), CK: -1, ReqClose: r.Chance(40)})
			if r.Chance(25) {
				c.ReqMinor = 0
			}
		}
	}
	for _, mh := range malformedHeads[:8] {
		for _, via := range []string{"connect", "https"} {
			g.add(&Case{Kind: "connect", Via: via, Upstream: "up", ReplyHex: core.HexS(mh), CK: -1})
		}
	}
	g.add(&Case{Kind: "connect", Via: "connect", Upstream: "up", Fault: "stall"})
	// F. malformed / oversized reply heads
	for _, mh := range malformedHeads {
		for _, via := range []string{"plain", "https", "mitm"} {
			g.add(&Case{Kind: "malformed", Via: via, HeadHex: core.HexS(mh), K: -1, Upstream: core.Pick(r, []string{"", "", "up"})})
		}
	}
	g.add(&Case{Kind: "malformed", Via: "plain", BigHead: 11 << 20, K: -1})
	if !quick {
		g.add(&Case{Kind: "malformed", Via: "https", BigHead: 11 << 20, K: -1})
		g.add(&Case{Kind: "malformed", Via: "plain", BigHead: 9 << 20, K: -1}) // below the limit: passes
	}
	// K. hostile and unusual upstream replies as a product space (reply.go)
	genReplies(g, quick)
	// G. hostile client input
	genClient(g, quick)
	// G'. hostile VALUES of every header field the proxy itself parses, on proxies configured so that the parser runs (fields.go)
	genFields(g, quick)
	// H. consecutive failed exchanges on one connection
	for _, n := range []int{5, 6, 8, 12} {
		g.add(&Case{Kind: "repeat", Via: core.Pick(r, []string{"plain", "https", "mitm"}), N: n})
	}
	// I. the consecutive-error counter of handleLoop (reachable through the HTTP/2 interception path only)
	seqs := []string{"xxxxx", "xxxxxx", "xxxx", "xxxxoxxxxx", "oxxxxx", "xxoxxoxxxxx", "xoxoxoxoxox", "xxxxxxx"}
	cn := 4
	if !quick {
		cn = 40
	}
	for i := 0; i < cn; i++ {
		var b strings.Builder
		l := r.Range(3, 12)
		for j := 0; j < l; j++ {
			if r.Chance(75) {
				b.WriteByte('x')
			} else {
				b.WriteByte('o')
			}
		}
		seqs = append(seqs, b.String())
	}
	for _, s := range seqs {
		g.add(&Case{Kind: "counter", Via: "h2mitm", Seq: s})
	}
	// J. error classes whose metric label is read back (sequential, on a proxy with a registry)
	for _, lc := range []struct{ kind, via, fault string }{
		{"dial", "plain", "refused"}, {"dial", "plain", "timeout"}, {"dial", "connect", "refused"},
		{"tls", "https", "expired"}, {"tls", "https", "plain-http"}, {"tls", "https", "alert"}, {"tls", "https", "local-alert"},
		{"tls", "https", "garbage"}, {"tls", "https", "reset"}, {"tls", "https", "closed"}, {"tls", "https", "stall"},
	} {
		g.add(&Case{Kind: "label", Via: lc.via, Fault: lc.fault, What: lc.kind})
	}
	// L. request lines that name another version than HTTP/1.0 and HTTP/1.1 (http.ReadRequest takes any
	// HTTP/<d>.<d>): the error response and the relayed CONNECT rejection are written as HTTP/1.1
	// (F36, repaired: a regression target; the model gets the request's version, proxyutil.SetProto is its respMinor)
	for _, minor := range []int{7, 2} {
		for _, via := range []string{"plain", "https", "mitm"} {
			g.add(&Case{Kind: "dial", Via: via, Fault: "refused"}).ReqMinor = minor
		}
		for _, via := range []string{"https", "mitm"} {
			g.add(&Case{Kind: "connect", Via: via, Upstream: "up", ReplyHex: core.HexS(rejections[1]), CK: -1}).ReqMinor = minor
		}
	}
	// M. the torn-reply matrix and torn client uploads under every HTTP log mode (logmode.go)
	genLogModes(g, quick)
	// N. Accept errors of the listener: the accept loop backs off and goes on, or returns (accept.go)
	genAccept(g, quick)
	// O. the dial phase as a lattice of time limits: who gives up first on an address that drops SYNs (lattice.go)
	genLattice(g, quick)
	// P. hostile names at the interception point: CONNECT authority x server name of the ClientHello, a fresh name after each (certnames.go)
	genCertNames(g, quick)
	return g.out
}
