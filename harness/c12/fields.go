package c12

import (
	"bufio"
	"bytes"
	"encoding/base64"
	"fmt"
	"net/url"
	"strings"

	"github.com/saucelabs/forwarder"
	"github.com/saucelabs/forwarder/verifharness/core"
	"github.com/saucelabs/forwarder/verifharness/rig"
)

// The HEADER-VALUE dimension of hostile client input.
//
// The mutated and structural requests of client_gen.go spread their edits over the whole request and go to
// proxies in the default configuration, where several parsers of the proxy never run. Here every header
// field the proxy itself reads — Proxy-Authorization (middleware.parseBasicAuth, with --basic-auth),
// Authorization (setBasicAuth, with --credentials), Via (loop detection), X-Forwarded-*, Connection /
// Upgrade / Proxy-Connection / Keep-Alive / TE / Trailer (hop-by-hop token lists), Content-Length /
// Transfer-Encoding (BadFramingModifier and net/http), Host, Expect, Range, X-Martian-Terminate-Tls,
// X-Request-Id (trace id), Content-Type / Content-Encoding / Accept-Encoding / User-Agent — gets hostile
// VALUES (empty, blanks only, blanks of every kind the header reader lets through, separators only, control
// bytes, very long, several field lines, field-specific degenerate forms), as GET / POST / CONNECT, on plain,
// TLS and intercepting listeners, through the TCP server and the handler variant, against proxy instances
// started with --basic-auth and --credentials (so that the parsers run) and without. Every case must end in
// well-formed responses or a close and the child must survive (judgeClient, crash detection and bisecting of
// run.go); for Proxy-Authorization the decision itself is compared with the model: a value the model's
// authenticatedGo rejects is answered 407 (or 400 / 431 when the head is refused) and never forwarded, a
// value it accepts is served.

const (
	authUser = "user"
	authPass = "pa:ss" // a colon in the password: the credentials split at the FIRST colon
	siteUser = "site"
	sitePass = "s3cret"
)

var (
	authB64  = base64.StdEncoding.EncodeToString([]byte(authUser + ":" + authPass))
	authLine = "Proxy-Authorization: Basic " + authB64 + "\r\n"
)

// authProxies are the instances started with --basic-auth (and --credentials for the probe origins).
var authProxies = map[string]bool{"auth": true, "authmitm": true, "authtls": true, "hauth": true}

func authProxyName(via string, handler bool) string {
	switch {
	case handler:
		return "hauth"
	case via == "tls":
		return "authtls"
	case via == "mitm":
		return "authmitm"
	}
	return "auth"
}

func credentialsFor(name string) []*forwarder.HostPortUser {
	if !authProxies[name] {
		return nil
	}
	return []*forwarder.HostPortUser{
		{HostPort: forwarder.HostPort{Host: "probe.test", Port: portProbe}, Userinfo: url.UserPassword(siteUser, sitePass)},
		{HostPort: forwarder.HostPort{Host: "hostile.tls.test", Port: portTLSOrigin}, Userinfo: url.UserPassword(siteUser, sitePass)},
	}
}

// blanks: what one might take for white space. SP and HTAB are trimmed by the header reader; VT, FF and the
// other C0 controls make it refuse the head; the Unicode spaces (unicode.IsSpace: U+0085, U+00A0, U+1680,
// U+2000..U+200A, U+2028, U+2029, U+202F, U+205F, U+3000) and U+FEFF / U+200B pass as they are.
var blanks = []string{" ", "\t", "   ", " \t \t ", "\x0b", "\x0c", "\x0b\x0c", "\u0085", "\u00a0", "\u00a0\u00a0\u00a0", "\u1680", "\u2000", "\u2003\u2009",
	"\u2028", "\u2029", "\u202f", "\u205f", "\u3000", "\ufeff", "\u200b", " \u00a0 ", "\u00a0 \u3000\t\u2003", "\x1c", "\x1f", "\x7f", "\xa0", "\x85", "\xc2"}

// genericValues: hostile values that make sense for any field.
func genericValues(r *core.Rand) []string {
	vs := []string{"", ",", ",,,,", " , , ", ";", "=", "\"", "\"a, b", "a\"b\"", "\\", "%", "%00", "%zz", "\x01", "\x80", "\xff\xfe", "\xc3\x28", "0", "-1",
		"18446744073709551616", "a b", "a\tb", "a,b", "a, ,b", "a;q=1", "a=b; c=\"d", "*", "/", ":", "::", "[", "]", "@", "?", "#",
		strings.Repeat("a", 4<<10), strings.Repeat("a,", 8<<10), strings.Repeat(",", 64<<10), strings.Repeat("a", 256<<10), strings.Repeat("\u00a0", 2000), strings.Repeat(" ", 3000) + "x"}
	vs = append(vs, blanks...)
	vs = append(vs, string(r.Bytes(r.Range(1, 40)))) // (CR / LF / NUL inside: the head is torn or refused there)
	return vs
}

type fieldValues struct {
	name   string
	values []string
	// lines: whole groups of field lines (several lines of the field, or the field with a companion)
	lines []string
	// methods the field matters for
	methods []string
}

func b64(s string) string { return base64.StdEncoding.EncodeToString([]byte(s)) }

// proxyAuthValues: values of Proxy-Authorization around every step of parseBasicAuth (scheme test, base64,
// first colon, comparison). core = the degenerate ones that every listener and server variant gets each run.
func proxyAuthValues(r *core.Rand) (core_, rest []string) {
	ok := authB64
	core_ = []string{"", "Basic", "basic", "BASIC", "Basic ", "Basic   ", "Basic\t", "Basic \t ", "Basi", "B", "Basic\u00a0", "Basic\x0b", "Basic,", "Basic=",
		" ", "\t", "   \t ", "\u00a0", "\u00a0\u00a0", "\u0085", "\u2003", "\u3000", "\u2028", "\x0b", "\x0c", "\xa0", "\xc2",
		"Basic " + ok, "bAsIc " + ok, "Basic  " + ok, "Basic\t" + ok, "Basic\u00a0" + ok, "Basic " + ok + " ", "Basic " + ok + " x", " Basic " + ok, "\u00a0Basic " + ok}
	shapes := []string{ok + "=", ok + "==", ok + "===", strings.TrimRight(ok, "="), strings.TrimRight(ok, "=") + "=", ok[:len(ok)-3], ok[:len(ok)-2] + "=", ok[:5], ok[:6] + "==", ok[:7] + "=",
		"=", "==", "===", "====", "A", "AA", "AAA", "AAAA", "A===", "AA==", "AAA=", "A=A=", "=AAA", "AA=A", "dXNlcjpwYTpzcw", "dXNl cjpwYTpzcw==", "dXNl\tcjpwYTpzcw==",
		strings.NewReplacer("+", "-", "/", "_").Replace(b64("us>r:pa?s~")), b64("us>r:pa?s~"), "dXNlcjpwYTpzcw==dXNlcjpwYTpzcw==", ok + ok, "*" + ok, ok + "\x00", ok + "\u00a0", ok + "\r"}
	for _, s := range shapes {
		rest = append(rest, "Basic "+s)
	}
	for _, cred := range []string{"", ":", "::", authUser, authUser + authPass, authUser + ":", ":" + authPass, authUser + ":" + authPass + ":x", authUser + ":wrong", "User:" + authPass,
		authUser + ":pa", authUser + " :" + authPass, authUser + ":" + authPass + " ", authUser + ":" + authPass + "\n", "\x00:\x00", authUser + "\x00:" + authPass, "\u00fcser:" + authPass,
		strings.Repeat("u", 3000) + ":" + strings.Repeat("p", 3000), strings.Repeat(":", 500), authUser + ":" + authPass[:2], authPass + ":" + authUser} {
		rest = append(rest, "Basic "+b64(cred))
	}
	rest = append(rest, "Bearer "+ok, "Digest username=\"user\", realm=\"", "Negotiate YIIabc==", "Basic"+ok, "Basic: "+ok, "Basic, Basic "+ok, "Basic "+ok+", Basic "+ok,
		"Basic "+strings.Repeat("A", 64<<10), "Basic "+strings.Repeat("QUFB", 100000), strings.Repeat("Basic ", 5000), "Basic "+strings.Repeat(" ", 5000)+ok, strings.Repeat("\u00a0", 20000),
		"Ba\u017fic "+ok, "Ba\u017fic", "\u212aasic", "Basic\u2003"+ok, "Basic\u3000", "Basic \u00a0", "Basic "+ok+"\u00a0")
	for _, b := range blanks {
		rest = append(rest, b, "Basic"+b, "Basic"+b+ok, b+"Basic "+ok, "Basic "+b, "Basic "+ok+b)
	}
	// near misses of the valid value
	for i := 0; i < 12; i++ {
		v := []byte("Basic " + ok)
		pos := r.Intn(len(v))
		switch r.Intn(4) {
		case 0:
			v[pos] ^= byte(1 << r.Intn(7))
		case 1:
			v = append(v[:pos], v[pos+1:]...)
		case 2:
			v = append(v[:pos], append([]byte(core.Pick(r, []string{" ", "=", "\u00a0", ":", "A"})), v[pos:]...)...)
		case 3:
			v = v[:pos]
		}
		if !bytes.ContainsAny(v, "\r\n") {
			rest = append(rest, string(v))
		}
	}
	return core_, rest
}

func fieldTable(r *core.Rand) []fieldValues {
	many := func(name, v string, n int) string { return strings.Repeat(name+": "+v+"\r\n", n) }
	all := []string{"GET", "POST", "CONNECT"}
	return []fieldValues{
		{name: "Authorization", methods: all,
			values: []string{"Basic", "Basic ", "basic", "Basic \u00a0", "Basic " + b64("a:b"), "Basic " + b64("nocolon"), "Basic ====", "Bearer", "Bearer x", "Negotiate", "Digest "},
			lines:  []string{"Authorization:\r\nAuthorization: Basic " + b64("a:b") + "\r\n", many("Authorization", "Basic", 300)}},
		{name: "Via", methods: all,
			values: []string{"1.1", "1.1 ", "1.1 x", "1.1 fwdverif", "1.1 fwdverif-", "fwdverif", "HTTP/1.1 x (c(o)m\\)ment", "1.1 x,", ",1.1 x", strings.Repeat("1.1 h, ", 9000) + "1.1 z", "2.0 \u00a0"},
			lines:  []string{many("Via", "1.1 a", 2000), "Via:\r\nVia: \r\nVia: ,\r\n"}},
		{name: "X-Forwarded-For", methods: all, values: []string{"unknown", "1.2.3.4", "1.2.3.4, ", "[::1", "999.999.999.999", "_hidden", "1.2.3.4:99999"},
			lines: []string{many("X-Forwarded-For", "1.1.1.1", 3000), "X-Forwarded-For:\r\nX-Forwarded-For: \u00a0\r\n"}},
		{name: "X-Forwarded-Proto", methods: all, values: []string{"http", "https", "HTTPS", "h2", "javascript", "http, https", "ws"}},
		{name: "X-Forwarded-Host", methods: all, values: []string{"a:b:c", "[::1", "x:99999", "\u00e9.test", "a b"}},
		{name: "X-Forwarded-Url", methods: all, values: []string{"http://", "http://[::1", "://", "http://a b/", "%zz"}},
		{name: "Forwarded", methods: []string{"GET"}, values: []string{"for=", "for=\"[::1", "for=_x;proto=;by", ";;;"}},
		{name: "Connection", methods: all,
			values: []string{"close,", ",close", "close, close", "keep-alive, close", "Close", "upgrade", "Upgrade", "upgrade, , keep-alive", "Connection", "Host", "Content-Length", "Transfer-Encoding",
				"Proxy-Authorization", "Case-Id", "Via", "close;q=1", "\"close\"", "keep-alive\u00a0", strings.Repeat("x-h, ", 10000) + "close", "X-Martian-Terminate-Tls"},
			lines: []string{"Connection: Upgrade\r\n", "Connection: Upgrade\r\nUpgrade:\r\n", "Connection: Upgrade\r\nUpgrade: ,\r\n", "Connection: upgrade\r\nUpgrade: \u00a0\r\n", "Connection: Upgrade\r\nUpgrade: websocket,\r\n",
				"Connection: Upgrade\r\nUpgrade: websocket\r\nUpgrade: h2c\r\n", "Connection: Upgrade\r\nUpgrade: " + strings.Repeat("p/1, ", 5000) + "x\r\n", "Connection: ,\r\nConnection: , Upgrade ,\r\nUpgrade: websocket\r\n",
				"Connection: Content-Length\r\nContent-Length: 5\r\n\r\nhello", "Connection: Transfer-Encoding\r\nTransfer-Encoding: chunked\r\n\r\n5\r\nhello\r\n0\r\n\r\n", "Connection: Host, Host\r\n",
				many("Connection", "x-a", 3000), "Connection: keep-alive\r\nConnection: close\r\n", "Connection: Proxy-Authorization, Authorization\r\n"}},
		{name: "Upgrade", methods: all, values: []string{"websocket", "websocket,", "h2c", "HTTP/2.0", "TLS/1.0, HTTP/1.1", "/", "a/", "/1"}},
		{name: "Proxy-Connection", methods: all, values: []string{"close", "keep-alive", "Keep-Alive, close", "close,"}},
		{name: "Keep-Alive", methods: []string{"GET", "POST"}, values: []string{"timeout=", "timeout=-1", "timeout=99999999999999999999", "max", "timeout=5, max=", ";"}},
		{name: "Te", methods: []string{"GET", "POST"}, values: []string{"trailers", "trailers,", "gzip;q=", "chunked", ";q=0"}},
		{name: "Trailer", methods: []string{"GET", "POST"}, values: []string{"Content-Length", "Transfer-Encoding", "Host", "X", ",X"}},
		{name: "Content-Length", methods: []string{"POST", "GET", "CONNECT"},
			values: []string{"+5", "-0", "-5", "0x5", "05", "5 ", "5\t", "\uff15", "5.0", "1e1", "5, 5", "5,5,5", "5, 6", "5,", ",5", "5;q", "9223372036854775807", "9223372036854775808", "\u0665", "5\u00a0", "\u00a05", "5 5", "0", "00000000000000000000005"},
			lines: []string{"Content-Length: 5\r\nContent-Length: 5\r\n\r\nhello", "Content-Length: 5\r\nContent-Length: 6\r\n\r\nhello", "Content-Length: 5\r\nContent-Length:\r\n\r\nhello", "Content-Length:\r\nContent-Length: 5\r\n\r\nhello",
				"Content-Length: 5, 5\r\nContent-Length: 5\r\n\r\nhello", "Content-Length: 5\r\nTransfer-Encoding:\r\n\r\nhello", "Content-Length: 5\r\nTransfer-Encoding: ,\r\n\r\nhello", many("Content-Length", "5", 2000) + "\r\nhello",
				"Content-Length: ,\r\n\r\n", "Content-Length: ,,5\r\n\r\nhello"}},
		{name: "Transfer-Encoding", methods: []string{"POST", "GET", "CONNECT"},
			values: []string{"chunked", "chunked,", ",chunked", "Chunked", "CHUNKED", "chunked, chunked", "identity", "gzip", "gzip, chunked", "chunked, identity", "x-chunked", " chunked ", "chunked;ext", "\"chunked\"", "chunked\u00a0", "\u00a0chunked", "chunked,,", ", ,chunked", "chunke", "chunkedd"},
			lines: []string{"Transfer-Encoding: chunked\r\nTransfer-Encoding: chunked\r\n\r\n5\r\nhello\r\n0\r\n\r\n", "Transfer-Encoding: gzip\r\nTransfer-Encoding: chunked\r\n\r\n0\r\n\r\n", "Transfer-Encoding: chunked\r\nTransfer-Encoding:\r\n\r\n0\r\n\r\n",
				"Transfer-Encoding:\r\nTransfer-Encoding: chunked\r\n\r\n0\r\n\r\n", many("Transfer-Encoding", "chunked", 1500) + "\r\n0\r\n\r\n", "Transfer-Encoding: chunked\r\nContent-Length: \u00a0\r\n\r\n0\r\n\r\n"}},
		{name: "Host", methods: all,
			values: []string{"a b", "a,b", probeHost + ", x", probeHost + " ", ":80", "[::1", "[::1]:", "a:b:c", "a:99999", "a:-1", "a:", "user@" + probeHost, "user:pw@" + probeHost, "http://x/", "//x", probeHost + "/p", probeHost + "?q", probeHost + "#f", "\u00a0" + probeHost, probeHost + "\u00a0", "."},
			lines:  []string{"Host: " + probeHost + "\r\nHost: " + probeHost + "\r\n", "Host:\r\nHost: " + probeHost + "\r\n", many("Host", "x", 500)}},
		{name: "Expect", methods: []string{"POST", "GET", "CONNECT"},
			values: []string{"100-continue", "100-Continue", "100-continue, 100-continue", "100-continue,", "200-ok", "100-continue;x", "100", "continue", "100-continue\u00a0"},
			lines:  []string{"Expect: 100-continue\r\nContent-Length: 5\r\n\r\nhello", "Expect: 100-continue\r\nExpect: 100-continue\r\nContent-Length: 5\r\n\r\nhello", "Expect: 100-continue\r\nTransfer-Encoding: chunked\r\n\r\n5\r\nhello\r\n0\r\n\r\n", "Expect: 100-continue\r\nContent-Length: 5\r\n\r\n", "Expect:\r\nContent-Length: 5\r\n\r\nhello"}},
		{name: "Range", methods: []string{"GET"}, values: []string{"bytes=0-", "bytes=-", "bytes=", "bytes", "bytes=5-1", "bytes=0-0,-1", "bytes=" + strings.Repeat("0-0,", 20000) + "1-1", "bytes=9223372036854775808-", "bytes=-9223372036854775809", "items=1-2", "bytes = 0 - 1", "bytes=0-0;"},
			lines: []string{"Range: bytes=0-1\r\nRange: bytes=2-3\r\n", "Range: bytes=0-1\r\nIf-Range:\r\n", "Range: bytes=0-1\r\nIf-Range: \"\r\n"}},
		{name: "X-Martian-Terminate-Tls", methods: []string{"CONNECT", "GET"}, values: []string{"true", "false", "1", "t", "TRUE", "True", "yes", "maybe", " true", "true,", "true, false", "tRuE", "2"}},
		{name: "X-Request-Id", methods: all, values: []string{"id with blanks", "%s%d%v", "{\"a\":1}", "\x1b[31m"}},
		{name: "Content-Type", methods: []string{"POST"}, values: []string{"text/plain;", "text/plain; charset", "text/plain; charset=\"", "/", "a/", "text/event-stream", "multipart/form-data; boundary=", "application/json; ;;"}},
		{name: "Content-Encoding", methods: []string{"POST"}, values: []string{"gzip", "gzip, gzip", "deflate", "br", "identity", "gzip,"}},
		{name: "Accept-Encoding", methods: []string{"GET"}, values: []string{"gzip", "gzip;q=0", "identity;q=0", "*;q=0", "gzip;q=", "gzip, "}},
		{name: "User-Agent", methods: []string{"GET", "CONNECT"}, values: []string{"a/1 (", "("}, lines: []string{"User-Agent:\r\nUser-Agent: x\r\n"}},
		{name: "Max-Forwards", methods: []string{"GET"}, values: []string{"0", "-1", "1", "x"}},
		{name: "Proxy-Authenticate", methods: []string{"GET"}, values: []string{"Basic", "Basic realm=\""}},
		{name: "Cookie", methods: []string{"GET"}, values: []string{"=", ";", "a=\"", "a=b; ; c"}},
		{name: "If-Modified-Since", methods: []string{"GET"}, values: []string{"yesterday", "Thu, 01 Jan 1970 00:00:00 GMT", "0"}},
	}
}

// renderFieldReq renders one request that carries the given field lines. tail = what follows the blank line
// when the lines do not bring a body of their own.
func renderFieldReq(method, via, lines string, auth bool) string {
	var sb strings.Builder
	switch {
	case method == "CONNECT":
		sb.WriteString("CONNECT " + probeHost + " HTTP/1.1\r\nHost: " + probeHost + "\r\n")
	case via == "mitm":
		sb.WriteString(method + " /f HTTP/1.1\r\nHost: hostile.tls.test:" + portTLSOrigin + "\r\n")
	default:
		sb.WriteString(method + " http://" + probeHost + "/f HTTP/1.1\r\nHost: " + probeHost + "\r\n")
	}
	if auth {
		sb.WriteString(authLine)
	}
	if i := strings.Index(lines, "\r\n\r\n"); i >= 0 {
		// the lines bring the end of the head and a body of their own
		sb.WriteString(lines)
		return sb.String()
	}
	sb.WriteString(lines)
	low := strings.ToLower(lines)
	if method == "POST" && !strings.Contains(low, "content-length:") && !strings.Contains(low, "transfer-encoding:") {
		sb.WriteString("Content-Length: 5\r\n\r\nhello")
		return sb.String()
	}
	sb.WriteString("\r\n")
	if method == "POST" {
		if strings.Contains(low, "transfer-encoding:") {
			sb.WriteString("5\r\nhello\r\n0\r\n\r\n")
		} else {
			sb.WriteString("hello")
		}
	}
	return sb.String()
}

// effectivePA is the value Header.Get("Proxy-Authorization") returns for a head that has the given field
// values, one per line, in order: the first line's value without the SP / HTAB around it. ok = false: the value
// cannot be said from the input alone (CR / LF / NUL inside).
func effectivePA(first string) (string, bool) {
	if strings.ContainsAny(first, "\r\n\x00") {
		return "", false
	}
	return strings.Trim(first, " \t"), true
}

// ownParsers: the fields that code of the proxy itself (not net/http's request reader) takes apart.
var ownParsers = map[string]bool{"Authorization": true, "Via": true, "X-Forwarded-For": true, "X-Forwarded-Proto": true, "X-Forwarded-Host": true, "X-Forwarded-Url": true,
	"Connection": true, "Upgrade": true, "Content-Length": true, "Transfer-Encoding": true, "X-Martian-Terminate-Tls": true, "Host": true, "Expect": true}

type placement struct {
	via, server, upstream string
	auth                  bool
}

func genFields(g *gen, quick bool) {
	r := g.r
	add := func(what, method string, pl placement, lines string, paFirst *string) {
		// Host is already there: a case about Host replaces it
		req := renderFieldReq(method, pl.via, lines, pl.auth && paFirst == nil)
		if strings.HasPrefix(what, "field/host/") {
			req = strings.Replace(req, "Host: "+probeHost+"\r\n", "", 1)
			req = strings.Replace(req, "Host: hostile.tls.test:"+portTLSOrigin+"\r\n", "", 1)
		}
		c := &Case{Kind: "client", Via: pl.via, Server: pl.server, Upstream: pl.upstream, What: what, Method: method, InputHex: hexes(req), Sentinel: r.Chance(88)}
		if pl.auth {
			c.Auth = "basic"
		}
		if paFirst != nil {
			if v, ok := effectivePA(*paFirst); ok {
				c.PAHex = orEmpty(core.HexS(v))
			}
		}
		g.add(c)
	}
	authPlaces := []placement{{via: "plain", auth: true}, {via: "tls", auth: true}, {via: "mitm", auth: true}, {via: "plain", server: "handler", auth: true}}
	methodsFor := func(pl placement, ms []string) []string {
		var out []string
		for _, m := range ms {
			if m == "CONNECT" && (pl.via == "mitm" || pl.server == "handler" && pl.upstream != "") {
				continue // inside an intercepted tunnel the request is a plain one
			}
			out = append(out, m)
		}
		if len(out) == 0 {
			out = []string{"GET"}
		}
		return out
	}
	// 1. Proxy-Authorization against proxies started with --basic-auth
	coreVals, rest := proxyAuthValues(r)
	paLine := func(v string) string { return "Proxy-Authorization: " + v + "\r\n" }
	for _, v := range coreVals {
		v := v
		for _, pl := range authPlaces {
			ms := methodsFor(pl, []string{"GET", "CONNECT"})
			if quick && !(pl.via == "plain" && pl.server == "") {
				// quick tier: the TCP server's plain listener gets every value with both methods, the other three one draw each
				if !r.Chance(50) {
					continue
				}
				ms = []string{core.Pick(r, ms)}
			}
			for _, m := range ms {
				add("field/proxy-authorization/core", m, pl, paLine(v), &v)
			}
		}
	}
	for _, v := range rest {
		v := v
		for _, pl := range authPlaces {
			if quick && !r.Chance(9) {
				continue
			}
			add("field/proxy-authorization/value", core.Pick(r, methodsFor(pl, []string{"GET", "POST", "CONNECT"})), pl, paLine(v), &v)
		}
	}
	// no field at all, and several field lines: Header.Get returns the first
	good, bad := "Basic "+authB64, []string{"", "Basic", "\u00a0", "Basic " + b64(authUser+":x"), "Bearer x"}
	none := ""
	for _, pl := range authPlaces {
		add("field/proxy-authorization/absent", core.Pick(r, methodsFor(pl, []string{"GET", "CONNECT"})), pl, "", &none)
		for _, b := range bad {
			b := b
			if quick && !r.Chance(50) {
				continue
			}
			m := core.Pick(r, methodsFor(pl, []string{"GET", "CONNECT"}))
			add("field/proxy-authorization/lines", m, pl, paLine(b)+paLine(good), &b)
			add("field/proxy-authorization/lines", m, pl, paLine(good)+paLine(b), &good)
			add("field/proxy-authorization/lines", m, pl, paLine(b)+paLine(b)+paLine(good)+strings.Repeat(paLine(b), r.Range(1, 400)), &b)
		}
		// obs-fold: the continuation is joined to the value
		add("field/proxy-authorization/folded", "GET", pl, "Proxy-Authorization: Basic\r\n "+authB64+"\r\n", nil)
		add("field/proxy-authorization/folded", "GET", pl, "Proxy-Authorization:\r\n \r\n\t\r\n", nil)
	}
	// the same values where no basic auth is configured (the field is a hop-by-hop one there), and towards an upstream proxy
	for _, v := range append(append([]string{}, coreVals...), rest...) {
		if quick && !r.Chance(8) {
			continue
		}
		pl := core.Pick(r, []placement{{via: "plain"}, {via: "tls"}, {via: "mitm"}, {via: "plain", server: "handler"}, {via: "plain", upstream: "up"}, {via: "mitm", upstream: "up"}, {via: "plain", server: "handler", upstream: "up"}})
		add("field/proxy-authorization/no-auth-configured", core.Pick(r, methodsFor(pl, []string{"GET", "CONNECT"})), pl, paLine(v), nil)
	}
	// 2. every other field the proxy reads: its own degenerate forms and the generic hostile values, on every kind of instance
	places := []placement{{via: "plain"}, {via: "tls"}, {via: "mitm"}, {via: "plain", server: "handler"}, {via: "tls", server: "handler"},
		{via: "plain", upstream: "up"}, {via: "mitm", upstream: "up"}, {via: "plain", server: "handler", upstream: "up"},
		{via: "plain", auth: true}, {via: "tls", auth: true}, {via: "mitm", auth: true}, {via: "plain", server: "handler", auth: true}}
	generic := genericValues(r)
	for _, f := range fieldTable(r) {
		what := "field/" + strings.ToLower(f.name)
		emit := func(kind, lines string, always bool) {
			if quick {
				// quick tier: one placement for a share of the values (the fields the proxy's own code parses more often)
				share := 25
				if ownParsers[f.name] {
					share = 55
				}
				if !always {
					share = 5
				}
				if !r.Chance(share) {
					return
				}
				pl := core.Pick(r, places)
				if f.name == "Authorization" {
					pl = core.Pick(r, authPlaces)
				}
				add(what+"/"+kind, core.Pick(r, methodsFor(pl, f.methods)), pl, lines, nil)
				return
			}
			for _, pl := range places {
				if f.name == "Authorization" && !pl.auth && r.Chance(60) {
					continue // the field is looked at where --credentials has an entry for the host
				}
				if !always && !r.Chance(35) {
					continue
				}
				add(what+"/"+kind, core.Pick(r, methodsFor(pl, f.methods)), pl, lines, nil)
			}
		}
		for _, v := range f.values {
			emit("own", f.name+": "+v+"\r\n", true)
		}
		for _, l := range f.lines {
			emit("lines", l, true)
		}
		for _, v := range generic {
			if strings.ContainsAny(v, "\r\n") {
				v = strings.NewReplacer("\r", "", "\n", "").Replace(v)
			}
			emit("generic", f.name+": "+v+"\r\n", false)
		}
	}
}

// ---- judging ----

const (
	clauseAuthReject = "a request whose Proxy-Authorization the basic-auth control rejects (Model.C12.authenticatedGo) is answered 407 (400 / 431 when the head is refused) or closed, never forwarded"
	clauseAuthAccept = "a request that carries the configured credentials (Model.C12.authenticatedGo) is served"
	clauseAuthTotal  = "Model.C12.authenticatedGo decides every field value (no panic outcome)"
)

// judgeField: what is specific to a header-field case (the stream itself is judged by judgeClient): the
// basic-auth decision on the first request of the input.
func judgeField(ctx *core.Ctx, c *Case, o *Obs) {
	parts := strings.SplitN(strings.TrimPrefix(c.What, "field/"), "/", 2)
	place := c.Via + map[string]string{"": "", "handler": "+handler"}[c.Server] + map[string]string{"": "", "up": "+up"}[c.Upstream] + map[string]string{"": "", "basic": "+auth"}[c.Auth]
	ctx.Count("field/" + parts[0] + "/" + place)
	ctx.Count("field-method/" + c.Method)
	if c.PAHex == "" || c.Auth == "" || o.Setup != "" {
		return
	}
	ans := ctx.Model.MustAsk("C12", "basicauth", c.PAHex, core.HexS(authUser), core.HexS(authPass))
	if ans != "0" && ans != "1" {
		ctx.Disagree(clauseAuthTotal, c, "", ans)
		return
	}
	impl := describeObs(o)
	raw := core.MustUnHex(orEmpty(o.RawHex))
	status := 0 // 0 = no response at all
	var first *rig.Msg
	if len(raw) > 0 {
		m := "GET"
		if c.Method == "CONNECT" {
			m = "CONNECT"
		}
		res, err := readResp(bufio.NewReader(bytes.NewReader(raw)), m)
		if res == nil || (err != nil && !bytes.HasPrefix(res.HeadBytes, []byte("HTTP/1."))) {
			return // not an HTTP response: judgeClient reports it
		}
		first, status = res, res.Status
	}
	ctx.Count(fmt.Sprintf("auth/model-%s/status-%d", ans, status))
	if ans == "0" {
		switch status {
		case 407:
			if first.Get("Proxy-Authenticate") == "" {
				ctx.SpecFail(clauseAuthReject, "", c, impl, "407 without Proxy-Authenticate")
			}
		case 0, 400, 431:
		default:
			ctx.SpecFail(clauseAuthReject, "", c, impl, fmt.Sprintf("the model rejects the value, the proxy answered %d", status))
		}
		ctx.TraceValidated()
		return
	}
	// accepted: the canonical request is served by the probe origin (CONNECT: the tunnel stands)
	if status != 200 {
		ctx.SpecFail(clauseAuthAccept, "", c, impl, fmt.Sprintf("the model accepts the value, the proxy answered %d", status))
		return
	}
	ctx.TraceValidated()
}
