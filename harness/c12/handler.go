package c12

import (
	"bytes"
	"compress/gzip"

	"github.com/saucelabs/forwarder/verifharness/core"
)

// The upstream fault matrix against the HANDLER variant of the proxy: martian's http.Handler
// (proxy_handler.go) under net/http's server, HTTPProxyConfig.TestingHTTPHandler. The reply is cut at
// byte offsets of head and body under each framing, by FIN and by RST, asked for plainly, as GET https://
// and through the scripted upstream proxy (there is no interception in this variant). What differs from
// the TCP server is who frames the response: net/http's server — Content-Length when the upstream
// declared one, chunked otherwise, close-delimited for an HTTP/1.0 client — and that the only way for the
// handler to say "this body is torn" is to abort (panic(http.ErrAbortHandler)): a handler that returns
// has the server finish the message, terminating chunk included, on a connection that stays in service.
// Clauses: a body cut short upstream is never delivered as a complete message, and the connection is not
// reusable afterwards; faults before the head yield the same error responses as on the TCP server.

func genHandler(g *gen, quick bool) {
	r := g.r
	both := []bool{false, true}
	from := len(g.out)
	// every byte offset of a small chunked reply (the framing under which a returning handler goes unnoticed
	// by Content-Length accounting), and of a close-delimited one (re-framed as chunked by the server)
	g.cutFamily("plain", "", "chunked", 12, true, 0, both)
	if !quick {
		g.cutFamily("plain", "", "eof", 12, true, 0, both)
		g.cutFamily("plain", "", "cl", 12, true, 0, both)
		g.cutFamily("https", "", "chunked", 9, true, 0, both)
		g.cutFamily("plain", "up", "chunked", 9, true, 0, both)
	}
	n := 8
	if !quick {
		n = 60
	}
	for _, fr := range []string{"cl", "chunked", "eof"} {
		if fr != "chunked" || !quick {
			g.cutFamily("plain", "", fr, 10, false, n, both)
		}
		g.cutFamily("https", "", fr, 10, false, n/2+2, both)
		g.cutFamily("plain", "up", fr, 10, false, n/2+2, both)
		g.cutFamily("https", "up", fr, 10, false, n/2+2, both)
	}
	// large replies: several chunks and several writes of the copy loop have gone out before the fault
	sizes := []int{5000, 70000}
	reps := 1
	if !quick {
		sizes, reps = []int{5000, 33000, 70000, 300000}, 8
	}
	for i := 0; i < reps; i++ {
		for _, fr := range []string{"cl", "chunked", "eof"} {
			for _, sz := range sizes {
				g.cutFamily(core.Pick(r, []string{"plain", "plain", "https"}), core.Pick(r, []string{"", "", "up"}), fr, sz, false, 6, both)
			}
		}
	}
	// a compressed body (the proxy relays the coding as it is: a torn gzip stream under torn framing)
	for _, fr := range []string{"chunked", "cl", "eof"} {
		var zb bytes.Buffer
		zw := gzip.NewWriter(&zb)
		zw.Write(textBody(r, r.Range(200, 4000)))
		zw.Close()
		body := zb.Bytes()
		var csz []int
		if fr == "chunked" {
			csz = []int{r.Range(1, 40), r.Range(1, len(body)/2)}
		}
		g.cutTemplate(Case{Kind: "cut", Via: core.Pick(r, []string{"plain", "https"}), Framing: fr,
			HeadHex: core.HexS(smallHead(fr, len(body), "Content-Encoding: gzip\r\nContent-Type: text/plain\r\n")), BodyHex: core.Hex(body), ChunkSizes: csz},
			false, n, both)
	}
	for _, c := range g.out[from:] {
		c.Server = "handler"
	}
	// before the head: the same error responses (dial, TLS, malformed head), through net/http's server
	for _, f := range []string{"refused", "timeout", "reset"} {
		for _, via := range []string{"plain", "https"} {
			g.add(&Case{Kind: "dial", Via: via, Fault: f, Server: "handler", ReqClose: r.Chance(20)})
		}
	}
	for _, f := range []string{"expired", "plain-http", "closed", "reset", "alert"} {
		g.add(&Case{Kind: "tls", Via: "https", Fault: f, Server: "handler", ReqClose: r.Chance(20)})
	}
	// a client CONNECT through the upstream proxy: its rejection is written by the same writeResponse (complete,
	// and torn inside head and body)
	for _, rej := range []string{rejections[0], rejections[1], rejections[4], rejections[5], rejections[7]} {
		for _, rc := range both {
			g.add(&Case{Kind: "connect", Via: "connect", Upstream: "up", Server: "handler", ReplyHex: core.HexS(rej), CK: -1, ReqClose: rc})
		}
	}
	for k := 0; k < len(rejections[1]); k += 3 {
		g.add(&Case{Kind: "connect", Via: "connect", Upstream: "up", Server: "handler", ReplyHex: core.HexS(rejections[1]), CK: k, CReset: r.Bool()})
	}
	for _, mh := range malformedHeads[:6] {
		g.add(&Case{Kind: "malformed", Via: core.Pick(r, []string{"plain", "https"}), HeadHex: core.HexS(mh), K: -1, Server: "handler"})
	}
}

// streamVerb is the model function a fault case is compared with.
func (c *Case) streamVerb() string {
	if c.Server == "handler" {
		return "hstream"
	}
	return "stream"
}
