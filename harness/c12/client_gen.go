package c12

import (
	"crypto/tls"
	"fmt"
	"net"
	"strings"
	"time"

	"github.com/saucelabs/forwarder/verifharness/core"
)

const probeHost = "probe.test:" + portProbe

func validRequests() []string {
	return []string{
		"GET http://" + probeHost + "/a HTTP/1.1\r\nHost: " + probeHost + "\r\nAccept: */*\r\n\r\n",
		"POST http://" + probeHost + "/p HTTP/1.1\r\nHost: " + probeHost + "\r\nContent-Length: 5\r\nContent-Type: text/plain\r\n\r\nhello",
		"POST http://" + probeHost + "/c HTTP/1.1\r\nHost: " + probeHost + "\r\nTransfer-Encoding: chunked\r\n\r\n5\r\nhello\r\n3\r\nabc\r\n0\r\n\r\n",
		"GET http://" + probeHost + "/h HTTP/1.0\r\nHost: " + probeHost + "\r\nConnection: keep-alive\r\n\r\n",
		"GET /origin-form HTTP/1.1\r\nHost: " + probeHost + "\r\n\r\n",
		"OPTIONS * HTTP/1.1\r\nHost: " + probeHost + "\r\n\r\n",
	}
}

// mutate applies one to three byte-level edits.
func mutate(r *core.Rand, s string) string {
	b := []byte(s)
	n := r.Range(1, 3)
	nasty := []string{"\r", "\n", "\r\n", "\x00", "\xff", "\x80", " ", "\t", ":", "\r\n\r\n", "\x16\x03\x01", "%", "\\", "\x7f", "\x0b"}
	for i := 0; i < n && len(b) > 0; i++ {
		pos := r.Intn(len(b))
		switch r.Intn(7) {
		case 0: // flip
			b[pos] ^= byte(1 << r.Intn(8))
		case 1: // delete a run
			end := pos + r.Range(1, 6)
			if end > len(b) {
				end = len(b)
			}
			b = append(b[:pos], b[end:]...)
		case 2: // insert something nasty
			ins := core.Pick(r, nasty)
			b = append(b[:pos], append([]byte(ins), b[pos:]...)...)
		case 3: // duplicate a run
			end := pos + r.Range(1, 20)
			if end > len(b) {
				end = len(b)
			}
			b = append(b[:end], append(append([]byte{}, b[pos:end]...), b[end:]...)...)
		case 4: // truncate
			b = b[:pos]
		case 5: // random byte
			b[pos] = byte(r.U64())
		case 6: // swap CRLF for LF
			b = []byte(strings.Replace(string(b), "\r\n", "\n", 1))
		}
	}
	return string(b)
}

var structural = []string{
	"GET http://" + probeHost + "/ HTTP/1.1\r\nHost: " + probeHost + "\r\nContent-Length: 3\r\nContent-Length: 4\r\n\r\nabcd",
	"POST http://" + probeHost + "/ HTTP/1.1\r\nHost: " + probeHost + "\r\nContent-Length: 5\r\nTransfer-Encoding: chunked\r\n\r\n5\r\nhello\r\n0\r\n\r\n",
	"POST http://" + probeHost + "/ HTTP/1.1\r\nHost: " + probeHost + "\r\nContent-Length: -5\r\n\r\nhello",
	"POST http://" + probeHost + "/ HTTP/1.1\r\nHost: " + probeHost + "\r\nContent-Length: 99999999999999999999999\r\n\r\nhello",
	"POST http://" + probeHost + "/ HTTP/1.1\r\nHost: " + probeHost + "\r\nTransfer-Encoding: gzip, chunked\r\n\r\n0\r\n\r\n",
	"GET http://" + probeHost + "/ HTTP/2.0\r\nHost: " + probeHost + "\r\n\r\n",
	"GET http://" + probeHost + "/ HTTP/1.1\r\n\r\n",
	"GET http://" + probeHost + "/ HTTP/1.1\r\nHost: a\r\nHost: b\r\n\r\n",
	"GET http://[::1/ HTTP/1.1\r\nHost: x\r\n\r\n",
	"GET http://" + probeHost + "/%zz HTTP/1.1\r\nHost: " + probeHost + "\r\n\r\n",
	"GET  http://" + probeHost + "/  HTTP/1.1\r\nHost: " + probeHost + "\r\n\r\n",
	"G\x00T http://" + probeHost + "/ HTTP/1.1\r\nHost: " + probeHost + "\r\n\r\n",
	"GET http://" + probeHost + "/ HTTP/1.1\r\nHost: " + probeHost + "\r\n folded: line\r\n\r\n",
	"GET http://" + probeHost + "/ HTTP/1.1\r\nHost: " + probeHost + "\r\nBad Name: x\r\n\r\n",
	"GET http://" + probeHost + "/ HTTP/1.1\r\nHost: " + probeHost + "\r\nConnection: close, close, keep-alive, X\r\nX: 1\r\n\r\n",
	"GET http://" + probeHost + "/ HTTP/1.1\r\nHost: " + probeHost + "\r\nExpect: 100-continue\r\nContent-Length: 3\r\n\r\nabc",
	"GET http://" + probeHost + "/ HTTP/1.1\r\nHost: " + probeHost + "\r\nUpgrade: websocket\r\nConnection: Upgrade\r\n\r\n",
	"CONNECT " + probeHost + " HTTP/1.1\r\nHost: " + probeHost + "\r\nContent-Length: 10\r\n\r\n",
	"CONNECT HTTP/1.1\r\n\r\n",
	"CONNECT http://" + probeHost + "/ HTTP/1.1\r\nHost: x\r\n\r\n",
	"CONNECT :0 HTTP/1.1\r\nHost: :0\r\n\r\n",
	"CONNECT " + probeHost + " HTTP/1.1\r\nHost: " + probeHost + "\r\nX-Martian-Terminate-Tls: maybe\r\n\r\n",
	"PRI * HTTP/2.0\r\n\r\nSM\r\n\r\n",
	"\r\n\r\n\r\nGET http://" + probeHost + "/ HTTP/1.1\r\nHost: " + probeHost + "\r\n\r\n",
	"GET http://" + probeHost + "/ HTTP/1.1\r\nHost: " + probeHost + "\r\nVia: 1.1 x, 1.1 y\r\nX-Forwarded-For: \x01\r\n\r\n",
	"GET /x HTTP/1.1\r\nHost: bad.invalid:8\xf01\r\n\r\n",
	"CONNECT bad.invalid:8\xf01 HTTP/1.1\r\nHost: bad.invalid:8\xf01\r\n\r\n",
	"GET http://bad\xffhost.invalid:81/ HTTP/1.1\r\nHost: x\r\n\r\n",
	"GET /x HTTP/1.7\r\nHost: " + probeHost + "\r\n\r\n",
}

// nonUTF8Hosts: requests whose host — absolute-form authority, CONNECT target or Host field — is not
// valid UTF-8 and cannot be dialled: the dialer labels dialer_errors_total with it (F35, repaired: the
// label used to make prometheus panic and the process die). A regression target generated every run,
// on every listener.
func nonUTF8Hosts(r *core.Rand) []string {
	bad := []string{"\xf0", "\xff", "\x80", "\xc3\x28", "\xe2\x82", "\xed\xa0\x80", "\xfe\xff"}
	b := func() string { return core.Pick(r, bad) }
	var out []string
	// a CONNECT is dialled with the target as it stands
	h := core.Pick(r, []string{"bad" + b() + ".invalid:81", "a." + b() + b() + ".invalid:443", b() + ":80", "x" + b() + ":8443"})
	out = append(out, "CONNECT "+h+" HTTP/1.1\r\nHost: "+h+"\r\n\r\n")
	// a Host that is no valid host:port reaches the dialer bracketed, as it stands
	h = core.Pick(r, []string{"bad.invalid:8" + b() + "1", "bad.invalid:" + b(), "a." + b() + "(.invalid:443", "bad" + b() + ".invalid:x"})
	out = append(out, "GET /x HTTP/1.1\r\nHost: "+h+"\r\n\r\n")
	// other places a host can come from
	h = core.Pick(r, []string{"bad" + b() + ".invalid:81", "bad.invalid:8" + b() + "1", "probe" + b() + ".test:" + portProbe})
	switch r.Intn(3) {
	case 0:
		out = append(out, "GET http://"+h+"/p?q=1 HTTP/1.1\r\nHost: "+h+"\r\n\r\n")
	case 1:
		out = append(out, "POST http://"+h+"/ HTTP/1.0\r\nHost: x\r\nContent-Length: 2\r\n\r\nhi")
	case 2:
		out = append(out, "GET /x HTTP/1.1\r\nHost: "+h+"\r\n\r\n")
	}
	return out
}

var badChunks = []string{
	"zz\r\nhello\r\n0\r\n\r\n", "-1\r\nhello\r\n0\r\n\r\n", "ffffffffffffffff1\r\nhello\r\n0\r\n\r\n", "5\r\nhelloXX0\r\n\r\n",
	"5 ; ext\x00\r\nhello\r\n0\r\n\r\n", "5\nhello\n0\n\n", "5\r\nhel", "0x5\r\nhello\r\n0\r\n\r\n", "5\r\nhello\r\n0\r\nTrailer without colon\r\n\r\n",
	"\r\n5\r\nhello\r\n0\r\n\r\n", "5" + strings.Repeat(";a=b", 2000) + "\r\nhello\r\n0\r\n\r\n", "7fffffffffffffff\r\nhello", " 5\r\nhello\r\n0\r\n\r\n",
	"5\r\nhello\r\n00000000000000000000000000000000000\r\n\r\n", "+5\r\nhello\r\n0\r\n\r\n",
}

// clientHello returns the first flight of a real TLS client.
func clientHello(serverName string) []byte {
	a, b := net.Pipe()
	defer a.Close()
	defer b.Close()
	go func() {
		tc := tls.Client(a, &tls.Config{ServerName: serverName, InsecureSkipVerify: true, NextProtos: []string{"http/1.1"}})
		tc.SetDeadline(time.Now().Add(2 * time.Second))
		tc.Handshake()
	}()
	buf := make([]byte, 4096)
	b.SetReadDeadline(time.Now().Add(2 * time.Second))
	n, _ := b.Read(buf)
	return buf[:n]
}

func hexes(parts ...string) []string {
	var out []string
	for _, p := range parts {
		if p != "" {
			out = append(out, core.HexS(p))
		}
	}
	return out
}

func genClient(g *gen, quick bool) {
	r := g.r
	listeners := []string{"plain", "tls", "mitm"}
	valid := validRequests()
	scale := func(q, t int) int {
		if quick {
			return q
		}
		return t
	}
	// mutated requests
	for i := 0; i < scale(220, 16000); i++ {
		base := core.Pick(r, valid)
		m := mutate(r, base)
		var parts []string
		if r.Chance(30) && len(m) > 2 {
			cut := r.Range(1, len(m)-1)
			parts = hexes(m[:cut], m[cut:])
		} else {
			parts = hexes(m)
		}
		g.add(&Case{Kind: "client", Via: core.Pick(r, listeners), What: "mutated", InputHex: parts, Sentinel: r.Chance(60), HalfClose: r.Chance(15)})
	}
	// structurally hostile requests
	for _, s := range structural {
		for _, l := range listeners {
			if quick && l != "plain" && r.Chance(50) {
				continue
			}
			g.add(&Case{Kind: "client", Via: l, What: "structural", InputHex: hexes(s), Sentinel: r.Chance(70)})
		}
	}
	// hosts that are not valid UTF-8 (beside the three fixed ones among the structural requests)
	for i := 0; i < scale(8, 150); i++ {
		for _, s := range nonUTF8Hosts(r) {
			g.add(&Case{Kind: "client", Via: core.Pick(r, listeners), What: "non-utf8-host", InputHex: hexes(s), Sentinel: r.Chance(70)})
		}
	}
	// the host dimension: lengths around every limit x composition x request form x listener (hosts.go)
	genHosts(g, quick)
	// binary garbage
	for i := 0; i < scale(36, 2500); i++ {
		n := core.Pick(r, []int{1, 3, 20, 200, 2000, 70000})
		b := r.Bytes(n)
		switch r.Intn(4) {
		case 0:
			b[0] = 0x16 // looks like a TLS handshake record
		case 1:
			copy(b, "GET ")
		}
		l := core.Pick(r, listeners)
		g.add(&Case{Kind: "client", Via: l, What: "binary", Raw: l != "plain" && r.Chance(50), InputHex: []string{core.Hex(b)}, HalfClose: r.Chance(30)})
	}
	// partial / corrupted TLS records on the TLS listener and after a CONNECT that is intercepted
	hello := clientHello("probe.test")
	for i := 0; i < scale(30, 2000); i++ {
		h := append([]byte{}, hello...)
		what := "tls-partial"
		switch r.Intn(4) {
		case 0:
			h = h[:r.Range(1, len(h)-1)]
		case 1:
			h[r.Intn(len(h))] ^= byte(1 << r.Intn(8))
			what = "tls-corrupt"
		case 2:
			h = append(h[:5], r.Bytes(len(h)-5)...)
			what = "tls-corrupt"
		case 3:
			h = append(h, r.Bytes(r.Range(1, 300))...)
			what = "tls-trailing-garbage"
		}
		g.add(&Case{Kind: "client", Via: core.Pick(r, []string{"tls", "mitm", "plain"}), What: what, Raw: true, InputHex: []string{core.Hex(h)}, HalfClose: r.Chance(40)})
	}
	// oversized request heads (> 1 MiB)
	for _, l := range listeners {
		g.add(&Case{Kind: "client", Via: l, What: "big-head", BigInput: (1 << 20) + r.Range(1, 200000), Sentinel: true})
		if quick {
			break
		}
	}
	g.add(&Case{Kind: "client", Via: "plain", What: "big-line", InputHex: hexes("GET http://" + probeHost + "/" + strings.Repeat("a", 1<<20) + " HTTP/1.1\r\nHost: " + probeHost + "\r\n\r\n"), Sentinel: true})
	g.add(&Case{Kind: "client", Via: "plain", What: "many-fields", InputHex: hexes("GET http://" + probeHost + "/ HTTP/1.1\r\nHost: " + probeHost + "\r\n" + strings.Repeat("X-F: v\r\n", 150000) + "\r\n"), Sentinel: true})
	// pipelined garbage after a valid request
	for i := 0; i < scale(30, 2000); i++ {
		v := core.Pick(r, valid[:3])
		garbage := string(r.Bytes(core.Pick(r, []int{1, 10, 100, 5000})))
		if r.Chance(40) {
			garbage = mutate(r, core.Pick(r, valid))
		}
		var parts []string
		if r.Chance(50) {
			parts = hexes(v + garbage)
		} else {
			parts = hexes(v, garbage)
		}
		g.add(&Case{Kind: "client", Via: core.Pick(r, listeners), What: "pipelined-garbage", InputHex: parts, Sentinel: r.Chance(40), HalfClose: r.Chance(20)})
	}
	// invalid chunk sizes
	for _, bc := range badChunks {
		for _, l := range listeners {
			if quick && l != "plain" && r.Chance(50) {
				continue
			}
			req := "POST http://" + probeHost + "/c HTTP/1.1\r\nHost: " + probeHost + "\r\nTransfer-Encoding: chunked\r\n\r\n" + bc
			g.add(&Case{Kind: "client", Via: l, What: "bad-chunk", InputHex: hexes(req), Sentinel: r.Chance(50), HalfClose: r.Chance(30)})
		}
	}
	_ = fmt.Sprint
}
