package c12

import (
	"bufio"
	"bytes"
	"crypto/tls"
	"errors"
	"fmt"
	"io"
	"net"
	"strings"
	"sync"
	"time"

	"github.com/saucelabs/forwarder/verifharness/core"
	"github.com/saucelabs/forwarder/verifharness/rig"
)

// Hostile NAMES at the interception point.
//
// An intercepting listener answers CONNECT with 200 and then makes up a certificate for the name the client
// gives it — the server name of the ClientHello, or the CONNECT authority when the hello has none
// (mitm.Config.TLSForHost / cert). That generator is shared by every handshake of every client of the
// listener. What a client can do to it is name things: the host dimension (hosts.go) sends its hosts INSIDE an
// established tunnel only; here they are the CONNECT authority and the server name themselves, and the TLS
// handshake is started: authority ∈ {non-ASCII UTF-8, raw bytes ≥ 0x80, percent-encoded, empty / over-long
// labels, over-long names, IP-literal look-alikes, everything a certificate might not be made for} x server
// name ∈ {the same, absent, another hostile one, a good one}, on the plain and the --basic-auth intercepting
// instance. Each hostile connection is judged by the property's clauses for hostile input (a well-formed
// response or a close at every phase, never a stall); whether the handshake goes through is compared with
// Model.C12.certGen of the name that reaches the generator. And — the point — after every such connection, and
// while several of them are in flight, the SAME instance must intercept a connection to a host it has never
// seen (a fresh name every time: a cached certificate would hide a generator that is stuck), within freshBound,
// well below its MITM handshake time-out.

const (
	clauseCertGen   = "the intercepted handshake completes iff Model.C12.certGen issues a certificate for the name that reaches the generator"
	clauseFreshName = "after hostile names at the interception point the same instance still intercepts a connection to a host it has never seen"
	// the instances' MITM handshake time-out is 3 s (env.go: TLSServerConfig.HandshakeTimeout)
	freshBound = 2 * time.Second
)

type certName struct{ class, host string }

func hostileCertNames(r *core.Rand, quick bool) []certName {
	var out []certName
	add := func(class string, hosts ...string) {
		for _, h := range hosts {
			out = append(out, certName{class, h})
		}
	}
	add("utf8", "bücher.test", "café.tls.test", "例え.test", "xn--é.tls.test", "a.😀.test", "é", strings.Repeat("é", 40)+".test", "a。b.test", "ß.tls.test", "‍zwj.test")
	add("raw-high", "a\xffb.test", "\x80.test", "a.test\xc3", "\xc3\x28.tls.test", "\xed\xa0\x80.test", "\xfe\xff", "caf\xe9.test", strings.Repeat("\xff", 30)+".test", "a."+core.Pick(r, []string{"\x80", "\xbf", "\xc0\xaf", "\xf4\x90\x80\x80"})+".tls.test")
	add("empty-label", "a..b.test", ".a.test", "..", ".", "a.test..", "a...b")
	add("long-label", strings.Repeat("a", 64)+".test", strings.Repeat("a", 63)+".test", strings.Repeat("b", 200)+".tls.test", strings.Repeat("a", 64)+"é.test")
	add("long-name", labelled(253)+".test", labelled(254), labelled(300), labelled(1000), strings.Repeat("a.", 200)+"test", labelled(250)+".é.test", labelled(4000))
	add("ip-lookalike", "1.2.3.4.5", "1.2.3", "0x7f.1", "0127.0.0.1", "127.1", "256.1.1.1", "1.2.3.4.", "[::1", "::1]", "[fe80::1%25zz9]", "[::ffff:1.2.3.4]", "[::g]", "[1:2:3:4:5:6:7:8:9]", "１.２.３.４", "1.2.3.4é", "[fe80::1%25é]")
	add("odd-ascii", "*.test", "*", "a_b.test", "_.test", "-a.test", "a-.test", "a b.test", "a\tb.test", "a@b.test", "a/b.test", "a\\b.test", "a,b.test", "a;b.test", "a=b.test", "a\x7fb.test", "a\x01b.test", "A.TEST", "xn--.test", "xn--caf-dma.test", "a%b.test", "a%zz.test", "%41.test", "a%2eb.test", "a%00b.test", "a?b", "a#b", "user@host.test", "a.test:1:2")
	if !quick {
		// more of the same, composed: a hostile piece at the front, in the middle, at the end of a name of every length class
		pieces := []string{"é", "€", "😀", "\xff", "\x80", "\xc3", "..", "*", "_", " ", "%C3%BC", "%FF"}
		for _, n := range []int{1, 10, 62, 63, 64, 200, 252, 253, 254, 400} {
			for _, p := range pieces {
				base := labelled(n)
				switch r.Intn(3) {
				case 0:
					add("composed", p+base+".test")
				case 1:
					add("composed", base[:n/2]+p+base[n/2:]+".test")
				default:
					add("composed", base+p)
				}
			}
		}
	}
	return out
}

var goodSNIs = []string{"good.tls.test", "plain.tls.test"}

// genCertNames adds the certname cases: every hostile name as CONNECT authority x the four server-name modes (all four
// for the classes x509 is known to be particular about, a drawn one for the rest in the quick tier), raw and
// percent-encoded, on the plain and the --basic-auth intercepting instance, and a few crowds: several hostile
// connections at once, fresh-name probes running beside them.
func genCertNames(g *gen, quick bool) {
	r := g.r
	names := hostileCertNames(r, quick)
	var hostile []string
	for _, n := range names {
		if n.class == "utf8" || n.class == "raw-high" {
			hostile = append(hostile, n.host)
		}
	}
	modes := []string{"same", "absent", "other", "good"}
	addCase := func(n certName, mode string, pct bool, crowd int) {
		c := &Case{Kind: "certname", Via: "mitm", What: "certname/" + n.class, HostHex: core.HexS(n.host), SNI: mode, N: crowd}
		if pct {
			c.Dims = "pct"
		}
		switch mode {
		case "other":
			c.SNIHex = core.HexS(core.Pick(r, hostile))
		case "good":
			c.SNIHex = core.HexS(core.Pick(r, goodSNIs))
		}
		if r.Chance(25) {
			c.Auth = "basic"
		}
		g.add(c)
	}
	for _, n := range names {
		ms := modes
		if quick && n.class != "utf8" && n.class != "raw-high" {
			ms = []string{core.Pick(r, modes[:2]), core.Pick(r, modes)}
		}
		for _, m := range ms {
			addCase(n, m, false, 0)
		}
		if (n.class == "utf8" || n.class == "raw-high" || n.class == "composed") && (!quick || r.Chance(50)) {
			addCase(n, core.Pick(r, modes[:2]), true, 0)
		}
	}
	// a good authority with a hostile server name: the name of the hello is the one that counts
	for _, h := range hostile {
		if quick && !r.Chance(40) {
			continue
		}
		g.add(&Case{Kind: "certname", Via: "mitm", What: "certname/good-authority", HostHex: core.HexS("innocent.tls.test"), SNI: "other", SNIHex: core.HexS(h)})
	}
	crowds := 4
	if !quick {
		crowds = 24
	}
	for i := 0; i < crowds; i++ {
		n := certName{"crowd", core.Pick(r, hostile)}
		addCase(n, core.Pick(r, modes[:3]), r.Chance(20), r.Range(3, 8))
	}
}

// sniOnWire is what crypto/tls's client puts into the server_name extension for a configured ServerName
// (handshake_client.go hostnameInSNI): nothing for an IP literal (brackets and zone allowed), trailing dots cut.
func sniOnWire(name string) string {
	host := name
	if len(host) > 0 && host[0] == '[' && host[len(host)-1] == ']' {
		host = host[1 : len(host)-1]
	}
	if i := strings.LastIndex(host, "%"); i > 0 {
		host = host[:i]
	}
	if net.ParseIP(host) != nil {
		return ""
	}
	for len(name) > 0 && name[len(name)-1] == '.' {
		name = name[:len(name)-1]
	}
	return name
}

// certWire: the authority as the case writes it, the server name it configures, and the name that reaches the
// generator when the CONNECT is accepted as it stands (the name of the hello, else the authority as net/url
// decodes it).
func (c *Case) certWire() (authority, serverName, genName string) {
	h := string(core.MustUnHex(orEmpty(c.HostHex)))
	wire := h
	if c.Dims == "pct" {
		wire = pctHost(h)
	}
	authority = wire + ":" + portTLSOrigin
	switch c.SNI {
	case "same":
		serverName = h
	case "other", "good":
		serverName = string(core.MustUnHex(orEmpty(c.SNIHex)))
	}
	genName = sniOnWire(serverName)
	if genName == "" {
		genName = unpctHost(wire) + ":" + portTLSOrigin
	}
	return authority, serverName, genName
}

// unpctHost: what net/url makes of the escapes in a host it accepts (%80..%FF are decoded; any other escape makes
// it refuse the target, and then no name reaches the generator).
func unpctHost(h string) string {
	var sb strings.Builder
	for i := 0; i < len(h); i++ {
		if h[i] == '%' && i+2 < len(h) {
			var v int
			if _, err := fmt.Sscanf(h[i+1:i+3], "%02x", &v); err == nil && v >= 0x80 && !strings.ContainsAny(h[i+1:i+3], "+- ") {
				sb.WriteByte(byte(v))
				i += 2
				continue
			}
		}
		sb.WriteByte(h[i])
	}
	return sb.String()
}

func tok(s string) string {
	if len(s) > 120 {
		s = s[:120]
	}
	return strings.Map(func(r rune) rune {
		if r <= ' ' || r == '=' || r > '~' {
			return '_'
		}
		return r
	}, s)
}

const clearCap = 16 << 10

// capHex: the first clearCap bytes (a stream of exactly that length was cut by the recorder, not by the proxy)
func capHex(b []byte) string {
	if len(b) > clearCap {
		b = b[:clearCap]
	}
	return orEmpty(core.Hex(b))
}

// phase reads one response of a clear-text phase and names what came: <status> | closed-fin | closed-rst | silent |
// cut (a head or body that stops short, then a close) | unparsable.
func phase(cl *client, method string) (string, *rig.Msg) {
	res, err := cl.c.ReadResponse(method, caseWait)
	switch {
	case err == nil && res != nil && res.Complete:
		return fmt.Sprint(res.Status), res
	case cl.rec.total == 0 && cl.rec.ending() == "open":
		return "silent", nil
	case cl.rec.total == 0:
		return "closed-" + tok(cl.rec.ending()), nil
	case err == rig.ErrIncomplete && cl.rec.ending() != "open":
		return "cut", nil
	case err == rig.ErrIncomplete:
		return "silent", nil
	}
	return "unparsable", nil
}

// hostileConn is one hostile connection: CONNECT with the authority, a ClientHello with the server name, a request.
func (e *env) hostileConn(c *Case, p *rig.Proxy, auth string) string {
	authority, serverName, _ := c.certWire()
	cl, err := dialClient(p.Addr)
	if err != nil {
		return "setup=" + tok(err.Error())
	}
	defer cl.close()
	cl.c.Conn.SetWriteDeadline(time.Now().Add(caseWait))
	cl.c.Send([]byte("CONNECT "+authority+" HTTP/1.1\r\nHost: "+authority+"\r\n"+auth+"\r\n"), nil)
	st, _ := phase(cl, "CONNECT")
	raw := func() string {
		cl.rec.mu.Lock()
		defer cl.rec.mu.Unlock()
		return capHex(cl.rec.buf)
	}
	if st != "200" {
		return "connect=" + st + " hs=- req=- end=" + tok(cl.rec.ending()) + " raw=" + raw()
	}
	// the ClientHello
	tc := tls.Client(&bufferedConn{Conn: cl.rec.Conn, br: cl.c.BR}, &tls.Config{ServerName: serverName, InsecureSkipVerify: true, NextProtos: []string{"http/1.1"}})
	tc.SetDeadline(time.Now().Add(caseWait))
	t0 := time.Now()
	herr := tc.Handshake()
	hms := time.Since(t0).Milliseconds()
	if herr != nil {
		hs := "failed:" + tok(herr.Error())
		var ne net.Error
		var ae tls.AlertError
		switch {
		case errors.As(herr, &ne) && ne.Timeout():
			hs = "timeout"
		case errors.As(herr, &ae):
			hs = "failed:alert"
		case errors.Is(herr, io.EOF) || errors.Is(herr, io.ErrUnexpectedEOF) || strings.Contains(herr.Error(), "reset by peer"):
			hs = "failed:closed"
		case strings.Contains(herr.Error(), "remote error"):
			hs = "failed:alert"
		}
		return fmt.Sprintf("connect=200 hs=%s hms=%d req=- end=- raw=_", hs, hms)
	}
	tc.SetDeadline(time.Time{})
	cl.c.Conn = tc
	cl.wrap()
	cl.c.Conn.SetWriteDeadline(time.Now().Add(caseWait))
	cl.c.Send([]byte("GET /r/"+c.ID+" HTTP/1.1\r\nHost: "+authority+"\r\nCase-Id: "+c.ID+"\r\n"+auth+"Connection: close\r\n\r\n"), nil)
	st, res := phase(cl, "GET")
	if res != nil && res.Has("X-Forwarder-Error") {
		st += "+xfe"
	}
	return fmt.Sprintf("connect=200 hs=ok hms=%d req=%s end=%s raw=%s", hms, st, tok(cl.rec.ending()), raw())
}

// freshOnce: a well-behaved client and a host the instance has never seen: CONNECT, the handshake (the instance's
// certificate verified for the name) within freshBound, a request answered by the origin.
func (e *env) freshOnce(p *rig.Proxy, name, auth string) (ok bool, detail string, ms int64) {
	t0 := time.Now()
	defer func() { ms = time.Since(t0).Milliseconds() }()
	cl, err := dialClient(p.Addr)
	if err != nil {
		return false, "dial: " + err.Error(), 0
	}
	defer cl.close()
	host := name + ":" + portTLSOrigin
	cl.c.Conn.SetDeadline(time.Now().Add(freshBound))
	cl.c.Send([]byte("CONNECT "+host+" HTTP/1.1\r\nHost: "+host+"\r\n"+auth+"\r\n"), nil)
	res, err := rig.ReadResponse(cl.c.BR, "CONNECT")
	if err != nil || res.Status != 200 {
		return false, fmt.Sprintf("CONNECT not answered with 200 within %v: %v", freshBound, err), 0
	}
	pool := e.ca.Pool()
	pool.AddCert(p.CACert())
	tc := tls.Client(&bufferedConn{Conn: cl.rec.Conn, br: cl.c.BR}, &tls.Config{ServerName: name, RootCAs: pool, NextProtos: []string{"http/1.1"}})
	tc.SetDeadline(time.Now().Add(freshBound - time.Since(t0)))
	if err := tc.Handshake(); err != nil {
		return false, fmt.Sprintf("no intercepted handshake within %v: %v", freshBound, err), 0
	}
	tc.SetDeadline(time.Time{})
	cl.c.Conn = tc
	cl.wrap()
	cl.c.Send([]byte("GET /probe HTTP/1.1\r\nHost: "+host+"\r\nCase-Id: fresh-"+name+"\r\n"+auth+"\r\n"), nil)
	r2, err := cl.c.ReadResponse("GET", caseWait)
	if err != nil || r2.Status != 200 || string(r2.Body) != probeBody {
		return false, fmt.Sprintf("request inside the intercepted tunnel not served: %v %v", err, r2), 0
	}
	return true, "", 0
}

// freshProbe runs freshOnce, and once more with another fresh name when it fails: a single slow handshake on a
// loaded machine is not a verdict, a generator that is stuck fails both.
func (e *env) freshProbe(c *Case, p *rig.Proxy, auth string, n int) string {
	name := fmt.Sprintf("%s-f%d.tls.test", strings.ToLower(c.ID), n)
	ok, detail, ms := e.freshOnce(p, name, auth)
	if ok {
		return fmt.Sprintf("fresh name=%s ok ms=%d", name, ms)
	}
	name2 := fmt.Sprintf("%s-f%dr.tls.test", strings.ToLower(c.ID), n)
	ok2, detail2, ms2 := e.freshOnce(p, name2, auth)
	if ok2 {
		return fmt.Sprintf("fresh name=%s ok ms=%d after-retry first=%s", name2, ms2, tok(detail))
	}
	return fmt.Sprintf("fresh name=%s failed ms=%d detail=%s first=%s", name2, ms2, tok(detail2), tok(detail))
}

func (e *env) runCertName(c *Case) *Obs {
	o := &Obs{ID: c.ID}
	t0 := time.Now()
	defer func() { o.Ms = time.Since(t0).Milliseconds() }()
	_, p := e.proxyFor(c)
	auth := ""
	if c.Auth != "" {
		auth = authLine
	}
	if c.N <= 1 {
		o.Steps = append(o.Steps, "hostile "+e.hostileConn(c, p, auth), e.freshProbe(c, p, auth, 0))
		return o
	}
	// a crowd: N hostile connections at once, two fresh-name probes beside them, one after them
	steps := make([]string, c.N+2)
	var wg sync.WaitGroup
	for i := 0; i < c.N+2; i++ {
		wg.Add(1)
		go func(i int) {
			defer wg.Done()
			defer func() {
				if r := recover(); r != nil {
					steps[i] = "panic " + tok(fmt.Sprint(r))
				}
			}()
			if i < c.N {
				steps[i] = "hostile " + e.hostileConn(c, p, auth)
			} else {
				time.Sleep(time.Duration(i-c.N) * 3 * time.Millisecond)
				steps[i] = e.freshProbe(c, p, auth, i-c.N)
			}
		}(i)
	}
	wg.Wait()
	o.Steps = append(steps, e.freshProbe(c, p, auth, 2))
	return o
}

func kvOf(step string) map[string]string {
	m := map[string]string{}
	for _, f := range strings.Fields(step) {
		if i := strings.IndexByte(f, '='); i > 0 {
			m[f[:i]] = f[i+1:]
		}
	}
	return m
}

// judgeClear: the clear-text bytes of one phase are complete well-formed HTTP/1 responses, the last one possibly cut
// short by a close (what judgeClient asks of the output for hostile input).
func judgeClear(ctx *core.Ctx, c *Case, impl string, raw []byte, ending string) bool {
	br := bufio.NewReader(bytes.NewReader(raw))
	for n := 0; ; n++ {
		if _, err := br.Peek(1); err != nil {
			return true
		}
		res, err := readResp(br, "GET")
		if err == nil && res.Complete {
			if res.Proto != "HTTP/1.1" && res.Proto != "HTTP/1.0" {
				ctx.SpecFail(clauseHostile, "", c, impl, "status line with protocol "+res.Proto)
				return false
			}
			if res.Has("X-Forwarder-Error") && res.Framing != "cl" {
				ctx.SpecFail(clauseFramed, "", c, impl, "error response without Content-Length")
				return false
			}
			if res.Status == 200 && len(res.Body) == 0 && res.Framing == "none" {
				return true // the 200 of the CONNECT: what follows is the tunnel
			}
			continue
		}
		if err == rig.ErrIncomplete && res != nil && bytes.HasPrefix(res.HeadBytes, []byte("HTTP/1.")) && (ending != "open" || len(raw) == clearCap) {
			return true
		}
		ctx.SpecFail(clauseHostile, "", c, impl, fmt.Sprintf("after %d complete responses the stream does not continue with an HTTP/1 response: %v", n, err))
		return false
	}
}

func judgeCertName(ctx *core.Ctx, c *Case, o *Obs) {
	impl := strings.Join(o.Steps, " | ")
	if len(impl) > 1500 {
		impl = impl[:1500] + "…"
	}
	_, _, genName := c.certWire()
	class := strings.TrimPrefix(c.What, "certname/")
	ctx.Count("certname/class/" + class + "/sni-" + c.SNI + map[string]string{"": "", "pct": "/pct"}[c.Dims] + map[string]string{"": "", "basic": "@auth"}[c.Auth])
	if c.N > 1 {
		ctx.Count("certname/crowd")
	}
	model := ctx.Model.MustAsk("C12", "certgen", "code", core.HexS(genName))
	fresh := 0
	for _, st := range o.Steps {
		kv := kvOf(st)
		switch {
		case strings.HasPrefix(st, "panic "):
			ctx.Crash("harness goroutine panicked", "", c, st)
		case strings.HasPrefix(st, "hostile "):
			if s := kv["setup"]; s != "" {
				ctx.SpecFail(clauseServing, "", c, impl, "a client could not connect to the proxy: "+s)
				continue
			}
			ctx.Count("certname/connect/" + kv["connect"])
			switch kv["connect"] {
			case "silent":
				ctx.SpecFail(clauseHostile, "", c, impl, "CONNECT with a hostile authority: no byte and no close within the wait")
				continue
			case "unparsable":
				ctx.SpecFail(clauseHostile, "", c, impl, "CONNECT with a hostile authority: the answer is no HTTP/1 response")
				continue
			}
			if kv["connect"] != "200" {
				judgeClear(ctx, c, impl, core.MustUnHex(kv["raw"]), kv["end"])
				continue
			}
			hs := kv["hs"]
			ctx.Count("certname/handshake/" + strings.SplitN(hs, ":", 2)[0] + "/model-" + model)
			switch {
			case hs == "timeout":
				ctx.SpecFail(clauseHostile, "", c, impl, fmt.Sprintf("the handshake neither completed nor was refused within %v (the instance's own limit is 3 s)", caseWait))
			case (hs == "ok") != (model == "issued" || model == "cached"):
				ctx.Disagree(clauseCertGen, c, impl, model)
			default:
				ctx.TraceValidated()
			}
			if hs != "ok" {
				continue
			}
			ctx.Count("certname/request/" + kv["req"])
			switch kv["req"] {
			case "silent":
				ctx.SpecFail(clauseHostile, "", c, impl, "a request inside the intercepted tunnel: no byte and no close within the wait")
			case "unparsable":
				ctx.SpecFail(clauseHostile, "", c, impl, "a request inside the intercepted tunnel: the answer is no HTTP/1 response")
			default:
				judgeClear(ctx, c, impl, core.MustUnHex(kv["raw"]), kv["end"])
			}
		case strings.HasPrefix(st, "fresh "):
			fresh++
			// the model: a valid name the generator has not seen is issued a certificate after every history
			if m := ctx.Model.MustAsk("C12", "certgen", "code", core.HexS(genName)+","+core.HexS(kv["name"]+":"+portTLSOrigin)); !strings.HasSuffix(m, ",issued") {
				ctx.Disagree(clauseCertGen, c, impl, m)
			}
			switch {
			case strings.Contains(st, " failed "):
				ctx.Count("certname/fresh/failed")
				ctx.SpecFail(clauseFreshName, "", c, impl, fmt.Sprintf("twice (two fresh names) no intercepted connection within %v: %s", freshBound, kv["detail"]))
			case strings.Contains(st, " after-retry"):
				ctx.Count("certname/fresh/ok-after-retry")
			default:
				ctx.Count("certname/fresh/ok")
				ctx.TraceValidated()
			}
		}
	}
	if fresh == 0 {
		ctx.Crash("every case is executed", "", c, "no fresh-name probe was made: "+impl)
	}
}
