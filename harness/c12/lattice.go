package c12

// The dial phase as a lattice of time limits.
//
// Every other dial case of this scenario lets the dialer's own DialTimeout end a hanging dial (2 s against a
// ConnectTimeout of 2.5 s): the caller of forwarder.Dialer never gives up first. Here the dialled address drops
// SYNs (rig.Blackhole: the origin's address, or the address of an http / https / socks5 upstream proxy) and the
// limits are ordered every way the product allows:
//
//	who gives up first: the dialer (DialTimeout, after 1, 2 or 3 attempts with backoff) | the caller's context
//	(dialvia's ConnectTimeout around the dial of a client CONNECT through an upstream proxy) during the first
//	attempt, with 1 and with 3 attempts, or during the second attempt | the client (it closes its connection while
//	the dial hangs: under net/http's server that cancels the request context)
//	x what is dialled: origin | http | https | socks5 upstream proxy
//	x request: client CONNECT (Proxy.connect / dialvia) | plain | GET https:// (http.Transport) | inside an intercepted tunnel
//	x TCP server | martian's http.Handler
//
// Every instance is built as all instances of this scenario are (rig.StartProxy: the transport of NewHTTPTransport,
// i.e. forwarder.Dialer with its retry loop, connection tracking as command/run leaves it: on). Judged by the
// clauses of the property: a complete 504 with X-Forwarder-Error (status and label compared with
// Model.C12.dialContext of the attempt outcomes the limits imply), the same once more on the same connection, the
// instance still serving after the batch; the batch runs in a child process like every other, so a nil dereference
// in a handler goroutine is a Crash finding with the case as replay.

import (
	"fmt"
	"regexp"
	"sort"
	"strconv"
	"strings"
	"time"

	"github.com/saucelabs/forwarder/verifharness/core"
)

type latticeCfg struct {
	Dial, Connect, Backoff time.Duration
	Attempts               int
}

// latticeCfgs: the points of the lattice. Competing limits are at least 100 ms apart; the verdict (504) does not
// depend on which of them a loaded machine lets win.
var latticeCfgs = map[string]latticeCfg{
	"c1": {Dial: 800 * time.Millisecond, Connect: 300 * time.Millisecond, Attempts: 1},                               // the caller's deadline ends the only attempt
	"c3": {Dial: 800 * time.Millisecond, Connect: 300 * time.Millisecond, Attempts: 3, Backoff: 60 * time.Millisecond}, // … the first of three; the others start with a context that is done
	"m3": {Dial: 250 * time.Millisecond, Connect: 450 * time.Millisecond, Attempts: 3, Backoff: 50 * time.Millisecond}, // the dialer ends the first attempt, the caller's deadline the second
	"d1": {Dial: 300 * time.Millisecond, Connect: 2500 * time.Millisecond, Attempts: 1},                       // the dialer's own limit, one attempt
	"d2": {Dial: 250 * time.Millisecond, Connect: 2500 * time.Millisecond, Attempts: 2, Backoff: 50 * time.Millisecond}, // … two attempts
	"g1": {Dial: 700 * time.Millisecond, Connect: 2500 * time.Millisecond, Attempts: 1},                       // long enough for the client to leave first
}

type latticeProxy struct {
	scheme  string // "" = no upstream proxy (the origin's address drops SYNs)
	cfgName string
	cfg     latticeCfg
	mitm    bool
	handler bool
}

// latticeProxyName: tl-<direct|http|https|socks5>-<cfg>[mitm], tlh-… for the handler variant.
func latticeProxyName(c *Case) string {
	n := "tl-"
	if c.Server == "handler" {
		n = "tlh-"
	}
	s := c.Scheme
	if s == "" {
		s = "direct"
	}
	n += s + "-" + c.Lattice
	if c.Via == "mitm" {
		n += "mitm"
	}
	return n
}

func parseLatticeProxy(name string) (latticeProxy, bool) {
	var lp latticeProxy
	switch {
	case strings.HasPrefix(name, "tl-"):
		name = strings.TrimPrefix(name, "tl-")
	case strings.HasPrefix(name, "tlh-"):
		name = strings.TrimPrefix(name, "tlh-")
		lp.handler = true
	default:
		return lp, false
	}
	if strings.HasSuffix(name, "mitm") {
		lp.mitm = true
		name = strings.TrimSuffix(name, "mitm")
	}
	parts := strings.Split(name, "-")
	if len(parts) != 2 {
		return lp, false
	}
	cfg, ok := latticeCfgs[parts[1]]
	if !ok {
		return lp, false
	}
	switch parts[0] {
	case "direct":
	case "http", "https", "socks5":
		lp.scheme = parts[0]
	default:
		return lp, false
	}
	lp.cfgName, lp.cfg = parts[1], cfg
	return lp, true
}

// startLattice starts the proxy instances the batch's dialtl cases go through (before any case runs: the maps of
// the environment are read without locks afterwards).
func (e *env) startLattice(cases []*Case) error {
	need := map[string]bool{}
	for _, c := range cases {
		if c.Kind == "dialtl" {
			need[latticeProxyName(c)] = true
		}
	}
	names := make([]string, 0, len(need))
	for n := range need {
		names = append(names, n)
	}
	sort.Strings(names)
	for _, n := range names {
		lp, ok := parseLatticeProxy(n)
		if !ok {
			return fmt.Errorf("lattice case names no point of the lattice: %q", n)
		}
		if err := e.mk(n, "", lp.mitm, false, lp.handler, nil, ""); err != nil {
			return fmt.Errorf("proxy %s: %w", n, err)
		}
	}
	return nil
}

// latticeRoute: what wraps the dialer's error (Model.C12.DialRoute).
func latticeRoute(c *Case) string {
	switch {
	case c.Scheme == "":
		return "direct"
	case c.Via != "connect":
		return "transport"
	case c.Scheme == "socks5":
		return "socks"
	}
	return "dialvia"
}

// latticeOutcomes: what each attempt of the dialer's loop returns on an address that drops SYNs, and whether the
// caller's context is done by then — as the limits of the case imply. The caller's context has a deadline only
// where dialvia dials (a client CONNECT through an upstream proxy); http.Transport dials under a context detached
// from the request's, and a direct CONNECT under the request's own, which has none. It is cancelled when the
// client goes away only under net/http's server.
func latticeOutcomes(c *Case) (outs []string, first string) {
	lc := latticeCfgs[c.Lattice]
	deadline := time.Duration(-1)
	ctxErr := "deadline"
	if c.Via == "connect" && c.Scheme != "" {
		deadline = lc.Connect
	}
	if c.GoneMs > 0 && c.Server == "handler" && c.Via == "connect" {
		if g := time.Duration(c.GoneMs) * time.Millisecond; deadline < 0 || g < deadline {
			deadline, ctxErr = g, "canceled"
		}
	}
	n := lc.Attempts
	if n <= 0 {
		n = 1
	}
	t := time.Duration(0)
	for i := 0; i < n; i++ {
		if i > 0 {
			t += lc.Backoff
		}
		end := t + lc.Dial
		switch {
		case deadline >= 0 && deadline <= t:
			outs = append(outs, ctxErr+":1")
		case deadline >= 0 && deadline < end:
			outs = append(outs, ctxErr+":1")
			t = deadline
			if first == "" {
				first = fmt.Sprintf("caller-%s-in-attempt-%d-of-%d", ctxErr, i+1, n)
			}
		default:
			outs = append(outs, "timeout:0")
			t = end
		}
	}
	if first == "" {
		first = fmt.Sprintf("dialer-after-%d-attempts", n)
	}
	return outs, first
}

// latticeSpan: how long the dial phase of the case lasts at most.
func latticeSpan(c *Case) time.Duration {
	lc := latticeCfgs[c.Lattice]
	n := lc.Attempts
	if n <= 0 {
		n = 1
	}
	return time.Duration(n)*lc.Dial + time.Duration(n-1)*lc.Backoff
}

func genLattice(g *gen, quick bool) {
	r := g.r
	add := func(via, scheme, cfg, server string, gone int) {
		c := g.add(&Case{Kind: "dialtl", Via: via, Scheme: scheme, Lattice: cfg, Server: server, GoneMs: gone, ReqClose: gone == 0 && r.Chance(25)})
		if !quick && gone == 0 && r.Chance(20) {
			c.ReqMinor = 0
		}
	}
	rounds := 1
	if !quick {
		rounds = 3
	}
	for i := 0; i < rounds; i++ {
		// a client CONNECT through an upstream proxy: dialvia puts ConnectTimeout around the dial
		for _, scheme := range []string{"http", "https", "socks5"} {
			for _, cfg := range []string{"c1", "c3", "m3", "d1", "d2"} {
				add("connect", scheme, cfg, "", 0)
			}
		}
		// a client CONNECT to an origin, and requests that http.Transport dials for: the dialer's own limits
		for _, cfg := range []string{"d1", "d2", "m3"} {
			add("connect", "", cfg, "", 0)
		}
		for _, via := range []string{"plain", "https"} {
			for _, scheme := range []string{"", "http", "https", "socks5"} {
				for _, cfg := range []string{"d2", "m3"} {
					add(via, scheme, cfg, "", 0)
				}
			}
		}
		add("mitm", "", "d2", "", 0)
		add("mitm", "http", "d2", "", 0)
		// the handler variant
		add("connect", "", "d1", "handler", 0)
		add("connect", "http", "c1", "handler", 0)
		add("connect", "https", "c3", "handler", 0)
		add("connect", "socks5", "c1", "handler", 0)
		add("plain", "http", "d2", "handler", 0)
		// the client goes away while the dial hangs
		for _, scheme := range []string{"", "http", "socks5"} {
			add("connect", scheme, "g1", "handler", 120)
		}
		add("plain", "http", "g1", "handler", 120)
		add("connect", "", "d2", "", 120)
		add("connect", "http", "d2", "", 120)
		add("connect", "http", "m3", "", 120)
	}
}

// runLattice sends the request, reads the answer and sends the same request once more on the same connection (the
// dial phase runs twice per connection); a client that goes away closes instead and waits the dial phase out, so
// that a process that dies of it dies with this case in flight.
func (e *env) runLattice(c *Case) *Obs {
	o := &Obs{ID: c.ID}
	t0 := time.Now()
	defer func() { o.Ms = time.Since(t0).Milliseconds() }()
	if _, ok := latticeCfgs[c.Lattice]; !ok {
		o.Setup = "no such point of the lattice: " + c.Lattice
		return o
	}
	name, p := e.proxyFor(c)
	if p == nil {
		o.Setup = "no proxy instance " + name
		return o
	}
	cl, err := dialClient(p.Addr)
	if err != nil {
		o.Setup = "dial proxy: " + err.Error()
		return o
	}
	defer cl.close()
	if c.Via == "mitm" {
		if err := cl.enterMITM(e, p, c.host()); err != nil {
			o.Setup = "enter MITM: " + err.Error()
			o.fill(cl)
			return o
		}
	}
	method, req := c.request()
	if err := cl.c.Send(req, nil); err != nil {
		o.Setup = "send: " + err.Error()
		return o
	}
	if c.GoneMs > 0 {
		time.Sleep(time.Duration(c.GoneMs) * time.Millisecond)
		cl.c.Conn.Close()
		o.Closed = "gone"
		time.Sleep(latticeSpan(c) + 250*time.Millisecond - time.Duration(c.GoneMs)*time.Millisecond)
		return o
	}
	res, err := cl.c.ReadResponse(method, caseWait)
	if err == nil && res != nil && res.Complete && res.Framing != "eof" {
		if method == "CONNECT" && res.Status/100 == 2 {
			o.Closed, o.Follow = "open", "tunnel"
			o.fill(cl)
			return o
		}
		time.Sleep(2 * time.Millisecond) // anything the proxy wrongly appends would be on its way
		o.Stray = cl.c.BR.Buffered()
		before := cl.rec.total
		o.First = before - o.Stray
		cl.c.Send(req, nil)
		r2, err2 := cl.c.ReadResponse(method, caseWait)
		switch {
		case o.Stray > 0:
			o.Follow = "garbage:stray"
			o.Closed = cl.rec.ending()
		case err2 == nil && r2.Complete && r2.Status == res.Status && r2.Has("X-Forwarder-Error"):
			o.Follow = "ok"
			o.Closed = "open"
		case cl.rec.total == before && cl.rec.ending() != "open":
			o.Follow = "closed"
			o.Closed = cl.rec.ending()
		case cl.rec.total == before:
			o.Follow = "timeout"
			o.Closed = "open"
		default:
			cl.rec.mu.Lock()
			extra := append([]byte{}, cl.rec.buf[min(before, len(cl.rec.buf)):]...)
			cl.rec.mu.Unlock()
			if len(extra) > 600 {
				extra = extra[:600]
			}
			o.Follow = "garbage:" + core.Hex(extra)
			o.Closed = cl.rec.ending()
		}
	} else {
		o.Closed = cl.rec.ending()
	}
	o.fill(cl)
	return o
}

var latticeOpRe = regexp.MustCompile(`^fwdverif (proxyconnect|dial|socks connect) tcp[46]?\b`)

const clauseDialLoop = "status and label of the error response = Model.C12.dialContext of the attempt outcomes (classify of the error of the last attempt, wrapped as the route wraps it)"

func judgeLattice(ctx *core.Ctx, c *Case, o *Obs) {
	impl := describeObs(o)
	lc, ok := latticeCfgs[c.Lattice]
	if !ok {
		ctx.Disagree("the case names a point of the lattice", c, impl, "")
		return
	}
	scheme := c.Scheme
	if scheme == "" {
		scheme = "origin"
	}
	tag := map[string]string{"": "", "handler": "@handler"}[c.Server]
	if c.GoneMs > 0 {
		tag += "/client-gone"
	}
	ctx.Count("lattice/" + c.Lattice + "/" + scheme + "/" + c.Via + tag)
	fail := func(clause, detail string) { ctx.SpecFail(clause, "", c, impl, detail) }
	if o.Setup != "" {
		fail(clauseServing, "the client could not reach the point of sending its request: "+o.Setup)
		return
	}
	outs, first := latticeOutcomes(c)
	ctx.Count("lattice/first-to-give-up/" + first + "/" + latticeRoute(c))
	ans := ctx.Model.MustAsk("C12", "dialloop", "route="+latticeRoute(c), "attempts="+core.Itoa(lc.Attempts), "out="+core.JoinList(outs))
	mf := strings.Fields(ans)
	if len(mf) < 4 || mf[0] != "error" {
		// an address that drops SYNs yields no connection; the model never answers "panic" (c12_dial_never_panics)
		ctx.Disagree(clauseDialLoop, c, impl, ans)
		return
	}
	if c.GoneMs > 0 {
		// nobody reads the answer; that the process outlives the case is seen by the batch (and its probes)
		ctx.TraceValidated()
		return
	}
	method := "GET"
	if c.Via == "connect" {
		method = "CONNECT"
	}
	s := look(c, o, method)
	ctx.Count("seen/" + s.kind)
	res := s.res
	switch s.kind {
	case "silent":
		fail(clauseClean, "no byte and no close within the wait")
	case "unparsable", "partial-head":
		fail(clauseClean, fmt.Sprintf("the stream is not the beginning of an HTTP/1 response (%v)", s.err))
	case "close":
		fail(clauseClean, "connection closed without any response to a dial that timed out")
	case "prefix":
		fail(clauseClean, "a truncated response where an error response is due")
	case "tunnel":
		fail(clauseClean, "a tunnel to an address that accepts no connection")
	case "relayed", "complete":
		fail(clauseXFE, fmt.Sprintf("status %d without X-Forwarder-Error", s.status))
	case "error":
		framed := res.Framing == "cl" || (c.Server == "handler" && (res.Framing == "chunked" || (res.Framing == "eof" && c.ReqMinor == 0)))
		if !framed || !res.Complete || (res.Proto != "HTTP/1.1" && res.Proto != "HTTP/1.0") || !strings.HasPrefix(res.Get("Content-Type"), "text/plain") {
			fail(clauseFramed, fmt.Sprintf("proto=%s framing=%s complete=%v content-type=%q", res.Proto, res.Framing, res.Complete, res.Get("Content-Type")))
		}
		if s.extra > 0 || s.garbage {
			fail(clauseForeign, fmt.Sprintf("%d stray bytes after the error response (follow-up: %.80s)", s.extra, o.Follow))
		}
		checkErrorShape(ctx, c, s, fail)
		if wantKA := !c.reqClose(); s.ka != wantKA && o.Follow != "timeout" {
			ctx.Disagree("an error response keeps the connection unless the request said close", c, fmt.Sprintf("keep-alive=%v follow=%s", s.ka, o.Follow), fmt.Sprint(wantKA))
		}
		// every attempt ran into a time-out, the dialer's or the caller's: a connect time-out
		if s.status != 504 {
			fail(clauseStatus, fmt.Sprintf("status %d, the property asks for 504", s.status))
		}
		agrees := strconv.Itoa(s.status) == mf[1]
		if m := latticeOpRe.FindStringSubmatch(res.Get("X-Forwarder-Error")); m == nil || "net_"+m[1] != string(core.MustUnHex(orEmpty(mf[2]))) {
			agrees = false
		} else {
			ctx.Count("lattice/error-chain/" + m[1])
		}
		if agrees {
			ctx.TraceValidated()
		} else {
			ctx.Disagree(clauseDialLoop, c, impl, ans)
		}
	}
	for _, m := range hostIDRe.FindAllStringSubmatch(strings.ToLower(string(core.MustUnHex(orEmpty(o.RawHex)))), -1) {
		if m[1] != strings.ToLower(c.ID) && m[1] != "follow" {
			fail(clauseForeign, "the stream names another exchange: "+m[0])
			break
		}
	}
}
