package c12

import (
	"bufio"
	"crypto/tls"
	"crypto/x509"
	"fmt"
	"net"
	"os"
	"strings"
	"sync"
	"time"

	"github.com/saucelabs/forwarder/internal/martian"
	"github.com/saucelabs/forwarder/internal/martian/h2"
	"github.com/saucelabs/forwarder/internal/martian/mitm"
	"github.com/saucelabs/forwarder/verifharness/rig"
)

// The consecutive-error counter of handleLoop counts only errors of handle() that are neither
// errClose nor closeable. Every HTTP/1 path of handle() returns nil or errClose; the one path that
// hands back other errors is the HTTP/2 interception (`H2Config().Proxy`), which forwarder's own
// configuration never enables. It is reached here by driving internal/martian.Proxy directly with an
// H2 configuration: a client negotiates h2 with the interceptor and then sends a wrong connection
// preface ("client sent unexpected preface": not closeable); handle() returns that error, the loop
// counts it and reads the next request from the raw connection again.

type counterEnv struct {
	addr string
	h2o  *rig.Peer
	pool *x509.CertPool
	err  error
}

var (
	cenvOnce sync.Once
	cenv     counterEnv
)

func counterSetup() *counterEnv {
	cenvOnce.Do(func() {
		ca, err := rig.NewCA("c12 h2 origin CA")
		if err != nil {
			cenv.err = err
			return
		}
		leaf, err := ca.ValidLeaf("127.0.0.1")
		if err != nil {
			cenv.err = err
			return
		}
		cenv.h2o, err = rig.NewRawTLSPeer("h2origin", &tls.Config{Certificates: []tls.Certificate{leaf}, NextProtos: []string{"h2"}}, func(pc *rig.PeerConn) {
			buf := make([]byte, 4096)
			for {
				pc.SetReadDeadline(time.Now().Add(20 * time.Second))
				if _, err := pc.Read(buf); err != nil {
					return
				}
			}
		})
		if err != nil {
			cenv.err = err
			return
		}
		mca, mpriv, err := mitm.NewAuthority("c12 counter", "verif", time.Hour)
		if err != nil {
			cenv.err = err
			return
		}
		mc, err := mitm.NewConfig(mca, mpriv)
		if err != nil {
			cenv.err = err
			return
		}
		mc.SetH2Config(&h2.Config{RootCAs: ca.Pool(), AllowedHostsFilter: func(string) bool { return true }})
		p := &martian.Proxy{MITMConfig: mc, TestingSkipRoundTrip: true, WithoutWarning: true}
		l, err := net.Listen("tcp", "127.0.0.1:0")
		if err != nil {
			cenv.err = err
			return
		}
		cenv.addr = l.Addr().String()
		cenv.pool = x509.NewCertPool()
		cenv.pool.AddCert(mca)
		go p.Serve(l)
	})
	return &cenv
}

// rxQueue is the receive-queue length of the socket (local la, remote ra) as /proc/net/tcp shows it.
func rxQueue(la, ra *net.TCPAddr) (int64, bool) {
	b, err := os.ReadFile("/proc/net/tcp")
	if err != nil {
		return 0, false
	}
	enc := func(a *net.TCPAddr) string {
		ip := a.IP.To4()
		if ip == nil {
			return ""
		}
		return fmt.Sprintf("%02X%02X%02X%02X:%04X", ip[3], ip[2], ip[1], ip[0], a.Port)
	}
	l, r := enc(la), enc(ra)
	for _, line := range strings.Split(string(b), "\n") {
		f := strings.Fields(line)
		if len(f) > 4 && f[1] == l && f[2] == r {
			var tx, rx int64
			fmt.Sscanf(f[4], "%x:%x", &tx, &rx)
			return rx, true
		}
	}
	return 0, false
}

type bufferedConn struct {
	net.Conn
	br *bufio.Reader
}

func (c *bufferedConn) Read(b []byte) (int, error) { return c.br.Read(b) }

// runCounter plays a sequence of failing h2 sessions (x) and successful plain exchanges (o) on ONE
// connection and reports, per step, whether the proxy still answered.
func runCounter(c *Case) *Obs {
	o := &Obs{ID: c.ID}
	t0 := time.Now()
	defer func() { o.Ms = time.Since(t0).Milliseconds() }()
	ce := counterSetup()
	if ce.err != nil {
		o.Setup = "counter environment: " + ce.err.Error()
		return o
	}
	raw, err := net.DialTimeout("tcp", ce.addr, 5*time.Second)
	if err != nil {
		o.Setup = "dial: " + err.Error()
		return o
	}
	defer raw.Close()
	br := bufio.NewReader(raw)
	plain := func(tag string) bool {
		fmt.Fprintf(raw, "GET http://plain.test/%s HTTP/1.1\r\nHost: plain.test\r\n\r\n", tag)
		raw.SetReadDeadline(time.Now().Add(caseWait))
		res, err := rig.ReadResponse(br, "GET")
		return err == nil && res.Complete && res.Status == 200
	}
	for i, ch := range c.Seq {
		switch ch {
		case 'o':
			if !plain(fmt.Sprint(i)) {
				o.Steps = append(o.Steps, "closed")
				o.Closed = "fin"
				return o
			}
			o.Steps = append(o.Steps, "o")
		case 'x':
			fmt.Fprintf(raw, "CONNECT %s HTTP/1.1\r\nHost: %s\r\n\r\n", ce.h2o.Addr, ce.h2o.Addr)
			raw.SetReadDeadline(time.Now().Add(caseWait))
			res, err := rig.ReadResponse(br, "CONNECT")
			if err != nil || res.Status != 200 {
				o.Steps = append(o.Steps, "closed")
				o.Closed = "fin"
				return o
			}
			tc := tls.Client(&bufferedConn{raw, br}, &tls.Config{RootCAs: ce.pool, ServerName: "127.0.0.1", NextProtos: []string{"h2"}, MaxVersion: tls.VersionTLS12})
			raw.SetDeadline(time.Now().Add(caseWait))
			if err := tc.Handshake(); err != nil {
				o.Steps = append(o.Steps, "handshake-failed:"+err.Error())
				return o
			}
			if np := tc.ConnectionState().NegotiatedProtocol; np != "h2" {
				o.Steps = append(o.Steps, "alpn:"+np)
				return o
			}
			tc.Write([]byte("PRI * HTTP/9.9\r\n\r\nXX\r\n\r\n"))
			raw.SetDeadline(time.Time{})
			// wait until the interceptor has consumed that record: from then on only the request
			// reader of handleLoop reads from the raw connection
			deadline := time.Now().Add(caseWait)
			for {
				rx, ok := rxQueue(raw.RemoteAddr().(*net.TCPAddr), raw.LocalAddr().(*net.TCPAddr))
				if ok && rx == 0 {
					break
				}
				if !ok || time.Now().After(deadline) {
					o.Steps = append(o.Steps, fmt.Sprintf("stuck:rx=%d,found=%v", rx, ok))
					return o
				}
				time.Sleep(500 * time.Microsecond)
			}
			o.Steps = append(o.Steps, "x")
		}
	}
	// is the connection still served?
	if plain("final") {
		o.Closed = "open"
	} else {
		o.Closed = "fin"
	}
	return o
}
