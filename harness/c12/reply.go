package c12

import (
	"bufio"
	"bytes"
	"fmt"
	"io"
	"mime"
	"net/http"
	"sort"
	"strconv"
	"strings"

	"github.com/saucelabs/forwarder/verifharness/core"
	"github.com/saucelabs/forwarder/verifharness/rig"
)

// Hostile and unusual UPSTREAM replies as a product space rather than a list:
//
//	status       100 101 102 103 199 200 204 205 206 304 404 407 426 500 503 600 999 000
//	upgrade      fields absent | matching the request | naming another protocol | Connection only |
//	             Upgrade only | token lists
//	content-type none | text/event-stream (plain, case variants, with parameters, malformed and conflicting
//	             parameters) | other types | look-alikes
//	framing      none | Content-Length exact / 0 / huge / short / negative / junk / duplicate (same, different) |
//	             Transfer-Encoding chunked (well-formed, malformed, unterminated) / unknown / duplicated / list |
//	             both
//	body         present or not (small, sometimes large)
//	request      GET | HEAD | POST | upgrade request, asked plainly, as GET https://, inside an intercepted
//	             tunnel, directly or through an upstream proxy; CONNECT through an upstream proxy (the reply
//	             answers the CONNECT — the client's, or the proxy transport's own)
//
// The fields of a reply select code paths independently of one another (the status decides whether a body
// exists, Content-Type and the framing fields pick the writer, the upgrade fields pick the tunnel path):
// every combination must end cleanly — a complete well-formed response, an error response with
// X-Forwarder-Error, or a close — and must leave the process alive (the batch runs in a child process; a
// probe is served by every proxy instance afterwards).

type replyStatus struct {
	code int
	line string
}

var replyStatuses = []replyStatus{
	{100, "100 Continue"}, {101, "101 Switching Protocols"}, {102, "102 Processing"}, {103, "103 Early Hints"}, {199, "199 Whatever"},
	{200, "200 OK"}, {204, "204 No Content"}, {205, "205 Reset Content"}, {206, "206 Partial Content"}, {304, "304 Not Modified"},
	{404, "404 Not Found"}, {407, "407 Proxy Authentication Required"}, {426, "426 Upgrade Required"},
	{500, "500 Internal Server Error"}, {503, "503 Service Unavailable"}, {600, "600 Beyond"}, {999, "999 Last"}, {0, "000 Nothing"},
}

// upgrade field variants; %s = the protocol the request named (websocket when it named none)
var replyUpgrades = map[string][]string{
	"none":      {""},
	"match":     {"Connection: Upgrade\r\nUpgrade: %s\r\n", "Connection: upgrade\r\nUpgrade: %s\r\n"},
	"mismatch":  {"Connection: Upgrade\r\nUpgrade: other-proto/2\r\n", "Upgrade: h2c\r\nConnection: Upgrade\r\n"},
	"conn-only": {"Connection: Upgrade\r\n"},
	"up-only":   {"Upgrade: %s\r\n", "Connection: keep-alive\r\nUpgrade: %s\r\n"},
	"lists":     {"Connection: keep-alive, Upgrade\r\nUpgrade: %s, other/1\r\n", "Connection: Upgrade\r\nConnection: close\r\nUpgrade: %s\r\n"},
}

var replyUpgradeKeys = []string{"none", "match", "mismatch", "conn-only", "up-only", "lists"}

var replyCTs = map[string][]string{
	"none": {""},
	"sse":  {"Content-Type: text/event-stream\r\n"},
	"sse-variant": {
		"Content-Type: Text/Event-Stream\r\n", "Content-Type: TEXT/EVENT-STREAM\r\n", "Content-Type: text/event-stream; charset=utf-8\r\n",
		"Content-Type: text/event-stream;charset=UTF-8\r\n", "Content-Type:   text/event-stream  \r\n", "Content-Type: text/event-stream ; q\r\n",
		"Content-Type: text/event-stream;\r\n", "Content-Type: text/event-stream; a=1; a=1\r\n", "content-type: text/event-stream\r\n",
		"Content-Type: text/event-stream\r\nContent-Type: text/plain\r\n", "Content-Type: tExT/eVeNt-StReAm; boundary=\"x y\"\r\n",
	},
	"sse-void": {"Content-Type: text/event-stream; a=1; a=2\r\n"}, // conflicting parameters: mime gives no type
	"other": {
		"Content-Type: text/plain\r\n", "Content-Type: application/json; charset=utf-8\r\n", "Content-Type: text/html\r\n",
		"Content-Type: application/octet-stream\r\n",
	},
	"look-alike": {
		"Content-Type: text/event-streamx\r\n", "Content-Type: text/event-stream/x\r\n", "Content-Type: ;text/event-stream\r\n",
		"Content-Type: text/plain\r\nContent-Type: text/event-stream\r\n", "Content-Type: \r\n", "Content-Type: ;;;\r\n",
		"Content-Type: text / event-stream\r\n", "X-Content-Type: text/event-stream\r\n",
	},
}

var replyCTKeys = []string{"none", "sse", "sse-variant", "sse-void", "other", "look-alike"}

var replyFramings = []string{
	"none", "cl-exact", "cl-zero", "cl-huge", "cl-short", "cl-long", "cl-negative", "cl-junk", "cl-dup-same", "cl-dup-diff",
	"chunked", "chunked-bad", "chunked-open", "te-unknown", "te-dup", "te-list", "te-and-cl", "te-and-bad-cl",
}

// the ones net/http reads a message from (possibly one that ends early)
var replyFramingsAccepted = []string{"none", "cl-exact", "cl-zero", "cl-huge", "cl-short", "cl-long", "cl-dup-same", "chunked", "chunked-open", "te-and-cl"}

// replyFraming returns the framing field lines and the bytes that follow the head for a payload.
func replyFraming(r *core.Rand, kind string, payload []byte) (fields string, wire []byte) {
	n := len(payload)
	chunks := func() []byte {
		var sizes []int
		for i := r.Range(0, 3); i > 0; i-- {
			sizes = append(sizes, r.Range(1, n/2+1))
		}
		return rig.ChunkEncode(payload, sizes, nil)
	}
	switch kind {
	case "none":
		return "", payload
	case "cl-exact":
		return fmt.Sprintf("Content-Length: %d\r\n", n), payload
	case "cl-zero":
		return "Content-Length: 0\r\n", payload
	case "cl-huge":
		return "Content-Length: " + core.Pick(r, []string{"9999999999", "9223372036854775807", "18446744073709551616", "99999999999999999999999"}) + "\r\n", payload
	case "cl-short":
		return fmt.Sprintf("Content-Length: %d\r\n", n/2), payload
	case "cl-long":
		return fmt.Sprintf("Content-Length: %d\r\n", n+r.Range(1, 9)), payload
	case "cl-negative":
		return "Content-Length: " + core.Pick(r, []string{"-1", "-5", "-0"}) + "\r\n", payload
	case "cl-junk":
		return "Content-Length: " + core.Pick(r, []string{"12abc", "+5", "0x10", "5 5", "", "1e3", "５"}) + "\r\n", payload
	case "cl-dup-same":
		return fmt.Sprintf("Content-Length: %d\r\nContent-Length: %d\r\n", n, n), payload
	case "cl-dup-diff":
		return fmt.Sprintf("Content-Length: %d\r\nContent-Length: %d\r\n", n, n+1), payload
	case "chunked":
		return "Transfer-Encoding: chunked\r\n", chunks()
	case "chunked-bad":
		return "Transfer-Encoding: chunked\r\n", append([]byte(core.Pick(r, []string{"zz\r\n", "-1\r\n", "5\r\nab", "ffffffffffffffffff\r\n", "3\r\nabcXY"})), payload...)
	case "chunked-open":
		w := chunks()
		return "Transfer-Encoding: chunked\r\n", w[:len(w)-5] // the terminating chunk is missing
	case "te-unknown":
		return "Transfer-Encoding: " + core.Pick(r, []string{"gzip", "identity", "bogus", ""}) + "\r\n", payload
	case "te-dup":
		return "Transfer-Encoding: chunked\r\nTransfer-Encoding: chunked\r\n", chunks()
	case "te-list":
		return "Transfer-Encoding: " + core.Pick(r, []string{"gzip, chunked", "chunked, chunked", "chunked, identity"}) + "\r\n", chunks()
	case "te-and-cl":
		return fmt.Sprintf("Transfer-Encoding: chunked\r\nContent-Length: %d\r\n", n), chunks()
	case "te-and-bad-cl":
		return "Content-Length: -3\r\nTransfer-Encoding: chunked\r\n", chunks()
	}
	return "", payload
}

type replyReq struct {
	method, up string // request method, protocol the request asks to upgrade to
}

var replyReqs = []replyReq{{"GET", ""}, {"HEAD", ""}, {"POST", ""}, {"GET", "websocket"}}

// buildReply renders one reply of the product space; it returns head(s) and the wire bytes that follow.
func buildReply(r *core.Rand, st replyStatus, upKey, ctKey, frKey string, withBody bool, reqUp string) (head string, wire []byte) {
	tok := reqUp
	if tok == "" {
		tok = "websocket"
	}
	up := core.Pick(r, replyUpgrades[upKey])
	if strings.Contains(up, "%s") {
		up = strings.ReplaceAll(up, "%s", tok)
	}
	ct := core.Pick(r, replyCTs[ctKey])
	var payload []byte
	if withBody {
		n := r.Range(1, 40)
		if r.Chance(4) {
			n = r.Range(33000, 70000)
		}
		payload = textBody(r, n)
		if ctKey == "sse" || ctKey == "sse-variant" {
			payload = append([]byte("data: "), append(payload, "\n\n"...)...)
		}
	}
	fr, wire := replyFraming(r, frKey, payload)
	minor := 1
	if r.Chance(8) {
		minor = 0
	}
	extra := ""
	if st.code == 407 {
		extra = "Proxy-Authenticate: Basic realm=\"up\"\r\n"
	}
	// the order of the groups varies
	groups := []string{up, ct, fr, extra}
	if r.Chance(40) {
		core.Shuffle(r, groups)
	}
	head = fmt.Sprintf("HTTP/1.%d %s\r\n%s\r\n", minor, st.line, strings.Join(groups, ""))
	if st.code/100 == 1 && st.code != 101 {
		// an interim reply: the transport goes on reading; what follows decides
		switch r.Intn(6) {
		case 0: // nothing follows
		case 1: // another interim reply, then the final one
			head += "HTTP/1.1 103 Early Hints\r\nLink: </x>; rel=preload\r\n\r\n" + "HTTP/1.1 200 OK\r\nContent-Length: 5\r\n\r\n"
			wire = append(append([]byte{}, wire...), "final"...)
		case 2: // more interim replies than the transport takes
			head += strings.Repeat("HTTP/1.1 102 Processing\r\n\r\n", 6) + "HTTP/1.1 200 OK\r\nContent-Length: 5\r\n\r\n"
			wire = append(append([]byte{}, wire...), "final"...)
		default: // the final reply
			if len(wire) == 0 {
				head += "HTTP/1.1 200 OK\r\nContent-Length: 5\r\n\r\n"
				wire = []byte("final")
			}
			// with bytes behind the interim head those are what the transport parses next
		}
	}
	return head, wire
}

func (g *gen) addReply(st replyStatus, upKey, ctKey, frKey string, withBody bool, rq replyReq, via, upstream, at string) {
	r := g.r
	head, wire := buildReply(r, st, upKey, ctKey, frKey, withBody, rq.up)
	c := &Case{Kind: "reply", Via: via, Upstream: upstream, Method: rq.method, ReqUp: rq.up, At: at, K: -1, After: "fin",
		Dims: fmt.Sprintf("%03d/%s/%s/%s/%s", st.code, upKey, ctKey, frKey, map[bool]string{true: "body", false: "nobody"}[withBody])}
	if st.code == 101 && r.Bool() {
		c.After = "keep" // the peer goes on serving what comes through the tunnel
	}
	if at == "connect" {
		c.Method = ""
		c.ReplyHex = core.Hex(append([]byte(head), wire...))
		if via != "connect" {
			c.Method = rq.method
		}
	} else {
		c.HeadHex = core.HexS(head)
		c.BodyHex = core.Hex(wire)
	}
	if rq.up == "" && r.Chance(12) {
		c.ReqClose = true
	}
	g.add(c)
	c.ReqMinor = 1
}

func genReplies(g *gen, quick bool) {
	r := g.r
	vias := []string{"plain", "plain", "https", "mitm"}
	ups := []string{"", "", "up"}
	pickOdd := func(keys []string, common ...string) string {
		var odd []string
		for _, k := range keys {
			c := false
			for _, x := range common {
				c = c || x == k
			}
			if !c {
				odd = append(odd, k)
			}
		}
		return core.Pick(r, odd)
	}
	// the core: every status x upgrade class x content-type class x request kind (framing, body, path drawn)
	upClasses := func() []string { return []string{"none", "match", pickOdd(replyUpgradeKeys, "none", "match")} }
	ctClasses := func() []string { return []string{"none", "sse", "sse-variant", pickOdd(replyCTKeys, "none", "sse", "sse-variant")} }
	if !quick {
		upClasses = func() []string { return replyUpgradeKeys }
		ctClasses = func() []string { return replyCTKeys }
	}
	for _, st := range replyStatuses {
		for _, upKey := range upClasses() {
			for _, ctKey := range ctClasses() {
				for _, rq := range replyReqs {
					// mostly framings the reader accepts: the reply has to get as far as writeResponse
					frKey := core.Pick(r, replyFramingsAccepted)
					if r.Chance(20) {
						frKey = core.Pick(r, replyFramings)
					}
					g.addReply(st, upKey, ctKey, frKey, r.Chance(60), rq, core.Pick(r, vias), core.Pick(r, ups), "origin")
				}
			}
		}
	}
	// every status x framing x body (the other coordinates drawn)
	for _, st := range replyStatuses {
		for _, frKey := range replyFramings {
			for _, body := range []bool{false, true} {
				if quick && r.Chance(50) {
					continue
				}
				g.addReply(st, core.Pick(r, replyUpgradeKeys), core.Pick(r, replyCTKeys), frKey, body, core.Pick(r, replyReqs), core.Pick(r, vias), core.Pick(r, ups), "origin")
			}
		}
	}
	// the whole space, sampled
	n := 150
	if !quick {
		n = 9000
	}
	for i := 0; i < n; i++ {
		g.addReply(core.Pick(r, replyStatuses), core.Pick(r, replyUpgradeKeys), core.Pick(r, replyCTKeys), core.Pick(r, replyFramings), r.Bool(),
			core.Pick(r, replyReqs), core.Pick(r, vias), core.Pick(r, ups), "origin")
	}
	// the reply answers a CONNECT to the upstream proxy: the client's, or the transport's own
	for _, st := range replyStatuses {
		for _, upKey := range []string{"none", "match"} {
			for _, ctKey := range []string{"none", "sse", pickOdd(replyCTKeys, "none", "sse")} {
				cvias := []string{"connect", core.Pick(r, []string{"https", "mitm"})}
				if !quick {
					cvias = []string{"connect", "https", "mitm"}
				}
				for _, via := range cvias {
					g.addReply(st, upKey, ctKey, core.Pick(r, replyFramings), r.Chance(60), core.Pick(r, replyReqs[:3]), via, "up", "connect")
				}
			}
		}
	}
}

// ---- what the reply means to the code that reads it (net/http), computed from the input ----

type replyMeaning struct {
	reject  string // non-empty: the reader refuses the reply (why)
	status  int
	major   int
	minor   int
	header  http.Header
	cl      int64
	body    []byte // the message body as read
	bodyErr bool   // reading it fails before its end
	dupCT   bool   // Content-Type: base type text/event-stream voided by conflicting parameters
	switchP bool   // a protocol switch in the transport's eyes
}

// meaningOf reads the reply the way the reader on that path does: http.Transport for a request (interim
// replies skipped, at most five), http.ReadResponse alone for the reply to a CONNECT.
func meaningOf(reply []byte, method string, viaTransport bool) replyMeaning {
	br := bufio.NewReader(bytes.NewReader(reply))
	var hr *http.Response
	for n1xx := 0; ; {
		var err error
		hr, err = http.ReadResponse(br, &http.Request{Method: method})
		if err != nil {
			return replyMeaning{reject: err.Error()}
		}
		if viaTransport && hr.StatusCode >= 100 && hr.StatusCode <= 199 && hr.StatusCode != 101 {
			n1xx++
			if n1xx > 5 {
				return replyMeaning{reject: "too many 1xx informational responses"}
			}
			continue
		}
		break
	}
	m := replyMeaning{status: hr.StatusCode, major: hr.ProtoMajor, minor: hr.ProtoMinor, header: hr.Header, cl: hr.ContentLength}
	b, err := io.ReadAll(hr.Body)
	m.body, m.bodyErr = b, err != nil
	ct := hr.Header.Get("Content-Type")
	base, _, _ := strings.Cut(ct, ";")
	if mt, _, _ := mime.ParseMediaType(ct); strings.TrimSpace(strings.ToLower(base)) == "text/event-stream" && mt == "" {
		m.dupCT = true
	}
	up := false
	for _, v := range hr.Header["Connection"] {
		for _, t := range strings.Split(v, ",") {
			up = up || strings.EqualFold(strings.TrimSpace(t), "upgrade")
		}
	}
	m.switchP = hr.StatusCode == 101 && up && hr.Header.Get("Upgrade") != ""
	return m
}

func hdrTok(h http.Header) string {
	var keys []string
	for k := range h {
		keys = append(keys, k)
	}
	sort.Strings(keys)
	var ents []string
	for _, k := range keys {
		atoms := []string{core.HexS(k)}
		for _, v := range h[k] {
			atoms = append(atoms, core.HexS(v))
		}
		ents = append(ents, core.JoinList(atoms))
	}
	return core.JoinList2(ents)
}

func (c *Case) replyBytes() []byte {
	if c.At == "connect" {
		return core.MustUnHex(orEmpty(c.ReplyHex))
	}
	return c.reply()
}

func replyIs2xx(b []byte) bool {
	return len(b) >= 10 && bytes.HasPrefix(b, []byte("HTTP/1.")) && b[8] == ' ' && b[9] == '2'
}

const (
	clauseReply   = "every upstream reply ends cleanly for the client: a complete well-formed response, an error response with X-Forwarder-Error, or a close after the head"
	clauseWriter  = "what handle makes of an accepted upstream reply = Model.C12.relay (writer selection of writeResponse; the body of a header-only response is not touched)"
	clauseMeaning = "a response that parses as complete carries the upstream's message"
)

// judgeReply evaluates one case of the reply product space: the property's clauses directly on what the
// client read, and the correspondence with the model's `relay` where the reply reaches writeResponse.
func judgeReply(ctx *core.Ctx, c *Case, o *Obs) {
	impl := describeObs(o)
	class := knownClass(c)
	d := strings.Split(c.Dims, "/")
	for len(d) < 5 {
		d = append(d, "?")
	}
	ctx.Count("reply/at-" + c.At + "/" + c.Via + map[string]string{"": "", "up": "+upstream"}[c.Upstream])
	ctx.Count("reply/status/" + d[0])
	ctx.Count("reply/upgrade/" + d[1])
	ctx.Count("reply/content-type/" + d[2])
	ctx.Count("reply/framing/" + d[3])
	ctx.Count("reply/" + d[4])
	method := "GET"
	if c.Method != "" {
		method = c.Method
	}
	if c.Via == "connect" {
		method = "CONNECT"
	}
	ctx.Count("reply/request/" + method + map[bool]string{true: "+upgrade", false: ""}[c.ReqUp != ""])
	fail := func(clause, detail string) { ctx.SpecFail(clause, class, c, impl, detail) }
	if o.Setup != "" {
		ctx.SpecFail(clauseServing, "", c, impl, "the client could not reach the point of sending its request: "+o.Setup)
		return
	}
	s := look(c, o, method)
	kind := s.kind
	if kind == "relayed" {
		kind = "complete"
	}
	ctx.Count("reply/seen/" + kind)
	res := s.res

	// ---- the property, evaluated directly ----
	switch kind {
	case "silent":
		fail(clauseReply, "no byte and no close within the wait")
	case "unparsable", "partial-head":
		fail(clauseReply, fmt.Sprintf("the stream is not the beginning of an HTTP/1 response (%v)", s.err))
	case "close":
		fail(clauseReply, "connection closed without any response to what the upstream sent")
	case "error":
		if (res.Framing != "cl" && method != "HEAD") || !res.Complete || (res.Proto != "HTTP/1.1" && res.Proto != "HTTP/1.0") {
			fail(clauseFramed, fmt.Sprintf("proto=%s framing=%s complete=%v", res.Proto, res.Framing, res.Complete))
		}
		if res.Status/100 != 5 {
			fail(clauseStatus, fmt.Sprintf("status %d for an upstream fault, the property asks for 5xx", res.Status))
		}
		if s.extra > 0 || s.garbage {
			fail(clauseForeign, fmt.Sprintf("%d stray bytes after the error response (follow-up: %.80s)", s.extra, o.Follow))
		}
	case "complete", "tunnel":
		if res.Proto != "HTTP/1.1" && res.Proto != "HTTP/1.0" {
			fail(clauseReply, "status line "+strconv.Quote(strings.SplitN(string(res.HeadBytes), "\r\n", 2)[0]))
		}
		if (s.extra > 0 || s.garbage) && o.Follow != "tunnel" {
			// (behind a 2xx answer to CONNECT and behind a 101 the bytes are the tunnelled protocol's)
			fail(clauseForeign, fmt.Sprintf("%d stray bytes after the response (follow-up: %.80s)", s.extra, o.Follow))
		}
		if o.Follow == "timeout" {
			fail(clauseServing, "after a complete response the connection stays open but the next request is not answered")
		}
	case "prefix":
		if o.Closed != "fin" && o.Closed != "rst" {
			fail(clauseClose, "the connection stays open after a response that stops short: "+o.Closed)
		}
	}
	for _, m := range hostIDRe.FindAllStringSubmatch(strings.ToLower(string(core.MustUnHex(orEmpty(o.RawHex)))), -1) {
		if m[1] != strings.ToLower(c.ID) && m[1] != "follow" {
			fail(clauseForeign, "the stream names another exchange: "+m[0])
			break
		}
	}

	// ---- correspondence: what the reply means to its reader, what handle makes of it ----
	transportConnect := c.At == "connect" && c.Via != "connect"
	if transportConnect {
		// the proxy transport's own CONNECT: a non-2xx reply is relayed (F12 path, judged by the connect
		// cases), a 2xx reply starts TLS on a stream the reply's extra bytes may or may not have polluted
		// (they are dropped with the transport's read buffer or not, by segmentation): the clauses above decide
		ctx.TraceValidated()
		return
	}
	m := meaningOf(c.replyBytes(), method, c.At != "connect")
	if m.reject != "" {
		ctx.Count("reply/reader/rejects")
		if kind != "error" {
			ctx.Disagree("a reply its reader refuses is answered with an error response", c, kind+" | "+impl, "error response (reader: "+m.reject+")")
		} else {
			ctx.TraceValidated()
		}
		return
	}
	ctx.Count("reply/reader/accepts")
	ans := ctx.Model.MustAsk("C12", "relay", "method="+core.HexS(method), "status="+core.Itoa(m.status), "hdr="+hdrTok(m.header),
		"major="+core.Itoa(m.major), "minor="+core.Itoa(m.minor), "cl="+strconv.FormatInt(m.cl, 10), "dup="+core.B01(m.dupCT))
	f := strings.Fields(ans)
	ctx.Count("reply/model/" + strings.Join(f[:min(2, len(f))], "-"))
	bad := func(detail string) {
		ctx.Disagree(clauseWriter, c, kind+" | "+detail+" | "+impl, ans)
	}
	switch f[0] {
	case "panicked":
		// the model never answers this (c12_upstream_reply_never_panics); kept so that a changed model shows
		bad("the model predicts a panic")
		return
	case "closed":
		// the model never answers this (c12_accepted_reply_answered); kept so that a changed model shows
		if kind != "close" {
			bad("a response although handle ends the connection before writing")
			return
		}
	case "error":
		// the reply is not passed on (a 101 that is no protocol switch): an error response of the model's status
		if kind != "error" || len(f) < 2 || strconv.Itoa(res.Status) != f[1] {
			bad("no error response of the model's status")
			return
		}
		wantKA := !c.reqClose()
		if s.ka != wantKA && o.Follow != "timeout" {
			ctx.Disagree("an error response keeps the connection unless the request said close", c, fmt.Sprintf("keep-alive=%v follow=%s", s.ka, o.Follow), fmt.Sprint(wantKA))
			return
		}
		ctx.Count("reply/not-a-switch/answered-" + f[1])
	case "wrote":
		if kind != "complete" && kind != "tunnel" && kind != "prefix" {
			bad("no response of the upstream's status")
			return
		}
		if res.Status != m.status && f[1] != "connect-ok" {
			bad(fmt.Sprintf("status %d, the upstream's is %d", res.Status, m.status))
			return
		}
		switch f[1] {
		case "connect-ok":
			first := core.MustUnHex(orEmpty(o.RawHex))
			if !bytes.HasPrefix(first, []byte("HTTP/1.1 200 OK\r\n\r\n")) {
				bad("a 2xx answer to CONNECT that is not the literal")
				return
			}
		case "header-only":
			// the body is not touched: the message ends with its head, whatever framing fields it shows
			if len(res.Body) != 0 || res.Framing != "none" || !res.Complete {
				bad(fmt.Sprintf("a header-only response with framing %s and %d body bytes", res.Framing, len(res.Body)))
				return
			}
		default:
			// the body is read and relayed: completely, or up to where reading it fails
			switch {
			case kind == "complete" && m.bodyErr && res.Framing != "eof":
				ctx.SpecFail(clauseMeaning, class, c, impl, fmt.Sprintf("complete with %d body bytes although the upstream's body ends before its announced end", len(res.Body)))
			case kind == "complete" && !bytes.Equal(res.Body, m.body) && !(m.bodyErr && bytes.HasPrefix(m.body, res.Body)):
				ctx.SpecFail(clauseMeaning, class, c, impl, fmt.Sprintf("complete with %d body bytes, the upstream's message has %d", len(res.Body), len(m.body)))
			case kind == "prefix" && !bytes.HasPrefix(m.body, res.Body):
				ctx.SpecFail(clauseForeign, class, c, impl, fmt.Sprintf("the %d body bytes received are not a prefix of the upstream's body", len(res.Body)))
			case kind == "prefix" && !m.bodyErr && o.RawLen <= rawCap:
				bad("the response stops short although the upstream's message is complete")
				return
			}
		}
	}
	ctx.TraceValidated()
}
