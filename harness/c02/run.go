package c02

import (
	"bytes"
	"encoding/json"
	"fmt"
	"io"
	"log"
	"os"
	"strings"
	"sync"
	"time"

	"github.com/saucelabs/forwarder"
	"github.com/saucelabs/forwarder/verifharness/core"
	"github.com/saucelabs/forwarder/verifharness/rig"
)

type envKey struct{ mode, rules string }

type envPool struct {
	mu   sync.Mutex
	envs map[envKey]*env
	ctx  *core.Ctx
}

func (p *envPool) get(mode string, rules []string) (*env, error) {
	k := envKey{mode, fmt.Sprint(rules)}
	p.mu.Lock()
	defer p.mu.Unlock()
	if e, ok := p.envs[k]; ok {
		return e, nil
	}
	e, err := newEnv(p.ctx, mode, rules)
	if err != nil {
		return nil, err
	}
	p.envs[k] = e
	return e, nil
}

func (p *envPool) closeAll() {
	for _, e := range p.envs {
		e.close()
	}
}

func Run(ctx *core.Ctx) {
	ctx.SetRule("client connections of 1-5 exchanges: GET/HEAD/POST, client HTTP/1.0|1.1, Connection option, Accept-Encoding present or absent, against generated origin " +
		"responses (status mix incl. 204/304, custom reasons, repeated fields, hop-by-hop and Connection-nominated fields, Content-Length/chunked/close-delimited bodies " +
		"of sizes around 4 KiB/32 KiB, trailers, gzip, origin HTTP/1.0, head/chunk/CRLF boundaries split across origin writes), direct and MITM, with and without " +
		"response-header rules; plus event-stream / chunked delivery cases where the origin stalls after each event; plus sequences of 2-4 streamed " +
		"(event stream chunked / with Content-Length / close-delimited, chunked, close-delimited unknown length) and non-streamed (Content-Length, 204, HEAD) " +
		"responses on ONE keep-alive connection in every order of kinds, the origin stalling after the head and after every piece (pieces ending in / " +
		"starting with half a flush pattern, also across responses), client byte counts at each stall compared with Flush.Conn.replies; plus connections with " +
		"LOCALLY ANSWERED exchanges (407 no/wrong proxy credentials, 403 deny-domains / localhost denial, 451 outside the time frame, 400+close Via loop; direct and MITM) " +
		"whose requests carry bodies (Content-Length ≤4 KiB / >4 KiB / >64 KiB, chunked with and without trailers, Expect: 100-continue, bodies that read like complete " +
		"HTTP requests, body with the head / after the proxy's answer / never completed), mixed with forwarded requests (also answered by an origin that puts stray body " +
		"bytes after a HEAD/204/304 head, or announces close), step by step or pipelined in one write: response k answers request k, the origin sees exactly the forwarded " +
		"requests, close exactly when announced, compared with ReqConn.serve on the bytes the client sent; plus a REASON-PHRASE GRAMMAR (standard, empty, no phrase and no " +
		"blank at all, letter-initial, starting with a digit of the status code / another digit / the whole code once or twice / the code glued to text, digits only, " +
		"leading blanks, tabs, trailing blanks, containing HTTP/1.1, 1-6 KiB, bytes >= 0x80, random mixes, extra blanks before the code) on one exchange in four and as a " +
		"matrix kind x {HEAD with 200/404/301/503/204/304, GET/POST 204, GET 304 = the header-only writer; bodies with 200/201/302/404/429/500/599 = Response.Write}: the first " +
		"line the client receives is compared byte for byte with Model/RespStatus (RESP statusline) and with the origin's line (a line that ends after the code promises no phrase at the client either; " +
		"the code writes the code again in its place: known finding F50, class decided from the input, what is written still held to the model); plus SLOW ORIGIN BODIES under proxies configured with every " +
		"combination of ReadTimeout / ReadHeaderTimeout / IdleTimeout / WriteTimeout in {not set, 300-500 ms}: head at once, body (Content-Length, chunked, " +
		"close-delimited, event stream; direct and MITM) in 3-5 pieces over 2-4x the largest limit, the client reads promptly: whenever WriteTimeout is not set the " +
		"complete response must arrive whatever the other limits are (Model/RespRelay relayWriteDeadline; a failed attempt is repeated twice before it counts); " +
		"configurations WITH a WriteTimeout are neither run nor judged here - one absolute write deadline per response is C15's recorded finding F45; " +
		"non-trivial = anything but a plain 200 with " +
		"Content-Length; distinct = distinct (configuration, exchange)")
	pool := &envPool{envs: map[envKey]*env{}, ctx: ctx}
	defer pool.closeAll()
	for _, c := range core.LoadCorpus(ctx.Root, "C02") {
		replayWith(ctx, pool, c)
	}
	nConn := ctx.N(900, 25000)
	jobs := make(chan *connCase, 64)
	var wg sync.WaitGroup
	for w := 0; w < 12; w++ {
		wg.Add(1)
		go func() {
			defer wg.Done()
			for cc := range jobs {
				e, err := pool.get(cc.Mode, cc.Rules)
				if err != nil {
					ctx.Crash("proxy starts with a valid configuration", "", cc, err.Error())
					continue
				}
				e.runConn(ctx, cc)
			}
		}()
	}
	for i := 0; i < nConn; i++ {
		r := ctx.Rng.Sub()
		cc := genConn(r)
		if i < 3 {
			ctx.Sample(cc)
		}
		jobs <- cc
	}
	// the reason-phrase grammar on every path of the status line (thorough: three rounds)
	for round, n := 0, ctx.N(1, 3); round < n; round++ {
		for i, cc := range reasonMatrix(ctx.Rng.Sub()) {
			if round == 0 && i == 70 {
				ctx.Sample(cc)
			}
			jobs <- cc
		}
	}
	close(jobs)
	wg.Wait()

	// incremental delivery
	nStream := ctx.N(24, 400)
	sjobs := make(chan *streamCase, 16)
	for w := 0; w < 8; w++ {
		wg.Add(1)
		go func() {
			defer wg.Done()
			for sc := range sjobs {
				runStream(ctx, sc)
			}
		}()
	}
	for i := 0; i < nStream; i++ {
		r := ctx.Rng.Sub()
		sc := genStream(r)
		if i == 0 {
			ctx.Sample(sc)
		}
		sjobs <- sc
	}
	close(sjobs)
	wg.Wait()

	// sequences of streamed / non-streamed responses on one keep-alive connection: every ordered pair of
	// kinds, then random sequences of 2-4
	seqjobs := make(chan *seqCase, 16)
	for w := 0; w < 10; w++ {
		wg.Add(1)
		go func() {
			defer wg.Done()
			for sc := range seqjobs {
				runSeq(ctx, sc)
			}
		}()
	}
	for i, kinds := range seqPairs() {
		r := ctx.Rng.Sub()
		sc := genSeqOf(r, kinds)
		if i == 0 {
			ctx.Sample(sc)
		}
		seqjobs <- sc
	}
	for i, nSeq := 0, ctx.N(20, 500); i < nSeq; i++ {
		r := ctx.Rng.Sub()
		seqjobs <- genSeq(r)
	}
	close(seqjobs)
	wg.Wait()

	// connections with locally answered exchanges (request bodies of refused requests, pipelining)
	lpool := &lenvPool{envs: map[string]*lenv{}, ctx: ctx}
	defer lpool.closeAll()
	// (net/http's transport reports the origin's stray bytes on the process-wide standard logger)
	log.SetOutput(io.Discard)
	defer log.SetOutput(os.Stderr)
	ljobs := make(chan *localCase, 16)
	for w := 0; w < 10; w++ {
		wg.Add(1)
		go func() {
			defer wg.Done()
			for lc := range ljobs {
				runLocal(ctx, lpool, lc)
			}
		}()
	}
	for i, lc := range localMatrix(ctx.Rng.Sub()) {
		if i == 5 {
			ctx.Sample(lc)
		}
		ljobs <- lc
	}
	for i, n := 0, ctx.N(150, 4000); i < n; i++ {
		ljobs <- genLocal(ctx.Rng.Sub())
	}
	close(ljobs)
	wg.Wait()

	// slow origin bodies under every combination of the connection limits (all at once: they mostly wait)
	spool := &slowPool{envs: map[string]*env{}, ctx: ctx}
	defer spool.closeAll()
	for i, sc := range slowMatrix(ctx, ctx.Rng.Sub()) {
		if i == 0 {
			ctx.Sample(sc)
		}
		wg.Add(1)
		go func(sc *slowCase) {
			defer wg.Done()
			runSlow(ctx, spool, sc)
		}(sc)
	}
	wg.Wait()

	// torn bodies
	for _, f := range []string{"garbage-chunk", "corrupt-gzip", "short-cl"} {
		for _, size := range []int{10, 3000, 40000}[:ctx.N(2, 3)] {
			runTorn(ctx, &tornCase{Kind: "torn", Fault: f, Size: size})
		}
	}
}

func replayWith(ctx *core.Ctx, pool *envPool, raw json.RawMessage) {
	var k struct {
		Kind string `json:"kind"`
	}
	json.Unmarshal(raw, &k)
	var cc connCase
	switch k.Kind {
	case "stream":
		var sc streamCase
		json.Unmarshal(raw, &sc)
		runStream(ctx, &sc)
		return
	case "seq":
		var sc seqCase
		json.Unmarshal(raw, &sc)
		runSeq(ctx, &sc)
		return
	case "local":
		var lc localCase
		json.Unmarshal(raw, &lc)
		lpool := &lenvPool{envs: map[string]*lenv{}, ctx: ctx}
		defer lpool.closeAll()
		runLocal(ctx, lpool, &lc)
		return
	case "slow":
		var sc slowCase
		json.Unmarshal(raw, &sc)
		spool := &slowPool{envs: map[string]*env{}, ctx: ctx}
		defer spool.closeAll()
		runSlow(ctx, spool, &sc)
		return
	case "torn":
		var tc tornCase
		json.Unmarshal(raw, &tc)
		runTorn(ctx, &tc)
		return
	case "one":
		var o oneEx
		json.Unmarshal(raw, &o)
		cc = connCase{Kind: "conn", Mode: o.Mode, Rules: o.Rules, Exchanges: []*exchange{o.Exchange}}
	default:
		json.Unmarshal(raw, &cc)
	}
	e, err := pool.get(cc.Mode, cc.Rules)
	if err != nil {
		ctx.Crash("proxy starts with a valid configuration", "", cc, err.Error())
		return
	}
	e.runConn(ctx, &cc)
}

func Replay(ctx *core.Ctx, raw json.RawMessage) {
	pool := &envPool{envs: map[envKey]*env{}, ctx: ctx}
	defer pool.closeAll()
	replayWith(ctx, pool, raw)
}

// ---- incremental delivery (event streams and chunked bodies) ----

type streamCase struct {
	Kind   string   `json:"kind"`   // "stream"
	Shape  string   `json:"shape"`  // "sse-eof" | "sse-chunked" | "chunked"
	Split  bool     `json:"split"`  // the terminating pattern / the chunk is split across two origin writes
	Pieces []string `json:"pieces"` // hex; each is one event (SSE) or one chunk
}

func genStream(r *core.Rand) *streamCase {
	sc := &streamCase{Kind: "stream", Shape: core.Pick(r, []string{"sse-eof", "sse-chunked", "chunked"}), Split: r.Chance(50)}
	n := r.Range(2, 5)
	for i := 0; i < n; i++ {
		var p []byte
		size := core.Pick(r, []int{1, 10, 200, 3000, 5000})
		if strings.HasPrefix(sc.Shape, "sse") {
			p = []byte(fmt.Sprintf("id: %d\ndata: %s\n\n", i, strings.Repeat("e", size)))
		} else {
			p = bytes.Repeat([]byte{byte('a' + i)}, size)
		}
		sc.Pieces = append(sc.Pieces, core.Hex(p))
	}
	return sc
}

func runStream(ctx *core.Ctx, sc *streamCase) {
	key, _ := json.Marshal(sc)
	ctx.Case(string(key), true)
	ctx.Count("stream/" + sc.Shape + map[bool]string{true: "/split", false: "/whole"}[sc.Split])
	acks := make(chan struct{}, 16)
	done := make(chan struct{})
	var doneOnce sync.Once // the proxy may open more than one origin connection (seen under heavy machine load)
	origin, err := rig.NewRawPeer("stream-origin", func(pc *rig.PeerConn) {
		defer doneOnce.Do(func() { close(done) })
		if _, err := rig.ReadRequest(pc.BR); err != nil {
			return
		}
		chunked := sc.Shape != "sse-eof"
		ct := "application/octet-stream"
		if strings.HasPrefix(sc.Shape, "sse") {
			ct = "text/event-stream"
		}
		head := "HTTP/1.1 200 OK\r\nContent-Type: " + ct + "\r\n"
		if chunked {
			head += "Transfer-Encoding: chunked\r\n"
		}
		pc.Write([]byte(head + "\r\n"))
		for _, ph := range sc.Pieces {
			p := core.MustUnHex(ph)
			var wire []byte
			if chunked {
				wire = []byte(fmt.Sprintf("%x\r\n%s\r\n", len(p), p))
			} else {
				wire = p
			}
			if sc.Split && len(wire) > 1 {
				cut := len(wire) - 1
				if chunked {
					cut = len(wire) - 3 // before the last data byte: the chunk's tail arrives later
					if strings.HasPrefix(sc.Shape, "sse") {
						cut = len(wire) - 3 // ... "\n" | "\n\r\n"
					}
				}
				pc.Write(wire[:cut])
				time.Sleep(40 * time.Millisecond)
				pc.Write(wire[cut:])
			} else {
				pc.Write(wire)
			}
			select {
			case <-acks:
			case <-time.After(4 * time.Second):
				return
			}
		}
		if chunked {
			pc.Write([]byte("0\r\n\r\n"))
		}
	})
	if err != nil {
		core.Fatalf("stream origin: %v", err)
	}
	defer origin.Close()
	p, err := rig.StartProxy(rig.ProxyOpts{ConnectTo: []forwarder.HostPortPair{rig.Route("stream.test", "80", origin.Addr)}})
	if err != nil {
		ctx.Crash("proxy starts with a valid configuration", "", sc, err.Error())
		return
	}
	defer p.Stop()
	c, err := rig.Dial(p.Addr)
	if err != nil {
		ctx.Crash("proxy accepts a client connection", "", sc, err.Error())
		return
	}
	defer c.Close()
	c.Send([]byte("GET /events HTTP/1.1\r\nHost: stream.test\r\nAccept: text/event-stream\r\n\r\n"), nil)
	var got bytes.Buffer
	buf := make([]byte, 64<<10)
	for i, ph := range sc.Pieces {
		piece := core.MustUnHex(ph)
		deadline := time.Now().Add(2500 * time.Millisecond)
		for !bytes.Contains(got.Bytes(), piece) {
			c.Conn.SetReadDeadline(deadline)
			n, err := c.BR.Read(buf)
			got.Write(buf[:n])
			if err != nil {
				if !bytes.Contains(got.Bytes(), piece) {
					what := "event"
					if sc.Shape == "chunked" {
						what = "chunk"
					}
					ctx.SpecFail("an event or chunk the origin has sent is delivered without waiting for later body bytes", "", sc,
						fmt.Sprintf("client has %d bytes after waiting 2.5s for %s %d (%v)", got.Len(), what, i, err), "piece not delivered while the origin stalls")
					ctx.Disagree("flush after every complete event/chunk (Model.Resp flush points)", sc, "not delivered", "delivered")
					return
				}
				break
			}
		}
		acks <- struct{}{}
	}
	ctx.TraceValidated()
	c.Conn.SetReadDeadline(time.Now().Add(2 * time.Second))
	io.Copy(io.Discard, c.BR)
	select {
	case <-done:
	case <-time.After(time.Second):
	}
}

// ---- torn bodies: the origin's body goes bad after the head was relayed ----

// tornCase: the origin sends a valid head and first part of the body, then something the proxy cannot
// relay (a garbage chunk-size line, a corrupt gzip stream, fewer bytes than Content-Length then FIN).
// The proxy has already sent the response head, so the only clean outcome is: the client sees an
// incomplete message and the connection is closed — never a later response inside this body.
type tornCase struct {
	Kind  string `json:"kind"`  // "torn"
	Fault string `json:"fault"` // "garbage-chunk" | "corrupt-gzip" | "short-cl"
	Size  int    `json:"size"`
}

func runTorn(ctx *core.Ctx, tc *tornCase) {
	key, _ := json.Marshal(tc)
	ctx.Case(string(key), true)
	ctx.Count("torn/" + tc.Fault)
	payload := bytes.Repeat([]byte("torn body "), tc.Size/10+1)[:tc.Size]
	origin, err := rig.NewPeer("torn-origin", func(w *rig.PeerConn, ex *rig.Exchange) bool {
		if ex.Req.Get("Case-Id") != "torn" {
			w.Write([]byte("HTTP/1.1 200 OK\r\nContent-Length: 15\r\nX-Echo-Id: second\r\n\r\nsecond-response"))
			return true
		}
		switch tc.Fault {
		case "garbage-chunk":
			fmt.Fprintf(w, "HTTP/1.1 200 OK\r\nTransfer-Encoding: chunked\r\nX-Echo-Id: torn\r\n\r\n%x\r\n%s\r\n", len(payload), payload)
			time.Sleep(30 * time.Millisecond)
			w.Write([]byte("ZZ\r\nnot a chunk\r\n0\r\n\r\n"))
			return true
		case "corrupt-gzip":
			var zb bytes.Buffer
			zw := gzipWriter(&zb)
			zw.Write(payload)
			zw.Close()
			z := zb.Bytes()
			for i := len(z) / 2; i < len(z)/2+8 && i < len(z); i++ {
				z[i] ^= 0xff
			}
			fmt.Fprintf(w, "HTTP/1.1 200 OK\r\nContent-Encoding: gzip\r\nTransfer-Encoding: chunked\r\nX-Echo-Id: torn\r\n\r\n%x\r\n", len(z))
			w.Write(z)
			w.Write([]byte("\r\n0\r\n\r\n"))
			return true
		default: // short-cl
			fmt.Fprintf(w, "HTTP/1.1 200 OK\r\nContent-Length: %d\r\nX-Echo-Id: torn\r\n\r\n", len(payload)+100)
			w.Write(payload)
			return false
		}
	})
	if err != nil {
		core.Fatalf("torn origin: %v", err)
	}
	defer origin.Close()
	p, err := rig.StartProxy(rig.ProxyOpts{ConnectTo: []forwarder.HostPortPair{rig.Route("torn.test", "80", origin.Addr)}})
	if err != nil {
		ctx.Crash("proxy starts with a valid configuration", "", tc, err.Error())
		return
	}
	defer p.Stop()
	c, err := rig.Dial(p.Addr)
	if err != nil {
		ctx.Crash("proxy accepts a client connection", "", tc, err.Error())
		return
	}
	defer c.Close()
	// two requests back to back on one connection: the second must never be answered inside the first body
	c.Send([]byte("GET /torn HTTP/1.1\r\nHost: torn.test\r\nCase-Id: torn\r\n\r\nGET /second HTTP/1.1\r\nHost: torn.test\r\nCase-Id: second\r\n\r\n"), nil)
	all, timedOut := c.ReadAll(4 * time.Second)
	impl := fmt.Sprintf("client read %d bytes, connection closed=%v, head=%q", len(all), !timedOut, firstLine(all))
	if bytes.Contains(all, []byte("second-response")) && !completeBefore(all) {
		ctx.SpecFail("no bytes of one message leak into the next", "", tc, impl, "the second response arrived inside the torn first response")
	}
	if timedOut {
		ctx.SpecFail("a response whose body cannot be completed ends with the connection", "", tc, impl, "connection left open after a torn body")
		ctx.Disagree("torn body after the head ⇒ close (Model.Resp / C12 fault model)", tc, impl, "closed")
		return
	}
	// what arrived must not parse as a complete first response
	if m, err := rig.ReadResponse(bufioReader(all), "GET"); err == nil && m.Complete && m.Get("X-Echo-Id") == "torn" && tc.Fault != "short-cl-complete" {
		ctx.SpecFail("a truncated response never parses as complete", "", tc, impl, "client-side parser accepted the torn response as complete")
	}
	ctx.TraceValidated()
}

func firstLine(b []byte) string {
	if i := bytes.IndexByte(b, '\n'); i >= 0 {
		return string(b[:i])
	}
	return string(b)
}

// completeBefore reports whether the byte stream starts with a COMPLETE first response (then a second
// one following it is legitimate).
func completeBefore(all []byte) bool {
	m, err := rig.ReadResponse(bufioReader(all), "GET")
	return err == nil && m.Complete && m.Framing != "eof"
}
