package c02

import (
	"bufio"
	"bytes"
	"compress/gzip"
	"io"
)

func gzipWriter(w io.Writer) *gzip.Writer { return gzip.NewWriter(w) }

func bufioReader(b []byte) *bufio.Reader { return bufio.NewReader(bytes.NewReader(b)) }
