// Package c02 ties the response pipeline model (Model/Resp.lean) to the real proxy: a scripted origin
// produces generated responses, a raw client reads the byte stream of 1-5 exchanges per connection
// and an independent parser splits it.
package c02

import (
	"bytes"
	"compress/gzip"
	"crypto/tls"
	"encoding/json"
	"fmt"
	"net/http"
	"sort"
	"strings"
	"sync"
	"sync/atomic"
	"time"

	"github.com/prometheus/client_golang/prometheus"
	"github.com/saucelabs/forwarder"
	"github.com/saucelabs/forwarder/header"
	"github.com/saucelabs/forwarder/verifharness/core"
	"github.com/saucelabs/forwarder/verifharness/srcgen"
	"github.com/saucelabs/forwarder/verifharness/reqmodel"
	"github.com/saucelabs/forwarder/verifharness/rig"
)

func init() { core.Register("C02", core.Scenario{Run: Run, Replay: Replay, Prepare: srcgen.PrepareC02}) }

// exchange is one request/response pair of a connection.
type exchange struct {
	ID string `json:"id"`
	// request
	Method     string `json:"method"`
	ReqMinor   int    `json:"req_minor"`
	ReqConn    string `json:"req_connection,omitempty"` // Connection option the client sends
	AcceptEnc  string `json:"accept_encoding,omitempty"`
	SendAE     bool   `json:"send_accept_encoding,omitempty"`
	ReqBodyLen int    `json:"req_body_len,omitempty"`
	// response as the origin sends it
	Minor      int         `json:"minor"`
	Status     int         `json:"status"`
	Reason     string      `json:"reason"`
	ReasonHex  string      `json:"reason_hex,omitempty"`   // the phrase in hex when it is not printable ASCII (overrides Reason)
	NoReasonSP bool        `json:"no_reason_sp,omitempty"` // the status line ends after the code: no blank, no phrase
	CodeBlanks int         `json:"code_blanks,omitempty"`  // extra blanks between the version and the code
	ReasonKind string      `json:"reason_kind,omitempty"`  // class of the phrase grammar (histogram only)
	Fields     []rig.Field `json:"fields"` // includes framing fields
	Framing    string      `json:"framing"` // "cl" | "chunked" | "eof" | "none"
	BodyHex    string      `json:"body_hex,omitempty"` // decoded (identity) body
	Gzip       bool        `json:"gzip,omitempty"`     // body is sent gzip-compressed (Content-Encoding: gzip in Fields)
	ChunkSizes []int       `json:"chunk_sizes,omitempty"`
	Trailers   []rig.Field `json:"trailers,omitempty"`
	Segments   []int       `json:"segments,omitempty"` // origin write segmentation
	OriginKeep bool        `json:"origin_keep_alive"`
}

type connCase struct {
	Kind      string      `json:"kind"` // "conn"
	Mode      string      `json:"mode"` // "direct" | "mitm"
	Rules     []string    `json:"rules,omitempty"`
	Exchanges []*exchange `json:"exchanges"`
}

func (x *exchange) body() []byte {
	if x.BodyHex == "" {
		return nil
	}
	return core.MustUnHex(x.BodyHex)
}

// reason is the origin's reason phrase as bytes.
func (x *exchange) reason() string {
	if x.ReasonHex != "" {
		return string(core.MustUnHex(x.ReasonHex))
	}
	return x.Reason
}

// startLine is the origin's status line without its CRLF.
func (x *exchange) startLine() string {
	l := fmt.Sprintf("HTTP/1.%d %s%d", x.Minor, strings.Repeat(" ", x.CodeBlanks), x.Status)
	if x.NoReasonSP {
		return l
	}
	return l + " " + x.reason()
}

// wantStartLine is the status line the property promises the client, stated on the origin's line alone:
// the same version, code and reason phrase, separated by one blank each. An origin line that ends after
// the code has no phrase: the client is promised none either (with or without the blank after the code).
func (x *exchange) wantStartLine(got string) bool {
	if x.NoReasonSP {
		bare := fmt.Sprintf("HTTP/1.%d %d", x.Minor, x.Status)
		return got == bare || got == bare+" "
	}
	return got == fmt.Sprintf("HTTP/1.%d %d %s", x.Minor, x.Status, x.reason())
}

// statusLineClass: the known-finding class of the status-line clause, decided from the input alone. F50: an
// origin line with a bare code (no blank, no phrase; codes 100-999) is written with the code repeated in the
// phrase position by net/http's Response.Write and by martian's copy of it (c02_status_line_bare_code).
// WHAT the client gets on such a line is still held to the model (a correspondence break is a VIOLATION).
func (x *exchange) statusLineClass() string {
	if x.NoReasonSP && x.Status >= 100 && x.Status <= 999 {
		return "bare-code-status-line-stutters" // F50
	}
	return ""
}

// statusLineOf returns the first line of a head without its line terminator.
func statusLineOf(head []byte) string {
	if i := bytes.IndexByte(head, '\n'); i >= 0 {
		head = head[:i]
	}
	return strings.TrimSuffix(string(head), "\r")
}

// wireBody is what the origin puts on the wire after the head.
func (x *exchange) wireBody() []byte {
	b := x.body()
	if x.Gzip {
		var buf bytes.Buffer
		zw := gzip.NewWriter(&buf)
		zw.Write(b)
		zw.Close()
		b = buf.Bytes()
	}
	return b
}

// responseBytes renders the origin's response.
func (x *exchange) responseBytes() []byte {
	var fs []rig.Field
	wb := x.wireBody()
	for _, f := range x.Fields {
		if strings.EqualFold(f.Name, "Content-Length") && f.Value == "auto" {
			f.Value = fmt.Sprint(len(wb))
		}
		fs = append(fs, f)
	}
	out := rig.Head(x.startLine(), fs)
	if x.Method == "HEAD" || x.Status == 204 || x.Status == 304 {
		return out
	}
	switch x.Framing {
	case "chunked":
		out = append(out, rig.ChunkEncode(wb, x.ChunkSizes, x.Trailers)...)
	case "cl", "eof":
		out = append(out, wb...)
	}
	return out
}

func (x *exchange) requestBytes(host string) []byte {
	var b bytes.Buffer
	fmt.Fprintf(&b, "%s /r/%s HTTP/1.%d\r\nHost: %s\r\nCase-Id: %s\r\n", x.Method, x.ID, x.ReqMinor, host, x.ID)
	if x.SendAE {
		fmt.Fprintf(&b, "Accept-Encoding: %s\r\n", x.AcceptEnc)
	}
	if x.ReqConn != "" {
		fmt.Fprintf(&b, "Connection: %s\r\n", x.ReqConn)
	}
	if x.Method == "POST" {
		fmt.Fprintf(&b, "Content-Length: %d\r\n", x.ReqBodyLen)
	}
	b.WriteString("\r\n")
	if x.Method == "POST" {
		b.Write(bytes.Repeat([]byte{'q'}, x.ReqBodyLen))
	}
	return b.Bytes()
}

func (x *exchange) headerOnly() bool {
	return x.Method == "HEAD" || x.Status == 204 || x.Status == 304
}

// reqClose mirrors net/http's shouldClose for the client's request.
func (x *exchange) reqClose() bool {
	hasClose, hasKeep := false, false
	for _, t := range strings.Split(x.ReqConn, ",") {
		t = strings.TrimSpace(t)
		if strings.EqualFold(t, "close") {
			hasClose = true
		}
		if strings.EqualFold(t, "keep-alive") {
			hasKeep = true
		}
	}
	if x.ReqMinor == 0 {
		return hasClose || !hasKeep
	}
	return hasClose
}

// solicitedGzip: the transport adds Accept-Encoding: gzip itself iff the client's first value is empty
// (or absent), there is no Range and the method is not HEAD.
func (x *exchange) solicitedGzip() bool {
	if x.Method == "HEAD" {
		return false
	}
	return !x.SendAE || x.AcceptEnc == ""
}

// ---- environment ----

type env struct {
	mode   string
	rules  []string
	proxy  *rig.Proxy
	origin *rig.Peer
	ca     *rig.CA
	reg    sync.Map // id -> *exchange | *slowCase
}

func (e *env) close() {
	if e.proxy != nil {
		e.proxy.Stop()
	}
	if e.origin != nil {
		e.origin.Close()
	}
}

func (e *env) respond(w *rig.PeerConn, ex *rig.Exchange) bool {
	id := ex.Req.Get("Case-Id")
	v, ok := e.reg.Load(id)
	if !ok {
		w.Write([]byte("HTTP/1.1 200 OK\r\nContent-Length: 2\r\nX-Echo-Id: " + id + "\r\n\r\nok"))
		return true
	}
	if sc, ok := v.(*slowCase); ok {
		return sc.serve(w)
	}
	x := v.(*exchange)
	rig.WriteSegments(w.Conn, x.responseBytes(), x.Segments)
	return x.OriginKeep && x.Framing != "eof"
}

func newEnv(ctx *core.Ctx, mode string, rules []string) (*env, error) {
	return newEnvTuned(ctx, mode, rules, nil)
}

// newEnvTuned: tune edits the proxy configuration last (the connection limits of the slow-body cases).
func newEnvTuned(ctx *core.Ctx, mode string, rules []string, tune func(cfg *forwarder.HTTPProxyConfig)) (*env, error) {
	e := &env{mode: mode, rules: rules}
	var err error
	if e.ca, err = rig.NewCA("verif origin CA"); err != nil {
		return nil, err
	}
	if mode == "mitm" {
		leaf, err := e.ca.ValidLeaf("origin.test")
		if err != nil {
			return nil, err
		}
		e.origin, err = rig.NewTLSPeer("tls-origin", &tls.Config{Certificates: []tls.Certificate{leaf}}, e.respond)
		if err != nil {
			return nil, err
		}
	} else if e.origin, err = rig.NewPeer("origin", e.respond); err != nil {
		return nil, err
	}
	caFile, err := e.ca.WriteFile(ctx.Root+"/.work", fmt.Sprintf("c02-ca-%d.pem", time.Now().UnixNano()))
	if err != nil {
		return nil, err
	}
	var hdrs []header.Header
	for _, rs := range rules {
		h, err := header.ParseHeader(rs)
		if err != nil {
			return nil, err
		}
		hdrs = append(hdrs, h)
	}
	e.proxy, err = rig.StartProxy(rig.ProxyOpts{
		ConnectTo: []forwarder.HostPortPair{rig.Route("origin.test", "80", e.origin.Addr), rig.Route("origin.test", "443", e.origin.Addr)},
		Transport: func(tc *forwarder.HTTPTransportConfig) { tc.CACertFiles = []string{caFile} },
		Configure: func(cfg *forwarder.HTTPProxyConfig) {
			cfg.Name = "fwdverif"
			if len(hdrs) > 0 {
				hs := header.Headers(hdrs)
				// same dispatch as command/run configureHeadersModifiers
				cfg.ResponseModifiers = append(cfg.ResponseModifiers, forwarder.ResponseModifierFunc(func(res *http.Response) error {
					if req := res.Request; req != nil && req.Method == http.MethodConnect {
						return nil
					}
					return hs.ModifyResponse(res)
				}))
			}
			if mode == "mitm" {
				cfg.MITM = forwarder.DefaultMITMConfig()
				cfg.PromRegistry = prometheus.NewRegistry()
			}
			if tune != nil {
				tune(cfg)
			}
		},
	})
	return e, err
}

func (e *env) open() (*rig.Client, error) {
	c, err := rig.Dial(e.proxy.Addr)
	if err != nil {
		return nil, err
	}
	if e.mode != "mitm" {
		return c, nil
	}
	c.Send([]byte("CONNECT origin.test:443 HTTP/1.1\r\nHost: origin.test:443\r\n\r\n"), nil)
	res, err := c.ReadResponse("CONNECT", 5*time.Second)
	if err != nil || res.Status != 200 {
		c.Close()
		return nil, fmt.Errorf("mitm CONNECT failed: %v", err)
	}
	pool := e.ca.Pool()
	pool.AddCert(e.proxy.CACert())
	if _, err := c.StartTLS("origin.test", pool, false); err != nil {
		c.Close()
		return nil, err
	}
	return c, nil
}

// ---- model ----

type modelResp struct {
	Kind      string
	Minor     int
	Status    int
	Reason    string
	Framing   string // none | cl:<n> | chunked:<…> | eof
	Body      string // same | gunzip | dropped
	KeepAlive bool
	Fields    map[string][]string
}

func askModel(m *core.Model, rules []string, x *exchange) modelResp {
	var fs []string
	for _, f := range x.Fields {
		v := f.Value
		if strings.EqualFold(f.Name, "Content-Length") && v == "auto" {
			v = fmt.Sprint(len(x.wireBody()))
		}
		fs = append(fs, core.JoinList([]string{core.HexS(f.Name), core.HexS(v)}))
	}
	ans := m.MustAsk("RESP", "process", "method="+core.HexS(x.Method), "reqminor="+core.Itoa(x.ReqMinor), "reqclose="+core.B01(x.reqClose()),
		"gzip="+core.B01(x.solicitedGzip()), "rules="+core.HexList(rules), "minor="+core.Itoa(x.Minor),
		"status="+core.Itoa(x.Status), "reason="+core.HexS(x.reason()), "fields="+core.JoinList2(fs))
	f := strings.Fields(ans)
	if f[0] == "badgateway" {
		return modelResp{Kind: "badgateway"}
	}
	r := modelResp{Kind: "ok", Reason: string(core.MustUnHex(f[3])), Framing: f[4], Body: f[5], KeepAlive: f[6] == "1", Fields: map[string][]string{}}
	fmt.Sscan(f[1], &r.Minor)
	fmt.Sscan(f[2], &r.Status)
	for _, e := range core.SplitList2(f[7]) {
		atoms := core.SplitList(e)
		k := string(core.MustUnHex(atoms[0]))
		vs := []string{}
		for _, a := range atoms[1:] {
			vs = append(vs, string(core.MustUnHex(a)))
		}
		r.Fields[k] = vs
	}
	return r
}

// askStatusLine: the status line (without CRLF) Model/RespStatus.lean's reader and writers produce for the
// origin's line; ok=false when the reader refuses the line (the transport fails, 502).
func askStatusLine(m *core.Model, x *exchange) (line string, ok bool) {
	ans := m.MustAsk("RESP", "statusline", "ho="+core.B01(x.headerOnly()), "line="+core.HexS(x.startLine()))
	if ans == "bad" {
		return "", false
	}
	return strings.TrimSuffix(string(core.MustUnHex(ans)), "\r\n"), true
}

// ---- one connection ----

type oneEx struct {
	Kind     string    `json:"kind"` // "one"
	Mode     string    `json:"mode"`
	Rules    []string  `json:"rules,omitempty"`
	Position int       `json:"position"`
	Exchange *exchange `json:"exchange"`
}

// regressionShape names the input shapes of the three defects that were repaired in the tree (F1, F22,
// F18). They are no known-finding classes any more: a failure on one of them is a VIOLATION like any
// other. The name is used for the input-distribution histogram only, so that every run shows how often
// the shapes were exercised.
func regressionShape(x *exchange) string {
	hasTrailerDecl := false
	for _, f := range x.Fields {
		if strings.EqualFold(f.Name, "Trailer") {
			hasTrailerDecl = true
		}
	}
	headerOnly := x.Method == "HEAD" || x.Status == 204 || x.Status == 304
	switch {
	case headerOnly && x.Framing == "chunked" && x.Minor == 1 && hasTrailerDecl:
		return "header-only-with-trailers" // was F1
	case !headerOnly && x.Gzip && x.solicitedGzip() && x.ReqMinor == 0:
		return "solicited-gzip-http10-client/" + x.Framing // was F22 ∧ F18
	case !headerOnly && x.Gzip && x.solicitedGzip():
		return "solicited-gzip/" + x.Framing + fmt.Sprintf("/origin-1.%d", x.Minor) // was F22
	case !headerOnly && x.ReqMinor == 0 && x.Framing == "chunked" && x.Minor == 1:
		if len(x.Trailers) > 0 {
			return "http10-client-chunked/trailers" // was F18
		}
		return "http10-client-chunked" // was F18
	}
	return ""
}

// canonTrailerLine: martian's header-only writer lists the keys of res.Trailer in Go map order; the
// model lists them sorted. Both sides are compared with the names of every `Trailer` value sorted.
func canonTrailerLine(fm map[string][]string) {
	vs, ok := fm["trailer"]
	if !ok {
		return
	}
	out := make([]string, len(vs))
	for i, v := range vs {
		names := strings.Split(v, ", ")
		sort.Strings(names)
		out[i] = strings.Join(names, ", ")
	}
	fm["trailer"] = out
}

func (e *env) runConn(ctx *core.Ctx, cc *connCase) {
	for _, x := range cc.Exchanges {
		e.reg.Store(x.ID, x)
	}
	defer func() {
		for _, x := range cc.Exchanges {
			e.reg.Delete(x.ID)
		}
	}()
	c, err := e.open()
	if err != nil {
		ctx.Crash("proxy accepts a client connection", "", cc, err.Error())
		return
	}
	defer c.Close()
	for i, x := range cc.Exchanges {
		one := oneEx{Kind: "one", Mode: cc.Mode, Rules: cc.Rules, Position: i, Exchange: x}
		mr := askModel(ctx.Model, cc.Rules, x)
		mline, mlineOK := askStatusLine(ctx.Model, x)
		key, _ := json.Marshal(struct {
			M string
			R []string
			X *exchange
		}{cc.Mode, cc.Rules, &exchange{Method: x.Method, ReqMinor: x.ReqMinor, ReqConn: x.ReqConn, SendAE: x.SendAE, AcceptEnc: x.AcceptEnc,
			Minor: x.Minor, Status: x.Status, Reason: x.Reason, ReasonHex: x.ReasonHex, NoReasonSP: x.NoReasonSP, CodeBlanks: x.CodeBlanks, Fields: x.Fields, Framing: x.Framing, BodyHex: x.BodyHex, Gzip: x.Gzip, ChunkSizes: x.ChunkSizes, Trailers: x.Trailers, OriginKeep: x.OriginKeep}})
		ctx.Case(string(key), x.Framing != "cl" || len(x.Fields) > 3 || x.Status != 200)
		ctx.Count("mode/" + cc.Mode)
		ctx.Count("framing/" + x.Framing)
		ctx.Count(fmt.Sprintf("status/%dxx", x.Status/100))
		ctx.Count("method/" + x.Method)
		ctx.Count("position/" + fmt.Sprint(i))
		ctx.Count("model/" + mr.Kind + "/" + strings.SplitN(mr.Framing, ":", 2)[0])
		if x.Gzip {
			ctx.Count("gzip/" + map[bool]string{true: "solicited", false: "client-asked"}[x.solicitedGzip()])
		}
		if sh := regressionShape(x); sh != "" {
			ctx.Count("regression-shape/" + sh)
		}
		if x.ReasonKind != "" {
			ctx.Count("reason/" + x.ReasonKind + map[bool]string{true: "/header-only-writer", false: "/Response.Write"}[x.headerOnly()])
		}

		if err := c.Send(x.requestBytes("origin.test"), nil); err != nil {
			ctx.Disagree("client can send the next request on a kept-alive connection", one, err.Error(), "open")
			return
		}
		res, rerr := c.ReadResponse(x.Method, 8*time.Second)
		impl := describe(res, rerr)
		if mr.Kind == "badgateway" || !mlineOK {
			if res == nil || res.Status != 502 {
				ctx.Disagree("malformed origin framing / status line is answered with 502", one, impl, "502")
			}
			// error responses keep the connection open unless asked otherwise; stop this connection here
			return
		}
		// ---- correspondence with the model ----
		var diffs []string
		if rerr != nil || res == nil {
			diffs = append(diffs, "response does not parse: "+impl)
		} else {
			if res.Status != mr.Status {
				diffs = append(diffs, fmt.Sprintf("status %d want %d", res.Status, mr.Status))
			}
			// the status line byte for byte (Model/RespStatus.lean: ReadResponse, then the writer that applies)
			if got := statusLineOf(res.HeadBytes); got != mline {
				diffs = append(diffs, fmt.Sprintf("status line %q want %q", got, mline))
			}
			if want := fmt.Sprintf("HTTP/1.%d", mr.Minor); res.Proto != want {
				diffs = append(diffs, fmt.Sprintf("proto %q want %q", res.Proto, want))
			}
			of := res.FieldMap()
			if x.headerOnly() {
				canonTrailerLine(of)
				canonTrailerLine(mr.Fields)
			}
			for _, k := range reqmodel.DiffFields(of, mr.Fields) {
				diffs = append(diffs, fmt.Sprintf("field %s: got %q want %q", k, of[k], mr.Fields[k]))
			}
			wantFr := strings.SplitN(mr.Framing, ":", 2)[0]
			if res.Framing != wantFr {
				diffs = append(diffs, fmt.Sprintf("framing %s want %s", res.Framing, wantFr))
			}
			var wantBody []byte
			switch mr.Body {
			case "same":
				wantBody = x.wireBody()
			case "gunzip":
				wantBody = x.body()
			}
			if !bytes.Equal(res.Body, wantBody) {
				diffs = append(diffs, fmt.Sprintf("body %dB want %dB", len(res.Body), len(wantBody)))
			}
		}
		if len(diffs) > 0 {
			ctx.Disagree("response read by the client = Model.Resp.processResponse", one, strings.Join(diffs, "; ")+" | "+impl, mr.Framing)
		} else {
			ctx.TraceValidated()
		}
		// ---- the property evaluated directly ----
		for _, v := range specViolations(cc.Rules, x, res, rerr) {
			ctx.SpecFail(v.clause, v.class, one, impl, v.detail)
		}
		if rerr != nil {
			return
		}
		// connection state after the response
		if !mr.KeepAlive || res.Framing == "eof" {
			closed, extra := c.ExpectClosed(3 * time.Second)
			if !closed {
				ctx.Disagree("connection is closed after a response that says so", one, "still open", "closed")
				ctx.SpecFail("a response without keep-alive framing ends with the connection", "", one, impl, "connection left open")
			}
			if len(extra) > 0 {
				ctx.SpecFail("no bytes of one message leak into the next", "", one, impl, fmt.Sprintf("%d stray bytes after the response", len(extra)))
			}
			return
		}
	}
	// the connection is expected to be alive: one more plain exchange proves it and that nothing leaked
	probe := []byte("GET /probe HTTP/1.1\r\nHost: origin.test\r\nCase-Id: probe-" + cc.Exchanges[0].ID + "\r\n\r\n")
	if err := c.Send(probe, nil); err != nil {
		ctx.Disagree("connection stays open after a keep-alive response", cc, err.Error(), "open")
		return
	}
	res, err := c.ReadResponse("GET", 5*time.Second)
	if err != nil || res.Status != 200 || res.Get("X-Echo-Id") != "probe-"+cc.Exchanges[0].ID || string(res.Body) != "ok" {
		ctx.Disagree("connection stays open after a keep-alive response and the next response answers the next request", cc, describe(res, err), "200 ok")
		ctx.SpecFail("the k-th response answers the k-th request", "", cc, describe(res, err), "probe after the last exchange was not answered cleanly")
	}
}

const framingClause = "each response is framed so that a conforming client parser consumes exactly that response"

func describe(res *rig.Msg, err error) string {
	if res == nil {
		return fmt.Sprintf("no response (%v)", err)
	}
	s := fmt.Sprintf("head=%q framing=%s body=%dB complete=%v", res.HeadBytes, res.Framing, len(res.Body), res.Complete)
	if err != nil {
		s += fmt.Sprintf(" err=%v", err)
	}
	return s
}

// ---- the property, evaluated directly on the bytes the client read ----

type violation struct{ clause, class, detail string }

var staticHop = map[string]bool{"connection": true, "keep-alive": true, "proxy-authenticate": true, "proxy-authorization": true,
	"proxy-connection": true, "te": true, "trailer": true, "transfer-encoding": true, "upgrade": true}

func specViolations(rules []string, x *exchange, res *rig.Msg, rerr error) []violation {
	var vs []violation
	add := func(clause, class, detail string) { vs = append(vs, violation{clause, class, detail}) }
	if rerr != nil || res == nil || !res.Complete {
		add(framingClause, "", fmt.Sprintf("parser: %v", rerr))
		return vs
	}
	if res.Status != x.Status {
		add("same status", "", fmt.Sprintf("%d vs %d", res.Status, x.Status))
	}
	if got := statusLineOf(res.HeadBytes); !x.wantStartLine(got) {
		add("same status line: version, code and reason phrase", x.statusLineClass(), fmt.Sprintf("client got %q, the origin sent %q", got, x.startLine()))
	}
	in := (&rig.Msg{Fields: x.Fields}).FieldMap()
	out := res.FieldMap()
	nominated := map[string]bool{}
	for _, v := range in["connection"] {
		for _, t := range strings.Split(v, ",") {
			if t = strings.ToLower(strings.TrimSpace(t)); t != "" {
				nominated[t] = true
			}
		}
	}
	rn := map[string]bool{}
	var rp []string
	for _, rs := range rules {
		if h, err := header.ParseHeader(rs); err == nil {
			if h.Action == header.RemoveByPrefix {
				rp = append(rp, strings.ToLower(h.Name))
			} else {
				rn[strings.ToLower(h.Name)] = true
			}
		}
	}
	touched := func(k string) bool {
		if rn[k] {
			return true
		}
		for _, p := range rp {
			if strings.HasPrefix(k, p) {
				return true
			}
		}
		return false
	}
	headerOnly := x.Method == "HEAD" || x.Status == 204 || x.Status == 304
	gunzipped := x.Gzip && x.solicitedGzip() && !headerOnly
	upgrade := nominated["upgrade"] && len(in["upgrade"]) > 0
	for k, vin := range in {
		if staticHop[k] || nominated[k] || touched(k) || k == "content-length" {
			continue
		}
		if k == "content-encoding" && gunzipped {
			continue
		}
		if got := out[k]; strings.Join(got, "\x00") != strings.Join(vin, "\x00") || len(got) != len(vin) {
			add("same end-to-end header fields", "", fmt.Sprintf("%s: %q vs %q", k, got, vin))
		}
	}
	for k, vout := range out {
		if _, ok := in[k]; ok && !(staticHop[k] || nominated[k]) || touched(k) {
			continue
		}
		switch k {
		case "content-length", "transfer-encoding", "trailer":
		case "connection":
			for _, v := range vout {
				if !(strings.EqualFold(v, "close") || (upgrade && v == "Upgrade")) {
					add("only hop-by-hop fields removed / nothing invented", "", fmt.Sprintf("connection: %q", vout))
				}
			}
		case "upgrade":
			if !upgrade {
				add("only hop-by-hop fields removed / nothing invented", "", fmt.Sprintf("upgrade: %q", vout))
			}
		default:
			if staticHop[k] || nominated[k] {
				class := ""
				if nominated[k] && nominated["close"] && x.Minor == 1 {
					class = "response-connection-close-with-nominations" // F25
				}
				add("hop-by-hop fields are removed", class, fmt.Sprintf("%s: %q", k, vout))
			} else {
				add("only hop-by-hop fields removed / nothing invented", "", fmt.Sprintf("%s: %q", k, vout))
			}
		}
	}
	if headerOnly {
		if len(res.Body) != 0 {
			add("HEAD/204/304 replies carry no body", "", fmt.Sprintf("%d bytes", len(res.Body)))
		}
	} else {
		want := x.wireBody()
		if gunzipped {
			want = x.body()
		}
		if !bytes.Equal(res.Body, want) {
			add("same body bytes (gzip undone only when the proxy solicited it)", "", fmt.Sprintf("%dB vs %dB", len(res.Body), len(want)))
		}
		// trailers travel in a chunked body only: an HTTP/1.0 client gets the body close-delimited and no trailers
		if x.Framing == "chunked" && x.Minor == 1 && x.ReqMinor >= 1 {
			gotT := (&rig.Msg{Fields: res.Trailers}).FieldMap()
			// every trailer field the origin sent (net/http forwards undeclared ones as well)
			wantT := (&rig.Msg{Fields: x.Trailers}).FieldMap()
			if reqmodel.FieldsJSON(gotT) != reqmodel.FieldsJSON(wantT) {
				add("same declared trailers", "", fmt.Sprintf("%v vs %v", gotT, wantT))
			}
		}
		if x.ReqMinor == 0 && res.Framing == "chunked" {
			add(framingClause, "", "HTTP/1.0 client is sent a chunked body")
		}
	}
	if id := res.Get("X-Echo-Id"); id != x.ID && !touched("x-echo-id") {
		add("the k-th response answers the k-th request", "", fmt.Sprintf("got the response for %q", id))
	}
	return vs
}

// ---- generator ----

var idSeq atomic.Int64

var statuses = []int{200, 200, 200, 200, 201, 204, 206, 301, 302, 304, 400, 401, 403, 404, 418, 429, 500, 502, 503, 599}
var reasons = map[int]string{200: "OK", 201: "Created", 204: "No Content", 206: "Partial Content", 301: "Moved Permanently", 302: "Found", 304: "Not Modified",
	400: "Bad Request", 401: "Unauthorized", 403: "Forbidden", 404: "Not Found", 418: "I'm a teapot", 429: "Too Many Requests", 500: "Internal Server Error",
	502: "Bad Gateway", 503: "Service Unavailable", 599: "Custom"}
var respNames = []string{"Content-Type", "Cache-Control", "ETag", "Set-Cookie", "set-cookie", "X-Custom", "x-custom", "Vary", "Server", "X-Rnd", "Date", "Location", "WWW-Authenticate", "Via", "Warning", "X_Under"}
var bodySizes = []int{0, 1, 5, 100, 1000, 4095, 4096, 4097, 8192, 32767, 32768, 32769, 70000}

const valChars = "abcdefXYZ0123456789 ,;=:/\"'()*-_.~!@#$%^&[]{}|<>?+"

func genVal(r *core.Rand) string {
	n := r.Range(0, 20)
	var b strings.Builder
	for i := 0; i < n; i++ {
		b.WriteByte(valChars[r.Intn(len(valChars))])
	}
	return strings.TrimSpace(b.String())
}

// Shapes of the defects repaired in the tree (regression targets); about one exchange in six is steered
// towards one of them, the rest of the exchange stays random:
//
//	ho-trailer      HEAD/204/304 answered with Transfer-Encoding: chunked + Trailer (1-3 names)   (F1)
//	gz-solicited    gzip the transport solicited itself, with Content-Length / close-delimited / chunked   (F22)
//	http10-chunked  HTTP/1.0 client, chunked HTTP/1.1 origin response, often with trailers   (F18)
//	http10-gz       HTTP/1.0 keep-alive client and solicited gzip (F18 and F22 together)
var shapes = []string{"ho-trailer", "gz-solicited", "gz-solicited", "http10-chunked", "http10-gz"}

var bodyStatuses = []int{200, 200, 200, 201, 206, 404, 500, 503}

// forced pins the coordinates of an exchange that the status-line matrix walks; the rest stays random.
type forced struct {
	Method     string
	Status     int
	ReasonKind string
}

func genExchange(r *core.Rand, last bool) *exchange { return genExchangeF(r, last, forced{}) }

func genExchangeF(r *core.Rand, last bool, fc forced) *exchange {
	x := &exchange{ID: fmt.Sprintf("x%d-%x", idSeq.Add(1), r.U64()&0xffffff), ReqMinor: 1, Minor: 1, OriginKeep: true}
	shape := ""
	if r.Chance(16) && fc == (forced{}) {
		shape = core.Pick(r, shapes)
	}
	x.Method = core.Pick(r, []string{"GET", "GET", "GET", "HEAD", "POST"})
	if fc.Method != "" {
		x.Method = fc.Method
	}
	switch shape {
	case "ho-trailer":
		x.Method = core.Pick(r, []string{"HEAD", "GET", "POST"})
	case "gz-solicited", "http10-chunked", "http10-gz":
		x.Method = core.Pick(r, []string{"GET", "GET", "POST"})
	}
	if x.Method == "POST" {
		x.ReqBodyLen = core.Pick(r, []int{0, 1, 100, 5000})
	}
	if r.Chance(12) || shape == "http10-chunked" || shape == "http10-gz" {
		x.ReqMinor = 0
		if !last || r.Chance(50) || shape == "http10-gz" {
			x.ReqConn = "keep-alive"
		}
	} else if last && r.Chance(25) {
		x.ReqConn = "close"
	}
	if r.Chance(50) {
		x.SendAE = true
		x.AcceptEnc = core.Pick(r, []string{"gzip", "gzip, br", "identity", "deflate"})
	}
	if shape == "gz-solicited" || shape == "http10-gz" {
		// no Accept-Encoding, or an empty one: the transport adds `Accept-Encoding: gzip` itself
		x.SendAE = r.Chance(20)
		x.AcceptEnc = ""
	}
	x.Status = core.Pick(r, statuses)
	switch shape {
	case "ho-trailer":
		if x.Method != "HEAD" {
			x.Status = core.Pick(r, []int{204, 304})
		}
	case "gz-solicited", "http10-chunked", "http10-gz":
		x.Status = core.Pick(r, bodyStatuses)
	}
	if fc.Status != 0 {
		x.Status = fc.Status
	}
	x.Reason = reasons[x.Status]
	if r.Chance(15) {
		x.Reason = core.Pick(r, []string{"Fine", "Custom Reason Phrase", "OK OK", "", "Weird-Reason_1"})
	}
	// the reason-phrase grammar: one exchange in four, and every exchange of the status-line matrix
	if fc.ReasonKind != "" {
		genReason(r, x, fc.ReasonKind)
	} else if r.Chance(25) {
		genReason(r, x, core.Pick(r, reasonKinds))
	}
	if r.Chance(8) && shape != "http10-chunked" && shape != "ho-trailer" || shape == "gz-solicited" && r.Chance(15) {
		x.Minor = 0
	}
	x.Fields = append(x.Fields, rig.Field{Name: "X-Echo-Id", Value: x.ID})
	n := r.Range(0, 5)
	for i := 0; i < n; i++ {
		name := core.Pick(r, respNames)
		x.Fields = append(x.Fields, rig.Field{Name: name, Value: genVal(r)})
		if r.Chance(35) {
			x.Fields = append(x.Fields, rig.Field{Name: name, Value: genVal(r)})
		}
	}
	// hop-by-hop fields in the response
	if r.Chance(25) {
		hn := core.Pick(r, []string{"Keep-Alive", "Proxy-Authenticate", "Proxy-Connection", "Te", "Upgrade"})
		x.Fields = append(x.Fields, rig.Field{Name: hn, Value: core.Pick(r, []string{"timeout=5, max=100", "Basic realm=\"x\"", "keep-alive", "h2c"})})
	}
	var nominated []string
	if r.Chance(20) {
		nominated = append(nominated, core.Pick(r, []string{"X-Custom", "x-rnd", "Vary", "Keep-Alive"}))
	}
	headerOnly := x.Method == "HEAD" || x.Status == 204 || x.Status == 304
	// body + framing
	size := core.Pick(r, bodySizes)
	if r.Chance(30) {
		size = r.Range(0, 6000)
	}
	if size == 0 && (shape == "gz-solicited" || shape == "http10-gz") {
		size = r.Range(1, 6000)
	}
	body := r.Bytes(size)
	if r.Chance(30) {
		// compressible text
		body = bytes.Repeat([]byte("hello gzip body "), size/16+1)[:size]
	}
	x.BodyHex = core.Hex(body)
	if !headerOnly && size > 0 && (r.Chance(25) || shape == "gz-solicited" || shape == "http10-gz") {
		x.Gzip = true
		x.Fields = append(x.Fields, rig.Field{Name: "Content-Encoding", Value: core.Pick(r, []string{"gzip", "GZIP"})})
	}
	fr := core.Pick(r, []string{"cl", "cl", "chunked", "chunked", "eof"})
	if shape == "http10-chunked" {
		fr = "chunked"
	}
	switch {
	case headerOnly:
		// HEAD / 204 / 304: framing fields may still be present
		k := r.Intn(4)
		if shape == "ho-trailer" {
			k = 2
		}
		switch k {
		case 0:
			x.Framing = "none"
		case 1:
			x.Framing = "cl"
			x.Fields = append(x.Fields, rig.Field{Name: "Content-Length", Value: fmt.Sprint(size)})
		case 2:
			x.Framing = "chunked"
			x.Fields = append(x.Fields, rig.Field{Name: "Transfer-Encoding", Value: "chunked"})
			if r.Chance(40) || shape == "ho-trailer" {
				// one to three names (the head writer lists them in map order), sometimes one of them twice
				decl := core.Pick(r, []string{"X-Trailer-A", "X-Trailer-A", "X-Trailer-B, X-Trailer-A", "X-Trailer-C, X-Trailer-A, X-Trailer-B",
					"x-trailer-b,X-Trailer-A", "X-Trailer-A, X-Trailer-A"})
				x.Fields = append(x.Fields, rig.Field{Name: "Trailer", Value: decl})
				if r.Chance(15) {
					x.Fields = append(x.Fields, rig.Field{Name: "Trailer", Value: "X-Trailer-D"})
				}
			}
		default:
			x.Framing = "none"
		}
		if x.Status == 204 && x.Framing == "cl" {
			x.Framing = "none"
			x.Fields = x.Fields[:len(x.Fields)-1]
		}
	case fr == "chunked" && x.Minor == 1:
		x.Framing = "chunked"
		x.Fields = append(x.Fields, rig.Field{Name: core.Pick(r, []string{"Transfer-Encoding", "transfer-encoding"}), Value: core.Pick(r, []string{"chunked", "Chunked"})})
		k := r.Range(0, 6)
		for i := 0; i < k; i++ {
			x.ChunkSizes = append(x.ChunkSizes, core.Pick(r, []int{1, 2, 7, 100, 4095, 4096, 4097, 32768, 40000}))
		}
		if r.Chance(35) || shape == "http10-chunked" && r.Chance(50) {
			x.Trailers = []rig.Field{{Name: "X-Trailer-A", Value: genVal(r)}}
			decl := "X-Trailer-A"
			if r.Chance(40) {
				x.Trailers = append(x.Trailers, rig.Field{Name: "X-Trailer-B", Value: "b"})
				decl += ", X-Trailer-B"
			}
			if r.Chance(20) {
				// an undeclared trailer is dropped by net/http
				x.Trailers = append(x.Trailers, rig.Field{Name: "X-Undeclared", Value: "u"})
			}
			x.Fields = append(x.Fields, rig.Field{Name: "Trailer", Value: decl})
		}
	case fr == "eof" || (fr == "chunked" && x.Minor == 0):
		x.Framing = "eof"
		x.OriginKeep = false
	default:
		x.Framing = "cl"
		x.Fields = append(x.Fields, rig.Field{Name: core.Pick(r, []string{"Content-Length", "content-length"}), Value: "auto"})
	}
	if !last && r.Chance(10) || last && r.Chance(25) {
		nominated = append(nominated, "close")
		x.OriginKeep = false
	}
	if x.Minor == 0 && x.Framing != "eof" && r.Chance(60) {
		nominated = append(nominated, "keep-alive")
	}
	if x.Minor == 0 {
		// an HTTP/1.0 origin keeps the connection exactly when it says so: a nominated `Keep-Alive` field name is
		// the keep-alive option as well (tokens are case-insensitive), and an origin that promised keep-alive and
		// closed anyway would race with the transport's connection reuse ("server closed idle connection")
		keep := false
		for _, n := range nominated {
			if strings.EqualFold(n, "keep-alive") {
				keep = true
			}
		}
		if !keep {
			x.OriginKeep = false
		}
	}
	if len(nominated) > 0 {
		x.Fields = append(x.Fields, rig.Field{Name: core.Pick(r, []string{"Connection", "connection"}), Value: strings.Join(nominated, ", ")})
	}
	// origin write segmentation: split heads, chunk boundaries and CRLFs across writes
	if r.Chance(60) {
		k := r.Range(1, 6)
		for i := 0; i < k; i++ {
			x.Segments = append(x.Segments, core.Pick(r, []int{1, 2, 3, 10, 50, 200, 1000, 4096, 5000, 33000}))
		}
	}
	return x
}

// ---- reason-phrase grammar ----
//
// RFC 7230: reason-phrase = *( HTAB / SP / VCHAR / obs-text ); the status line may also end after the code.
// The phrase is what an application server chose to say, it is not drawn from the standard table:
//
//	standard        the registered phrase of the code
//	empty           the blank after the code, then nothing
//	bare            nothing after the code, not even the blank (the code writes it with the code repeated in the
//	                phrase position: known finding F50, see statusLineClass)
//	letter          custom, starts with a letter
//	code-digit      starts with a digit that occurs in the status code ("204 2 rows deleted")
//	other-digit     starts with a digit that does not occur in the code
//	code-repeated   starts with the whole code and a blank ("404 404 page not found"), once or twice
//	code-glued      starts with the whole code, no blank ("404page")
//	digits-only     nothing but digits of the code ("200", "0", "44")
//	blanks          starts with 1-3 blanks
//	tabs            starts with a tab, or blanks and tabs
//	trailing-blanks ends with blanks / a tab
//	http-version    contains "HTTP/1.1" (starts with it, or mentions it)
//	long            1-6 KiB
//	obs-text        bytes >= 0x80 (ISO-8859-1, UTF-8, invalid UTF-8)
//	mixed           1-12 random bytes over: the digits of the code, another digit, SP, HTAB, letters, '-', 0xE9
//	code-blanks     standard phrase, but 1-3 extra blanks between the version and the code (dropped by the reader)
var reasonKinds = []string{"standard", "empty", "bare", "letter", "code-digit", "other-digit", "code-repeated", "code-glued", "digits-only",
	"blanks", "tabs", "trailing-blanks", "http-version", "long", "obs-text", "mixed", "code-blanks"}

var reasonWords = []string{"rows deleted", "documents match", "page not found", "rd-party cache still valid", "th attempt failed", "OK", "x", "items; see log",
	"Not Found", "I'm a teapot", "- done -", "(cached)"}

func genReason(r *core.Rand, x *exchange, kind string) {
	code := fmt.Sprint(x.Status)
	words := core.Pick(r, reasonWords)
	codeDigit := string(code[r.Intn(len(code))])
	otherDigit := ""
	for _, d := range "0123456789" {
		if !strings.ContainsRune(code, d) && (otherDigit == "" || r.Chance(30)) {
			otherDigit = string(d)
		}
	}
	var p string
	x.NoReasonSP, x.CodeBlanks, x.ReasonHex = false, 0, ""
	switch kind {
	case "standard":
		p = reasons[x.Status]
	case "empty":
		p = ""
	case "bare":
		x.NoReasonSP = true
	case "letter":
		p = core.Pick(r, []string{"Fine", "Custom Reason Phrase", "OK OK", "Weird-Reason_1", "done", "Z"}) + core.Pick(r, []string{"", " " + words})
	case "code-digit":
		p = codeDigit + core.Pick(r, []string{" ", "", codeDigit + " ", "x "}) + words
	case "other-digit":
		p = otherDigit + core.Pick(r, []string{" ", "", otherDigit + " "}) + words
	case "code-repeated":
		p = code + " " + core.Pick(r, []string{"", code + " ", " "}) + words
	case "code-glued":
		p = code + core.Pick(r, []string{"page", "-" + words, code, "th"})
	case "digits-only":
		p = core.Pick(r, []string{code, codeDigit, codeDigit + codeDigit, code + code, codeDigit + " " + codeDigit})
	case "blanks":
		p = strings.Repeat(" ", r.Range(1, 3)) + core.Pick(r, []string{words, codeDigit + " " + words, ""})
	case "tabs":
		p = core.Pick(r, []string{"\t", " \t", "\t ", "\t\t"}) + core.Pick(r, []string{words, codeDigit + words, ""})
	case "trailing-blanks":
		p = core.Pick(r, []string{words, codeDigit + " " + words}) + core.Pick(r, []string{" ", "  ", "\t", " \t "})
	case "http-version":
		p = core.Pick(r, []string{"HTTP/1.1 200 OK", "HTTP/1.1", "see HTTP/1.1 " + code + " semantics", code + " HTTP/1.1 " + code + " " + words, "HTTP/1.0 " + words})
	case "long":
		n := core.Pick(r, []int{1000, 4000, 4096, 4097, 6000})
		unit := core.Pick(r, []string{"long reason ", codeDigit, code + " ", "a"})
		p = strings.Repeat(unit, n/len(unit)+1)[:n]
	case "obs-text":
		p = core.Pick(r, []string{"Pas trouv\xe9", "\xe9", "\xe2\x9c\x93 ok", "\xff\xfe", codeDigit + " \xc3\xa9l\xc3\xa9ments", "\x80" + words, "Nicht gefunden \xfc"})
	case "mixed":
		alpha := code + otherDigit + " \t aZ-\xe9"
		n := r.Range(1, 12)
		b := make([]byte, n)
		for i := range b {
			b[i] = alpha[r.Intn(len(alpha))]
		}
		p = string(b)
	case "code-blanks":
		p = reasons[x.Status]
		x.CodeBlanks = r.Range(1, 3)
	}
	x.ReasonKind = kind
	x.Reason = p
	for i := 0; i < len(p); i++ {
		if p[i] < 0x20 || p[i] >= 0x7f {
			x.Reason, x.ReasonHex = "", core.Hex([]byte(p))
			break
		}
	}
}

// reasonMatrix: every kind of the phrase grammar on every path the status line takes — the header-only
// writer (HEAD with 2xx-5xx, 204, 304) and Response.Write (bodies with Content-Length, chunked,
// close-delimited, every status class).
func reasonMatrix(r *core.Rand) []*connCase {
	targets := []forced{
		{Method: "HEAD", Status: 200}, {Method: "HEAD", Status: 404}, {Method: "HEAD", Status: 301}, {Method: "HEAD", Status: 503},
		{Method: "GET", Status: 204}, {Method: "POST", Status: 204}, {Method: "GET", Status: 304}, {Method: "HEAD", Status: 304},
		{Method: "GET", Status: 200}, {Method: "POST", Status: 201}, {Method: "GET", Status: 302}, {Method: "GET", Status: 404},
		{Method: "GET", Status: 500}, {Method: "GET", Status: 429}, {Method: "GET", Status: 599}, {Method: "HEAD", Status: 204},
	}
	// one exchange per connection (an exchange that ends the connection would hide the ones after it); the
	// probe that follows every kept-alive exchange shows that the head was terminated where it should be
	var out []*connCase
	for _, k := range reasonKinds {
		for _, t := range targets {
			t.ReasonKind = k
			out = append(out, &connCase{Kind: "conn", Mode: core.Pick(r, []string{"direct", "direct", "direct", "mitm"}), Rules: core.Pick(r, ruleSets),
				Exchanges: []*exchange{genExchangeF(r, false, t)}})
		}
	}
	return out
}

var ruleSets = [][]string{nil, nil, nil, {"X-Resp-Added: yes", "-Server", "X-Empty;"}, {"-x-c*", "%etag"}, {"-Warning", "Cache-Control: no-store"}}

func genConn(r *core.Rand) *connCase {
	cc := &connCase{Kind: "conn", Mode: core.Pick(r, []string{"direct", "direct", "direct", "mitm"}), Rules: core.Pick(r, ruleSets)}
	n := r.Range(1, 5)
	for i := 0; i < n; i++ {
		cc.Exchanges = append(cc.Exchanges, genExchange(r, i == n-1))
	}
	return cc
}
