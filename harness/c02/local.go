package c02

// Sequences with LOCALLY ANSWERED exchanges on one keep-alive client connection.
//
// A request the proxy answers itself — 407 (proxy basic auth), 403 (deny-domains, localhost denial),
// 451 (outside the allowed time frame), 400 + close (Via loop) — never reaches the round tripper, so the
// proxy alone is responsible for taking the request's body off the connection before it reads the next
// request.  Every case is one client connection: requests of those kinds carrying bodies of every framing
// (Content-Length small / beyond the 4 KiB bufio buffer / beyond 64 KiB, chunked with and without
// trailers, Expect: 100-continue, bodies whose bytes read like a complete HTTP request, body in the same
// segment as the head / after the proxy has answered / never completed), mixed with ordinary forwarded
// requests with distinct correlation ids; sent step by step or pipelined in one write.  The symmetric
// response side rides along: an origin that puts body bytes on the wire after a HEAD / 204 / 304 head.
//
// Judged twice:
//   * the property's clauses, from what the generator intended: response k answers request k (status of the
//     refusal kind, or the origin's echo of correlation id, method and body length/checksum), the origin
//     sees exactly the forwarded requests (never one built from body bytes), nothing stray between
//     responses, the connection is closed exactly when `Connection: close` was announced;
//   * correspondence with Model/ReqConn.lean (`C02 serve`): the model reads the very bytes the client sent
//     and says which requests the connection loop acts on, what becomes of each, and how the connection
//     ends.

import (
	"bytes"
	"encoding/base64"
	"encoding/json"
	"fmt"
	"net/url"
	"strconv"
	"strings"
	"sync"
	"sync/atomic"
	"time"

	"crypto/tls"

	"github.com/prometheus/client_golang/prometheus"
	"github.com/saucelabs/forwarder"
	"github.com/saucelabs/forwarder/ruleset"
	"github.com/saucelabs/forwarder/verifharness/core"
	"github.com/saucelabs/forwarder/verifharness/reqmodel"
	"github.com/saucelabs/forwarder/verifharness/rig"
)

type lreq struct {
	Kind    string `json:"kind"`   // "ok" | "auth" | "auth-wrong" | "deny" | "localhost" | "time" | "via"
	Method  string `json:"method"` //
	Minor   int    `json:"minor"`
	Conn    string `json:"connection,omitempty"`
	Framing string `json:"framing"`          // "none" | "cl" | "chunked" | "chunked-tr"
	Shape   string `json:"shape,omitempty"`  // "fill" | "request" | "request+fill" | "two-requests" | "crlf"
	Size    int    `json:"size,omitempty"`   // body size ("fill" part)
	Chunks  []int  `json:"chunks,omitempty"` // chunk sizes (chunked framings)
	Expect  bool   `json:"expect,omitempty"` // Expect: 100-continue
	Timing  string `json:"timing,omitempty"` // "" = body with the head | "later" | "short" (never completed)
	Origin  string `json:"origin,omitempty"` // forwarded requests: "" | "head-body" | "204-body" | "304-body" | "close"
}

type localCase struct {
	Kind      string  `json:"kind"` // "local"
	Env       string  `json:"env"`  // "gate" (auth + deny-domains + localhost denial + loop check) | "time" (outside the time frame)
	Mitm      bool    `json:"mitm,omitempty"`
	Pipelined bool    `json:"pipelined,omitempty"` // the whole connection in one go, then the responses
	Segments  []int   `json:"segments,omitempty"`  // pipelined: write segmentation
	Reqs      []*lreq `json:"reqs"`
}

const (
	lUser, lPass = "user", "pa:ss"
	lOrigin      = "origin.test"
	lDenied      = "denied.test"
)

var lAuthValue = "Basic " + base64.StdEncoding.EncodeToString([]byte(lUser+":"+lPass))

func (q *lreq) refusedStatus(env string) int {
	if env == "time" {
		return 451
	}
	switch q.Kind {
	case "auth", "auth-wrong":
		return 407
	case "deny", "localhost":
		return 403
	case "via":
		return 400
	}
	return 0
}

// reqCloses mirrors net/http's shouldClose for the request.
func (q *lreq) reqCloses() bool {
	return (&exchange{ReqConn: q.Conn, ReqMinor: q.Minor}).reqClose()
}

// closes: the response to this request ends the connection.
func (q *lreq) closes(env string) bool {
	if q.reqCloses() {
		return true
	}
	if st := q.refusedStatus(env); st != 0 {
		return st == 400
	}
	return q.Origin == "close"
}

// ---- environment ----

type seenReq struct {
	ID, Method, Target string
	Len                int
	Sum                uint32
}

type lenv struct {
	kind      string
	proxy     *rig.Proxy
	origin    *rig.Peer
	tlsOrigin *rig.Peer
	ca        *rig.CA
	viaTag    string
	mu        sync.Mutex
	seen      map[string][]seenReq
}

func (e *lenv) close() {
	if e.proxy != nil {
		e.proxy.Stop()
	}
	if e.origin != nil {
		e.origin.Close()
	}
	if e.tlsOrigin != nil {
		e.tlsOrigin.Close()
	}
}

func bodySum(b []byte) uint32 {
	var h uint32
	for _, c := range b {
		h = h*31 + uint32(c)
	}
	return h
}

func casePrefix(id string) string {
	if i := strings.IndexByte(id, '-'); i >= 0 {
		return id[:i]
	}
	return id
}

const strayBytes = "stray-body-bytes"

func (e *lenv) respond(w *rig.PeerConn, ex *rig.Exchange) bool {
	r := ex.Req
	id := r.Get("Case-Id")
	if id == "via-probe" {
		e.mu.Lock()
		e.viaTag = strings.TrimPrefix(r.Get("Via"), "1.1 ")
		e.mu.Unlock()
	}
	e.mu.Lock()
	p := casePrefix(id)
	e.seen[p] = append(e.seen[p], seenReq{ID: id, Method: r.Method, Target: r.Target, Len: len(r.Body), Sum: bodySum(r.Body)})
	e.mu.Unlock()
	echo := fmt.Sprintf("X-Echo-Id: %s\r\nX-Echo-Method: %s\r\nX-Echo-Target: %s\r\nX-Body-Len: %d\r\nX-Body-Sum: %d\r\n", id, r.Method, r.Target, len(r.Body), bodySum(r.Body))
	body := "ok:" + id
	switch do := r.Get("X-Origin-Do"); {
	case do == "204-body":
		w.Write([]byte("HTTP/1.1 204 No Content\r\n" + echo + "\r\n" + strayBytes))
	case do == "304-body":
		w.Write([]byte("HTTP/1.1 304 Not Modified\r\n" + echo + "Content-Length: " + strconv.Itoa(len(strayBytes)) + "\r\n\r\n" + strayBytes))
	case do == "head-body" && r.Method == "HEAD":
		w.Write([]byte("HTTP/1.1 200 OK\r\n" + echo + "Content-Length: " + strconv.Itoa(len(strayBytes)) + "\r\n\r\n" + strayBytes))
	case do == "close":
		w.Write([]byte("HTTP/1.1 200 OK\r\n" + echo + "Connection: close\r\nContent-Length: " + strconv.Itoa(len(body)) + "\r\n\r\n" + body))
		return false
	case r.Method == "HEAD":
		w.Write([]byte("HTTP/1.1 200 OK\r\n" + echo + "Content-Length: " + strconv.Itoa(len(body)) + "\r\n\r\n"))
	default:
		w.Write([]byte("HTTP/1.1 200 OK\r\n" + echo + "Content-Length: " + strconv.Itoa(len(body)) + "\r\n\r\n" + body))
	}
	return true
}

func newLocalEnv(ctx *core.Ctx, kind string) (*lenv, error) {
	e := &lenv{kind: kind, seen: map[string][]seenReq{}}
	var err error
	if e.origin, err = rig.NewPeer("local-origin", e.respond); err != nil {
		return nil, err
	}
	if e.ca, err = rig.NewCA("verif origin CA"); err != nil {
		return nil, err
	}
	leaf, err := e.ca.ValidLeaf(lOrigin)
	if err != nil {
		return nil, err
	}
	if e.tlsOrigin, err = rig.NewTLSPeer("local-tls-origin", &tls.Config{Certificates: []tls.Certificate{leaf}}, e.respond); err != nil {
		return nil, err
	}
	caFile, err := e.ca.WriteFile(ctx.Root+"/.work", fmt.Sprintf("c02-local-ca-%d.pem", time.Now().UnixNano()))
	if err != nil {
		return nil, err
	}
	deny, err := reqmodel.Matcher([]reqmodel.DomRule{{Kind: "e", Lit: lDenied}})
	if err != nil {
		return nil, err
	}
	e.proxy, err = rig.StartProxy(rig.ProxyOpts{
		ConnectTo: []forwarder.HostPortPair{rig.Route(lOrigin, "80", e.origin.Addr), rig.Route(lOrigin, "443", e.tlsOrigin.Addr)},
		Transport: func(tc *forwarder.HTTPTransportConfig) { tc.CACertFiles = []string{caFile} },
		Configure: func(cfg *forwarder.HTTPProxyConfig) {
			cfg.Name = "fwdverif"
			switch kind {
			case "gate", "gate-private":
				cfg.BasicAuth = url.UserPassword(lUser, lPass)
				cfg.ProxyLocalhost = forwarder.DenyProxyLocalhost
				cfg.DenyDomains = deny
				if kind == "gate" {
					cfg.MITM = forwarder.DefaultMITMConfig()
					cfg.PromRegistry = prometheus.NewRegistry()
				}
			case "time":
				// one allowed hour three days from now: every request is outside the time frame
				cfg.AllowTimeFrame = []ruleset.TimeFrameEntry{{Weekday: (time.Now().Weekday() + 3) % 7, HourStart: 0, HourEnd: 1}}
			}
		},
	})
	if err != nil {
		return nil, err
	}
	if kind != "time" {
		// this instance's Via pseudonym: what an ordinary request carries to the origin
		c, err := rig.Dial(e.proxy.Addr)
		if err != nil {
			return nil, err
		}
		defer c.Close()
		c.Send([]byte("GET http://"+lOrigin+"/via-probe HTTP/1.1\r\nHost: "+lOrigin+"\r\nCase-Id: via-probe\r\nProxy-Authorization: "+lAuthValue+"\r\n\r\n"), nil)
		if res, err := c.ReadResponse("GET", 5*time.Second); err != nil || res.Status != 200 || e.viaTag == "" {
			return nil, fmt.Errorf("via probe failed: %v (tag %q)", err, e.viaTag)
		}
	}
	return e, nil
}

type lenvPool struct {
	mu   sync.Mutex
	envs map[string]*lenv
	ctx  *core.Ctx
}

func (p *lenvPool) get(kind string) (*lenv, error) {
	p.mu.Lock()
	defer p.mu.Unlock()
	if e, ok := p.envs[kind]; ok {
		return e, nil
	}
	e, err := newLocalEnv(p.ctx, kind)
	if err != nil {
		return nil, err
	}
	p.envs[kind] = e
	return e, nil
}

func (p *lenvPool) closeAll() {
	for _, e := range p.envs {
		e.close()
	}
}

// ---- rendering ----

var lcaseSeq atomic.Int64

type rendered struct {
	id         string
	head, body []byte // body = the bytes that follow the head on the wire
	decoded    []byte // the body the request carries
	target     string // as sent
}

func (q *lreq) payload(lc *localCase, e *lenv, prefix string, k int) []byte {
	smuggled := func(tag string) []byte {
		id := fmt.Sprintf("%s-b%d%s", prefix, k, tag)
		t := "/from-the-body/" + id
		if !lc.Mitm {
			t = "http://" + lOrigin + t
		}
		return []byte("GET " + t + " HTTP/1.1\r\nHost: " + lOrigin + "\r\nCase-Id: " + id + "\r\nProxy-Authorization: " + lAuthValue + "\r\n\r\n")
	}
	fill := func(n int) []byte {
		return bytes.Repeat([]byte(fmt.Sprintf("<%d:body of request %d>", k, k)), n/16+1)[:n]
	}
	switch q.Shape {
	case "request":
		return smuggled("")
	case "two-requests":
		return append(smuggled("x"), smuggled("y")...)
	case "request+fill":
		return append(smuggled(""), fill(q.Size)...)
	case "crlf":
		return bytes.Repeat([]byte("\r\n"), q.Size/2+1)
	}
	return fill(q.Size)
}

func (q *lreq) render(lc *localCase, e *lenv, prefix string, k int) *rendered {
	r := &rendered{id: fmt.Sprintf("%s-%d", prefix, k)}
	host := lOrigin
	switch q.Kind {
	case "deny":
		host = lDenied
	case "localhost":
		host = "localhost:9"
	}
	path := "/l/" + r.id
	r.target = path
	if !lc.Mitm {
		r.target = "http://" + host + path
	}
	var b bytes.Buffer
	fmt.Fprintf(&b, "%s %s HTTP/1.%d\r\nHost: %s\r\nCase-Id: %s\r\n", q.Method, r.target, q.Minor, host, r.id)
	switch q.Kind {
	case "auth":
	case "auth-wrong":
		b.WriteString("Proxy-Authorization: Basic " + base64.StdEncoding.EncodeToString([]byte(lUser+":wrong")) + "\r\n")
	default:
		if lc.Env == "gate" {
			b.WriteString("Proxy-Authorization: " + lAuthValue + "\r\n")
		}
	}
	if q.Kind == "via" {
		b.WriteString("Via: 1.1 upstream-hop, 1.1 " + e.viaTag + "\r\n")
	}
	if q.Conn != "" {
		b.WriteString("Connection: " + q.Conn + "\r\n")
	}
	if q.Expect {
		b.WriteString("Expect: 100-continue\r\n")
	}
	if q.Origin != "" {
		b.WriteString("X-Origin-Do: " + q.Origin + "\r\n")
	}
	switch q.Framing {
	case "cl":
		r.decoded = q.payload(lc, e, prefix, k)
		fmt.Fprintf(&b, "Content-Type: application/octet-stream\r\nContent-Length: %d\r\n", len(r.decoded))
		r.body = r.decoded
	case "chunked", "chunked-tr":
		r.decoded = q.payload(lc, e, prefix, k)
		b.WriteString("Transfer-Encoding: chunked\r\n")
		var tr []rig.Field
		if q.Framing == "chunked-tr" {
			b.WriteString("Trailer: X-Req-Trailer\r\n")
			tr = []rig.Field{{Name: "X-Req-Trailer", Value: "t-" + r.id}}
		}
		r.body = rig.ChunkEncode(r.decoded, q.Chunks, tr)
	}
	b.WriteString("\r\n")
	r.head = b.Bytes()
	return r
}

// ---- one connection ----

type lobs struct {
	resps    []*rig.Msg
	readErr  string // why reading stopped early ("" = every expected response was read)
	writeErr string // first failed write, if any (informational)
	end      string // "open" | "closed" | "open?" (neither proven)
	extra    int    // stray bytes after the last expected response
	probe    string // how the probe went ("" = not sent)
}

func (e *lenv) open(lc *localCase) (*rig.Client, error) {
	c, err := rig.Dial(e.proxy.Addr)
	if err != nil {
		return nil, err
	}
	if !lc.Mitm {
		return c, nil
	}
	c.Send([]byte("CONNECT "+lOrigin+":443 HTTP/1.1\r\nHost: "+lOrigin+":443\r\nProxy-Authorization: "+lAuthValue+"\r\n\r\n"), nil)
	res, err := c.ReadResponse("CONNECT", 5*time.Second)
	if err != nil || res.Status != 200 {
		c.Close()
		return nil, fmt.Errorf("mitm CONNECT failed: %v", err)
	}
	pool := e.ca.Pool()
	pool.AddCert(e.proxy.CACert())
	if _, err := c.StartTLS(lOrigin, pool, false); err != nil {
		c.Close()
		return nil, err
	}
	return c, nil
}

const (
	lClauseKth    = "the k-th response answers the k-th request (requests answered by the proxy itself included)"
	lClauseOrigin = "the origin is sent exactly the requests the client sent to it, never one built from body bytes"
	lClauseConn   = "the connection survives a keep-alive exchange and is closed exactly when Connection: close was announced"
	lClauseStray  = "no bytes of one message leak into the next"
	lRelModel     = "requests acted on / connection end = ReqConn.serve (Model/ReqConn.lean)"
)

func runLocal(ctx *core.Ctx, pool *lenvPool, lc *localCase) {
	key, _ := json.Marshal(lc)
	ctx.Case(string(key), true)
	var e *lenv
	var err error
	if lc.hasStray() {
		// stray origin bytes poison the transport's pooled origin connection for whoever uses it next: such a
		// case gets a proxy and an origin of its own, so that only its own next exchange can be hit
		if e, err = newLocalEnv(ctx, "gate-private"); err == nil {
			defer e.close()
		}
	} else {
		e, err = pool.get(lc.Env)
	}
	if err != nil {
		ctx.Crash("proxy starts with a valid configuration", "", lc, err.Error())
		return
	}
	prefix := fmt.Sprintf("L%d", lcaseSeq.Add(1))
	var rs []*rendered
	for k, q := range lc.Reqs {
		rs = append(rs, q.render(lc, e, prefix, k))
		kind := q.Kind
		if lc.Env == "time" {
			kind = "time"
		}
		sz := "none"
		if q.Framing != "none" {
			switch n := len(rs[k].decoded); {
			case n <= 4096:
				sz = "≤4K"
			case n <= 65536:
				sz = "≤64K"
			default:
				sz = ">64K"
			}
		}
		timing := q.Timing
		if timing == "" {
			timing = "same"
		}
		if lc.Pipelined {
			timing = "pipelined"
		}
		ctx.Count(fmt.Sprintf("local/%s/%s/%s", kind, q.Framing, timing))
		if q.Framing != "none" {
			ctx.Count("local-body/" + kind + "/" + q.Shape + "/" + sz)
		}
		if q.Expect {
			ctx.Count("local-expect-continue/" + kind)
		}
		if q.Origin != "" {
			ctx.Count("local-origin/" + q.Origin)
		}
	}
	ctx.Count(fmt.Sprintf("local-length/%d", len(lc.Reqs)))
	if lc.Mitm {
		ctx.Count("local-mode/mitm")
	} else {
		ctx.Count("local-mode/direct")
	}

	// what the generator intends: requests up to and including the first that closes; a "short" body ends the stream
	nExpect, wantEnd := 0, "open"
	for _, q := range lc.Reqs {
		nExpect++
		if q.Timing == "short" {
			wantEnd = "stuck"
			break
		}
		if q.closes(lc.Env) {
			wantEnd = "closed"
			break
		}
	}

	c, err := e.open(lc)
	if err != nil {
		ctx.Crash("proxy accepts a client connection", "", lc, err.Error())
		return
	}
	defer c.Close()
	var sent bytes.Buffer
	obs := &lobs{}
	send := func(b []byte, seg []int) bool {
		sent.Write(b)
		if err := c.Send(b, seg); err != nil && obs.writeErr == "" {
			// a write that fails because the proxy has closed is judged by what was (not) answered: a close
			// that was announced makes the rest of a pipeline undeliverable by design
			obs.writeErr = err.Error()
		}
		return true
	}
	read := func(k int) bool {
		m, err := c.ReadResponse(lc.Reqs[k].Method, 6*time.Second)
		if err != nil || m == nil || !m.Complete {
			obs.readErr = fmt.Sprintf("response %d: %s", k, describe(m, err))
			return false
		}
		obs.resps = append(obs.resps, m)
		return true
	}
	if lc.Pipelined {
		var all []byte
		for k := 0; k < len(lc.Reqs); k++ {
			all = append(all, rs[k].head...)
			if lc.Reqs[k].Timing == "short" {
				all = append(all, rs[k].body[:len(rs[k].body)/2]...)
				break
			}
			all = append(all, rs[k].body...)
		}
		send(all, lc.Segments)
		for k := 0; k < nExpect; k++ {
			if !read(k) {
				break
			}
		}
	} else {
	loop:
		for k := 0; k < nExpect; k++ {
			q, r := lc.Reqs[k], rs[k]
			refused := q.refusedStatus(lc.Env) != 0
			switch q.Timing {
			case "later":
				if !send(r.head, nil) {
					break loop
				}
				got := false
				if refused {
					// the proxy answers on the head; the body follows its answer
					if !read(k) {
						break loop
					}
					got = true
				} else {
					time.Sleep(8 * time.Millisecond)
				}
				sent.Write(r.body)
				if werr := c.Send(r.body, nil); werr != nil && obs.writeErr == "" {
					obs.writeErr = werr.Error()
				}
				if !got && !read(k) {
					break loop
				}
			case "short":
				if !send(append(append([]byte(nil), r.head...), r.body[:len(r.body)/2]...), nil) || !read(k) {
					break loop
				}
			default:
				if !send(append(append([]byte(nil), r.head...), r.body...), nil) || !read(k) {
					break loop
				}
			}
		}
	}
	// the state of the connection after the last expected response
	probeID := prefix + "-p"
	if obs.readErr == "" {
		switch wantEnd {
		case "open":
			t := "/l/" + probeID
			if !lc.Mitm {
				t = "http://" + lOrigin + t
			}
			pr := "GET " + t + " HTTP/1.1\r\nHost: " + lOrigin + "\r\nCase-Id: " + probeID + "\r\n"
			if lc.Env == "gate" {
				pr += "Proxy-Authorization: " + lAuthValue + "\r\n"
			}
			if err := c.Send([]byte(pr+"\r\n"), nil); err != nil {
				obs.end, obs.probe = "closed", "write: "+err.Error()
				break
			}
			m, err := c.ReadResponse("GET", 6*time.Second)
			switch {
			case err != nil || m == nil || !m.Complete:
				obs.end, obs.probe = "closed", describe(m, err)
			case lc.Env == "time" && m.Status == 451, lc.Env != "time" && m.Status == 200 && m.Get("X-Echo-Id") == probeID:
				obs.end, obs.probe = "open", "answered"
			case lc.Env != "time" && proxyError(m) && afterStray(lc, len(lc.Reqs)):
				obs.end, obs.probe = "open", "answered (error response after stray origin bytes)"
			default:
				obs.end, obs.probe = "open", "misanswered: "+describe(m, nil)
			}
		case "stuck":
			c.CloseWrite()
			fallthrough
		case "closed":
			closed, extra := c.ExpectClosed(3 * time.Second)
			obs.extra = len(extra)
			obs.end = map[bool]string{true: "closed", false: "open?"}[closed]
		}
	}

	// what the origin saw of this case (give a straggler a moment when something is off anyway)
	if obs.readErr != "" {
		time.Sleep(50 * time.Millisecond)
	}
	e.mu.Lock()
	seen := append([]seenReq(nil), e.seen[prefix]...)
	delete(e.seen, prefix)
	e.mu.Unlock()

	impl := describeLocal(lc, obs, seen)
	ok := true
	fail := func(clause, detail string) {
		ok = false
		ctx.SpecFail(clause, "", lc, impl, detail)
	}

	// ---- the property's clauses, from the generator's intent ----
	for k, m := range obs.resps {
		q, r := lc.Reqs[k], rs[k]
		if st := q.refusedStatus(lc.Env); st != 0 {
			if m.Status != st || m.Has("X-Echo-Id") || !m.Has("X-Forwarder-Error") {
				fail(lClauseKth, fmt.Sprintf("response %d should be the proxy's own %d to request %d (%s %s); got %s", k, st, k, q.Method, r.target, describe(m, nil)))
				break
			}
		} else {
			wantStatus := map[string]int{"204-body": 204, "304-body": 304}[q.Origin]
			if wantStatus == 0 {
				wantStatus = 200
			}
			if proxyError(m) && afterStray(lc, k) {
				// the origin broke its own framing on the previous exchange: a clean error for this one is fine
				ctx.Count("local-origin/502-after-stray")
			} else if m.Status != wantStatus || m.Get("X-Echo-Id") != r.id || m.Get("X-Echo-Method") != q.Method ||
				m.Get("X-Body-Len") != strconv.Itoa(len(r.decoded)) || m.Get("X-Body-Sum") != strconv.FormatUint(uint64(bodySum(r.decoded)), 10) {
				fail(lClauseKth, fmt.Sprintf("response %d should be the origin's answer to request %d (%s %s, id %s, %d body bytes, sum %d); got %s", k, k, q.Method, r.target, r.id, len(r.decoded), bodySum(r.decoded), describe(m, nil)))
				break
			}
			if q.Method != "HEAD" && wantStatus == 200 && m.Status == 200 && string(m.Body) != "ok:"+r.id {
				fail(lClauseStray, fmt.Sprintf("response %d: body %q, the origin sent %q", k, m.Body, "ok:"+r.id))
				break
			}
			if (q.Method == "HEAD" || wantStatus != 200) && len(m.Body) != 0 {
				fail("HEAD/204/304 replies carry no body", fmt.Sprintf("response %d: %d body bytes", k, len(m.Body)))
				break
			}
		}
		if says := hasToken(m.Values("Connection"), "close"); says != q.closes(lc.Env) && !(proxyError(m) && says) {
			fail(lClauseConn, fmt.Sprintf("response %d: Connection: close announced=%v, expected %v", k, says, q.closes(lc.Env)))
			break
		}
	}
	if ok && obs.readErr != "" {
		fail(lClauseKth, fmt.Sprintf("response %d of %d never arrived complete: %s", len(obs.resps), nExpect, obs.readErr))
	}
	if ok {
		switch {
		case wantEnd == "open" && obs.end != "open":
			fail(lClauseConn, "no close was announced, but the connection did not answer one more request: "+obs.probe)
		case wantEnd == "open" && strings.HasPrefix(obs.probe, "misanswered"):
			fail(lClauseKth, "one more request after the sequence: "+obs.probe)
		case wantEnd != "open" && obs.end != "closed":
			fail(lClauseConn, "the connection was to be closed ("+wantEnd+") and was left open")
		case obs.extra > 0:
			fail(lClauseStray, fmt.Sprintf("%d stray bytes after the last response", obs.extra))
		}
	}
	// the origin's view
	var wantSeen []seenReq
	// A request answered with a tolerated proxy error after an origin reply with stray bytes was
	// written on a connection the stray bytes had poisoned: the origin may or may not have logged it.
	optional := map[string]bool{}
	for k := 0; k < nExpect; k++ {
		q, r := lc.Reqs[k], rs[k]
		if q.refusedStatus(lc.Env) == 0 {
			wantSeen = append(wantSeen, seenReq{ID: r.id, Method: q.Method, Target: "/l/" + r.id, Len: len(r.decoded), Sum: bodySum(r.decoded)})
			if k < len(obs.resps) && proxyError(obs.resps[k]) && afterStray(lc, k) {
				optional[r.id] = true
			}
		}
	}
	if wantEnd == "open" && lc.Env != "time" {
		wantSeen = append(wantSeen, seenReq{ID: probeID, Method: "GET", Target: "/l/" + probeID})
	}
	for _, s := range seen {
		found := false
		for _, w := range wantSeen {
			if w == s {
				found = true
			}
		}
		if !found {
			fail(lClauseOrigin, fmt.Sprintf("the origin received %s %s (Case-Id %s, %d body bytes), which the client never sent as a request", s.Method, s.Target, s.ID, s.Len))
			break
		}
	}
	required := func(l []seenReq) []seenReq {
		var out []seenReq
		for _, s := range l {
			if !optional[s.ID] {
				out = append(out, s)
			}
		}
		return out
	}
	if ok && fmt.Sprint(required(seen)) != fmt.Sprint(required(wantSeen)) {
		fail(lClauseOrigin, fmt.Sprintf("the origin received %v, the client sent it %v", seen, wantSeen))
	}

	// ---- correspondence with the model ----
	args := []string{"C02", "serve", "mode=always", "in=" + core.Hex(sent.Bytes())}
	if lc.Env == "time" {
		args = append(args, "time=0")
	} else {
		args = append(args, "auth="+core.JoinList([]string{core.HexS(lUser), core.HexS(lPass)}),
			"deny="+core.HexList([]string{lDenied, "localhost"}), "via="+core.HexS(e.viaTag))
	}
	var oclose []string
	for k, q := range lc.Reqs {
		if q.Origin == "close" {
			oclose = append(oclose, rs[k].target)
		}
	}
	args = append(args, "oclose="+core.HexList(oclose))
	ans := ctx.Model.MustAsk(args...)
	mEnd, mActs := parseServe(ans)
	var diffs []string
	if len(mActs) != len(obs.resps) {
		diffs = append(diffs, fmt.Sprintf("%d responses, the model acts on %d requests", len(obs.resps), len(mActs)))
	}
	var mSeen []seenReq
	for k, a := range mActs {
		if a.status == 0 && a.bodyLen >= 0 {
			t := a.target
			if i := strings.Index(t, "://"); i >= 0 {
				t = t[i+3:]
				if j := strings.IndexByte(t, '/'); j >= 0 {
					t = t[j:]
				}
			}
			id := strings.TrimPrefix(strings.TrimPrefix(t, "/l/"), "/from-the-body/")
			mSeen = append(mSeen, seenReq{ID: id, Method: a.method, Target: t, Len: a.bodyLen, Sum: a.bodySum})
		}
		if k >= len(obs.resps) {
			continue
		}
		m := obs.resps[k]
		tolerated := proxyError(m) && a.status == 0 && afterStray(lc, k)
		switch {
		case tolerated:
		case a.status != 0 && (m.Status != a.status || m.Has("X-Echo-Id")):
			diffs = append(diffs, fmt.Sprintf("response %d: %s; the model answers %s %s itself with %d", k, describe(m, nil), a.method, a.target, a.status))
		case a.status == 0 && (!m.Has("X-Echo-Id") || m.Get("X-Echo-Method") != a.method || !strings.HasSuffix(a.target, m.Get("X-Echo-Target")) ||
			m.Get("X-Body-Len") != strconv.Itoa(a.bodyLen) || m.Get("X-Body-Sum") != strconv.FormatUint(uint64(a.bodySum), 10)):
			diffs = append(diffs, fmt.Sprintf("response %d: %s; the model forwards %s %s with %d body bytes (sum %d)", k, describe(m, nil), a.method, a.target, a.bodyLen, a.bodySum))
		}
		if says := hasToken(m.Values("Connection"), "close"); says != a.close && !tolerated {
			diffs = append(diffs, fmt.Sprintf("response %d: Connection: close announced=%v, model %v", k, says, a.close))
		}
	}
	switch mEnd {
	case "idle":
		if obs.end != "open" && obs.readErr == "" {
			diffs = append(diffs, "connection "+obs.end+" ("+obs.probe+"), the model leaves it idle")
		}
		if lc.Env != "time" {
			mSeen = append(mSeen, seenReq{ID: probeID, Method: "GET", Target: "/l/" + probeID})
		}
	default:
		if obs.end != "closed" && obs.readErr == "" {
			diffs = append(diffs, "connection "+obs.end+", the model ends it ("+mEnd+")")
		}
	}
	if obs.readErr == "" && fmt.Sprint(seen) != fmt.Sprint(mSeen) {
		diffs = append(diffs, fmt.Sprintf("the origin received %v, the model forwards %v", seen, mSeen))
	}
	if len(diffs) > 0 {
		detail := ans
		if len(detail) > 600 {
			detail = detail[:600] + "…"
		}
		// diagnosis only: does the implementation behave like the loop that leaves refused bodies unread?
		args[2] = "mode=forwardedonly"
		if lEnd, lActs := parseServe(ctx.Model.MustAsk(args...)); len(lActs) != len(mActs) || lEnd != mEnd {
			detail += fmt.Sprintf(" | the loop WITHOUT the body drain of refused requests would act on %d requests and end %q", len(lActs), lEnd)
		}
		ctx.Disagree(lRelModel, lc, strings.Join(diffs, "; ")+" | "+impl, detail)
	} else if ok {
		ctx.TraceValidated()
	}
}

func (lc *localCase) hasStray() bool {
	for _, q := range lc.Reqs {
		if q.Origin == "head-body" || q.Origin == "204-body" || q.Origin == "304-body" {
			return true
		}
	}
	return false
}

// afterStray: request k follows (directly, among the forwarded ones) a forwarded exchange whose origin
// response carried stray body bytes.
func afterStray(lc *localCase, k int) bool {
	for j := k - 1; j >= 0; j-- {
		q := lc.Reqs[j]
		if q.refusedStatus(lc.Env) != 0 {
			continue
		}
		return q.Origin == "head-body" || q.Origin == "204-body" || q.Origin == "304-body"
	}
	return false
}

// proxyError: a 5xx the proxy generated itself (a failed round trip).
func proxyError(m *rig.Msg) bool {
	return m.Status/100 == 5 && m.Has("X-Forwarder-Error") && !m.Has("X-Echo-Id")
}

func hasToken(vs []string, tok string) bool {
	for _, v := range vs {
		for _, t := range strings.Split(v, ",") {
			if strings.EqualFold(strings.TrimSpace(t), tok) {
				return true
			}
		}
	}
	return false
}

func describeLocal(lc *localCase, o *lobs, seen []seenReq) string {
	var b strings.Builder
	for k, m := range o.resps {
		fmt.Fprintf(&b, "[%d] %d", k, m.Status)
		if id := m.Get("X-Echo-Id"); id != "" {
			fmt.Fprintf(&b, " echo=%s %s %s body=%s", id, m.Get("X-Echo-Method"), m.Get("X-Echo-Target"), m.Get("X-Body-Len"))
		}
		if hasToken(m.Values("Connection"), "close") {
			b.WriteString(" close")
		}
		b.WriteString("; ")
	}
	if o.readErr != "" {
		b.WriteString("then " + o.readErr + "; ")
	}
	if o.writeErr != "" {
		b.WriteString("(a write failed: " + o.writeErr + ") ")
	}
	fmt.Fprintf(&b, "connection %s", o.end)
	if o.probe != "" {
		b.WriteString(" (one more request: " + o.probe + ")")
	}
	if o.extra > 0 {
		fmt.Fprintf(&b, ", %d stray bytes", o.extra)
	}
	b.WriteString("; origin saw")
	for _, s := range seen {
		fmt.Fprintf(&b, " %s %s(%dB)", s.Method, s.Target, s.Len)
	}
	if len(seen) == 0 {
		b.WriteString(" nothing")
	}
	return b.String()
}

type mAct struct {
	method, target string
	status         int
	close          bool
	bodyLen        int // -1: never completed
	bodySum        uint32
}

func parseServe(ans string) (string, []mAct) {
	f := strings.Fields(ans)
	if len(f) != 2 {
		core.Fatalf("C02 serve: malformed answer %q", ans)
	}
	var as []mAct
	for _, e := range core.SplitList2(f[1]) {
		p := core.SplitList(e)
		if len(p) != 7 {
			core.Fatalf("C02 serve: malformed exchange %q", e)
		}
		a := mAct{method: string(core.MustUnHex(p[0])), target: string(core.MustUnHex(p[1])), close: p[3] == "1", bodyLen: -1}
		a.status, _ = strconv.Atoi(p[2])
		if p[4] != "-" {
			a.bodyLen, _ = strconv.Atoi(p[4])
			s, _ := strconv.ParseUint(p[5], 10, 32)
			a.bodySum = uint32(s)
		}
		as = append(as, a)
	}
	return f[0], as
}

// ---- generator ----

type bodyForm struct {
	framing, shape string
	size           int
	chunks         []int
}

var lBodyForms = []bodyForm{
	{"cl", "fill", 37, nil},
	{"cl", "fill", 5000, nil},
	{"cl", "fill", 70000, nil},
	{"chunked", "fill", 900, []int{1, 300}},
	{"chunked-tr", "fill", 6000, []int{4096, 1}},
	{"cl", "request", 0, nil},
	{"chunked", "request", 0, nil},
	{"cl", "request+fill", 4500, nil},
}

var lRefusedKinds = []string{"auth", "auth-wrong", "deny", "localhost", "via"}

func genFollower(r *core.Rand) *lreq {
	q := &lreq{Kind: "ok", Method: core.Pick(r, []string{"GET", "GET", "POST", "PUT", "HEAD"}), Minor: 1, Framing: "none"}
	if q.Method == "POST" || q.Method == "PUT" {
		q.Framing = core.Pick(r, []string{"cl", "cl", "chunked", "chunked-tr"})
		q.Shape = "fill"
		q.Size = core.Pick(r, []int{0, 1, 100, 4096, 5000, 33000})
		if q.Framing != "cl" {
			q.Chunks = []int{core.Pick(r, []int{1, 7, 4096}), core.Pick(r, []int{1, 100, 5000})}
		}
		if r.Chance(25) {
			q.Timing = "later"
		}
	}
	return q
}

// genLocalOf: a refused request of the given kind and body form, then 1-3 ordinary ones.
func genLocalOf(r *core.Rand, env, kind string, bf bodyForm, timing string) *localCase {
	lc := &localCase{Kind: "local", Env: env}
	q := &lreq{Kind: kind, Method: core.Pick(r, []string{"POST", "POST", "PUT", "PATCH", "GET"}), Minor: 1,
		Framing: bf.framing, Shape: bf.shape, Size: bf.size, Chunks: bf.chunks}
	switch timing {
	case "pipelined":
		lc.Pipelined = true
		if r.Chance(50) {
			lc.Segments = []int{core.Pick(r, []int{1, 20, 100, 4096}), core.Pick(r, []int{1, 50, 4096, 30000})}
		}
	case "later":
		q.Timing = "later"
		q.Expect = r.Chance(50)
	}
	lc.Reqs = append(lc.Reqs, q)
	for i, n := 0, r.Range(1, 3); i < n; i++ {
		f := genFollower(r)
		if lc.Pipelined {
			f.Timing = ""
		}
		lc.Reqs = append(lc.Reqs, f)
	}
	return lc
}

func genLocal(r *core.Rand) *localCase {
	lc := &localCase{Kind: "local", Env: core.Pick(r, []string{"gate", "gate", "gate", "gate", "time"})}
	if lc.Env == "gate" && r.Chance(20) {
		lc.Mitm = true
	}
	if r.Chance(40) {
		lc.Pipelined = true
		if r.Chance(60) {
			for i, n := 0, r.Range(1, 4); i < n; i++ {
				lc.Segments = append(lc.Segments, core.Pick(r, []int{1, 2, 30, 200, 4096, 5000, 40000}))
			}
		}
	}
	n := r.Range(2, 5)
	for i := 0; i < n; i++ {
		last := i == n-1
		var q *lreq
		if r.Chance(55) {
			kinds := lRefusedKinds
			if last || r.Chance(90) {
				kinds = kinds[:4] // a Via loop ends the connection: mostly at the end
			}
			q = &lreq{Kind: core.Pick(r, kinds), Method: core.Pick(r, []string{"POST", "POST", "PUT", "PATCH", "DELETE", "GET", "HEAD"}), Minor: 1}
			if last && r.Chance(15) {
				q.Kind = "via"
			}
			if lc.Env == "time" {
				q.Kind = "time"
			}
			if lc.Mitm && q.Kind == "via" {
				q.Kind = "deny"
			}
			switch {
			case r.Chance(12):
				q.Framing = "none"
			case r.Chance(60):
				bf := core.Pick(r, lBodyForms)
				q.Framing, q.Shape, q.Size, q.Chunks = bf.framing, bf.shape, bf.size, bf.chunks
			default:
				q.Framing = core.Pick(r, []string{"cl", "cl", "chunked", "chunked-tr"})
				q.Shape = core.Pick(r, []string{"fill", "fill", "fill", "request", "request+fill", "two-requests", "crlf"})
				q.Size = core.Pick(r, []int{0, 1, 2, 100, 4095, 4096, 4097, 8192, 32768, 65536, 66000, 140000})
				if r.Chance(30) {
					q.Size = r.Range(0, 9000)
				}
				if q.Framing != "cl" {
					for j, m := 0, r.Range(0, 4); j < m; j++ {
						q.Chunks = append(q.Chunks, core.Pick(r, []int{1, 2, 100, 4095, 4096, 4097, 40000}))
					}
				}
			}
			if q.Framing != "none" && !lc.Pipelined {
				switch {
				case r.Chance(30):
					q.Timing = "later"
					q.Expect = r.Chance(40)
				case last && r.Chance(25) && !(q.Framing == "cl" && q.Shape == "fill" && q.Size < 2):
					q.Timing = "short"
				}
			}
			if r.Chance(8) && q.Framing != "chunked" && q.Framing != "chunked-tr" {
				q.Minor = 0
				q.Conn = "keep-alive"
			}
		} else {
			q = genFollower(r)
			if lc.Pipelined {
				q.Timing = ""
			}
			if lc.Env == "time" {
				q.Kind = "time"
			} else if r.Chance(18) {
				switch core.Pick(r, []string{"head-body", "204-body", "304-body"}) {
				case "head-body":
					q.Method, q.Framing, q.Shape, q.Size, q.Chunks, q.Timing, q.Origin = "HEAD", "none", "", 0, nil, "", "head-body"
				case "204-body":
					q.Origin = "204-body"
				default:
					q.Origin = "304-body"
				}
			}
		}
		if last && r.Chance(20) {
			if q.Kind == "ok" && q.Origin == "" && r.Chance(40) {
				q.Origin = "close"
			} else {
				q.Conn = core.Pick(r, []string{"close", "Close", "keep-alive, close"})
			}
		} else if !last && r.Chance(4) {
			q.Conn = "close" // what follows must never be answered
		}
		lc.Reqs = append(lc.Reqs, q)
	}
	if lc.hasStray() {
		lc.Mitm = false
	}
	return lc
}

// localMatrix: every refusal kind × body form × timing, then the never-completed bodies and the origin-side
// stray bytes.
func localMatrix(r *core.Rand) []*localCase {
	var out []*localCase
	for _, kind := range append(append([]string{}, lRefusedKinds...), "time") {
		env := "gate"
		if kind == "time" {
			env = "time"
		}
		for _, bf := range lBodyForms {
			for _, timing := range []string{"same", "later", "pipelined"} {
				out = append(out, genLocalOf(r.Sub(), env, kind, bf, timing))
			}
		}
		for _, bf := range []bodyForm{lBodyForms[1], lBodyForms[3]} {
			lc := &localCase{Kind: "local", Env: env, Reqs: []*lreq{genFollower(r.Sub()),
				{Kind: kind, Method: "POST", Minor: 1, Framing: bf.framing, Shape: bf.shape, Size: bf.size, Chunks: bf.chunks, Timing: "short"}}}
			out = append(out, lc)
		}
	}
	for _, do := range []string{"head-body", "204-body", "304-body"} {
		for _, pipelined := range []bool{false, true} {
			q := &lreq{Kind: "ok", Method: "GET", Minor: 1, Framing: "none", Origin: do}
			if do == "head-body" {
				q.Method = "HEAD"
			}
			lc := &localCase{Kind: "local", Env: "gate", Pipelined: pipelined, Reqs: []*lreq{q, genFollower(r.Sub()), genFollower(r.Sub())}}
			if pipelined {
				for _, f := range lc.Reqs {
					f.Timing = ""
				}
			}
			out = append(out, lc)
		}
	}
	return out
}
