package c02

// Sequences of streamed and non-streamed responses on ONE keep-alive client connection.
//
// The origin stalls after the head (optionally) and after every body piece; the client records what has
// reached it while the origin stalls (bytes received once the connection has gone quiet) and only then
// lets the origin go on.  Judged twice:
//
//   * the property's clause: a complete event (text/event-stream) / a chunk (chunked body) and, for
//     chunked bodies, the response head must arrive while the origin stalls (bounded wait), and every
//     response must relay status, Content-Type, the correlation field and the body bytes of ITS request;
//   * correspondence with Model/Flush.lean (`RESP flushconn`): the writes of every response are
//     reconstructed from the bytes the client received (status line, field lines as http.Header.Write
//     splits them, one size-line/data/CRLF triple per chunk the client saw; for bodies relayed without a
//     transfer coding: one write per origin write) and the model's `delivered` count after the write
//     that ends each piece is compared with the client's byte count at that stall — exactly.
//
// Every verdict that depends on timing is confirmed by repetition with a longer quiet window.

import (
	"bufio"
	"bytes"
	"encoding/json"
	"fmt"
	"net"
	"strconv"
	"strings"
	"time"

	"github.com/saucelabs/forwarder"
	"github.com/saucelabs/forwarder/verifharness/core"
	"github.com/saucelabs/forwarder/verifharness/rig"
)

type seqResp struct {
	Kind      string   `json:"kind"`                 // see seqKinds
	Pieces    []string `json:"pieces,omitempty"`     // hex; the origin stalls after each
	Split     bool     `json:"split,omitempty"`      // every piece goes out in two origin writes (cut before its last byte)
	HeadStall bool     `json:"head_stall,omitempty"` // the origin also stalls between head and first piece
	CT        string   `json:"content_type,omitempty"`
}

type seqCase struct {
	Kind  string     `json:"kind"` // "seq"
	Resps []*seqResp `json:"resps"`
}

type seqKind struct {
	method   string
	status   int
	ct       string
	origin   string // framing the origin uses: "chunked" | "cl" | "eof" | "none"
	pattern  string // "sse" | "chunk" | "" (which writer the proxy is expected to use; informational, the model decides)
	keep     bool   // the client connection survives the response
	streamed bool
}

var seqKinds = map[string]seqKind{
	"sse-chunked": {"GET", 200, "text/event-stream", "chunked", "sse", true, true},
	"sse-cl":      {"GET", 200, "text/event-stream", "cl", "sse", true, true},
	"sse-eof":     {"GET", 200, "text/event-stream", "eof", "sse", false, true},
	"chunked":     {"GET", 200, "application/octet-stream", "chunked", "chunk", true, true},
	"raw-eof":     {"GET", 200, "text/plain", "eof", "chunk", false, true},
	"plain-cl":    {"GET", 200, "application/octet-stream", "cl", "", true, false},
	"no-content":  {"GET", 204, "", "none", "", true, false},
	"head":        {"HEAD", 200, "text/event-stream", "none", "", true, false},
}

var (
	seqKeepKinds = []string{"sse-chunked", "sse-cl", "chunked", "plain-cl", "no-content", "head"}
	seqLastKinds = []string{"sse-chunked", "sse-cl", "chunked", "plain-cl", "no-content", "head", "sse-eof", "raw-eof"}
)

func (sr *seqResp) kind() seqKind { return seqKinds[sr.Kind] }

func (sr *seqResp) pieces() [][]byte {
	var ps [][]byte
	for _, h := range sr.Pieces {
		ps = append(ps, core.MustUnHex(h))
	}
	return ps
}

func (sr *seqResp) body() []byte { return bytes.Join(sr.pieces(), nil) }

func (sr *seqResp) contentType() string {
	if sr.CT != "" {
		return sr.CT
	}
	return sr.kind().ct
}

// promised: does the property promise that the body sent so far is with the client while the origin
// stalls after piece j?  A chunk of a chunked body; an event stream whose bytes so far end an event.
// expected: the same for what the flush policy does beyond the promise (a close-delimited HTTP/1.1 body of
// unknown length goes through the "\r\n" writer).
func (sr *seqResp) promised(sofar []byte, piece []byte) (promised, expected bool) {
	switch sr.kind().pattern {
	case "sse":
		p := bytes.HasSuffix(sofar, []byte("\n\n")) && len(piece) > 0
		return p, p
	case "chunk":
		if sr.kind().origin == "chunked" {
			return len(piece) > 0, len(piece) > 0
		}
		return false, bytes.HasSuffix(sofar, []byte("\r\n")) && len(piece) > 0
	}
	return false, false
}

// ---- generator ----

func genPieces(r *core.Rand, kind string, idx int, prevEndsNL, prevEndsCR bool) []string {
	k := seqKinds[kind]
	if !k.streamed {
		if k.origin == "cl" {
			return []string{core.Hex(bytes.Repeat([]byte{byte('p' + idx)}, core.Pick(r, []int{0, 1, 300, 5000})))}
		}
		return nil
	}
	identity := k.origin != "chunked"
	sizes := []int{1, 10, 200, 3000, 5000}
	if identity {
		sizes = []int{1, 10, 200, 900} // one origin write = one proxy read, and no bufio overflow to reason about
	}
	n := r.Range(1, 3)
	var ps [][]byte
	switch k.pattern {
	case "sse":
		first := true
		for i := 0; i < n; i++ {
			ev := fmt.Sprintf("id: %d.%d\ndata: %s\n\n", idx, i, strings.Repeat("e", core.Pick(r, sizes)))
			switch {
			case first && prevEndsNL && r.Chance(70):
				// the previous response ended in "\n": this body starts with "\n" (no carry-over across responses)
				ps = append(ps, []byte("\n"+ev))
			case r.Chance(25):
				// an event whose blank line arrives on its own: "...\n" | "\n"  (carry-over inside the response)
				ps = append(ps, []byte(ev[:len(ev)-1]), []byte("\n"))
			case r.Chance(15):
				// ... or together with the start of the next event
				ps = append(ps, []byte(ev[:len(ev)-1]), []byte("\ndata: tail\n\n"))
			default:
				ps = append(ps, []byte(ev))
			}
			first = false
		}
		if r.Chance(35) {
			// the stream ends inside an event: the response's last byte is "\n"
			ps = append(ps, []byte(fmt.Sprintf("data: unfinished %d\n", idx)))
		}
	case "chunk":
		if kind == "raw-eof" {
			for i := 0; i < n; i++ {
				line := fmt.Sprintf("line %d.%d %s\r\n", idx, i, strings.Repeat("l", core.Pick(r, sizes)))
				switch {
				case i == 0 && prevEndsCR && r.Chance(70):
					ps = append(ps, []byte("\n"+line))
				case r.Chance(30):
					ps = append(ps, []byte(line[:len(line)-1]), []byte("\n")) // "...\r" | "\n"
				case r.Chance(15):
					ps = append(ps, []byte(fmt.Sprintf("no line end %d.%d", idx, i)))
				default:
					ps = append(ps, []byte(line))
				}
			}
			break
		}
		for i := 0; i < n; i++ {
			p := bytes.Repeat([]byte{byte('a' + (idx*3+i)%26)}, core.Pick(r, sizes))
			switch {
			case i == 0 && (prevEndsCR || prevEndsNL) && r.Chance(70):
				p = append([]byte("\n"), p...)
			case r.Chance(20):
				p = append(p, '\r') // the chunk (possibly the response's last) ends in the pattern's first byte
			case r.Chance(15):
				p = append(p, '\n')
			case r.Chance(10):
				p = append(append([]byte("x\r\n"), p...), '\n', '\n')
			}
			ps = append(ps, p)
		}
	}
	var out []string
	for _, p := range ps {
		out = append(out, core.Hex(p))
	}
	return out
}

func genSeqResp(r *core.Rand, kind string, idx int, prev *seqResp) *seqResp {
	sr := &seqResp{Kind: kind}
	prevNL, prevCR := false, false
	if prev != nil {
		b := prev.body()
		prevNL = bytes.HasSuffix(b, []byte("\n"))
		prevCR = bytes.HasSuffix(b, []byte("\r"))
	}
	sr.Pieces = genPieces(r, kind, idx, prevNL, prevCR)
	if seqKinds[kind].streamed {
		sr.Split = r.Chance(30)
		sr.HeadStall = r.Chance(50)
		if seqKinds[kind].pattern == "sse" && r.Chance(30) {
			sr.CT = core.Pick(r, []string{"text/event-stream; charset=utf-8", "Text/Event-Stream", "text/event-stream;charset=UTF-8"})
		}
	}
	return sr
}

// genSeqKinds builds a case from a list of kinds.
func genSeqOf(r *core.Rand, kinds []string) *seqCase {
	sc := &seqCase{Kind: "seq"}
	var prev *seqResp
	for i, k := range kinds {
		sr := genSeqResp(r, k, i, prev)
		sc.Resps = append(sc.Resps, sr)
		prev = sr
	}
	return sc
}

func genSeq(r *core.Rand) *seqCase {
	n := r.Range(2, 4)
	for {
		var kinds []string
		streamed := 0
		for i := 0; i < n; i++ {
			pool := seqKeepKinds
			if i == n-1 {
				pool = seqLastKinds
			}
			k := core.Pick(r, pool)
			if seqKinds[k].streamed {
				streamed++
			}
			kinds = append(kinds, k)
		}
		if streamed >= 2 || (streamed == 1 && n == 2) {
			return genSeqOf(r, kinds)
		}
	}
}

// seqPairs: every ordered pair of kinds with at least one streamed response (the first must keep the
// connection alive).
func seqPairs() [][]string {
	var out [][]string
	for _, a := range seqKeepKinds {
		for _, b := range seqLastKinds {
			if seqKinds[a].streamed || seqKinds[b].streamed {
				out = append(out, []string{a, b})
			}
		}
	}
	return out
}

// ---- one attempt ----

type seqStall struct {
	resp     int
	piece    int // -1 = after the head
	promised bool
	expected bool
	q        int // bytes the client had received on the connection when it had gone quiet
	idx      int // index of the model write that ends this stall's data (filled in after reconstruction)
}

// srec collects the findings of one attempt.
type srec struct {
	reports []func(ctx *core.Ctx)
	hard    bool
	timeout bool // a bounded wait (2.5 s) ran out: confirmed by one repetition, not two
	kinds   []string
	valid   int
}

func (r *srec) specFail(clause string, cs any, impl, detail string) {
	r.reports = append(r.reports, func(ctx *core.Ctx) { ctx.SpecFail(clause, "", cs, impl, detail) })
	r.hard = true
	r.kinds = append(r.kinds, "spec")
}

func (r *srec) disagree(rel string, cs any, impl, model string) {
	r.reports = append(r.reports, func(ctx *core.Ctx) { ctx.Disagree(rel, cs, impl, model) })
	r.hard = true
	r.kinds = append(r.kinds, "correspondence")
}

func (r *srec) crash(clause string, cs any, detail string) {
	r.reports = append(r.reports, func(ctx *core.Ctx) { ctx.Crash(clause, "", cs, detail) })
	r.hard = true
	r.kinds = append(r.kinds, "crash")
}

const (
	seqClauseStream = "an event or chunk the origin has sent is delivered without waiting for later body bytes (any position on a keep-alive connection)"
	seqClauseHead   = "the head of a chunked response is delivered while the origin stalls before the first chunk"
	seqClauseRelay  = "the k-th response on a connection answers the k-th request: same status, Content-Type and body bytes"
	seqRelFlush     = "bytes delivered at each stall = Flush.Conn.replies delivered (Model/Flush.lean)"
)

var seqQuiet = []time.Duration{30 * time.Millisecond, 150 * time.Millisecond, 600 * time.Millisecond}

func runSeq(ctx *core.Ctx, sc *seqCase) {
	key, _ := json.Marshal(sc)
	ctx.Case(string(key), true)
	prev := "start"
	for _, sr := range sc.Resps {
		ctx.Count("seq/" + prev + ">" + sr.Kind)
		prev = sr.Kind
	}
	ctx.Count(fmt.Sprintf("seq-length/%d", len(sc.Resps)))
	var last *srec
	for a := 0; a < len(seqQuiet); a++ {
		last = &srec{}
		runSeqOnce(ctx, sc, seqQuiet[a], last)
		if !last.hard || (last.timeout && a >= 1) {
			break
		}
		if a < len(seqQuiet)-1 {
			ctx.Count("seq-unconfirmed-attempt/" + last.kinds[0])
		}
	}
	for _, f := range last.reports {
		f(ctx)
	}
	for i := 0; i < last.valid; i++ {
		ctx.TraceValidated()
	}
}

// bodyProgress tells how far the response starting at raw has come: length of its head (0 while the head
// is incomplete) and the number of (decoded) body bytes present.
func bodyProgress(raw []byte, chunked bool) (headLen, body int) {
	i := bytes.Index(raw, []byte("\r\n\r\n"))
	if i < 0 {
		return 0, 0
	}
	headLen = i + 4
	rest := raw[headLen:]
	if !chunked {
		return headLen, len(rest)
	}
	for {
		j := bytes.Index(rest, []byte("\r\n"))
		if j < 0 {
			return
		}
		sz, err := strconv.ParseUint(string(rest[:j]), 16, 31)
		if err != nil || sz == 0 {
			return
		}
		rest = rest[j+2:]
		if len(rest) < int(sz) {
			body += len(rest)
			return
		}
		body += int(sz)
		rest = rest[sz:]
		if len(rest) < 2 {
			return
		}
		rest = rest[2:]
	}
}

func runSeqOnce(ctx *core.Ctx, sc *seqCase, quiet time.Duration, rec *srec) {
	acks := make(chan struct{}, 64)
	quit := make(chan struct{})
	wait := func() bool {
		select {
		case <-acks:
			return true
		case <-quit:
			return false
		case <-time.After(10 * time.Second):
			return false
		}
	}
	origin, err := rig.NewRawPeer("seq-origin", func(pc *rig.PeerConn) {
		for {
			req, err := rig.ReadRequest(pc.BR)
			if err != nil {
				return
			}
			k, err := strconv.Atoi(req.Get("X-Seq"))
			if err != nil || k < 0 || k >= len(sc.Resps) {
				pc.Write([]byte("HTTP/1.1 500 Bad Sequence\r\nContent-Length: 0\r\n\r\n"))
				continue
			}
			sr := sc.Resps[k]
			kd := sr.kind()
			body := sr.body()
			head := fmt.Sprintf("HTTP/1.1 %d %s\r\nX-Seq: %d\r\n", kd.status, map[int]string{200: "OK", 204: "No Content"}[kd.status], k)
			if ct := sr.contentType(); ct != "" {
				head += "Content-Type: " + ct + "\r\n"
			}
			switch kd.origin {
			case "chunked":
				head += "Transfer-Encoding: chunked\r\n"
			case "cl":
				head += fmt.Sprintf("Content-Length: %d\r\n", len(body))
			}
			pc.Write([]byte(head + "\r\n"))
			if kd.streamed {
				if sr.HeadStall && !wait() {
					return
				}
				for _, p := range sr.pieces() {
					wire := p
					if kd.origin == "chunked" {
						wire = []byte(fmt.Sprintf("%x\r\n%s\r\n", len(p), p))
					}
					cut := len(wire) - 1 // identity: before the piece's last byte ("...\n" | "\n")
					if kd.origin == "chunked" {
						cut = len(wire) - 3 // before the chunk's last data byte
					}
					if sr.Split && cut > 0 {
						pc.Write(wire[:cut])
						time.Sleep(25 * time.Millisecond)
						pc.Write(wire[cut:])
					} else {
						pc.Write(wire)
					}
					if !wait() {
						return
					}
				}
				if kd.origin == "chunked" {
					pc.Write([]byte("0\r\n\r\n"))
				}
			} else if kd.origin == "cl" {
				pc.Write(body)
			}
			if kd.origin == "eof" {
				return // close: the body ends here
			}
		}
	})
	if err != nil {
		core.Fatalf("seq origin: %v", err)
	}
	defer origin.Close()
	defer close(quit) // runs before origin.Close: a handler waiting for the client's go-ahead returns
	p, err := rig.StartProxy(rig.ProxyOpts{ConnectTo: []forwarder.HostPortPair{rig.Route("seq.test", "80", origin.Addr)}})
	if err != nil {
		rec.crash("proxy starts with a valid configuration", sc, err.Error())
		return
	}
	defer p.Stop()
	c, err := rig.Dial(p.Addr)
	if err != nil {
		rec.crash("proxy accepts a client connection", sc, err.Error())
		return
	}
	defer c.Close()

	var got []byte
	buf := make([]byte, 64<<10)
	closed := false
	// readSome reads once with the given deadline; false = nothing arrived (timeout or connection over).
	readSome := func(deadline time.Time) bool {
		if closed {
			return false
		}
		c.Conn.SetReadDeadline(deadline)
		n, err := c.Conn.Read(buf)
		got = append(got, buf[:n]...)
		if err != nil {
			if ne, ok := err.(net.Error); !ok || !ne.Timeout() {
				closed = true
			}
			return n > 0
		}
		return true
	}
	settle := func() {
		for readSome(time.Now().Add(quiet)) {
		}
	}

	var stalls []*seqStall
	type respObs struct {
		start, end int
		msg        *rig.Msg
	}
	var obs []respObs
	for k, sr := range sc.Resps {
		kd := sr.kind()
		start := len(got)
		reqb := fmt.Sprintf("%s /seq/%d HTTP/1.1\r\nHost: seq.test\r\nX-Seq: %d\r\nAccept: */*\r\n\r\n", kd.method, k, k)
		if err := c.Send([]byte(reqb), nil); err != nil {
			rec.specFail(seqClauseRelay, sc, fmt.Sprintf("request %d could not be sent: %v", k, err), "the connection did not survive the previous response")
			return
		}
		clientChunked := kd.origin == "chunked"
		if kd.streamed {
			if sr.HeadStall {
				st := &seqStall{resp: k, piece: -1, promised: kd.pattern == "chunk", expected: kd.pattern == "chunk"}
				if st.expected {
					deadline := time.Now().Add(2500 * time.Millisecond)
					for {
						if h, _ := bodyProgress(got[start:], clientChunked); h > 0 {
							break
						}
						if !readSome(deadline) && (closed || !time.Now().Before(deadline)) {
							impl := fmt.Sprintf("response %d (%s after %s): client has %d bytes of it after 2.5s, head incomplete", k, sr.Kind, prevKinds(sc, k), len(got)-start)
							rec.timeout = true
							if kd.origin == "chunked" {
								rec.specFail(seqClauseHead, sc, impl, "head not delivered while the origin stalls")
							}
							rec.disagree(seqRelFlush, sc, impl, "head delivered (flushed at its CRLFs)")
							return
						}
					}
				}
				settle()
				st.q = len(got)
				stalls = append(stalls, st)
				acks <- struct{}{}
			}
			var sofar []byte
			for j, piece := range sr.pieces() {
				sofar = append(sofar, piece...)
				st := &seqStall{resp: k, piece: j}
				st.promised, st.expected = sr.promised(sofar, piece)
				if kd.origin == "cl" && j == len(sr.Pieces)-1 {
					st.expected = true // the body is complete: the response ends here, with its final flush
				}
				if st.expected {
					deadline := time.Now().Add(2500 * time.Millisecond)
					for {
						if _, b := bodyProgress(got[start:], clientChunked); b >= len(sofar) {
							break
						}
						if !readSome(deadline) && (closed || !time.Now().Before(deadline)) {
							_, b := bodyProgress(got[start:], clientChunked)
							impl := fmt.Sprintf("response %d (%s after %s), piece %d: client has %d of %d body bytes (%d bytes of the response) after 2.5s", k, sr.Kind, prevKinds(sc, k), j, b, len(sofar), len(got)-start)
							rec.timeout = true
							if st.promised {
								rec.specFail(seqClauseStream, sc, impl, "piece not delivered while the origin stalls")
							}
							rec.disagree(seqRelFlush, sc, impl, "delivered")
							return
						}
					}
				}
				settle()
				st.q = len(got)
				stalls = append(stalls, st)
				acks <- struct{}{}
			}
		}
		// the rest of the response
		deadline := time.Now().Add(4 * time.Second)
		var msg *rig.Msg
		end := 0
		for {
			rd := bytes.NewReader(got[start:])
			br := bufio.NewReaderSize(rd, 16)
			m, err := rig.ReadResponse(br, kd.method)
			if err == nil && m != nil && m.Complete && (m.Framing != "eof" || closed) {
				msg = m
				end = len(got) - rd.Len() - br.Buffered()
				break
			}
			if closed || !time.Now().Before(deadline) {
				rec.specFail("each response is framed so that a conforming client parser consumes exactly that response", sc,
					fmt.Sprintf("response %d (%s after %s): %d bytes, not a complete message (%v, connection closed=%v)", k, sr.Kind, prevKinds(sc, k), len(got)-start, err, closed), "incomplete response")
				return
			}
			readSome(deadline)
		}
		obs = append(obs, respObs{start, end, msg})
		// relay clauses
		impl := fmt.Sprintf("response %d (%s): status %d, X-Seq %q, Content-Type %q, framing %s, %d body bytes", k, sr.Kind, msg.Status, msg.Get("X-Seq"), msg.Get("Content-Type"), msg.Framing, len(msg.Body))
		wantBody := sr.body()
		if kd.origin == "none" {
			wantBody = nil
		}
		if msg.Status != kd.status || msg.Get("X-Seq") != strconv.Itoa(k) || msg.Get("Content-Type") != sr.contentType() || !bytes.Equal(msg.Body, wantBody) {
			rec.specFail(seqClauseRelay, sc, impl, fmt.Sprintf("expected status %d, X-Seq %d, Content-Type %q, %d body bytes", kd.status, k, sr.contentType(), len(wantBody)))
			return
		}
		if end != len(got) && !(k == len(sc.Resps)-1) {
			rec.specFail("no bytes of one message leak into the next", sc, impl, fmt.Sprintf("%d bytes follow the response before the next request was sent", len(got)-end))
			return
		}
		wantFraming := map[string]string{"chunked": "chunked", "cl": "cl", "eof": "eof", "none": "none"}[kd.origin]
		if msg.Framing != wantFraming {
			rec.disagree("framing of a relayed response (Model.Resp)", sc, impl, wantFraming)
			return
		}
	}

	// ---- the model's view ----
	args := []string{"RESP", "flushconn", "4096"}
	for k, sr := range sc.Resps {
		o := obs[k]
		ws, idx, ok := reconstructWrites(sr, o.msg, got[o.start:o.end])
		if !ok {
			rec.disagree("write sequence of Response.Write reconstructed from the client's bytes", sc,
				fmt.Sprintf("response %d (%s): chunks %v do not line up with the origin's pieces / bytes do not add up", k, sr.Kind, o.msg.Chunks), "one chunk per origin chunk")
			return
		}
		for _, st := range stalls {
			if st.resp == k {
				st.idx = idx[st.piece]
			}
		}
		kd := sr.kind()
		known := kd.origin == "cl" || kd.origin == "none"
		ho := kd.method == "HEAD" || kd.status == 204 || kd.status == 304
		var hs []string
		for _, w := range ws {
			hs = append(hs, core.Hex(w))
		}
		args = append(args, fmt.Sprintf("%s:%s:1:%s/%s", core.B01(ho), core.B01(kd.pattern == "sse" || kd.method == "HEAD"), core.B01(known), core.JoinList(hs)))
	}
	ans := ctx.Model.MustAsk(args...)
	replies := core.SplitList2(ans)
	if len(replies) != len(sc.Resps) {
		core.Fatalf("flushconn: %d replies for %d responses: %q", len(replies), len(sc.Resps), ans)
	}
	delivered := make([][]int, len(replies))
	for k, rp := range replies {
		parts := strings.Split(rp, "/")
		if len(parts) != 3 {
			core.Fatalf("flushconn: malformed reply %q", rp)
		}
		for _, d := range core.SplitList(parts[2]) {
			n, _ := strconv.Atoi(d)
			delivered[k] = append(delivered[k], n)
		}
		// the end-of-response flush: everything up to the end of this response
		if got := delivered[k][len(delivered[k])-1]; got != obs[k].end {
			rec.disagree(seqRelFlush, sc, fmt.Sprintf("response %d ends at byte %d of the connection", k, obs[k].end), fmt.Sprintf("%d", got))
			return
		}
		wantPat := map[string]string{"sse": "0a0a", "chunk": "0d0a", "": "-"}[sc.Resps[k].kind().pattern]
		if parts[0] != wantPat {
			core.Fatalf("flushconn: response %d (%s): model chose writer %q, scenario table says %q", k, sc.Resps[k].Kind, parts[0], wantPat)
		}
	}
	for _, st := range stalls {
		want := delivered[st.resp][st.idx]
		if st.q != want {
			sr := sc.Resps[st.resp]
			what := fmt.Sprintf("piece %d", st.piece)
			if st.piece < 0 {
				what = "head"
			}
			rec.disagree(seqRelFlush, sc,
				fmt.Sprintf("response %d (%s after %s), stalled after %s: client holds %d bytes of the connection (response starts at %d; quiet window %v)", st.resp, sr.Kind, prevKinds(sc, st.resp), what, st.q, obs[st.resp].start, quiet),
				fmt.Sprintf("%d", want))
			return
		}
	}
	rec.valid++
}

func prevKinds(sc *seqCase, k int) string {
	if k == 0 {
		return "nothing"
	}
	var ks []string
	for _, sr := range sc.Resps[:k] {
		ks = append(ks, sr.Kind)
	}
	return strings.Join(ks, ",")
}

// reconstructWrites rebuilds the Write calls http.Response.Write (or the header-only writer) made for a
// response from the bytes the client received: status line; per field line what Header.WriteSubset
// writes (name, ": ", value, CRLF) or transferWriter.writeHeader's single lines; the blank line; per chunk
// size line, data, CRLF; "0\r\n", trailer lines, CRLF.  A body relayed without transfer coding is
// written as the proxy read it: one write per origin write.  idx maps a piece number (-1 = head) to the
// index of the write that completes it.
func reconstructWrites(sr *seqResp, m *rig.Msg, raw []byte) (ws [][]byte, idx map[int]int, ok bool) {
	idx = map[int]int{}
	head := m.HeadBytes
	lines := bytes.SplitAfter(head, []byte("\r\n"))
	for i, ln := range lines {
		if len(ln) == 0 {
			continue
		}
		if i == 0 || string(ln) == "\r\n" {
			ws = append(ws, ln)
			continue
		}
		c := bytes.Index(ln, []byte(": "))
		if c < 0 {
			ws = append(ws, ln)
			continue
		}
		name := string(ln[:c])
		switch {
		case strings.EqualFold(name, "Transfer-Encoding"), strings.EqualFold(name, "Trailer"):
			ws = append(ws, ln)
		case strings.EqualFold(name, "Content-Length"):
			ws = append(ws, ln[:c+2], ln[c+2:])
		default:
			ws = append(ws, ln[:c], ln[c:c+2], ln[c+2:len(ln)-2], ln[len(ln)-2:])
		}
	}
	idx[-1] = len(ws) - 1
	pieces := sr.pieces()
	switch m.Framing {
	case "chunked":
		cum := 0
		var ends []int // cumulative body length at the end of each piece
		for _, p := range pieces {
			cum += len(p)
			ends = append(ends, cum)
		}
		pos, next := 0, 0
		body := m.Body
		for _, sz := range m.Chunks {
			ws = append(ws, []byte(fmt.Sprintf("%x\r\n", sz)), body[pos:pos+sz], []byte("\r\n"))
			pos += sz
			for next < len(ends) && ends[next] < pos {
				return nil, nil, false // a chunk runs across the end of a piece
			}
			for next < len(ends) && ends[next] == pos {
				idx[next] = len(ws) - 1
				next++
			}
		}
		if next != len(ends) {
			return nil, nil, false
		}
		ws = append(ws, []byte("0\r\n"))
		for _, t := range m.Trailers {
			ws = append(ws, []byte(t.Name), []byte(": "), []byte(t.Value), []byte("\r\n"))
		}
		ws = append(ws, []byte("\r\n"))
	case "cl", "eof":
		for j, p := range pieces {
			if sr.kind().streamed && sr.Split && len(p) > 1 {
				ws = append(ws, p[:len(p)-1], p[len(p)-1:])
			} else if len(p) > 0 {
				ws = append(ws, p)
			}
			idx[j] = len(ws) - 1
		}
		if m.Framing == "cl" && len(pieces) > 0 {
			idx[len(pieces)-1] = len(ws) // Content-Length reached: the entry of the end-of-response Flush()
		}
	}
	n := 0
	for _, w := range ws {
		n += len(w)
	}
	return ws, idx, n == len(raw)
}
