package c02

import (
	"bytes"
	"encoding/json"
	"fmt"
	"strings"
	"sync"
	"time"

	"github.com/saucelabs/forwarder"
	"github.com/saucelabs/forwarder/verifharness/core"
	"github.com/saucelabs/forwarder/verifharness/rig"
)

// ---- slow origin bodies under configured connection limits ----
//
// The proxy is configured with every combination of {ReadTimeout, ReadHeaderTimeout, IdleTimeout,
// WriteTimeout} ∈ {not set, 300-500 ms}. The origin sends the head at once and the body in pieces over
// 2-4 times the largest configured limit; the client takes every byte as it comes. WriteTimeout is the
// only limit that bounds the relay of a response (Model/RespRelay.lean, relayWriteDeadline): when it is
// not set the whole response must arrive whatever the three read-side limits are.
// Configurations WITH a WriteTimeout are not run here: what a write timeout does to a slow body is C15's
// subject (its finding F45: one absolute write deadline per response); C02 does not judge it.

type slowCase struct {
	Kind    string `json:"kind"` // "slow"
	ID      string `json:"id"`
	Mode    string `json:"mode"`    // "direct" | "mitm"
	Framing string `json:"framing"` // "cl" | "chunked" | "eof" | "sse"
	// connection limits in ms, 0 = not set
	ReadMs       int `json:"read_timeout_ms"`
	ReadHeaderMs int `json:"read_header_timeout_ms"`
	IdleMs       int `json:"idle_timeout_ms"`
	WriteMs      int `json:"write_timeout_ms"`
	// the body: piece sizes, and the pause before each piece
	Pieces []int `json:"pieces"`
	GapMs  int   `json:"gap_ms"`
}

func (sc *slowCase) limitsKey() string {
	return fmt.Sprintf("%s/r%d/h%d/i%d/w%d", sc.Mode, sc.ReadMs, sc.ReadHeaderMs, sc.IdleMs, sc.WriteMs)
}

func (sc *slowCase) piece(i int) []byte {
	n := sc.Pieces[i]
	if sc.Framing == "sse" {
		pre := fmt.Sprintf("id: %d\ndata: ", i)
		if n < len(pre)+2 {
			n = len(pre) + 2
		}
		return []byte(pre + strings.Repeat("e", n-len(pre)-2) + "\n\n")
	}
	return bytes.Repeat([]byte{byte('a' + i%26)}, n)
}

func (sc *slowCase) body() []byte {
	var b []byte
	for i := range sc.Pieces {
		b = append(b, sc.piece(i)...)
	}
	return b
}

// serve is the origin's side: head at once, then a piece after every pause.
func (sc *slowCase) serve(w *rig.PeerConn) bool {
	head := "HTTP/1.1 200 OK\r\nX-Echo-Id: " + sc.ID + "\r\n"
	chunked := sc.Framing == "chunked" || sc.Framing == "sse"
	switch sc.Framing {
	case "cl":
		head += fmt.Sprintf("Content-Type: application/octet-stream\r\nContent-Length: %d\r\n", len(sc.body()))
	case "chunked":
		head += "Content-Type: application/octet-stream\r\nTransfer-Encoding: chunked\r\n"
	case "sse":
		head += "Content-Type: text/event-stream\r\nTransfer-Encoding: chunked\r\n"
	case "eof":
		head += "Content-Type: application/octet-stream\r\n"
	}
	if _, err := w.Write([]byte(head + "\r\n")); err != nil {
		return false
	}
	for i := range sc.Pieces {
		time.Sleep(time.Duration(sc.GapMs) * time.Millisecond)
		p := sc.piece(i)
		if chunked {
			p = []byte(fmt.Sprintf("%x\r\n%s\r\n", len(p), p))
		}
		if _, err := w.Write(p); err != nil {
			return false
		}
	}
	if chunked {
		w.Write([]byte("0\r\n\r\n"))
	}
	return sc.Framing != "eof"
}

type slowPool struct {
	mu   sync.Mutex
	envs map[string]*env
	ctx  *core.Ctx
}

func (p *slowPool) get(sc *slowCase) (*env, error) {
	p.mu.Lock()
	defer p.mu.Unlock()
	k := sc.limitsKey()
	if e, ok := p.envs[k]; ok {
		return e, nil
	}
	ms := func(n int) time.Duration { return time.Duration(n) * time.Millisecond }
	e, err := newEnvTuned(p.ctx, sc.Mode, nil, func(cfg *forwarder.HTTPProxyConfig) {
		cfg.ReadTimeout = ms(sc.ReadMs)
		cfg.ReadHeaderTimeout = ms(sc.ReadHeaderMs)
		cfg.IdleTimeout = ms(sc.IdleMs)
		cfg.WriteTimeout = ms(sc.WriteMs)
	})
	if err != nil {
		return nil, err
	}
	p.envs[k] = e
	return e, nil
}

func (p *slowPool) closeAll() {
	for _, e := range p.envs {
		e.close()
	}
}

const slowClause = "a response reaches a client that reads intact however slowly the origin delivers the body (no write timeout configured)"

// attempt runs the case once; "" = the whole response arrived intact.
func (sc *slowCase) attempt(e *env) (failure, impl string) {
	e.reg.Store(sc.ID, sc)
	defer e.reg.Delete(sc.ID)
	c, err := e.open()
	if err != nil {
		return "client connection not accepted: " + err.Error(), "no connection"
	}
	defer c.Close()
	t0 := time.Now()
	if err := c.Send([]byte("GET /slow/"+sc.ID+" HTTP/1.1\r\nHost: origin.test\r\nCase-Id: "+sc.ID+"\r\n\r\n"), nil); err != nil {
		return "request not taken: " + err.Error(), "no request"
	}
	total := time.Duration(sc.GapMs*len(sc.Pieces)) * time.Millisecond
	res, rerr := c.ReadResponse("GET", total+6*time.Second)
	impl = fmt.Sprintf("after %dms (origin needs %dms): %s", time.Since(t0).Milliseconds(), total.Milliseconds(), describe(res, rerr))
	want := sc.body()
	switch {
	case rerr != nil || res == nil || !res.Complete:
		got := 0
		if res != nil {
			got = len(res.Body)
		}
		return fmt.Sprintf("response cut off: %d of %d body bytes (%v)", got, len(want), rerr), impl
	case res.Status != 200 || res.Get("X-Echo-Id") != sc.ID:
		return fmt.Sprintf("not the origin's response: status %d, X-Echo-Id %q", res.Status, res.Get("X-Echo-Id")), impl
	case !bytes.Equal(res.Body, want):
		return fmt.Sprintf("body %dB differs from the origin's %dB", len(res.Body), len(want)), impl
	}
	return "", impl
}

func runSlow(ctx *core.Ctx, pool *slowPool, sc *slowCase) {
	key, _ := json.Marshal(struct {
		K          string
		F          string
		P          []int
		G, R, H, I int
	}{sc.Mode, sc.Framing, sc.Pieces, sc.GapMs, sc.ReadMs, sc.ReadHeaderMs, sc.IdleMs})
	if sc.WriteMs > 0 {
		// left to C15 (F45): neither run nor judged
		ctx.Count("slow-body/write-timeout-set: left to C15")
		return
	}
	ctx.Case(string(key), true)
	set := func(n int) string { return map[bool]string{true: "set", false: "0"}[n > 0] }
	ctx.Count(fmt.Sprintf("slow-body/%s/%s read=%s header=%s idle=%s write=0", sc.Mode, sc.Framing, set(sc.ReadMs), set(sc.ReadHeaderMs), set(sc.IdleMs)))
	// the model: which deadline bounds the relay, and whether the schedule completes under it
	times := []string{"0"}
	for i := range sc.Pieces {
		times = append(times, core.Itoa(sc.GapMs*(i+1)))
	}
	ans := strings.Fields(ctx.Model.MustAsk("RESP", "relay", "read="+core.Itoa(sc.ReadMs), "readheader="+core.Itoa(sc.ReadHeaderMs),
		"idle="+core.Itoa(sc.IdleMs), "write="+core.Itoa(sc.WriteMs), "times="+core.JoinList(times)))
	modelComplete := len(ans) == 3 && ans[1] == "1"
	e, err := pool.get(sc)
	if err != nil {
		ctx.Crash("proxy starts with a valid configuration", "", sc, err.Error())
		return
	}
	// The limits are real time. A failed attempt is repeated (twice) before it counts, so that a stall of
	// the machine during one attempt is not taken for a deadline of the proxy; a deadline armed by the
	// proxy fails every attempt.
	var failure, impl string
	for try := 0; try < 3; try++ {
		if failure, impl = sc.attempt(e); failure == "" {
			break
		}
		ctx.Count("slow-body/attempt-repeated")
	}
	if failure == "" {
		if modelComplete {
			ctx.TraceValidated()
		} else {
			ctx.Disagree("relay of a slow response = Model.Resp.Relay (relayWriteDeadline)", sc, "complete", strings.Join(ans, " "))
		}
		return
	}
	if modelComplete {
		ctx.Disagree("relay of a slow response = Model.Resp.Relay (relayWriteDeadline)", sc, failure+" | "+impl, strings.Join(ans, " "))
	}
	ctx.SpecFail(slowClause, "", sc, impl, failure)
}

var slowSeq int

// slowMatrix: every combination of the four limits (16; the 8 with a write timeout are counted and left to
// C15) × every framing, direct; plus one MITM case per combination.
func slowMatrix(ctx *core.Ctx, r *core.Rand) []*slowCase {
	var out []*slowCase
	small := func() int { return core.Pick(r, []int{300, 400, 500}) }
	for mask := 0; mask < 16; mask++ {
		lim := [4]int{}
		for b := 0; b < 4; b++ {
			if mask&(1<<b) != 0 {
				lim[b] = small()
			}
		}
		largest := 300
		for _, v := range lim {
			if v > largest {
				largest = v
			}
		}
		framings := []string{"cl", "chunked", "eof", "sse"}
		mitmFraming := core.Pick(r, framings)
		for _, mode := range []string{"direct", "mitm"} {
			for _, fr := range framings {
				if mode == "mitm" && fr != mitmFraming {
					continue
				}
				slowSeq++
				sc := &slowCase{Kind: "slow", ID: fmt.Sprintf("slow%d-%x", slowSeq, r.U64()&0xffffff), Mode: mode, Framing: fr,
					ReadMs: lim[0], ReadHeaderMs: lim[1], IdleMs: lim[2], WriteMs: lim[3]}
				// the body takes 2-3 (thorough: up to 4) times the largest limit
				factor := r.Range(20, ctx.N(30, 40))
				n := r.Range(3, 5)
				sc.GapMs = largest*factor/10/n + 1
				for i := 0; i < n; i++ {
					// small pieces stay in the proxy's write buffer (a Content-Length response is then written
					// in one piece at the end), large ones are written through as they come
					sc.Pieces = append(sc.Pieces, core.Pick(r, []int{20, 300, 1500, 5000, 20000}))
				}
				out = append(out, sc)
			}
		}
	}
	return out
}
