package c07

import (
	"context"
	"crypto/tls"
	"crypto/x509"
	"fmt"
	"net"
	"net/url"
	"strings"
	"sync"
	"time"

	"github.com/saucelabs/forwarder/internal/martian/mitm"
	"github.com/saucelabs/forwarder/verifharness/core"
	"github.com/saucelabs/forwarder/verifharness/rig"
)

// apiCase drives mitm.Config.TLSForHost(host).GetCertificate({ServerName: sni}) directly — the same
// callback a handshake invokes — on arbitrary (also malformed) strings, and the library functions
// the model transliterates.
type apiCase struct {
	Kind string `json:"kind"` // "api"
	SNI  string `json:"sni"`
	Host string `json:"host"`
	// InDomain: Host is a well-formed authority built from (Name, port) and SNI, when present, is a
	// host name; then the property itself is evaluated with Requested as the name asked for.
	InDomain  bool   `json:"in_domain,omitempty"`
	Requested string `json:"requested,omitempty"`
	ReqIsIP   bool   `json:"requested_is_ip,omitempty"`
}

type apiEnv struct {
	once sync.Once
	cfg  *mitm.Config
	pool *x509.CertPool
	err  error
}

var theAPI apiEnv

func (a *apiEnv) init() {
	a.once.Do(func() {
		ca, err := rig.NewCA("verif C07 api CA")
		if err != nil {
			a.err = err
			return
		}
		cache, err := mitm.NewCache(mitm.CacheConfig{Capacity: 3, TTL: time.Hour})
		if err != nil {
			a.err = err
			return
		}
		a.cfg, a.err = mitm.NewConfigWithCache(ca.Cert, ca.Key, cache)
		if a.err == nil {
			a.cfg.SetValidity(time.Hour)
			a.pool = ca.Pool()
		}
	})
}

func runAPI(ctx *core.Ctx, ac *apiCase) {
	theAPI.init()
	if theAPI.err != nil {
		ctx.Crash("mitm.NewConfigWithCache accepts a CA", "", ac, theAPI.err.Error())
		return
	}
	ctx.Case("api|"+ac.SNI+"|"+ac.Host, true)
	if ac.InDomain {
		ctx.Count("api/in-domain")
	} else {
		ctx.Count("api/arbitrary")
	}

	// library functions
	for _, s := range []string{ac.Host, ac.SNI} {
		h, p, err := net.SplitHostPort(s)
		impl := "err"
		if err == nil {
			impl = "ok " + core.HexS(h) + " " + core.HexS(p)
		}
		if m := ctx.Model.MustAsk("C07", "split", core.HexS(s)); m != impl {
			ctx.Disagree("net.SplitHostPort = Model.C07.splitHostPort", ac, impl, m)
		}
		impl = core.B01(net.ParseIP(s) != nil)
		if m := ctx.Model.MustAsk("C07", "isip", core.HexS(s)); m != impl {
			ctx.Disagree("net.ParseIP != nil = Model.C07.isIP", ac, fmt.Sprintf("%q: %s", s, impl), m)
		}
		if err == nil {
			impl = core.B01(net.ParseIP(h) != nil)
			if m := ctx.Model.MustAsk("C07", "isip", core.HexS(h)); m != impl {
				ctx.Disagree("net.ParseIP != nil = Model.C07.isIP", ac, fmt.Sprintf("%q: %s", h, impl), m)
			}
		}
		impl = "ok " + core.HexS((&url.URL{Host: s}).Hostname())
		if m := ctx.Model.MustAsk("C07", "hostname", core.HexS(s)); m != impl {
			ctx.Disagree("url.URL.Hostname = Model.C07.urlHostname", ac, impl, m)
		}
	}

	// the callback itself
	var cert *tls.Certificate
	var err error
	func() {
		defer func() {
			if p := recover(); p != nil {
				err = fmt.Errorf("panic: %v", p)
				ctx.Crash("GetCertificate does not panic", "", ac, fmt.Sprint(p))
			}
		}()
		conf := theAPI.cfg.TLSForHost(context.Background(), ac.Host)
		cert, err = conf.GetCertificate(&tls.ClientHelloInfo{ServerName: ac.SNI})
	}()
	mName, mKind := modelName(ctx, ac.SNI, ac.Host)
	if err != nil || cert == nil || cert.Leaf == nil {
		// x509.CreateCertificate refuses some names (e.g. an empty dNSName is fine, non-IA5 is not);
		// outside the modelled domain unless the input is a well-formed authority
		ctx.Count("api/no-certificate")
		if ac.InDomain {
			ctx.SpecFail("a certificate is produced for a well-formed CONNECT authority", "", ac, fmt.Sprint(err), "")
		}
		return
	}
	leaf := cert.Leaf
	iKind, iVal := sanOf(leaf)
	sameVal := iVal == mName
	if iKind == "ip" && mKind == "ip" {
		sameVal = net.ParseIP(mName) != nil && net.ParseIP(mName).Equal(leaf.IPAddresses[0])
	}
	if leaf.Subject.CommonName != mName || iKind != mKind || !sameVal {
		ctx.Disagree("certificate name and SAN = Model.C07.certName / san", ac, describe(leaf), fmt.Sprintf("name=%q san=%s", mName, mKind))
	} else {
		ctx.TraceValidated()
	}
	ctx.Count("api/san-" + iKind)
	if !ac.InDomain {
		return
	}
	now := time.Now()
	r := &hsResult{Leaf: leaf, Chain: []*x509.Certificate{leaf}, T0: now, T1: now}
	if err := verifyLeaf(r, theAPI.pool, ac.Requested); err != nil {
		ctx.SpecFail("the certificate served inside an intercepted CONNECT verifies for the name the client asked for (chain to the configured CA, validity now, SAN)",
			"", ac, describe(leaf), fmt.Sprintf("x509 verification for %q: %v", ac.Requested, err))
	}
	wantKind := "dns"
	if ac.ReqIsIP {
		wantKind = "ip"
	}
	if iKind != wantKind {
		ctx.SpecFail("SAN kind follows the literal kind of the requested name (IP literal: IPAddresses, otherwise DNSNames)", "", ac, describe(leaf),
			fmt.Sprintf("requested %q is %s, certificate SAN is %s", ac.Requested, wantKind, iKind))
	}
}

// ---- generators ----

var dnsPool = []string{
	"a.test", "Example.COM", "MiXeD-Case.Example.Org", "xn--bcher-kva.example", "host-1.sub.domain.test", "UPPER.TEST",
	"localhost.localdomain", "valid.test", "www.example.net", "single", "a-b.c-d.test", "deadbeef.cafe", "1e100.net", "ab.cd",
}

func genDNS(r *core.Rand) string {
	if r.Chance(22) {
		return genLongDNS(r)
	}
	if r.Chance(60) {
		s := core.Pick(r, dnsPool)
		if r.Chance(30) {
			s = randCase(r, s)
		}
		return s
	}
	n := r.Range(1, 3)
	var ls []string
	for i := 0; i < n; i++ {
		l := ""
		k := r.Range(1, 8)
		for j := 0; j < k; j++ {
			l += string("abcdefghijklmnopqrstuvwxyz0123456789-ABCDEF"[r.Intn(43)])
		}
		l = strings.Trim(l, "-")
		if l == "" {
			l = "x"
		}
		ls = append(ls, l)
	}
	// make sure it is not an IPv4/hex look-alike by accident: last label alphabetic
	ls = append(ls, core.Pick(r, []string{"test", "Example", "COM", "internal"}))
	return strings.Join(ls, ".")
}

func randCase(r *core.Rand, s string) string {
	b := []byte(s)
	for i, c := range b {
		if r.Bool() {
			if c >= 'a' && c <= 'z' {
				b[i] = c - 32
			} else if c >= 'A' && c <= 'Z' {
				b[i] = c + 32
			}
		}
	}
	return string(b)
}

func genIP4(r *core.Rand) string {
	if r.Chance(40) {
		return core.Pick(r, []string{"127.0.0.1", "10.1.2.3", "203.0.113.7", "255.255.255.255", "1.1.1.1", "192.168.0.1", "100.64.0.9", "0.0.0.0"})
	}
	return fmt.Sprintf("%d.%d.%d.%d", r.Intn(256), r.Intn(256), r.Intn(256), r.Intn(256))
}

func genIP6(r *core.Rand) string {
	if r.Chance(50) {
		return core.Pick(r, []string{"::1", "2001:db8::1", "2001:DB8:0:0:0:0:0:1", "::ffff:1.2.3.4", "fe80::1", "::", "2001:db8:1:2:3:4:5:6",
			"2001:db8::8:800:200c:417a", "ff02::2", "64:ff9b::192.0.2.33", "1::", "0:0:0:0:0:0:0:1"})
	}
	// random groups with an optional ellipsis
	n := r.Range(2, 8)
	gs := make([]string, n)
	for i := range gs {
		gs[i] = fmt.Sprintf("%x", r.Intn(0x10000))
		if r.Chance(20) {
			gs[i] = strings.ToUpper(gs[i])
		}
	}
	if n == 8 {
		return strings.Join(gs, ":")
	}
	k := r.Intn(n + 1)
	return strings.Join(gs[:k], ":") + "::" + strings.Join(gs[k:], ":")
}

func genPort(r *core.Rand) string {
	if r.Chance(50) {
		return "443"
	}
	return core.Pick(r, []string{"8443", "1", "65535", "80", "8080", "4443", "10443", fmt.Sprint(r.Range(1, 65535))})
}

// genTarget: a well-formed CONNECT authority and an SNI choice.
func genTarget(r *core.Rand) Target {
	var t Target
	switch x := r.Intn(100); {
	case x < 50:
		t.Kind, t.Host = "dns", genDNS(r)
	case x < 75:
		t.Kind, t.Host = "ip4", genIP4(r)
	default:
		t.Kind, t.Host = "ip6", genIP6(r)
	}
	t.Port = genPort(r)
	switch x := r.Intn(100); {
	case t.Kind != "dns":
		// clients send no SNI for IP literals; some send a name they know the address by
		if x < 25 {
			t.SNI = genDNS(r)
		}
	case x < 40:
		t.SNI = t.Host
	case x < 60:
		t.SNI = ""
	case x < 80:
		t.SNI = genDNS(r)
	default:
		t.SNI = randCase(r, t.Host)
	}
	return t
}

// malformed / unusual strings for the API-level comparison
var oddHosts = []string{
	"", ":", "::", ":443", "a.test", "a.test:", "a.test::443", "a:b:443", "[::1]", "[::1]:", "[::1]443", "[::1]:443:1", "[[::1]]:443", "[::1]]:443",
	"[a.test]:443", "[]:443", "[:443", "]:443", "a]b:1", "a[b:1", "[::1%25eth0]:443", "[fe80::1%eth0]:443", "fe80::1%eth0", "::1", "::1:443", "1.2.3.4", "1.2.3",
	"1.2.3.4.5:443", "01.2.3.4:443", "1.2.3.256:443", "1.2.3.4.:443", ".1.2.3:443", "1..2.3:443", "1.2.3.4:http", "0x1.2.3.4:1", "1.2.3.04:1",
	"[1:2:3:4:5:6:7:8]:1", "[1:2:3:4:5:6:7:8:9]:1", "[1:2:3:4:5:6:7::]:1", "[1:2:3:4:5:6:7:8::]:1", "[::1:2:3:4:5:6:7]:1", "[::1:2:3:4:5:6:7:8]:1", "[1::2::3]:1",
	"[12345::1]:1", "[g::1]:1", "[::ffff:1.2.3.4]:1", "[::ffff:1.2.3]:1", "[1:2:3:4:5:6:1.2.3.4]:1", "[1:2:3:4:5:1.2.3.4]:1", "[1:2:3:4:5:6:7:1.2.3.4]:1",
	"[::1.2.3.4]:1", "[1.2.3.4]:1", "[:1]:1", "[1:]:1", "[:]:1", "[:::]:1", "[::]:1", "[::1:]:1", "[1:2:3:4:5:6:7:8:]:1", "[::ffff:01.2.3.4]:1", "[1::1.2.3.4]:1",
	"[1:2::1.2.3.4]:1", "[::1.2.3.4.5]:1", "[1:2:3:4:5:6:7]:1", "a.test:443 ", " a.test:443", "A.TEST:443", "%41.test:443", "a.test%:443", "a%b:1",
}

func genOdd(r *core.Rand) string {
	if r.Chance(60) {
		return core.Pick(r, oddHosts)
	}
	// mutate a well-formed authority
	b := []byte(genTarget(r).Authority())
	for k := r.Range(1, 3); k > 0 && len(b) > 0; k-- {
		i := r.Intn(len(b))
		switch r.Intn(4) {
		case 0:
			b = append(b[:i], b[i+1:]...)
		case 1:
			b[i] = ":.[]%0af1"[r.Intn(9)]
		case 2:
			b = append(b[:i], append([]byte{":.[]%0af1"[r.Intn(9)]}, b[i:]...)...)
		case 3:
			b = append(b, ":.]0"[r.Intn(4)])
		}
	}
	return string(b)
}

func genAPI(r *core.Rand) *apiCase {
	if r.Chance(50) {
		t := genTarget(r)
		return &apiCase{Kind: "api", SNI: t.SNI, Host: t.Authority(), InDomain: true, Requested: t.Requested(), ReqIsIP: t.RequestedIsIP()}
	}
	ac := &apiCase{Kind: "api", Host: genOdd(r)}
	switch x := r.Intn(100); {
	case x < 50:
	case x < 70:
		ac.SNI = genDNS(r)
	default:
		ac.SNI = genOdd(r)
	}
	return ac
}
