package c07

import (
	"encoding/json"
	"fmt"
	"strings"
	"sync"

	"github.com/saucelabs/forwarder/verifharness/core"
)

const hour = 3600_000

// (cache TTL, validity) pairs in ms: validity shorter than the run with a long-lived cache entry
// (an expired certificate stays cached: only re-validation saves the handshake), TTL shorter than
// the run, both short, both long (pure cache reuse).
var lifetimes = [][2]int{
	{hour, 1000}, {hour, 1000}, {hour, 1000}, {hour, 2000},
	{1000, hour}, {2000, 1000}, {1000, 2000}, {1000, 1000},
	{hour, hour}, {hour, hour},
}

func genBatch(r *core.Rand, quick bool) *hsBatch {
	b := &hsBatch{Kind: "hs"}
	lt := core.Pick(r, lifetimes)
	b.Env = EnvCfg{CacheSize: uint32(r.Range(1, 4)), CacheTTLms: lt[0], ValidityMs: lt[1]}
	short := min(lt[0], lt[1])
	b.Phases = 2
	if r.Chance(25) {
		b.Phases = 3
	}
	if short < hour {
		// past the expiry of whatever is shorter, whole-second truncation included
		b.SleepMs = short + 1200
	} else {
		b.SleepMs = r.Range(0, 40)
	}
	// few names, many handshakes: the cache evicts (more names than entries) or holds them all
	k := r.Range(1, 6)
	names := make([]Target, k)
	for i := range names {
		names[i] = genTarget(r)
	}
	n := r.Range(8, 64)
	if quick {
		n = r.Range(8, 40)
	}
	for i := 0; i < n; i++ {
		t := core.Pick(r, names)
		// the same authority is also asked with other SNI choices
		if r.Chance(25) {
			switch {
			case t.Kind != "dns":
				t.SNI = core.Pick(r, []string{"", genDNS(r)})
			default:
				t.SNI = core.Pick(r, []string{"", t.Host, randCase(r, t.Host), genDNS(r)})
			}
		}
		b.Conns = append(b.Conns, t)
	}
	b.Concurrency = core.Pick(r, []int{8, 16, 32, 64})
	return b
}

func genOrigin(r *core.Rand) *originCase {
	oc := &originCase{Kind: "origin", Via: core.Pick(r, originVias)}
	for {
		oc.Origin = core.Pick(r, originKinds)
		if originExists(oc.Via, oc.Origin) {
			break
		}
	}
	// long-lived entries: expiry histories belong to the hs batches, which replay alone
	oc.Env = EnvCfg{CacheSize: uint32(core.Pick(r, []int{1, 2, 4})), CacheTTLms: hour, ValidityMs: hour}
	oc.Env.Insecure = r.Chance(35)
	switch x := r.Intn(100); {
	case x < 65:
	case x < 80:
		oc.HasXFP, oc.XFP = true, "https"
	default:
		oc.HasXFP, oc.XFP = true, "http"
	}
	// explicit port in CONNECT and Host (with X-Forwarded-Proto: http the default port keeps the
	// clear-text request of F17 on the listener routed for port 80)
	if !(oc.HasXFP && oc.XFP == "http") && r.Chance(40) {
		oc.Port = core.Pick(r, []string{"443", "8443"})
	}
	return oc
}

// sweepOrigins: the full cross product {dns, ip4, ip6} × certificate kinds × {insecure off, on}, every run.
func sweepOrigins(r *core.Rand) []*originCase {
	var out []*originCase
	for _, via := range originVias {
		for _, kind := range originKinds {
			if !originExists(via, kind) {
				continue
			}
			for _, ins := range []bool{false, true} {
				oc := &originCase{Kind: "origin", Via: via, Origin: kind, Port: core.Pick(r, []string{"", "443", "8443"})}
				oc.Env = EnvCfg{CacheSize: 2, CacheTTLms: hour, ValidityMs: hour, Insecure: ins}
				out = append(out, oc)
			}
		}
	}
	return out
}

// mitm-domains lists: anchored and unanchored include and exclude rules over names and literals,
// case-insensitive groups, and rules whose verdict would change if anything but the bare host name
// (host:port, brackets) were matched.
var domainLists = [][]string{
	nil,
	{`^mitm-.*\.test$`, `-^mitm-skip\.test$`},                          // anchored include, fully anchored exclude
	{`.*`, `-skip`},                                                     // unanchored
	{`\.test$`},                                                         // end-anchored include only
	{`^allow\.test$`, `^mitm-a\.test$`},                                 // fully anchored includes
	{`^(allow|skip-a)\.test$`, `-^skip-a`, `-untrusted`},                // start-anchored exclude
	{`.*`, `-^intranet\.corp$`, `-\.internal$`},                         // "everything but": end-anchored excludes
	{`.*`, `-^192\.0\.2\.10$`, `-^2001:db8::d0:1$`},                     // anchored excludes of IP literals
	{`.`, `-192\.0\.2\.10`, `-2001:db8::d0:1`},                          // the same, unanchored
	{`(?i:^allow\.test$)`, `(?i:corp$)`, `-(?i:^skip-b\.test$)`},        // letter case ignored, anchored
	{`^[a-z0-9.:-]+$`, `-^skip-[ab]\.test$`},                            // lower-case hosts only
	{`(test|corp)$`, `-^(mitm-skip|skip-a)\.test$`, `-^INTRANET\.CORP$`}, // end-anchored include, anchored excludes, one in upper case
	{`\d$`},                                                             // ends in a digit: literals only, never host:port of a name
	{`.*`, `-:\d+$`},                                                    // excludes what ends in :digits
	{`^[^:]*$`},                                                         // no colon at all: names and IPv4, not IPv6
	{`:`, `internal$`},                                                  // IPv6 literals and *.internal
}

var domainSweepPorts = []string{"443", "8443", "80", "10443"}

// spellings of a host: as is, upper case, mixed
func spellingsOf(t Target) []string {
	up := strings.ToUpper(t.Host)
	out := []string{t.Host}
	if up != t.Host {
		out = append(out, up)
	}
	if t.Kind == "dns" {
		b := []byte(t.Host)
		for i := 0; i < len(b); i += 2 {
			if b[i] >= 'a' && b[i] <= 'z' {
				b[i] -= 32
			}
		}
		out = append(out, string(b))
	}
	return out
}

func genDomain(r *core.Rand) *domainCase {
	t := core.Pick(r, domainHostsCanon)
	dc := &domainCase{Kind: "domains", Host: t.Host, HostKind: t.Kind}
	switch x := r.Intn(100); {
	case x < 40:
	case x < 60:
		dc.Host = core.Pick(r, spellingsOf(t))
	default:
		dc.Host = randCase(r, t.Host)
	}
	switch x := r.Intn(100); {
	case x < 25:
		dc.Port = "443"
	case x < 45:
		dc.Port = "8443"
	case x < 60:
		dc.Port = "80"
	default:
		dc.Port = fmt.Sprint(r.Range(1, 65535))
	}
	dc.Env = EnvCfg{CacheSize: uint32(core.Pick(r, []int{1, 3})), CacheTTLms: hour, ValidityMs: hour, Domains: core.Pick(r, domainLists)}
	return dc
}

// sweepDomains: every list × every port class × every host in its fixed spellings, every run.
func sweepDomains() []*domainCase {
	var out []*domainCase
	for _, l := range domainLists {
		for _, p := range domainSweepPorts {
			for _, t := range domainHostsCanon {
				for _, sp := range spellingsOf(t) {
					dc := &domainCase{Kind: "domains", Host: sp, HostKind: t.Kind, Port: p}
					dc.Env = EnvCfg{CacheSize: 3, CacheTTLms: hour, ValidityMs: hour, Domains: l}
					out = append(out, dc)
				}
			}
		}
	}
	return out
}

// spellingOf: the host spelling a case needs a route for ("" if none).
func spellingOf(raw json.RawMessage) string {
	var k struct {
		Kind string `json:"kind"`
		Host string `json:"host"`
	}
	json.Unmarshal(raw, &k)
	if k.Kind == "domains" {
		return k.Host
	}
	return ""
}

type runner struct {
	ctx  *core.Ctx
	f    *fixture
	pool *envPool
}

func newRunner(ctx *core.Ctx, spellings []string) *runner {
	systemRoot(ctx.Root) // before anything loads the system certificate pool of this process
	f, err := newFixture(ctx, spellings)
	if err != nil {
		core.Fatalf("C07: scripted origins: %v", err)
	}
	return &runner{ctx: ctx, f: f, pool: &envPool{f: f, envs: map[string]*env{}}}
}

func (rn *runner) close() {
	finalSweep(rn.ctx, rn.f)
	rn.pool.closeAll()
	rn.f.close()
}

func (rn *runner) one(raw json.RawMessage, r *core.Rand) {
	var k struct {
		Kind string `json:"kind"`
	}
	json.Unmarshal(raw, &k)
	switch k.Kind {
	case "hs":
		var b hsBatch
		if json.Unmarshal(raw, &b) != nil {
			core.Fatalf("C07: bad hs case")
		}
		runBatch(rn.ctx, rn.f, &b)
	case "origin":
		var c originCase
		json.Unmarshal(raw, &c)
		runOrigin(rn.ctx, rn.pool, &c, r)
	case "domains":
		var c domainCase
		json.Unmarshal(raw, &c)
		runDomain(rn.ctx, rn.pool, &c, r)
	case "api":
		var c apiCase
		json.Unmarshal(raw, &c)
		runAPI(rn.ctx, &c)
	case "hist":
		var c histCase
		if json.Unmarshal(raw, &c) != nil {
			core.Fatalf("C07: bad hist case")
		}
		runHistory(rn.ctx, rn.f, &c, r)
	case "trust":
		var c trustCase
		if json.Unmarshal(raw, &c) != nil {
			core.Fatalf("C07: bad trust case")
		}
		runTrust(rn.ctx, &c, r)
	default:
		core.Fatalf("C07: unknown case kind %q", k.Kind)
	}
}

func Run(ctx *core.Ctx) {
	ctx.SetRule("(hs) batches of 8-64 concurrent CONNECT+TLS handshakes against a fresh proxy (cache size 1-4, cache TTL / certificate validity of 1-2 s or 1 h) " +
		"over 1-6 authorities (DNS names in any case, IPv4, bracketed IPv6, any port) with SNI same / absent / different / other case, repeated in 2-3 phases " +
		"separated by a sleep past the shorter of TTL and validity; one DNS name in five (SNI and CONNECT host alike) has a total length at a limit (62-66, 100, 127-129, 180, 200, 252, 253) " +
		"or anywhere in 40-253, in labels of 63 / 62 / 1-3 / 1 / mixed length, lower / upper / mixed case; swept every run: 32 batches asking names of 63, 64, 65, 127, 128, 200, 253 characters " +
		"as SNI, as CONNECT host (also with a trailing dot), as both and as two different names twice on one proxy, and pairs of names that agree in their first 63-252 characters " +
		"alternately on a cache of one entry and with their prefix on a cache of four; a handshake is non-trivial when the name is an IP literal, the SNI is absent or differs from " +
		"the CONNECT host, the host has upper-case letters, the requested name is longer than 63 characters, or it happens after the sleep; (origin) one request inside an intercepted session to a scripted TLS origin " +
		"addressed by DNS name / IPv4 literal / bracketed IPv6 literal (default port, :443, :8443) that presents a valid (IP SAN for literals) / expired / " +
		"wrong-name (other DNS name) / wrong-address (other IP SAN) / literal-spelled-as-dNSName / untrusted-CA certificate, extra CA through CACertFiles, " +
		"insecure mode off or on, client X-Forwarded-Proto absent / https / http — the full cross product addressing × certificate × insecure every run, the rest drawn; " +
		"(domains) CONNECT under 16 mitm-domains lists (anchored / unanchored / case-insensitive include and exclude rules over names and IP literals, rules whose " +
		"verdict on host:port differs from that on the host) to included, excluded and unlisted hosts (names in lower / upper / mixed / random case, IPv4, bracketed IPv6) " +
		"on ports 443 / 8443 / 80 / other — every list × port class × host spelling every run, more drawn with random ports and spellings; (api) the GetCertificate callback of TLSForHost and " +
		"net.SplitHostPort / net.ParseIP / URL.Hostname on well-formed and malformed authority and SNI strings; (hist) histories of 3-8 events (swept: 20-40) on ONE fresh proxy " +
		"behind no / an http / an https / a socks5 upstream proxy, mitm-domains excluding the tunnel hosts: CONNECTs to excluded hosts (tunnelled through the upstream), requests in intercepted " +
		"sessions and plain GET https:// to 19 scripted origins (valid, expired, untrusted, wrong name, certificate valid for an upstream proxy's name / a tunnel host / another origin; DNS names, " +
		"IPv4, IPv6) on drawn ports, every origin closing after each response, in drawn orders and swept as tunnel-first and origins-tunnel-origins for every upstream kind; each event's verdict and the SNI " +
		"the origin saw are compared with Model.C07.runHist and with the same event alone on a fresh instance; a history event is non-trivial when something happened on the instance before it; " +
		"distinct = distinct (configuration, authority, SNI, phase) " +
		"resp. (configuration, addressing, origin kind, port, header) resp. (configuration, host spelling, port) resp. strings resp. (configuration, event kind, host, how many tunnels / verifications before: 0, 1, 2+) " +
		"resp. (kind and CA list of the instance, CA of the origin, way of the request, CA lists of all instances built so far, whether more were built after it)")
	ctx.Assume("crypto is not modelled: x509 verification is an abstract predicate in the Lean model (hypothesis FreshVerifies of the theorems); " +
		"the run checks the real certificates with crypto/x509 as an independent verifier")
	corpus := core.LoadCorpus(ctx.Root, "C07")
	var spellings []string
	for _, c := range corpus {
		spellings = append(spellings, spellingOf(c))
	}

	type job struct {
		raw json.RawMessage
		r   *core.Rand
	}
	enc := func(v any) json.RawMessage { b, _ := json.Marshal(v); return b }

	// handshake batches: each has its own proxy; many sleep, so they run side by side
	var batches, light []job
	nB := ctx.N(56, 800)
	for i := 0; i < nB; i++ {
		r := ctx.Rng.Sub()
		b := genBatch(r, ctx.Quick())
		if i < 2 {
			ctx.Sample(b)
		}
		batches = append(batches, job{enc(b), r})
	}
	// names of every length, every run
	for i, b := range sweepLong(ctx.Rng.Sub()) {
		if i == 2 {
			ctx.Sample(b)
		}
		batches = append(batches, job{enc(b), ctx.Rng.Sub()})
	}
	for _, c := range sweepOrigins(ctx.Rng.Sub()) {
		light = append(light, job{enc(c), ctx.Rng.Sub()})
	}
	for i, n := 0, ctx.N(240, 3000); i < n; i++ {
		r := ctx.Rng.Sub()
		c := genOrigin(r)
		if i < 1 {
			ctx.Sample(c)
		}
		light = append(light, job{enc(c), r})
	}
	for _, c := range sweepDomains() {
		light = append(light, job{enc(c), ctx.Rng.Sub()})
	}
	for i, n := 0, ctx.N(200, 2500); i < n; i++ {
		r := ctx.Rng.Sub()
		c := genDomain(r)
		if i < 1 {
			ctx.Sample(c)
		}
		spellings = append(spellings, c.Host)
		light = append(light, job{enc(c), r})
	}
	for _, t := range domainHostsCanon {
		spellings = append(spellings, spellingsOf(t)...)
	}
	for i, n := 0, ctx.N(6000, 60000); i < n; i++ {
		r := ctx.Rng.Sub()
		c := genAPI(r)
		if i < 1 {
			ctx.Sample(c)
		}
		light = append(light, job{enc(c), r})
	}

	// histories: each has its own proxy, events in order
	var hists []job
	for _, c := range sweepHist(ctx.Rng.Sub()) {
		hists = append(hists, job{enc(c), ctx.Rng.Sub()})
	}
	for i, n := 0, ctx.N(60, 900); i < n; i++ {
		r := ctx.Rng.Sub()
		c := genHist(r)
		if i < 1 {
			ctx.Sample(c)
		}
		hists = append(hists, job{enc(c), r})
	}

	// histories of instance construction: each builds its own instances, steps in order
	var trusts []job
	for _, c := range sweepTrust(ctx.Rng.Sub()) {
		trusts = append(trusts, job{enc(c), ctx.Rng.Sub()})
	}
	for i, n := 0, ctx.N(24, 400); i < n; i++ {
		r := ctx.Rng.Sub()
		c := genTrust(r)
		if i < 1 {
			ctx.Sample(c)
		}
		trusts = append(trusts, job{enc(c), r})
	}

	rn := newRunner(ctx, spellings)
	defer rn.close()
	for _, c := range corpus {
		rn.one(c, ctx.Rng.Sub())
	}
	core.Shuffle(ctx.Rng.Sub(), light)

	var wg sync.WaitGroup
	work := func(n int, jobs []job) {
		ch := make(chan job)
		for w := 0; w < n; w++ {
			wg.Add(1)
			go func() {
				defer wg.Done()
				for j := range ch {
					rn.one(j.raw, j.r)
				}
			}()
		}
		go func() {
			for _, j := range jobs {
				ch <- j
			}
			close(ch)
		}()
	}
	work(ctx.N(10, 12), batches)
	work(6, light)
	work(4, hists)
	work(3, trusts)
	wg.Wait()
}

func Replay(ctx *core.Ctx, raw json.RawMessage) {
	rn := newRunner(ctx, []string{spellingOf(raw)})
	defer rn.close()
	rn.one(raw, ctx.Rng.Sub())
}
