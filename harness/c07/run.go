package c07

import (
	"encoding/json"
	"sync"

	"github.com/saucelabs/forwarder/verifharness/core"
)

const hour = 3600_000

// (cache TTL, validity) pairs in ms: validity shorter than the run with a long-lived cache entry
// (an expired certificate stays cached: only re-validation saves the handshake), TTL shorter than
// the run, both short, both long (pure cache reuse).
var lifetimes = [][2]int{
	{hour, 1000}, {hour, 1000}, {hour, 1000}, {hour, 2000},
	{1000, hour}, {2000, 1000}, {1000, 2000}, {1000, 1000},
	{hour, hour}, {hour, hour},
}

func genBatch(r *core.Rand, quick bool) *hsBatch {
	b := &hsBatch{Kind: "hs"}
	lt := core.Pick(r, lifetimes)
	b.Env = EnvCfg{CacheSize: uint32(r.Range(1, 4)), CacheTTLms: lt[0], ValidityMs: lt[1]}
	short := min(lt[0], lt[1])
	b.Phases = 2
	if r.Chance(25) {
		b.Phases = 3
	}
	if short < hour {
		// past the expiry of whatever is shorter, whole-second truncation included
		b.SleepMs = short + 1200
	} else {
		b.SleepMs = r.Range(0, 40)
	}
	// few names, many handshakes: the cache evicts (more names than entries) or holds them all
	k := r.Range(1, 6)
	names := make([]Target, k)
	for i := range names {
		names[i] = genTarget(r)
	}
	n := r.Range(8, 64)
	if quick {
		n = r.Range(8, 40)
	}
	for i := 0; i < n; i++ {
		t := core.Pick(r, names)
		// the same authority is also asked with other SNI choices
		if r.Chance(25) {
			switch {
			case t.Kind != "dns":
				t.SNI = core.Pick(r, []string{"", genDNS(r)})
			default:
				t.SNI = core.Pick(r, []string{"", t.Host, randCase(r, t.Host), genDNS(r)})
			}
		}
		b.Conns = append(b.Conns, t)
	}
	b.Concurrency = core.Pick(r, []int{8, 16, 32, 64})
	return b
}

var originKinds = []string{"valid", "expired", "wrongname", "untrusted"}

func genOrigin(r *core.Rand) *originCase {
	oc := &originCase{Kind: "origin", Origin: core.Pick(r, originKinds)}
	// long-lived entries: expiry histories belong to the hs batches, which replay alone
	oc.Env = EnvCfg{CacheSize: uint32(core.Pick(r, []int{1, 2, 4})), CacheTTLms: hour, ValidityMs: hour}
	oc.Env.Insecure = r.Chance(35)
	switch x := r.Intn(100); {
	case x < 65:
	case x < 80:
		oc.HasXFP, oc.XFP = true, "https"
	default:
		oc.HasXFP, oc.XFP = true, "http"
	}
	return oc
}

var domainLists = [][]string{
	nil,
	{`^mitm-.*\.test$`, `-^mitm-skip\.test$`},
	{`.*`, `-skip`},
	{`\.test$`},
	{`^valid\.test$`, `^mitm-a\.test$`},
	{`^(valid|skip-a)\.test$`, `-^skip-a`, `-untrusted`},
}

var domainHosts = []string{"valid.test", "mitm-a.test", "mitm-skip.test", "skip-a.test", "skip-b.test"}

func genDomain(r *core.Rand) *domainCase {
	dc := &domainCase{Kind: "domains", Host: core.Pick(r, domainHosts)}
	dc.Env = EnvCfg{CacheSize: uint32(core.Pick(r, []int{1, 3})), CacheTTLms: hour, ValidityMs: hour, Domains: core.Pick(r, domainLists)}
	return dc
}

type runner struct {
	ctx  *core.Ctx
	f    *fixture
	pool *envPool
}

func newRunner(ctx *core.Ctx) *runner {
	f, err := newFixture(ctx)
	if err != nil {
		core.Fatalf("C07: scripted origins: %v", err)
	}
	return &runner{ctx: ctx, f: f, pool: &envPool{f: f, envs: map[string]*env{}}}
}

func (rn *runner) close() {
	finalSweep(rn.ctx, rn.f)
	rn.pool.closeAll()
	rn.f.close()
}

func (rn *runner) one(raw json.RawMessage, r *core.Rand) {
	var k struct {
		Kind string `json:"kind"`
	}
	json.Unmarshal(raw, &k)
	switch k.Kind {
	case "hs":
		var b hsBatch
		if json.Unmarshal(raw, &b) != nil {
			core.Fatalf("C07: bad hs case")
		}
		runBatch(rn.ctx, rn.f, &b)
	case "origin":
		var c originCase
		json.Unmarshal(raw, &c)
		runOrigin(rn.ctx, rn.pool, &c, r)
	case "domains":
		var c domainCase
		json.Unmarshal(raw, &c)
		runDomain(rn.ctx, rn.pool, &c, r)
	case "api":
		var c apiCase
		json.Unmarshal(raw, &c)
		runAPI(rn.ctx, &c)
	default:
		core.Fatalf("C07: unknown case kind %q", k.Kind)
	}
}

func Run(ctx *core.Ctx) {
	ctx.SetRule("(hs) batches of 8-64 concurrent CONNECT+TLS handshakes against a fresh proxy (cache size 1-4, cache TTL / certificate validity of 1-2 s or 1 h) " +
		"over 1-6 authorities (DNS names in any case, IPv4, bracketed IPv6, any port) with SNI same / absent / different / other case, repeated in 2-3 phases " +
		"separated by a sleep past the shorter of TTL and validity; a handshake is non-trivial when the name is an IP literal, the SNI is absent or differs from " +
		"the CONNECT host, the host has upper-case letters, or it happens after the sleep; (origin) one request inside an intercepted session to a scripted TLS origin " +
		"with a valid / expired / wrong-name / untrusted-CA certificate, insecure mode off or on, client X-Forwarded-Proto absent / https / http; " +
		"(domains) CONNECT under a mitm-domains include/exclude list to included, excluded and unlisted hosts; (api) the GetCertificate callback of TLSForHost and " +
		"net.SplitHostPort / net.ParseIP / URL.Hostname on well-formed and malformed authority and SNI strings; distinct = distinct (configuration, authority, SNI, phase) " +
		"resp. (configuration, origin kind, header) resp. strings")
	ctx.Assume("crypto is not modelled: x509 verification is an abstract predicate in the Lean model (hypothesis FreshVerifies of the theorems); " +
		"the run checks the real certificates with crypto/x509 as an independent verifier")
	rn := newRunner(ctx)
	defer rn.close()
	for _, c := range core.LoadCorpus(ctx.Root, "C07") {
		rn.one(c, ctx.Rng.Sub())
	}

	type job struct {
		raw json.RawMessage
		r   *core.Rand
	}
	enc := func(v any) json.RawMessage { b, _ := json.Marshal(v); return b }

	// handshake batches: each has its own proxy; many sleep, so they run side by side
	var batches, light []job
	nB := ctx.N(56, 800)
	for i := 0; i < nB; i++ {
		r := ctx.Rng.Sub()
		b := genBatch(r, ctx.Quick())
		if i < 2 {
			ctx.Sample(b)
		}
		batches = append(batches, job{enc(b), r})
	}
	for i, n := 0, ctx.N(240, 3000); i < n; i++ {
		r := ctx.Rng.Sub()
		c := genOrigin(r)
		if i < 1 {
			ctx.Sample(c)
		}
		light = append(light, job{enc(c), r})
	}
	for i, n := 0, ctx.N(120, 1500); i < n; i++ {
		r := ctx.Rng.Sub()
		c := genDomain(r)
		if i < 1 {
			ctx.Sample(c)
		}
		light = append(light, job{enc(c), r})
	}
	for i, n := 0, ctx.N(6000, 60000); i < n; i++ {
		r := ctx.Rng.Sub()
		c := genAPI(r)
		if i < 1 {
			ctx.Sample(c)
		}
		light = append(light, job{enc(c), r})
	}
	core.Shuffle(ctx.Rng.Sub(), light)

	var wg sync.WaitGroup
	work := func(n int, jobs []job) {
		ch := make(chan job)
		for w := 0; w < n; w++ {
			wg.Add(1)
			go func() {
				defer wg.Done()
				for j := range ch {
					rn.one(j.raw, j.r)
				}
			}()
		}
		go func() {
			for _, j := range jobs {
				ch <- j
			}
			close(ch)
		}()
	}
	work(ctx.N(10, 12), batches)
	work(6, light)
	wg.Wait()
}

func Replay(ctx *core.Ctx, raw json.RawMessage) {
	rn := newRunner(ctx)
	defer rn.close()
	rn.one(raw, ctx.Rng.Sub())
}
