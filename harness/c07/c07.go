// Package c07 ties Model/C07.lean to the real proxy in MITM mode: which certificate a client gets
// inside an intercepted CONNECT (name, SAN kind, validity window, chain) for every cache state the
// run can produce, whether a CONNECT is intercepted at all (mitm-domains), and how a request read
// from the intercepted session is sent on (scheme, origin certificate verification).
package c07

import (
	"bytes"
	"crypto/sha256"
	"crypto/tls"
	"crypto/x509"
	"encoding/hex"
	"fmt"
	"net"
	"regexp"
	"sort"
	"strings"
	"sync"
	"sync/atomic"
	"time"

	"github.com/prometheus/client_golang/prometheus"
	"github.com/saucelabs/forwarder"
	"github.com/saucelabs/forwarder/ruleset"
	"github.com/saucelabs/forwarder/verifharness/core"
	"github.com/saucelabs/forwarder/verifharness/rig"
)

func init() { core.Register("C07", core.Scenario{Run: Run, Replay: Replay}) }

// ---- cases ----

// EnvCfg is one proxy configuration.
type EnvCfg struct {
	CacheSize  uint32   `json:"cache_size"`
	CacheTTLms int      `json:"cache_ttl_ms"`
	ValidityMs int      `json:"validity_ms"`
	Insecure   bool     `json:"insecure,omitempty"`
	Domains    []string `json:"mitm_domains,omitempty"` // nil = no filter
	// Upstream: "" = "direct" | "http" | "https" | "socks5": the scripted upstream proxy of the fixture (history cases)
	Upstream string `json:"upstream,omitempty"`
}

func (c EnvCfg) key() string {
	k := fmt.Sprintf("%d|%d|%d|%v|%s", c.CacheSize, c.CacheTTLms, c.ValidityMs, c.Insecure, strings.Join(c.Domains, "\x00"))
	if c.Upstream != "" && c.Upstream != "direct" {
		k += "|via-" + c.Upstream
	}
	return k
}

// Target is a CONNECT authority built from its parts, so that the name the client asks for is known
// by construction (no parser involved on the checking side).
type Target struct {
	Host string `json:"host"` // DNS name or IP literal without brackets
	Kind string `json:"kind"` // "dns" | "ip4" | "ip6"
	Port string `json:"port"`
	SNI  string `json:"sni,omitempty"` // "" = no SNI extension
}

func (t Target) Authority() string {
	if t.Kind == "ip6" {
		return "[" + t.Host + "]:" + t.Port
	}
	return t.Host + ":" + t.Port
}

// Requested is the name the client asks for: the SNI name, or the CONNECT host when no SNI is sent.
func (t Target) Requested() string {
	if t.SNI != "" {
		return t.SNI
	}
	return t.Host
}

// RequestedIsIP: SNI names are never IP literals (RFC 6066).
func (t Target) RequestedIsIP() bool { return t.SNI == "" && t.Kind != "dns" }

// hsBatch: concurrent handshakes against one fresh proxy, in phases separated by a sleep.
type hsBatch struct {
	Kind        string   `json:"kind"` // "hs"
	Env         EnvCfg   `json:"env"`
	Conns       []Target `json:"conns"`
	Phases      int      `json:"phases"`
	SleepMs     int      `json:"sleep_ms"`
	Concurrency int      `json:"concurrency"`
}

// originCase: one request inside an intercepted session to a scripted TLS origin.
type originCase struct {
	Kind   string `json:"kind"` // "origin"
	Env    EnvCfg `json:"env"`
	Origin string `json:"origin"`        // "valid" | "expired" | "wrongname" | "wrongip" | "ipasdns" | "untrusted"
	Via    string `json:"via,omitempty"` // how the origin is addressed: "" = "dns" | "ip4" | "ip6" (bracketed literal)
	// Port "" = default port (CONNECT host:443, Host without port); otherwise CONNECT host:port and Host: host:port
	Port   string `json:"port,omitempty"`
	XFP    string `json:"xfp,omitempty"` // X-Forwarded-Proto sent by the client inside the session
	HasXFP bool   `json:"has_xfp,omitempty"`
}

func (oc *originCase) via() string {
	if oc.Via == "" {
		return "dns"
	}
	return oc.Via
}

// domainCase: one CONNECT under a mitm-domains list.
type domainCase struct {
	Kind     string `json:"kind"` // "domains"
	Env      EnvCfg `json:"env"`
	Host     string `json:"host"`                // a routed origin name in any letter case, or an IP literal without brackets
	HostKind string `json:"host_kind,omitempty"` // "" = "dns" | "ip4" | "ip6"
	Port     string `json:"port,omitempty"`      // "" = "443"
}

func (dc *domainCase) hostKind() string {
	if dc.HostKind == "" {
		return "dns"
	}
	return dc.HostKind
}

func (dc *domainCase) port() string {
	if dc.Port == "" {
		return "443"
	}
	return dc.Port
}

// ---- fixture: scripted origins shared by every proxy of a run ----

// origin is one scripted TLS origin of the origin-verification cases.
type origin struct {
	Host    string // DNS name or IP literal without brackets the proxy is asked to reach
	Via     string // "dns" | "ip4" | "ip6"
	Kind    string
	leaf    *x509.Certificate
	sanKind string // "dns" | "ip": the certificate's (single) subject alternative name
	sanVal  string
	trusted bool // chains to the CA configured through CACertFiles
}

type fixture struct {
	originCA *rig.CA
	rogueCA  *rig.CA
	caFile   string
	tls      map[string]*rig.Peer // by canonical host (lower case)
	leafFP   map[string]string    // sha256 of the origin's leaf certificate
	origins  map[string]*origin   // by via/kind
	plain    *rig.Peer
	routes   []forwarder.HostPortPair
	hist     *histFixture // upstream proxies, tunnel targets and origins of the history cases (hist.go)
}

var originVias = []string{"dns", "ip4", "ip6"}

// certificate kinds of the scripted origins; "ipasdns" (a dNSName that spells the literal) exists for literals only
var originKinds = []string{"valid", "expired", "wrongname", "wrongip", "ipasdns", "untrusted"}

func originExists(via, kind string) bool { return !(via == "dns" && kind == "ipasdns") }

// originHostOf: the authority host of the origin (via, kind). Literals are documentation addresses
// (RFC 5737 / 3849) in canonical text form, reached through connect-to rules like the names.
func originHostOf(via, kind string) string {
	idx := 0
	for i, k := range originKinds {
		if k == kind {
			idx = i
		}
	}
	switch via {
	case "ip4":
		return fmt.Sprintf("203.0.113.%d", 11+idx)
	case "ip6":
		return fmt.Sprintf("2001:db8::c07:%d", 11+idx)
	}
	return kind + ".test"
}

// hosts of the mitm-domains cases (canonical spelling); every port of them is routed to their TLS origin
var domainHostsCanon = []Target{
	{Host: "allow.test", Kind: "dns"}, {Host: "mitm-a.test", Kind: "dns"}, {Host: "mitm-skip.test", Kind: "dns"},
	{Host: "skip-a.test", Kind: "dns"}, {Host: "skip-b.test", Kind: "dns"}, {Host: "intranet.corp", Kind: "dns"}, {Host: "db.internal", Kind: "dns"},
	{Host: "192.0.2.10", Kind: "ip4"}, {Host: "192.0.2.11", Kind: "ip4"},
	{Host: "2001:db8::d0:1", Kind: "ip6"}, {Host: "2001:db8::d0:2", Kind: "ip6"},
}

func isDomainHost(canon string) bool {
	for _, t := range domainHostsCanon {
		if t.Host == canon {
			return true
		}
	}
	return false
}

func responder(name string) rig.Responder {
	return func(w *rig.PeerConn, ex *rig.Exchange) bool {
		body := "ok:" + ex.Req.Get("Case-Id")
		b := rig.Head("HTTP/1.1 200 OK", []rig.Field{{Name: "Content-Length", Value: fmt.Sprint(len(body))}, {Name: "X-Origin", Value: name}})
		b = append(b, body...)
		w.Write(b)
		return !strings.EqualFold(ex.Req.Get("Connection"), "close")
	}
}

func fp(der []byte) string { h := sha256.Sum256(der); return hex.EncodeToString(h[:8]) }

func otherIP(via string) string {
	if via == "ip6" {
		return "2001:db8::bad:1"
	}
	return "198.51.100.77"
}

// originLeaf issues the certificate of the origin (via, kind) for host h.
func (f *fixture) originLeaf(via, kind, h string) (leaf tls.Certificate, sanKind, sanVal string, trusted bool, err error) {
	now := time.Now()
	sanKind, sanVal, trusted = "dns", h, true
	if via != "dns" {
		sanKind = "ip"
	}
	switch kind {
	case "valid":
		leaf, err = f.originCA.ValidLeaf(h)
	case "expired":
		leaf, err = f.originCA.Leaf(now.Add(-48*time.Hour), now.Add(-time.Hour), h)
	case "wrongname": // trusted chain, good dates, issued for another DNS name
		sanKind, sanVal = "dns", "other.test"
		leaf, err = f.originCA.ValidLeaf(sanVal)
	case "wrongip": // … for another address
		sanKind, sanVal = "ip", otherIP(via)
		leaf, err = f.originCA.ValidLeaf(sanVal)
	case "ipasdns": // … a dNSName spelling the literal: not an iPAddress SAN
		sanKind, sanVal = "dns", h
		leaf, err = f.originCA.LeafSAN(now.Add(-time.Hour), now.Add(12*time.Hour), h, []string{h}, nil)
	case "untrusted":
		trusted = false
		leaf, err = f.rogueCA.ValidLeaf(h)
	default:
		err = fmt.Errorf("unknown origin kind %q", kind)
	}
	return
}

func (f *fixture) addPeer(host string, leaf tls.Certificate) (*rig.Peer, error) {
	p, err := rig.NewTLSPeer("tls:"+host, &tls.Config{Certificates: []tls.Certificate{leaf}}, responder("tls:"+host))
	if err != nil {
		return nil, err
	}
	f.tls[host] = p
	f.leafFP[host] = fp(leaf.Certificate[0])
	return p, nil
}

// newFixture: spellings = the host spellings (letter case) of mitm-domains cases that need a route
// besides the canonical ones.
func newFixture(ctx *core.Ctx, spellings []string) (*fixture, error) {
	f := &fixture{tls: map[string]*rig.Peer{}, leafFP: map[string]string{}, origins: map[string]*origin{}}
	var err error
	if f.originCA, err = rig.NewCA("verif C07 origin CA"); err != nil {
		return nil, err
	}
	if f.rogueCA, err = rig.NewCA("verif C07 untrusted CA"); err != nil {
		return nil, err
	}
	if f.caFile, err = f.originCA.WriteFile(ctx.Root+"/.work", fmt.Sprintf("c07-ca-%d.pem", time.Now().UnixNano())); err != nil {
		return nil, err
	}
	if f.plain, err = rig.NewPeer("plain", responder("plain")); err != nil {
		return nil, err
	}
	// origin-verification cases: ports 443 and 8443 reach the TLS origin, port 80 the plain listener
	for _, via := range originVias {
		for _, kind := range originKinds {
			if !originExists(via, kind) {
				continue
			}
			h := originHostOf(via, kind)
			leaf, sk, sv, tr, err := f.originLeaf(via, kind, h)
			if err != nil {
				return nil, fmt.Errorf("certificate of origin %s/%s: %w", via, kind, err)
			}
			p, err := f.addPeer(h, leaf)
			if err != nil {
				return nil, err
			}
			parsed, err := x509.ParseCertificate(leaf.Certificate[0])
			if err != nil {
				return nil, fmt.Errorf("certificate of origin %s/%s: %w", via, kind, err)
			}
			f.origins[via+"/"+kind] = &origin{Host: h, Via: via, Kind: kind, leaf: parsed, sanKind: sk, sanVal: sv, trusted: tr}
			f.routes = append(f.routes, rig.Route(h, "443", p.Addr), rig.Route(h, "8443", p.Addr), rig.Route(h, "80", f.plain.Addr))
		}
	}
	// mitm-domains cases: every port of every spelling reaches the host's TLS origin
	for _, t := range domainHostsCanon {
		leaf, err := f.originCA.ValidLeaf(t.Host)
		if err != nil {
			return nil, err
		}
		p, err := f.addPeer(t.Host, leaf)
		if err != nil {
			return nil, err
		}
		f.routes = append(f.routes, rig.Route(t.Host, "", p.Addr))
	}
	done := map[string]bool{}
	for _, sp := range spellings {
		canon := strings.ToLower(sp)
		if done[sp] || sp == canon {
			continue
		}
		done[sp] = true
		if p := f.tls[canon]; p != nil && isDomainHost(canon) {
			f.routes = append(f.routes, rig.Route(sp, "", p.Addr))
		}
	}
	if err := f.addHistFixture(); err != nil {
		return nil, err
	}
	return f, nil
}

func (f *fixture) close() {
	for _, p := range f.tls {
		p.Close()
	}
	if f.plain != nil {
		f.plain.Close()
	}
	if f.hist != nil {
		f.hist.close()
	}
}

// where returns which scripted origin (if any) received the request with this id.
func (f *fixture) where(id string) string {
	var at []string
	for _, ex := range f.plain.Log() {
		if ex.Req != nil && ex.Req.Get("Case-Id") == id {
			at = append(at, "plain")
		}
	}
	for n, p := range f.tls {
		for _, ex := range p.Log() {
			if ex.Req != nil && ex.Req.Get("Case-Id") == id {
				at = append(at, "tls:"+n)
			}
		}
	}
	sort.Strings(at)
	return strings.Join(at, ",")
}

func (f *fixture) exchange(id string) *rig.Exchange {
	for _, p := range f.tls {
		for _, ex := range p.Log() {
			if ex.Req != nil && ex.Req.Get("Case-Id") == id {
				return ex
			}
		}
	}
	return nil
}

// ---- proxy environments ----

type env struct {
	cfg   EnvCfg
	proxy *rig.Proxy
	pool  *x509.CertPool // the proxy's MITM CA
	incl  []*regexp.Regexp
	excl  []*regexp.Regexp
}

func startEnv(f *fixture, c EnvCfg) (*env, error) {
	e := &env{cfg: c}
	var matcher forwarder.Matcher
	if c.Domains != nil {
		var items []ruleset.RegexpListItem
		for _, d := range c.Domains {
			it, err := ruleset.ParseRegexpListItem(d)
			if err != nil {
				return nil, fmt.Errorf("mitm-domains %q: %w", d, err)
			}
			items = append(items, it)
			// the harness's own reading of the list (what C17 states): "-" marks an exclude
			if strings.HasPrefix(d, "-") {
				e.excl = append(e.excl, regexp.MustCompile(d[1:]))
			} else {
				e.incl = append(e.incl, regexp.MustCompile(d))
			}
		}
		m, err := ruleset.NewRegexpMatcherFromList(items)
		if err != nil {
			return nil, err
		}
		matcher = m
	}
	p, err := rig.StartProxy(rig.ProxyOpts{
		ConnectTo: f.routes,
		Transport: func(tc *forwarder.HTTPTransportConfig) {
			tc.CACertFiles = []string{f.caFile}
			tc.Insecure = c.Insecure
		},
		Configure: func(cfg *forwarder.HTTPProxyConfig) {
			cfg.Name = "fwdverif"
			cfg.ProxyLocalhost = forwarder.AllowProxyLocalhost
			m := forwarder.DefaultMITMConfig()
			m.CacheSize = c.CacheSize
			m.CacheTTL = time.Duration(c.CacheTTLms) * time.Millisecond
			m.Validity = time.Duration(c.ValidityMs) * time.Millisecond
			cfg.MITM = m
			cfg.PromRegistry = prometheus.NewRegistry()
			if matcher != nil {
				cfg.MITMDomains = matcher
			}
			if u := upstreamURL(c.Upstream); u != "" {
				cfg.UpstreamProxy = rig.MustURL(u)
			}
		},
	})
	if err != nil {
		return nil, err
	}
	e.proxy = p
	ca := p.CACert()
	if ca == nil {
		p.Stop()
		return nil, fmt.Errorf("proxy with MITM configuration reports no CA certificate")
	}
	e.pool = x509.NewCertPool()
	e.pool.AddCert(ca)
	return e, nil
}

func (e *env) close() {
	if e.proxy != nil {
		e.proxy.Stop()
	}
}

type envPool struct {
	mu   sync.Mutex
	f    *fixture
	envs map[string]*env
}

func (p *envPool) get(c EnvCfg) (*env, error) {
	p.mu.Lock()
	defer p.mu.Unlock()
	if e, ok := p.envs[c.key()]; ok {
		return e, nil
	}
	e, err := startEnv(p.f, c)
	if err != nil {
		return nil, err
	}
	p.envs[c.key()] = e
	return e, nil
}

func (p *envPool) closeAll() {
	for _, e := range p.envs {
		e.close()
	}
}

// ---- one handshake ----

type hsResult struct {
	Err    string
	Leaf   *x509.Certificate
	Chain  []*x509.Certificate
	T0, T1 time.Time
	client *rig.Client
}

// handshake: CONNECT authority, then a TLS client handshake that accepts anything
// (InsecureSkipVerify); verification is done afterwards by the harness itself.
func handshake(proxyAddr, authority, sni string, keep bool) *hsResult {
	return handshakeH(proxyAddr, authority, sni, "", keep)
}

// handshakeH: extra = further header lines of the CONNECT request (each ending in CRLF).
func handshakeH(proxyAddr, authority, sni, extra string, keep bool) *hsResult {
	r := &hsResult{}
	c, err := rig.Dial(proxyAddr)
	if err != nil {
		r.Err = "dial: " + err.Error()
		return r
	}
	c.Send([]byte("CONNECT "+authority+" HTTP/1.1\r\nHost: "+authority+"\r\n"+extra+"\r\n"), nil)
	res, err := c.ReadResponse("CONNECT", 10*time.Second)
	if err != nil {
		c.Close()
		r.Err = "connect: " + err.Error()
		return r
	}
	if res.Status != 200 {
		c.Close()
		r.Err = fmt.Sprintf("connect: status %d %s", res.Status, res.Get("X-Forwarder-Error"))
		return r
	}
	r.T0 = time.Now()
	cs, err := c.StartTLS(sni, nil, true)
	r.T1 = time.Now()
	if err != nil {
		c.Close()
		r.Err = err.Error()
		return r
	}
	if len(cs.PeerCertificates) == 0 {
		c.Close()
		r.Err = "tls: no peer certificate"
		return r
	}
	r.Leaf, r.Chain = cs.PeerCertificates[0], cs.PeerCertificates
	if keep {
		r.client = c
	} else {
		c.Close()
	}
	return r
}

// verifyAt picks the instant of the handshake at which the certificate is judged: any instant of
// [T0,T1] is "now" for the proxy's decision; one inside the certificate's window is taken if there is one.
func (r *hsResult) verifyAt() time.Time {
	t := r.T0
	if r.Leaf.NotBefore.After(t) {
		t = r.Leaf.NotBefore
	}
	if t.After(r.T1) {
		return r.T1
	}
	return t
}

// verifyLeaf is the independent verifier: chain to the proxy's CA, validity, host name / IP.
func verifyLeaf(r *hsResult, pool *x509.CertPool, requested string) error {
	inter := x509.NewCertPool()
	for _, c := range r.Chain[1:] {
		inter.AddCert(c)
	}
	_, err := r.Leaf.Verify(x509.VerifyOptions{
		DNSName: requested, Roots: pool, Intermediates: inter, CurrentTime: r.verifyAt(),
		KeyUsages: []x509.ExtKeyUsage{x509.ExtKeyUsageServerAuth},
	})
	return err
}

func describe(c *x509.Certificate) string {
	if c == nil {
		return "none"
	}
	var ips []string
	for _, ip := range c.IPAddresses {
		ips = append(ips, ip.String())
	}
	return fmt.Sprintf("serial=%x cn=%q dns=%q ip=%v notBefore=%s notAfter=%s issuer=%q", c.SerialNumber.Bytes()[:min(4, len(c.SerialNumber.Bytes()))],
		c.Subject.CommonName, c.DNSNames, ips, c.NotBefore.UTC().Format(time.RFC3339), c.NotAfter.UTC().Format(time.RFC3339), c.Issuer.CommonName)
}

// sanOf canonicalises the leaf's SAN: kind and value ("mixed" when both kinds or several entries).
func sanOf(c *x509.Certificate) (kind, val string) {
	switch {
	case len(c.DNSNames) == 1 && len(c.IPAddresses) == 0:
		return "dns", c.DNSNames[0]
	case len(c.DNSNames) == 0 && len(c.IPAddresses) == 1:
		return "ip", c.IPAddresses[0].String()
	case len(c.DNSNames) == 0 && len(c.IPAddresses) == 0:
		return "none", ""
	}
	return "mixed", fmt.Sprint(c.DNSNames, c.IPAddresses)
}

func modelName(ctx *core.Ctx, sni, host string) (name, kind string) {
	ans := strings.Fields(ctx.Model.MustAsk("C07", "name", core.HexS(sni), core.HexS(host)))
	if len(ans) != 3 || ans[0] != "ok" {
		core.Fatalf("C07 name: unexpected answer %v", ans)
	}
	return string(core.MustUnHex(ans[1])), ans[2]
}

// modelLeaf: the leaf the model issues for the handshake on a miss (common name, SAN kind and value —
// the requested name in its whole length) and the key it is cached under.
func modelLeaf(ctx *core.Ctx, sni, host string) (cn, kind, sanVal, key string) {
	ans := strings.Fields(ctx.Model.MustAsk("C07", "leaf", core.HexS(sni), core.HexS(host)))
	if len(ans) != 6 || ans[0] != "ok" {
		core.Fatalf("C07 leaf: unexpected answer %v", ans)
	}
	return string(core.MustUnHex(ans[1])), ans[2], string(core.MustUnHex(ans[3])), string(core.MustUnHex(ans[4]))
}

// checkCert evaluates the certificate clauses on one completed handshake. one = replayable case.
func checkCert(ctx *core.Ctx, one any, t Target, r *hsResult, pool *x509.CertPool) {
	// model: name and SAN kind the code computes
	mName, mKind := modelName(ctx, t.SNI, t.Authority())
	mCN, mKind2, mSAN, _ := modelLeaf(ctx, t.SNI, t.Authority())
	iKind, iVal := sanOf(r.Leaf)
	impl := describe(r.Leaf)
	sameVal := iVal == mSAN
	if iKind == "ip" && mKind == "ip" {
		sameVal = net.ParseIP(mSAN) != nil && net.ParseIP(mSAN).Equal(r.Leaf.IPAddresses[0])
	}
	if r.Leaf.Subject.CommonName != mCN || iKind != mKind || mKind2 != mKind || !sameVal {
		ctx.Disagree("certificate name and SAN = Model.C07.certName / san / certForH", one, impl, fmt.Sprintf("name=%q (%d characters) cn=%q san=%s %q", mName, len(mName), mCN, mKind, mSAN))
	} else {
		ctx.TraceValidated()
	}
	// the property itself, independent of the model
	req := t.Requested()
	if err := verifyLeaf(r, pool, req); err != nil {
		ctx.SpecFail("the certificate served inside an intercepted CONNECT verifies for the name the client asked for (chain to the configured CA, validity now, SAN)",
			"", one, impl, fmt.Sprintf("x509 verification for %q at %s (handshake %s .. %s): %v", req, r.verifyAt().UTC().Format(time.RFC3339Nano),
				r.T0.UTC().Format(time.RFC3339Nano), r.T1.UTC().Format(time.RFC3339Nano), err))
	}
	wantKind := "dns"
	if t.RequestedIsIP() {
		wantKind = "ip"
	}
	if iKind != wantKind {
		ctx.SpecFail("SAN kind follows the literal kind of the requested name (IP literal: IPAddresses, otherwise DNSNames)", "", one, impl,
			fmt.Sprintf("requested %q is %s, certificate SAN is %s", req, wantKind, iKind))
	}
}

// ---- hs batches ----

type seen struct {
	phase  int
	idx    int
	target Target
	res    *hsResult
}

var hsSeq atomic.Int64

func runBatch(ctx *core.Ctx, f *fixture, b *hsBatch) {
	e, err := startEnv(f, b.Env)
	if err != nil {
		ctx.Crash("proxy starts with a valid MITM configuration", "", b, err.Error())
		return
	}
	defer e.close()
	conc := b.Concurrency
	if conc < 1 {
		conc = 1
	}
	var all []seen
	var mu sync.Mutex
	for ph := 0; ph < b.Phases; ph++ {
		if ph > 0 && b.SleepMs > 0 {
			time.Sleep(time.Duration(b.SleepMs) * time.Millisecond)
		}
		sem := make(chan struct{}, conc)
		var wg sync.WaitGroup
		for i, t := range b.Conns {
			wg.Add(1)
			sem <- struct{}{}
			go func(i int, t Target) {
				defer wg.Done()
				defer func() { <-sem }()
				r := handshake(e.proxy.Addr, t.Authority(), t.SNI, false)
				mu.Lock()
				all = append(all, seen{ph, i, t, r})
				mu.Unlock()
			}(i, t)
		}
		wg.Wait()
	}
	failed := false
	for _, s := range all {
		one := struct {
			hsBatch
			Failing int `json:"failing_conn"`
			Phase   int `json:"failing_phase"`
		}{*b, s.idx, s.phase}
		t := s.target
		nontrivial := t.Kind != "dns" || t.SNI != t.Host || strings.ToLower(t.Host) != t.Host || s.phase > 0 || len(t.Requested()) > 63
		ctx.Case(fmt.Sprintf("hs|%s|%s|%s|%d", b.Env.key(), t.Authority(), t.SNI, s.phase), nontrivial)
		ctx.Count("hs/kind/" + t.Kind)
		switch {
		case t.SNI == "":
			ctx.Count("hs/sni/absent")
		case t.SNI == t.Host:
			ctx.Count("hs/sni/same")
		case strings.EqualFold(t.SNI, t.Host):
			ctx.Count("hs/sni/other-case")
		default:
			ctx.Count("hs/sni/different")
		}
		ctx.Count(fmt.Sprintf("hs/cache-size/%d", b.Env.CacheSize))
		ctx.Count(fmt.Sprintf("hs/phase/%d", s.phase))
		ctx.Count("hs/requested-name-length/" + lenClass(len(t.Requested())))
		if t.SNI != "" {
			ctx.Count("hs/sni-length/" + lenClass(len(t.SNI)))
		}
		if t.Kind == "dns" {
			ctx.Count("hs/connect-host-length/" + lenClass(len(t.Host)))
			if strings.HasSuffix(t.Host, ".") {
				ctx.Count("hs/connect-host-trailing-dot")
			}
		}
		if p := ctx.Model.MustAsk("C07", "path", "1", "~", core.HexS(t.Authority())); p != "mitm" {
			ctx.Disagree("CONNECT without mitm-domains is intercepted", one, "handshake attempted", p)
		}
		if s.res.Err != "" {
			failed = true
			ctx.SpecFail("an intercepted CONNECT completes a TLS handshake with a certificate", "", one, s.res.Err, "")
			continue
		}
		checkCert(ctx, one, t, s.res, e.pool)
	}
	if failed {
		return
	}
	batchRelations(ctx, b, all)
}

// batchRelations compares what the batch as a whole shows with the model: the validity window is
// centred on the instant of issuance, and a valid cached entry is served again.
func batchRelations(ctx *core.Ctx, b *hsBatch, all []seen) {
	type grp struct {
		leaf         *x509.Certificate
		minT0, minT1 time.Time
	}
	bySerial := map[string]*grp{}
	for _, s := range all {
		k := s.res.Leaf.SerialNumber.String()
		g := bySerial[k]
		if g == nil {
			g = &grp{leaf: s.res.Leaf, minT0: s.res.T0, minT1: s.res.T1}
			bySerial[k] = g
		}
		if s.res.T0.Before(g.minT0) {
			g.minT0 = s.res.T0
		}
		if s.res.T1.Before(g.minT1) {
			g.minT1 = s.res.T1
		}
	}
	v := int64(b.Env.ValidityMs) * 1e6
	win := func(now time.Time) (nb, na int64) {
		ans := strings.Fields(ctx.Model.MustAsk("C07", "window", fmt.Sprint(v), fmt.Sprint(now.UnixNano())))
		if len(ans) != 2 {
			core.Fatalf("C07 window: %v", ans)
		}
		fmt.Sscan(ans[0], &nb)
		fmt.Sscan(ans[1], &na)
		return
	}
	for _, g := range bySerial {
		// issued at some instant of [minT0, minT1]: the issuing handshake saw this serial
		nbLo, naLo := win(g.minT0)
		nbHi, naHi := win(g.minT1)
		nb, na := g.leaf.NotBefore.UnixNano(), g.leaf.NotAfter.UnixNano()
		if nb < nbLo || nb > nbHi || na < naLo || na > naHi {
			ctx.Disagree("validity window = [issuance − validity, issuance + validity] in whole seconds (Model.C07.fresh)", b, describe(g.leaf),
				fmt.Sprintf("notBefore in [%d,%d] notAfter in [%d,%d] (ns), got %d %d", nbLo, nbHi, naLo, naHi, nb, na))
		} else {
			ctx.TraceValidated()
		}
	}
	// one cache entry per name (Model.C07.cacheKey is injective): a leaf — told by its serial — is served
	// for one cache key only, however much of two names agrees
	keysOf := map[string]map[string]bool{}
	for _, s := range all {
		_, _, _, key := modelLeaf(ctx, s.target.SNI, s.target.Authority())
		k := s.res.Leaf.SerialNumber.String()
		if keysOf[k] == nil {
			keysOf[k] = map[string]bool{}
		}
		keysOf[k][key] = true
	}
	for k, ks := range keysOf {
		if len(ks) > 1 {
			var names []string
			for n := range ks {
				names = append(names, n)
			}
			sort.Strings(names)
			ctx.Disagree("one leaf is served under one cache key = the requested name (Model.C07.cacheKey, c07_cache_key_injective)", b,
				fmt.Sprintf("%s served for %d different names %q", describe(bySerial[k].leaf), len(names), names), "one name per leaf")
		} else {
			ctx.TraceValidated()
		}
	}
	// cache reuse: long TTL and validity, no more distinct names than entries → after phase 0 every
	// handshake is a valid hit (model: `cert valid` = cached)
	if b.Env.CacheTTLms < 3600_000 || b.Env.ValidityMs < 3600_000 || b.Phases < 2 {
		return
	}
	names := map[string]bool{}
	for _, t := range b.Conns {
		n, _ := modelName(ctx, t.SNI, t.Authority())
		names[n] = true
	}
	if len(names) > int(b.Env.CacheSize) {
		return
	}
	if ctx.Model.MustAsk("C07", "cert", "valid") != "cached" {
		return
	}
	first := map[string]map[string]bool{}
	later := map[string]map[string]bool{}
	for _, s := range all {
		n, _ := modelName(ctx, s.target.SNI, s.target.Authority())
		m := first
		if s.phase > 0 {
			m = later
		}
		if m[n] == nil {
			m[n] = map[string]bool{}
		}
		m[n][s.res.Leaf.SerialNumber.String()] = true
	}
	for n, ls := range later {
		ok := len(ls) == 1
		for k := range ls {
			if !first[n][k] {
				ok = false
			}
		}
		if !ok {
			ctx.Disagree("a cached entry that still verifies is served again (Model.C07.certFor)", b,
				fmt.Sprintf("name %q: %d distinct certificates after the first phase, %d in it", n, len(ls), len(first[n])), "cached")
		} else {
			ctx.TraceValidated()
		}
	}
}

// ---- origin verification / scheme of intercepted requests ----

var idSeq atomic.Int64

func newID(r *core.Rand, p string) string {
	return fmt.Sprintf("%s%d-%06x", p, idSeq.Add(1), r.U64()&0xffffff)
}

// knownClass is decided from the input alone.
func (oc *originCase) knownClass() string {
	if oc.HasXFP && oc.XFP == "http" {
		return "client-x-forwarded-proto-http"
	}
	return ""
}

type refusedID struct {
	id string
	oc originCase
}

var (
	refusedMu  sync.Mutex
	refusedIDs []refusedID
)

func runOrigin(ctx *core.Ctx, pool *envPool, oc *originCase, r *core.Rand) {
	e, err := pool.get(oc.Env)
	if err != nil {
		ctx.Crash("proxy starts with a valid MITM configuration", "", oc, err.Error())
		return
	}
	f := pool.f
	via := oc.via()
	og := f.origins[via+"/"+oc.Origin]
	if og == nil {
		core.Fatalf("C07: no scripted origin %s/%s", via, oc.Origin)
	}
	host := og.Host
	id := newID(r, "o")
	// the client side: CONNECT host:port, SNI for names only (RFC 6066), then Host: host[:port]
	t := Target{Host: host, Kind: via, Port: "443"}
	if via == "dns" {
		t.SNI = host
	}
	hostHdr := host
	if via == "ip6" {
		hostHdr = "[" + host + "]"
	}
	if oc.Port != "" {
		t.Port = oc.Port
		hostHdr += ":" + oc.Port
	}
	ctx.Case(fmt.Sprintf("origin|%s|%s|%s|%s|%v|%s", oc.Env.key(), via, oc.Origin, oc.Port, oc.HasXFP, oc.XFP), true)
	ctx.Count("origin/" + oc.Origin)
	ctx.Count("origin/via-" + via)
	ctx.Count(fmt.Sprintf("origin/%s/%s/insecure=%v", via, oc.Origin, oc.Env.Insecure))
	ctx.Count(fmt.Sprintf("origin/insecure=%v", oc.Env.Insecure))
	if oc.Port == "" {
		ctx.Count("origin/port-default")
	} else {
		ctx.Count("origin/port-" + oc.Port)
	}
	if oc.HasXFP {
		ctx.Count("origin/xfp=" + oc.XFP)
	} else {
		ctx.Count("origin/xfp-absent")
	}
	hs := handshake(e.proxy.Addr, t.Authority(), t.SNI, true)
	if hs.Err != "" {
		ctx.SpecFail("an intercepted CONNECT completes a TLS handshake with a certificate", "", oc, hs.Err, "")
		return
	}
	defer hs.client.Close()
	checkCert(ctx, oc, t, hs, e.pool)

	req := "GET /secret-" + id + " HTTP/1.1\r\nHost: " + hostHdr + "\r\nCase-Id: " + id + "\r\n"
	if oc.HasXFP {
		req += "X-Forwarded-Proto: " + oc.XFP + "\r\n"
	}
	req += "\r\n"
	sentAt := time.Now()
	hs.client.Send([]byte(req), nil)
	res, rerr := hs.client.ReadResponse("GET", 15*time.Second)

	// observed
	where := f.where(id)
	status, fwdErr := 0, ""
	if res != nil {
		status, fwdErr = res.Status, res.Get("X-Forwarder-Error")
	}
	var obs string
	switch {
	case where == "tls:"+host:
		obs = "tls"
	case where == "plain":
		obs = "plain"
	case where == "" && status == 502 && fwdErr != "":
		obs = "refused502"
	case where == "":
		obs = fmt.Sprintf("nothing-delivered status=%d", status)
	default:
		obs = "delivered-to " + where
	}
	impl := fmt.Sprintf("origin %s (%s) presents %s; delivered=%q status=%d x-forwarder-error=%q read-error=%v", hostHdr, via, describe(og.leaf), where, status, fwdErr, rerr)

	// model: the certificate the origin presents, verified for the host of the authority
	xfp := ""
	if oc.HasXFP {
		xfp = oc.XFP
	}
	ans := strings.Fields(ctx.Model.MustAsk("C07", "origin", core.HexS(xfp), "1", core.B01(oc.Env.Insecure), core.HexS(hostHdr), fmt.Sprint(sentAt.UnixNano()),
		og.sanKind, core.HexS(og.sanVal), fmt.Sprint(og.leaf.NotBefore.UnixNano()), fmt.Sprint(og.leaf.NotAfter.UnixNano()), core.B01(og.trusted)))
	if len(ans) != 2 {
		core.Fatalf("C07 origin: %v", ans)
	}
	if vn := string(core.MustUnHex(ans[1])); vn != host {
		ctx.Disagree("name the origin certificate is verified for (Model.C07.originVerifyName) = host of the authority", oc, host, vn)
	}
	if ans[0] != obs {
		ctx.Disagree("outcome of a request read from the intercepted session = Model.C07.interceptedTo", oc, impl, ans[0])
	} else {
		ctx.TraceValidated()
	}
	// … and by construction of the case: only the "valid" origin verifies
	originOK := oc.Origin == "valid"
	ans = strings.Fields(ctx.Model.MustAsk("C07", "send", "_", core.HexS(xfp), "1", "1", core.B01(oc.Env.Insecure), core.B01(originOK)))
	if len(ans) != 2 {
		core.Fatalf("C07 send: %v", ans)
	}
	if ans[1] != obs {
		ctx.Disagree("outcome of a request read from the intercepted session = Model.C07.interceptedRequest", oc, impl, ans[1]+" (scheme "+string(core.MustUnHex(ans[0]))+")")
	} else {
		ctx.TraceValidated()
	}

	// the property's clauses evaluated directly
	class := oc.knownClass()
	if strings.Contains(where, "plain") {
		ctx.SpecFail("a request read from the intercepted session is forwarded over TLS (scheme https)", class, oc, impl,
			"GET /secret-"+id+" arrived on the plain TCP listener routed for port 80 of "+host)
	}
	if !oc.Env.Insecure && !originOK {
		if where != "" {
			ctx.SpecFail("an origin whose certificate does not verify receives no request (insecure mode off)", class, oc, impl,
				fmt.Sprintf("certificate kind %q, origin addressed by %s as %q", oc.Origin, via, hostHdr))
		} else {
			refusedMu.Lock()
			refusedIDs = append(refusedIDs, refusedID{id, *oc})
			refusedMu.Unlock()
		}
		if class == "" && !(status == 502 && fwdErr != "") {
			ctx.SpecFail("the client gets an error response (502 + X-Forwarder-Error) when the origin's certificate does not verify", class, oc, impl, "")
		}
	}
	if (oc.Env.Insecure || originOK) && class == "" && where == "tls:"+host && status != 200 {
		ctx.Disagree("response of a delivered request reaches the client", oc, impl, "200")
	}
}

// finalSweep re-checks at the end of the run that refused requests never showed up later.
func finalSweep(ctx *core.Ctx, f *fixture) {
	refusedMu.Lock()
	ids := refusedIDs
	refusedIDs = nil
	refusedMu.Unlock()
	for _, r := range ids {
		if w := f.where(r.id); w != "" {
			oc := r.oc
			ctx.SpecFail("an origin whose certificate does not verify receives no request (insecure mode off)", oc.knownClass(), &oc, "delivered="+w, "seen at the end of the run")
		}
	}
}

// ---- mitm-domains ----

func (e *env) listVerdict(host string) (incl, excl bool) {
	for _, r := range e.incl {
		if r.MatchString(host) {
			incl = true
		}
	}
	for _, r := range e.excl {
		if r.MatchString(host) {
			excl = true
		}
	}
	return
}

func runDomain(ctx *core.Ctx, pool *envPool, dc *domainCase, r *core.Rand) {
	e, err := pool.get(dc.Env)
	if err != nil {
		ctx.Crash("proxy starts with a valid MITM configuration", "", dc, err.Error())
		return
	}
	f := pool.f
	canon := strings.ToLower(dc.Host)
	if f.tls[canon] == nil || !isDomainHost(canon) {
		core.Fatalf("C07: domain case for unrouted host %q", dc.Host)
	}
	id := newID(r, "d")
	t := Target{Host: dc.Host, Kind: dc.hostKind(), Port: dc.port()}
	if t.Kind == "dns" {
		t.SNI = dc.Host
	}
	// verdicts of the lists (the harness's own reading, regular expression by regular expression) on
	// the host name alone — what the property speaks of — and on the other spellings of the target a
	// filter could be handed; the model says which one is looked up
	filter := "nofilter"
	incl, excl := true, false
	portSensitive := false
	if dc.Env.Domains != nil {
		incl, excl = e.listVerdict(dc.Host)
		var items []string
		seen := map[string]bool{}
		for _, subj := range []string{dc.Host, dc.Host + ":" + t.Port, t.Authority(), canon} {
			if seen[subj] {
				continue
			}
			seen[subj] = true
			i, x := e.listVerdict(subj)
			if subj != canon && (i != incl || x != excl) {
				portSensitive = true
			}
			items = append(items, core.HexS(subj)+"/"+core.B01(i)+"/"+core.B01(x))
		}
		filter = core.JoinList(items)
	}
	ans := strings.Fields(ctx.Model.MustAsk("C07", "pathtab", "1", filter, core.HexS(t.Authority())))
	if len(ans) != 2 {
		core.Fatalf("C07 pathtab: %v", ans)
	}
	want := ans[0]
	if subj := string(core.MustUnHex(ans[1])); subj != dc.Host {
		ctx.Disagree("subject of the mitm-domains filter (Model.C07.urlHostname) = host of the CONNECT authority", dc, dc.Host, subj)
	}
	// the property's own reading: excluded or not included → tunnelled
	specWant := "mitm"
	if excl || !incl {
		specWant = "tunnel"
	}
	ctx.Case(fmt.Sprintf("domains|%s|%s|%s", dc.Env.key(), dc.Host, t.Port), true)
	ctx.Count("domains/expected-" + specWant)
	ctx.Count("domains/host-" + t.Kind)
	switch t.Port {
	case "443", "8443", "80":
		ctx.Count("domains/port-" + t.Port)
	default:
		ctx.Count("domains/port-other")
	}
	if dc.Host != canon {
		ctx.Count("domains/host-not-lower-case")
	}
	if portSensitive {
		ctx.Count("domains/verdict-would-differ-on-host:port")
	}
	switch {
	case dc.Env.Domains == nil:
		ctx.Count("domains/no-filter")
	case excl:
		ctx.Count("domains/excluded/port-" + portClass(t.Port))
	case !incl:
		ctx.Count("domains/not-included/port-" + portClass(t.Port))
	default:
		ctx.Count("domains/included/port-" + portClass(t.Port))
	}

	hs := handshake(e.proxy.Addr, t.Authority(), t.SNI, true)
	if hs.Err != "" {
		ctx.SpecFail("CONNECT to a routed TLS origin completes a TLS handshake (intercepted or tunnelled)", "", dc, hs.Err, "expected "+specWant)
		return
	}
	defer hs.client.Close()
	got := "mitm"
	switch {
	case fp(hs.Leaf.Raw) == f.leafFP[canon]:
		got = "tunnel"
	case verifyChainOnly(hs, e.pool) != nil:
		got = "unknown-certificate"
	}
	impl := fmt.Sprintf("CONNECT %s under mitm-domains %q: client saw %s: %s", t.Authority(), dc.Env.Domains, got, describe(hs.Leaf))
	if got != want {
		ctx.Disagree("interception decision = Model.C07.connectPath (filter applied to URL.Hostname())", dc, impl, want)
	} else {
		ctx.TraceValidated()
	}
	if got != specWant {
		detail := fmt.Sprintf("host %q: include rule matches=%v, exclude rule matches=%v; port %s", dc.Host, incl, excl, t.Port)
		if specWant == "tunnel" {
			ctx.SpecFail("a CONNECT to a host excluded by (or not included in) mitm-domains is tunnelled untouched on every port: the client sees the origin's certificate", "", dc, impl, detail)
		} else {
			ctx.SpecFail("a CONNECT subject to MITM gets a certificate that chains to the configured CA", "", dc, impl, detail)
		}
		return
	}
	if got == "mitm" {
		checkCert(ctx, dc, t, hs, e.pool)
		return
	}
	// tunnelled: bytes pass through untouched in both directions
	sent := "GET /t-" + id + " HTTP/1.1\r\nHost: " + dc.Host + "\r\nCase-Id: " + id + "\r\nX-Forwarded-Proto: http\r\nConnection: keep-alive, X-Hop\r\nX-Hop: 1\r\n\r\n"
	hs.client.Send([]byte(sent), nil)
	res, rerr := hs.client.ReadResponse("GET", 15*time.Second)
	ex := f.exchange(id)
	switch {
	case ex == nil:
		ctx.SpecFail("bytes sent through the tunnel reach the origin", "", dc, fmt.Sprintf("no origin received the request; response=%v err=%v", res != nil, rerr), "")
	case !bytes.Equal(ex.Req.HeadBytes, []byte(sent)):
		ctx.SpecFail("bytes sent through the tunnel reach the origin untouched", "", dc, fmt.Sprintf("origin read %q", ex.Req.HeadBytes), fmt.Sprintf("client wrote %q", sent))
	case res == nil || res.Status != 200 || res.Get("X-Origin") != "tls:"+canon || string(res.Body) != "ok:"+id || res.Has("Via"):
		ctx.SpecFail("bytes sent by the origin reach the client untouched", "", dc, fmt.Sprintf("response=%+v err=%v", res, rerr), "")
	default:
		ctx.TraceValidated()
	}
}

func portClass(p string) string {
	switch p {
	case "443", "8443", "80":
		return p
	}
	return "other"
}

func verifyChainOnly(r *hsResult, pool *x509.CertPool) error {
	inter := x509.NewCertPool()
	for _, c := range r.Chain[1:] {
		inter.AddCert(c)
	}
	_, err := r.Leaf.Verify(x509.VerifyOptions{Roots: pool, Intermediates: inter, CurrentTime: r.verifyAt(), KeyUsages: []x509.ExtKeyUsage{x509.ExtKeyUsageAny}})
	return err
}
