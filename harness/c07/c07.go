// Package c07 ties Model/C07.lean to the real proxy in MITM mode: which certificate a client gets
// inside an intercepted CONNECT (name, SAN kind, validity window, chain) for every cache state the
// run can produce, whether a CONNECT is intercepted at all (mitm-domains), and how a request read
// from the intercepted session is sent on (scheme, origin certificate verification).
package c07

import (
	"bytes"
	"crypto/sha256"
	"crypto/tls"
	"crypto/x509"
	"encoding/hex"
	"fmt"
	"net"
	"regexp"
	"sort"
	"strings"
	"sync"
	"sync/atomic"
	"time"

	"github.com/prometheus/client_golang/prometheus"
	"github.com/saucelabs/forwarder"
	"github.com/saucelabs/forwarder/ruleset"
	"github.com/saucelabs/forwarder/verifharness/core"
	"github.com/saucelabs/forwarder/verifharness/rig"
)

func init() { core.Register("C07", core.Scenario{Run: Run, Replay: Replay}) }

// ---- cases ----

// EnvCfg is one proxy configuration.
type EnvCfg struct {
	CacheSize  uint32   `json:"cache_size"`
	CacheTTLms int      `json:"cache_ttl_ms"`
	ValidityMs int      `json:"validity_ms"`
	Insecure   bool     `json:"insecure,omitempty"`
	Domains    []string `json:"mitm_domains,omitempty"` // nil = no filter
}

func (c EnvCfg) key() string {
	return fmt.Sprintf("%d|%d|%d|%v|%s", c.CacheSize, c.CacheTTLms, c.ValidityMs, c.Insecure, strings.Join(c.Domains, "\x00"))
}

// Target is a CONNECT authority built from its parts, so that the name the client asks for is known
// by construction (no parser involved on the checking side).
type Target struct {
	Host string `json:"host"` // DNS name or IP literal without brackets
	Kind string `json:"kind"` // "dns" | "ip4" | "ip6"
	Port string `json:"port"`
	SNI  string `json:"sni,omitempty"` // "" = no SNI extension
}

func (t Target) Authority() string {
	if t.Kind == "ip6" {
		return "[" + t.Host + "]:" + t.Port
	}
	return t.Host + ":" + t.Port
}

// Requested is the name the client asks for: the SNI name, or the CONNECT host when no SNI is sent.
func (t Target) Requested() string {
	if t.SNI != "" {
		return t.SNI
	}
	return t.Host
}

// RequestedIsIP: SNI names are never IP literals (RFC 6066).
func (t Target) RequestedIsIP() bool { return t.SNI == "" && t.Kind != "dns" }

// hsBatch: concurrent handshakes against one fresh proxy, in phases separated by a sleep.
type hsBatch struct {
	Kind        string   `json:"kind"` // "hs"
	Env         EnvCfg   `json:"env"`
	Conns       []Target `json:"conns"`
	Phases      int      `json:"phases"`
	SleepMs     int      `json:"sleep_ms"`
	Concurrency int      `json:"concurrency"`
}

// originCase: one request inside an intercepted session to a scripted TLS origin.
type originCase struct {
	Kind   string `json:"kind"` // "origin"
	Env    EnvCfg `json:"env"`
	Origin string `json:"origin"`        // "valid" | "expired" | "wrongname" | "untrusted"
	XFP    string `json:"xfp,omitempty"` // X-Forwarded-Proto sent by the client inside the session
	HasXFP bool   `json:"has_xfp,omitempty"`
}

// domainCase: one CONNECT under a mitm-domains list.
type domainCase struct {
	Kind string `json:"kind"` // "domains"
	Env  EnvCfg `json:"env"`
	Host string `json:"host"` // one of the routed origin names
}

// ---- fixture: scripted origins shared by every proxy of a run ----

type fixture struct {
	originCA *rig.CA
	rogueCA  *rig.CA
	caFile   string
	tls      map[string]*rig.Peer // by host name
	leafFP   map[string]string    // sha256 of the origin's leaf certificate
	plain    *rig.Peer
	routes   []forwarder.HostPortPair
}

var originHost = map[string]string{
	"valid": "valid.test", "expired": "expired.test", "wrongname": "wrongname.test", "untrusted": "untrusted.test",
}

// names that have a TLS origin behind port 443 and the plain listener behind port 80
var routedNames = []string{"valid.test", "expired.test", "wrongname.test", "untrusted.test", "mitm-a.test", "mitm-skip.test", "skip-a.test", "skip-b.test"}

func responder(name string) rig.Responder {
	return func(w *rig.PeerConn, ex *rig.Exchange) bool {
		body := "ok:" + ex.Req.Get("Case-Id")
		b := rig.Head("HTTP/1.1 200 OK", []rig.Field{{Name: "Content-Length", Value: fmt.Sprint(len(body))}, {Name: "X-Origin", Value: name}})
		b = append(b, body...)
		w.Write(b)
		return !strings.EqualFold(ex.Req.Get("Connection"), "close")
	}
}

func fp(der []byte) string { h := sha256.Sum256(der); return hex.EncodeToString(h[:8]) }

func newFixture(ctx *core.Ctx) (*fixture, error) {
	f := &fixture{tls: map[string]*rig.Peer{}, leafFP: map[string]string{}}
	var err error
	if f.originCA, err = rig.NewCA("verif C07 origin CA"); err != nil {
		return nil, err
	}
	if f.rogueCA, err = rig.NewCA("verif C07 untrusted CA"); err != nil {
		return nil, err
	}
	if f.caFile, err = f.originCA.WriteFile(ctx.Root+"/.work", fmt.Sprintf("c07-ca-%d.pem", time.Now().UnixNano())); err != nil {
		return nil, err
	}
	if f.plain, err = rig.NewPeer("plain", responder("plain")); err != nil {
		return nil, err
	}
	now := time.Now()
	for _, n := range routedNames {
		var leaf tls.Certificate
		switch n {
		case "expired.test":
			leaf, err = f.originCA.Leaf(now.Add(-48*time.Hour), now.Add(-time.Hour), n)
		case "wrongname.test":
			leaf, err = f.originCA.ValidLeaf("other.test")
		case "untrusted.test":
			leaf, err = f.rogueCA.ValidLeaf(n)
		default:
			leaf, err = f.originCA.ValidLeaf(n)
		}
		if err != nil {
			return nil, err
		}
		p, err := rig.NewTLSPeer("tls:"+n, &tls.Config{Certificates: []tls.Certificate{leaf}}, responder("tls:"+n))
		if err != nil {
			return nil, err
		}
		f.tls[n] = p
		f.leafFP[n] = fp(leaf.Certificate[0])
		f.routes = append(f.routes, rig.Route(n, "443", p.Addr), rig.Route(n, "80", f.plain.Addr))
	}
	return f, nil
}

func (f *fixture) close() {
	for _, p := range f.tls {
		p.Close()
	}
	if f.plain != nil {
		f.plain.Close()
	}
}

// where returns which scripted origin (if any) received the request with this id.
func (f *fixture) where(id string) string {
	var at []string
	for _, ex := range f.plain.Log() {
		if ex.Req != nil && ex.Req.Get("Case-Id") == id {
			at = append(at, "plain")
		}
	}
	for n, p := range f.tls {
		for _, ex := range p.Log() {
			if ex.Req != nil && ex.Req.Get("Case-Id") == id {
				at = append(at, "tls:"+n)
			}
		}
	}
	sort.Strings(at)
	return strings.Join(at, ",")
}

func (f *fixture) exchange(id string) *rig.Exchange {
	for _, p := range f.tls {
		for _, ex := range p.Log() {
			if ex.Req != nil && ex.Req.Get("Case-Id") == id {
				return ex
			}
		}
	}
	return nil
}

// ---- proxy environments ----

type env struct {
	cfg   EnvCfg
	proxy *rig.Proxy
	pool  *x509.CertPool // the proxy's MITM CA
	incl  []*regexp.Regexp
	excl  []*regexp.Regexp
}

func startEnv(f *fixture, c EnvCfg) (*env, error) {
	e := &env{cfg: c}
	var matcher forwarder.Matcher
	if c.Domains != nil {
		var items []ruleset.RegexpListItem
		for _, d := range c.Domains {
			it, err := ruleset.ParseRegexpListItem(d)
			if err != nil {
				return nil, fmt.Errorf("mitm-domains %q: %w", d, err)
			}
			items = append(items, it)
			// the harness's own reading of the list (what C17 states): "-" marks an exclude
			if strings.HasPrefix(d, "-") {
				e.excl = append(e.excl, regexp.MustCompile(d[1:]))
			} else {
				e.incl = append(e.incl, regexp.MustCompile(d))
			}
		}
		m, err := ruleset.NewRegexpMatcherFromList(items)
		if err != nil {
			return nil, err
		}
		matcher = m
	}
	p, err := rig.StartProxy(rig.ProxyOpts{
		ConnectTo: f.routes,
		Transport: func(tc *forwarder.HTTPTransportConfig) {
			tc.CACertFiles = []string{f.caFile}
			tc.Insecure = c.Insecure
		},
		Configure: func(cfg *forwarder.HTTPProxyConfig) {
			cfg.Name = "fwdverif"
			cfg.ProxyLocalhost = forwarder.AllowProxyLocalhost
			m := forwarder.DefaultMITMConfig()
			m.CacheSize = c.CacheSize
			m.CacheTTL = time.Duration(c.CacheTTLms) * time.Millisecond
			m.Validity = time.Duration(c.ValidityMs) * time.Millisecond
			cfg.MITM = m
			cfg.PromRegistry = prometheus.NewRegistry()
			if matcher != nil {
				cfg.MITMDomains = matcher
			}
		},
	})
	if err != nil {
		return nil, err
	}
	e.proxy = p
	ca := p.CACert()
	if ca == nil {
		p.Stop()
		return nil, fmt.Errorf("proxy with MITM configuration reports no CA certificate")
	}
	e.pool = x509.NewCertPool()
	e.pool.AddCert(ca)
	return e, nil
}

func (e *env) close() {
	if e.proxy != nil {
		e.proxy.Stop()
	}
}

type envPool struct {
	mu   sync.Mutex
	f    *fixture
	envs map[string]*env
}

func (p *envPool) get(c EnvCfg) (*env, error) {
	p.mu.Lock()
	defer p.mu.Unlock()
	if e, ok := p.envs[c.key()]; ok {
		return e, nil
	}
	e, err := startEnv(p.f, c)
	if err != nil {
		return nil, err
	}
	p.envs[c.key()] = e
	return e, nil
}

func (p *envPool) closeAll() {
	for _, e := range p.envs {
		e.close()
	}
}

// ---- one handshake ----

type hsResult struct {
	Err    string
	Leaf   *x509.Certificate
	Chain  []*x509.Certificate
	T0, T1 time.Time
	client *rig.Client
}

// handshake: CONNECT authority, then a TLS client handshake that accepts anything
// (InsecureSkipVerify); verification is done afterwards by the harness itself.
func handshake(proxyAddr, authority, sni string, keep bool) *hsResult {
	r := &hsResult{}
	c, err := rig.Dial(proxyAddr)
	if err != nil {
		r.Err = "dial: " + err.Error()
		return r
	}
	c.Send([]byte("CONNECT "+authority+" HTTP/1.1\r\nHost: "+authority+"\r\n\r\n"), nil)
	res, err := c.ReadResponse("CONNECT", 10*time.Second)
	if err != nil {
		c.Close()
		r.Err = "connect: " + err.Error()
		return r
	}
	if res.Status != 200 {
		c.Close()
		r.Err = fmt.Sprintf("connect: status %d %s", res.Status, res.Get("X-Forwarder-Error"))
		return r
	}
	r.T0 = time.Now()
	cs, err := c.StartTLS(sni, nil, true)
	r.T1 = time.Now()
	if err != nil {
		c.Close()
		r.Err = err.Error()
		return r
	}
	if len(cs.PeerCertificates) == 0 {
		c.Close()
		r.Err = "tls: no peer certificate"
		return r
	}
	r.Leaf, r.Chain = cs.PeerCertificates[0], cs.PeerCertificates
	if keep {
		r.client = c
	} else {
		c.Close()
	}
	return r
}

// verifyAt picks the instant of the handshake at which the certificate is judged: any instant of
// [T0,T1] is "now" for the proxy's decision; one inside the certificate's window is taken if there is one.
func (r *hsResult) verifyAt() time.Time {
	t := r.T0
	if r.Leaf.NotBefore.After(t) {
		t = r.Leaf.NotBefore
	}
	if t.After(r.T1) {
		return r.T1
	}
	return t
}

// verifyLeaf is the independent verifier: chain to the proxy's CA, validity, host name / IP.
func verifyLeaf(r *hsResult, pool *x509.CertPool, requested string) error {
	inter := x509.NewCertPool()
	for _, c := range r.Chain[1:] {
		inter.AddCert(c)
	}
	_, err := r.Leaf.Verify(x509.VerifyOptions{
		DNSName: requested, Roots: pool, Intermediates: inter, CurrentTime: r.verifyAt(),
		KeyUsages: []x509.ExtKeyUsage{x509.ExtKeyUsageServerAuth},
	})
	return err
}

func describe(c *x509.Certificate) string {
	if c == nil {
		return "none"
	}
	var ips []string
	for _, ip := range c.IPAddresses {
		ips = append(ips, ip.String())
	}
	return fmt.Sprintf("serial=%x cn=%q dns=%q ip=%v notBefore=%s notAfter=%s issuer=%q", c.SerialNumber.Bytes()[:min(4, len(c.SerialNumber.Bytes()))],
		c.Subject.CommonName, c.DNSNames, ips, c.NotBefore.UTC().Format(time.RFC3339), c.NotAfter.UTC().Format(time.RFC3339), c.Issuer.CommonName)
}

// sanOf canonicalises the leaf's SAN: kind and value ("mixed" when both kinds or several entries).
func sanOf(c *x509.Certificate) (kind, val string) {
	switch {
	case len(c.DNSNames) == 1 && len(c.IPAddresses) == 0:
		return "dns", c.DNSNames[0]
	case len(c.DNSNames) == 0 && len(c.IPAddresses) == 1:
		return "ip", c.IPAddresses[0].String()
	case len(c.DNSNames) == 0 && len(c.IPAddresses) == 0:
		return "none", ""
	}
	return "mixed", fmt.Sprint(c.DNSNames, c.IPAddresses)
}

func modelName(ctx *core.Ctx, sni, host string) (name, kind string) {
	ans := strings.Fields(ctx.Model.MustAsk("C07", "name", core.HexS(sni), core.HexS(host)))
	if len(ans) != 3 || ans[0] != "ok" {
		core.Fatalf("C07 name: unexpected answer %v", ans)
	}
	return string(core.MustUnHex(ans[1])), ans[2]
}

// checkCert evaluates the certificate clauses on one completed handshake. one = replayable case.
func checkCert(ctx *core.Ctx, one any, t Target, r *hsResult, pool *x509.CertPool) {
	// model: name and SAN kind the code computes
	mName, mKind := modelName(ctx, t.SNI, t.Authority())
	iKind, iVal := sanOf(r.Leaf)
	impl := describe(r.Leaf)
	sameVal := iVal == mName
	if iKind == "ip" && mKind == "ip" {
		sameVal = net.ParseIP(mName) != nil && net.ParseIP(mName).Equal(r.Leaf.IPAddresses[0])
	}
	if r.Leaf.Subject.CommonName != mName || iKind != mKind || !sameVal {
		ctx.Disagree("certificate name and SAN = Model.C07.certName / san", one, impl, fmt.Sprintf("name=%q san=%s", mName, mKind))
	} else {
		ctx.TraceValidated()
	}
	// the property itself, independent of the model
	req := t.Requested()
	if err := verifyLeaf(r, pool, req); err != nil {
		ctx.SpecFail("the certificate served inside an intercepted CONNECT verifies for the name the client asked for (chain to the configured CA, validity now, SAN)",
			"", one, impl, fmt.Sprintf("x509 verification for %q at %s (handshake %s .. %s): %v", req, r.verifyAt().UTC().Format(time.RFC3339Nano),
				r.T0.UTC().Format(time.RFC3339Nano), r.T1.UTC().Format(time.RFC3339Nano), err))
	}
	wantKind := "dns"
	if t.RequestedIsIP() {
		wantKind = "ip"
	}
	if iKind != wantKind {
		ctx.SpecFail("SAN kind follows the literal kind of the requested name (IP literal: IPAddresses, otherwise DNSNames)", "", one, impl,
			fmt.Sprintf("requested %q is %s, certificate SAN is %s", req, wantKind, iKind))
	}
}

// ---- hs batches ----

type seen struct {
	phase  int
	idx    int
	target Target
	res    *hsResult
}

var hsSeq atomic.Int64

func runBatch(ctx *core.Ctx, f *fixture, b *hsBatch) {
	e, err := startEnv(f, b.Env)
	if err != nil {
		ctx.Crash("proxy starts with a valid MITM configuration", "", b, err.Error())
		return
	}
	defer e.close()
	conc := b.Concurrency
	if conc < 1 {
		conc = 1
	}
	var all []seen
	var mu sync.Mutex
	for ph := 0; ph < b.Phases; ph++ {
		if ph > 0 && b.SleepMs > 0 {
			time.Sleep(time.Duration(b.SleepMs) * time.Millisecond)
		}
		sem := make(chan struct{}, conc)
		var wg sync.WaitGroup
		for i, t := range b.Conns {
			wg.Add(1)
			sem <- struct{}{}
			go func(i int, t Target) {
				defer wg.Done()
				defer func() { <-sem }()
				r := handshake(e.proxy.Addr, t.Authority(), t.SNI, false)
				mu.Lock()
				all = append(all, seen{ph, i, t, r})
				mu.Unlock()
			}(i, t)
		}
		wg.Wait()
	}
	failed := false
	for _, s := range all {
		one := struct {
			hsBatch
			Failing int `json:"failing_conn"`
			Phase   int `json:"failing_phase"`
		}{*b, s.idx, s.phase}
		t := s.target
		nontrivial := t.Kind != "dns" || t.SNI != t.Host || strings.ToLower(t.Host) != t.Host || s.phase > 0
		ctx.Case(fmt.Sprintf("hs|%s|%s|%s|%d", b.Env.key(), t.Authority(), t.SNI, s.phase), nontrivial)
		ctx.Count("hs/kind/" + t.Kind)
		switch {
		case t.SNI == "":
			ctx.Count("hs/sni/absent")
		case t.SNI == t.Host:
			ctx.Count("hs/sni/same")
		case strings.EqualFold(t.SNI, t.Host):
			ctx.Count("hs/sni/other-case")
		default:
			ctx.Count("hs/sni/different")
		}
		ctx.Count(fmt.Sprintf("hs/cache-size/%d", b.Env.CacheSize))
		ctx.Count(fmt.Sprintf("hs/phase/%d", s.phase))
		if p := ctx.Model.MustAsk("C07", "path", "1", "~", core.HexS(t.Authority())); p != "mitm" {
			ctx.Disagree("CONNECT without mitm-domains is intercepted", one, "handshake attempted", p)
		}
		if s.res.Err != "" {
			failed = true
			ctx.SpecFail("an intercepted CONNECT completes a TLS handshake with a certificate", "", one, s.res.Err, "")
			continue
		}
		checkCert(ctx, one, t, s.res, e.pool)
	}
	if failed {
		return
	}
	batchRelations(ctx, b, all)
}

// batchRelations compares what the batch as a whole shows with the model: the validity window is
// centred on the instant of issuance, and a valid cached entry is served again.
func batchRelations(ctx *core.Ctx, b *hsBatch, all []seen) {
	type grp struct {
		leaf         *x509.Certificate
		minT0, minT1 time.Time
	}
	bySerial := map[string]*grp{}
	for _, s := range all {
		k := s.res.Leaf.SerialNumber.String()
		g := bySerial[k]
		if g == nil {
			g = &grp{leaf: s.res.Leaf, minT0: s.res.T0, minT1: s.res.T1}
			bySerial[k] = g
		}
		if s.res.T0.Before(g.minT0) {
			g.minT0 = s.res.T0
		}
		if s.res.T1.Before(g.minT1) {
			g.minT1 = s.res.T1
		}
	}
	v := int64(b.Env.ValidityMs) * 1e6
	win := func(now time.Time) (nb, na int64) {
		ans := strings.Fields(ctx.Model.MustAsk("C07", "window", fmt.Sprint(v), fmt.Sprint(now.UnixNano())))
		if len(ans) != 2 {
			core.Fatalf("C07 window: %v", ans)
		}
		fmt.Sscan(ans[0], &nb)
		fmt.Sscan(ans[1], &na)
		return
	}
	for _, g := range bySerial {
		// issued at some instant of [minT0, minT1]: the issuing handshake saw this serial
		nbLo, naLo := win(g.minT0)
		nbHi, naHi := win(g.minT1)
		nb, na := g.leaf.NotBefore.UnixNano(), g.leaf.NotAfter.UnixNano()
		if nb < nbLo || nb > nbHi || na < naLo || na > naHi {
			ctx.Disagree("validity window = [issuance − validity, issuance + validity] in whole seconds (Model.C07.fresh)", b, describe(g.leaf),
				fmt.Sprintf("notBefore in [%d,%d] notAfter in [%d,%d] (ns), got %d %d", nbLo, nbHi, naLo, naHi, nb, na))
		} else {
			ctx.TraceValidated()
		}
	}
	// cache reuse: long TTL and validity, no more distinct names than entries → after phase 0 every
	// handshake is a valid hit (model: `cert valid` = cached)
	if b.Env.CacheTTLms < 3600_000 || b.Env.ValidityMs < 3600_000 || b.Phases < 2 {
		return
	}
	names := map[string]bool{}
	for _, t := range b.Conns {
		n, _ := modelName(ctx, t.SNI, t.Authority())
		names[n] = true
	}
	if len(names) > int(b.Env.CacheSize) {
		return
	}
	if ctx.Model.MustAsk("C07", "cert", "valid") != "cached" {
		return
	}
	first := map[string]map[string]bool{}
	later := map[string]map[string]bool{}
	for _, s := range all {
		n, _ := modelName(ctx, s.target.SNI, s.target.Authority())
		m := first
		if s.phase > 0 {
			m = later
		}
		if m[n] == nil {
			m[n] = map[string]bool{}
		}
		m[n][s.res.Leaf.SerialNumber.String()] = true
	}
	for n, ls := range later {
		ok := len(ls) == 1
		for k := range ls {
			if !first[n][k] {
				ok = false
			}
		}
		if !ok {
			ctx.Disagree("a cached entry that still verifies is served again (Model.C07.certFor)", b,
				fmt.Sprintf("name %q: %d distinct certificates after the first phase, %d in it", n, len(ls), len(first[n])), "cached")
		} else {
			ctx.TraceValidated()
		}
	}
}

// ---- origin verification / scheme of intercepted requests ----

var idSeq atomic.Int64

func newID(r *core.Rand, p string) string {
	return fmt.Sprintf("%s%d-%06x", p, idSeq.Add(1), r.U64()&0xffffff)
}

// knownClass is decided from the input alone.
func (oc *originCase) knownClass() string {
	if oc.HasXFP && oc.XFP == "http" {
		return "client-x-forwarded-proto-http"
	}
	return ""
}

type refusedID struct {
	id string
	oc originCase
}

var (
	refusedMu  sync.Mutex
	refusedIDs []refusedID
)

func runOrigin(ctx *core.Ctx, pool *envPool, oc *originCase, r *core.Rand) {
	e, err := pool.get(oc.Env)
	if err != nil {
		ctx.Crash("proxy starts with a valid MITM configuration", "", oc, err.Error())
		return
	}
	f := pool.f
	host := originHost[oc.Origin]
	if host == "" {
		core.Fatalf("C07: unknown origin kind %q", oc.Origin)
	}
	id := newID(r, "o")
	t := Target{Host: host, Kind: "dns", Port: "443", SNI: host}
	ctx.Case(fmt.Sprintf("origin|%s|%s|%v|%s", oc.Env.key(), oc.Origin, oc.HasXFP, oc.XFP), true)
	ctx.Count("origin/" + oc.Origin)
	ctx.Count(fmt.Sprintf("origin/insecure=%v", oc.Env.Insecure))
	if oc.HasXFP {
		ctx.Count("origin/xfp=" + oc.XFP)
	} else {
		ctx.Count("origin/xfp-absent")
	}
	hs := handshake(e.proxy.Addr, t.Authority(), t.SNI, true)
	if hs.Err != "" {
		ctx.SpecFail("an intercepted CONNECT completes a TLS handshake with a certificate", "", oc, hs.Err, "")
		return
	}
	defer hs.client.Close()
	checkCert(ctx, oc, t, hs, e.pool)

	req := "GET /secret-" + id + " HTTP/1.1\r\nHost: " + host + "\r\nCase-Id: " + id + "\r\n"
	if oc.HasXFP {
		req += "X-Forwarded-Proto: " + oc.XFP + "\r\n"
	}
	req += "\r\n"
	hs.client.Send([]byte(req), nil)
	res, rerr := hs.client.ReadResponse("GET", 15*time.Second)

	// observed
	where := f.where(id)
	status, fwdErr := 0, ""
	if res != nil {
		status, fwdErr = res.Status, res.Get("X-Forwarder-Error")
	}
	var obs string
	switch {
	case where == "tls:"+host:
		obs = "tls"
	case where == "plain":
		obs = "plain"
	case where == "" && status == 502 && fwdErr != "":
		obs = "refused502"
	case where == "":
		obs = fmt.Sprintf("nothing-delivered status=%d", status)
	default:
		obs = "delivered-to " + where
	}
	impl := fmt.Sprintf("delivered=%q status=%d x-forwarder-error=%q read-error=%v", where, status, fwdErr, rerr)

	// model
	originOK := oc.Origin == "valid"
	xfp := ""
	if oc.HasXFP {
		xfp = oc.XFP
	}
	ans := strings.Fields(ctx.Model.MustAsk("C07", "send", "_", core.HexS(xfp), "1", "1", core.B01(oc.Env.Insecure), core.B01(originOK)))
	if len(ans) != 2 {
		core.Fatalf("C07 send: %v", ans)
	}
	if ans[1] != obs {
		ctx.Disagree("outcome of a request read from the intercepted session = Model.C07.interceptedRequest", oc, impl, ans[1]+" (scheme "+string(core.MustUnHex(ans[0]))+")")
	} else {
		ctx.TraceValidated()
	}

	// the property's clauses evaluated directly
	class := oc.knownClass()
	if strings.Contains(where, "plain") {
		ctx.SpecFail("a request read from the intercepted session is forwarded over TLS (scheme https)", class, oc, impl,
			"GET /secret-"+id+" arrived on the plain TCP listener routed for port 80 of "+host)
	}
	if !oc.Env.Insecure && !originOK {
		if where != "" {
			ctx.SpecFail("an origin whose certificate does not verify receives no request (insecure mode off)", class, oc, impl, "")
		} else {
			refusedMu.Lock()
			refusedIDs = append(refusedIDs, refusedID{id, *oc})
			refusedMu.Unlock()
		}
		if class == "" && !(status == 502 && fwdErr != "") {
			ctx.SpecFail("the client gets an error response (502 + X-Forwarder-Error) when the origin's certificate does not verify", class, oc, impl, "")
		}
	}
	if (oc.Env.Insecure || originOK) && class == "" && where == "tls:"+host && status != 200 {
		ctx.Disagree("response of a delivered request reaches the client", oc, impl, "200")
	}
}

// finalSweep re-checks at the end of the run that refused requests never showed up later.
func finalSweep(ctx *core.Ctx, f *fixture) {
	refusedMu.Lock()
	ids := refusedIDs
	refusedIDs = nil
	refusedMu.Unlock()
	for _, r := range ids {
		if w := f.where(r.id); w != "" {
			oc := r.oc
			ctx.SpecFail("an origin whose certificate does not verify receives no request (insecure mode off)", oc.knownClass(), &oc, "delivered="+w, "seen at the end of the run")
		}
	}
}

// ---- mitm-domains ----

func (e *env) listVerdict(host string) (incl, excl bool) {
	for _, r := range e.incl {
		if r.MatchString(host) {
			incl = true
		}
	}
	for _, r := range e.excl {
		if r.MatchString(host) {
			excl = true
		}
	}
	return
}

func runDomain(ctx *core.Ctx, pool *envPool, dc *domainCase, r *core.Rand) {
	e, err := pool.get(dc.Env)
	if err != nil {
		ctx.Crash("proxy starts with a valid MITM configuration", "", dc, err.Error())
		return
	}
	f := pool.f
	if f.tls[dc.Host] == nil {
		core.Fatalf("C07: domain case for unrouted host %q", dc.Host)
	}
	id := newID(r, "d")
	t := Target{Host: dc.Host, Kind: "dns", Port: "443", SNI: dc.Host}
	filter := "~"
	incl, excl := true, false
	if dc.Env.Domains != nil {
		incl, excl = e.listVerdict(dc.Host)
		filter = core.B01(incl) + "/" + core.B01(excl)
	}
	want := ctx.Model.MustAsk("C07", "path", "1", filter, core.HexS(t.Authority()))
	// the property's own reading: excluded or not included → tunnelled
	specWant := "mitm"
	if excl || !incl {
		specWant = "tunnel"
	}
	ctx.Case(fmt.Sprintf("domains|%s|%s", dc.Env.key(), dc.Host), true)
	ctx.Count("domains/expected-" + specWant)
	switch {
	case dc.Env.Domains == nil:
		ctx.Count("domains/no-filter")
	case excl:
		ctx.Count("domains/excluded")
	case !incl:
		ctx.Count("domains/not-included")
	default:
		ctx.Count("domains/included")
	}

	hs := handshake(e.proxy.Addr, t.Authority(), t.SNI, true)
	if hs.Err != "" {
		ctx.SpecFail("CONNECT to a routed TLS origin completes a TLS handshake (intercepted or tunnelled)", "", dc, hs.Err, "expected "+specWant)
		return
	}
	defer hs.client.Close()
	got := "mitm"
	switch {
	case fp(hs.Leaf.Raw) == f.leafFP[dc.Host]:
		got = "tunnel"
	case verifyChainOnly(hs, e.pool) != nil:
		got = "unknown-certificate"
	}
	impl := "client saw " + got + ": " + describe(hs.Leaf)
	if got != want {
		ctx.Disagree("interception decision = Model.C07.connectPath", dc, impl, want)
	} else {
		ctx.TraceValidated()
	}
	if got != specWant {
		if specWant == "tunnel" {
			ctx.SpecFail("a CONNECT to a host excluded by (or not included in) mitm-domains is tunnelled untouched: the client sees the origin's certificate", "", dc, impl, "")
		} else {
			ctx.SpecFail("a CONNECT subject to MITM gets a certificate that chains to the configured CA", "", dc, impl, "")
		}
		return
	}
	if got == "mitm" {
		checkCert(ctx, dc, t, hs, e.pool)
		return
	}
	// tunnelled: bytes pass through untouched in both directions
	sent := "GET /t-" + id + " HTTP/1.1\r\nHost: " + dc.Host + "\r\nCase-Id: " + id + "\r\nX-Forwarded-Proto: http\r\nConnection: keep-alive, X-Hop\r\nX-Hop: 1\r\n\r\n"
	hs.client.Send([]byte(sent), nil)
	res, rerr := hs.client.ReadResponse("GET", 15*time.Second)
	ex := f.exchange(id)
	switch {
	case ex == nil:
		ctx.SpecFail("bytes sent through the tunnel reach the origin", "", dc, fmt.Sprintf("no origin received the request; response=%v err=%v", res != nil, rerr), "")
	case !bytes.Equal(ex.Req.HeadBytes, []byte(sent)):
		ctx.SpecFail("bytes sent through the tunnel reach the origin untouched", "", dc, fmt.Sprintf("origin read %q", ex.Req.HeadBytes), fmt.Sprintf("client wrote %q", sent))
	case res == nil || res.Status != 200 || res.Get("X-Origin") != "tls:"+dc.Host || string(res.Body) != "ok:"+id || res.Has("Via"):
		ctx.SpecFail("bytes sent by the origin reach the client untouched", "", dc, fmt.Sprintf("response=%+v err=%v", res, rerr), "")
	default:
		ctx.TraceValidated()
	}
}

func verifyChainOnly(r *hsResult, pool *x509.CertPool) error {
	inter := x509.NewCertPool()
	for _, c := range r.Chain[1:] {
		inter.AddCert(c)
	}
	_, err := r.Leaf.Verify(x509.VerifyOptions{Roots: pool, Intermediates: inter, CurrentTime: r.verifyAt(), KeyUsages: []x509.ExtKeyUsage{x509.ExtKeyUsageAny}})
	return err
}
