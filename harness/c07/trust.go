package c07

// Histories of instance construction in ONE process (Model/C07.lean `runProc`): a process builds
// 2-4 proxy instances and bare transports (forwarder.NewHTTPTransport, the constructor `forwarder run`
// uses for the proxy's transport and for the PAC download) with DIFFERENT --cacert-file lists
// {none, {X}, {Y}, {X,Y}}, in any order, and each of them verifies origins whose (otherwise
// impeccable) certificates chain to X, Y, a CA Z in nobody's list and — when the run could install
// one — a system root S, while and after the others are built.
// Judged: every instance accepts exactly what its OWN configuration trusts (Model.C07.trustOf),
// whatever was constructed before or after it; for proxies the property's clause directly: an
// origin whose CA the instance does not trust receives nothing and the client gets 502.
// X, Y, Z are made per case, so that a case is a complete history (it replays alone).

import (
	"context"
	"crypto/tls"
	"crypto/x509"
	"errors"
	"fmt"
	"net/http"
	"os"
	"path/filepath"
	"strings"
	"sync"
	"time"

	"github.com/prometheus/client_golang/prometheus"
	"github.com/saucelabs/forwarder"
	"github.com/saucelabs/forwarder/verifharness/core"
	"github.com/saucelabs/forwarder/verifharness/rig"
)

// ---- the system root of the run ----

var (
	sysOnce sync.Once
	sysCA   *rig.CA // nil: the process could not be given a system root of the run's own
	sysNote string
)

// systemRoot makes crypto/x509's system pool of THIS process consist of one throw-away CA "S"
// (SSL_CERT_FILE / SSL_CERT_DIR are read when the pool is first loaded, once per process). Must
// run before anything verifies a certificate; whether it took effect is probed, not assumed.
func systemRoot(root string) *rig.CA {
	sysOnce.Do(func() {
		ca, err := rig.NewCA("verif C07 system root")
		if err != nil {
			sysNote = err.Error()
			return
		}
		dir := filepath.Join(root, ".work", fmt.Sprintf("c07-sys-%d-%d", os.Getpid(), time.Now().UnixNano()))
		file, err := ca.WriteFile(dir, "roots.pem")
		if err != nil {
			sysNote = err.Error()
			return
		}
		empty := filepath.Join(dir, "certs.d")
		os.MkdirAll(empty, 0o755)
		os.Setenv("SSL_CERT_FILE", file)
		os.Setenv("SSL_CERT_DIR", empty)
		leaf, err := ca.ValidLeaf("probe.test")
		if err != nil {
			sysNote = err.Error()
			return
		}
		c, err := x509.ParseCertificate(leaf.Certificate[0])
		if err != nil {
			sysNote = err.Error()
			return
		}
		if _, err := c.Verify(x509.VerifyOptions{DNSName: "probe.test"}); err != nil {
			sysNote = "system pool was loaded before: " + err.Error()
			return
		}
		sysCA = ca
	})
	return sysCA
}

// ---- cases ----

type trustStep struct {
	Op string `json:"op"` // "build" | "probe"
	// build: What = "proxy" (MITM proxy over NewHTTPTransport) | "transport" (NewHTTPTransport alone);
	// CAs = the --cacert-file list in order, names among "X", "Y" (empty = no --cacert-file)
	What     string   `json:"what,omitempty"`
	CAs      []string `json:"cas,omitempty"`
	Insecure bool     `json:"insecure,omitempty"`
	// probe: instance number (order of construction), the CA the origin's certificate chains to
	// ("X" | "Y" | "Z" | "S"), and for a proxy how the request gets there: "mitm" (inside an intercepted session) | "abs" (GET https://)
	Inst   int    `json:"inst,omitempty"`
	Signer string `json:"signer,omitempty"`
	How    string `json:"how,omitempty"`
	Port   string `json:"port,omitempty"`
}

type trustCase struct {
	Kind  string      `json:"kind"` // "trust"
	Steps []trustStep `json:"steps"`
}

var trustCALists = [][]string{nil, {"X"}, {"Y"}, {"X", "Y"}}

var caNumber = map[string]string{"S": "0", "X": "1", "Y": "2", "Z": "3"}

func trustHost(signer string) string { return "trust-" + strings.ToLower(signer) + ".test" }

// trustWorld: the CAs and origins of one case.
type trustWorld struct {
	dir    string
	files  map[string]string // CA name -> PEM file
	peers  map[string]*rig.Peer
	routes []forwarder.HostPortPair
}

func newTrustWorld(root string, withS bool) (*trustWorld, error) {
	w := &trustWorld{files: map[string]string{}, peers: map[string]*rig.Peer{}}
	w.dir = filepath.Join(root, ".work", fmt.Sprintf("c07-trust-%d-%d", os.Getpid(), idSeq.Add(1)))
	signers := []string{"X", "Y", "Z"}
	if withS {
		signers = append(signers, "S")
	}
	for _, n := range signers {
		ca := sysCA
		if n != "S" {
			var err error
			if ca, err = rig.NewCA("verif C07 CA " + n); err != nil {
				return nil, err
			}
			if w.files[n], err = ca.WriteFile(w.dir, n+".pem"); err != nil {
				return nil, err
			}
		}
		h := trustHost(n)
		leaf, err := ca.ValidLeaf(h)
		if err != nil {
			return nil, err
		}
		p, err := rig.NewTLSPeer("tls:"+h, &tls.Config{Certificates: []tls.Certificate{leaf}}, histResponder("tls:"+h))
		if err != nil {
			return nil, err
		}
		w.peers[h] = p
		w.routes = append(w.routes, rig.Route(h, "", p.Addr)) // every port
	}
	return w, nil
}

func (w *trustWorld) close() {
	for _, p := range w.peers {
		p.Close()
	}
	os.RemoveAll(w.dir)
}

func (w *trustWorld) where(id string) string {
	var at []string
	for n, p := range w.peers {
		for _, ex := range p.Log() {
			if ex.Req != nil && ex.Req.Get("Case-Id") == id {
				at = append(at, "tls:"+n)
			}
		}
	}
	return strings.Join(at, ",")
}

func (w *trustWorld) caFiles(names []string) []string {
	var out []string
	for _, n := range names {
		out = append(out, w.files[n])
	}
	return out
}

// trustInst is one constructed instance.
type trustInst struct {
	step  trustStep
	proxy *rig.Proxy
	rt    *http.Transport
}

func (ti *trustInst) close() {
	if ti.proxy != nil {
		ti.proxy.Stop()
	}
	if ti.rt != nil {
		ti.rt.CloseIdleConnections()
	}
}

func buildTrustInst(w *trustWorld, st trustStep) (*trustInst, error) {
	ti := &trustInst{step: st}
	files := w.caFiles(st.CAs)
	if st.What == "transport" {
		// what command/run does before NewHTTPProxy and for the PAC download
		tc := forwarder.DefaultHTTPTransportConfig()
		tc.DialTimeout = 5 * time.Second
		tc.Retry = forwarder.DialRetryConfig{Attempts: 1}
		tc.RedirectFunc = forwarder.DialRedirectFromHostPortPairs(w.routes)
		tc.CACertFiles = files
		tc.Insecure = st.Insecure
		rt, err := forwarder.NewHTTPTransport(tc)
		if err != nil {
			return nil, err
		}
		ti.rt = rt
		return ti, nil
	}
	p, err := rig.StartProxy(rig.ProxyOpts{
		ConnectTo: w.routes,
		Transport: func(tc *forwarder.HTTPTransportConfig) {
			tc.CACertFiles = files
			tc.Insecure = st.Insecure
		},
		Configure: func(cfg *forwarder.HTTPProxyConfig) {
			cfg.Name = "fwdverif"
			cfg.ProxyLocalhost = forwarder.AllowProxyLocalhost
			m := forwarder.DefaultMITMConfig()
			m.CacheSize = 4
			cfg.MITM = m
			cfg.PromRegistry = prometheus.NewRegistry()
		},
	})
	if err != nil {
		return nil, err
	}
	ti.proxy = p
	return ti, nil
}

// trustObs is what one verification showed: Verdict "accept" (request delivered to the origin, 200
// back) | "refuse" (nothing delivered; 502 + X-Forwarder-Error from a proxy, a certificate
// verification error from a bare transport) | anything else spelled out.
type trustObs struct {
	Verdict string
	Status  int
	Where   string
	Detail  string
}

func (ti *trustInst) probe(w *trustWorld, st trustStep, id string) *trustObs {
	o := &trustObs{}
	host := trustHost(st.Signer)
	authority := host + ":" + st.Port
	if ti.rt != nil {
		ctx, cancel := context.WithTimeout(context.Background(), 15*time.Second)
		defer cancel()
		req, err := http.NewRequestWithContext(ctx, "GET", "https://"+authority+"/t-"+id, nil)
		if err != nil {
			core.Fatalf("C07 trust: %v", err)
		}
		req.Header.Set("Case-Id", id)
		res, err := ti.rt.RoundTrip(req)
		if res != nil {
			o.Status = res.StatusCode
			res.Body.Close()
		}
		o.Where = w.where(id)
		var cve *tls.CertificateVerificationError
		var uae x509.UnknownAuthorityError
		switch {
		case err == nil && o.Status == 200 && o.Where == "tls:"+host:
			o.Verdict = "accept"
		case err != nil && o.Where == "" && (errors.As(err, &cve) || errors.As(err, &uae)):
			o.Verdict = "refuse"
		case o.Where == "":
			o.Verdict = "nothing-delivered"
		default:
			o.Verdict = "delivered-to " + o.Where
		}
		o.Detail = fmt.Sprintf("transport.RoundTrip(GET https://%s/): delivered=%q status=%d error=%v", authority, o.Where, o.Status, err)
		return o
	}
	var res *rig.Msg
	var rerr error
	fwdErr := ""
	switch st.How {
	case "abs":
		c, err := rig.Dial(ti.proxy.Addr)
		if err != nil {
			o.Verdict, o.Detail = "dial-failed", err.Error()
			return o
		}
		defer c.Close()
		c.Send([]byte("GET https://"+authority+"/t-"+id+" HTTP/1.1\r\nHost: "+authority+"\r\nCase-Id: "+id+"\r\n\r\n"), nil)
		res, rerr = c.ReadResponse("GET", 15*time.Second)
	default:
		hs := handshakeH(ti.proxy.Addr, authority, host, "", true)
		if hs.Err != "" {
			o.Verdict, o.Detail = "handshake-failed", hs.Err
			return o
		}
		defer hs.client.Close()
		hs.client.Send([]byte("GET /t-"+id+" HTTP/1.1\r\nHost: "+authority+"\r\nCase-Id: "+id+"\r\n\r\n"), nil)
		res, rerr = hs.client.ReadResponse("GET", 15*time.Second)
	}
	o.Where = w.where(id)
	if res != nil {
		o.Status, fwdErr = res.Status, res.Get("X-Forwarder-Error")
	}
	switch {
	case o.Where == "tls:"+host && o.Status == 200:
		o.Verdict = "accept"
	case o.Where == "" && o.Status == 502 && fwdErr != "":
		o.Verdict = "refuse"
	case o.Where == "":
		o.Verdict = "nothing-delivered"
	default:
		o.Verdict = "delivered-to " + o.Where
	}
	o.Detail = fmt.Sprintf("delivered=%q status=%d x-forwarder-error=%q read-error=%v", o.Where, o.Status, fwdErr, rerr)
	return o
}

const (
	clauseTrustNoDelivery = "an origin whose certificate chains to a CA this proxy instance was not configured to trust receives no request (insecure mode off), whatever other instances the process built before or after it"
	clauseTrust502        = "the client gets an error response (502 + X-Forwarder-Error) when the origin's certificate chains to a CA this proxy instance was not configured to trust, whatever other instances the process built"
)

func caListName(l []string) string {
	if len(l) == 0 {
		return "none"
	}
	return strings.Join(l, "+")
}

func runTrust(ctx *core.Ctx, tcase *trustCase, r *core.Rand) {
	withS := sysCA != nil
	if !withS {
		ctx.Count("trust/no-system-root-of-the-run (" + sysNote + ")")
	}
	w, err := newTrustWorld(ctx.Root, withS)
	if err != nil {
		core.Fatalf("C07 trust: scripted origins: %v", err)
	}
	defer w.close()
	type oneCase struct {
		trustCase
		Failing int `json:"failing_step"`
	}
	at := func(i int) any { return oneCase{*tcase, i} }

	var insts []*trustInst
	defer func() {
		for _, ti := range insts {
			ti.close()
		}
	}()
	obs := make([]*trustObs, len(tcase.Steps))
	ids := make([]string, len(tcase.Steps))
	var items []string
	skipped := map[int]bool{}
	for i, st := range tcase.Steps {
		switch st.Op {
		case "build":
			ti, err := buildTrustInst(w, st)
			if err != nil {
				ctx.Crash("a proxy / transport starts with a valid --cacert-file list", "", at(i), err.Error())
				return
			}
			insts = append(insts, ti)
			cas := "-"
			if len(st.CAs) > 0 {
				var ns []string
				for _, n := range st.CAs {
					ns = append(ns, caNumber[n])
				}
				cas = strings.Join(ns, ".")
			}
			items = append(items, core.JoinList([]string{"b", core.B01(st.Insecure), cas}))
			ctx.Count("trust/build/" + st.What + "/cas=" + caListName(st.CAs))
			if st.Insecure {
				ctx.Count("trust/build/insecure")
			}
		case "probe":
			if st.Inst < 0 || st.Inst >= len(insts) {
				core.Fatalf("C07 trust: probe of instance %d, %d built", st.Inst, len(insts))
			}
			if st.Signer == "S" && !withS {
				skipped[i] = true
				items = append(items, core.JoinList([]string{"p", fmt.Sprint(st.Inst), caNumber["Z"]}))
				continue
			}
			ids[i] = newID(r, "t")
			obs[i] = insts[st.Inst].probe(w, st, ids[i])
			items = append(items, core.JoinList([]string{"p", fmt.Sprint(st.Inst), caNumber[st.Signer]}))
		default:
			core.Fatalf("C07 trust: unknown step %q", st.Op)
		}
	}

	sys := "-"
	if withS {
		sys = caNumber["S"]
	}
	ans := core.SplitList(ctx.Model.MustAsk("C07", "trust", "copied", sys, core.JoinList2(items)))
	if len(ans) != len(tcase.Steps) {
		core.Fatalf("C07 trust: %d answers for %d steps: %v", len(ans), len(tcase.Steps), ans)
	}
	built := 0
	var others []string // CA lists of the instances built so far
	for i, st := range tcase.Steps {
		if st.Op == "build" {
			built++
			others = append(others, caListName(st.CAs))
			continue
		}
		if skipped[i] {
			continue
		}
		ti, o := insts[st.Inst], obs[i]
		own := ti.step
		// how many OTHER instances with a different non-empty CA list exist when this verification runs
		foreign := 0
		for j, l := range others {
			if j != st.Inst && l != "none" && l != caListName(own.CAs) {
				foreign++
			}
		}
		how := st.How
		if ti.rt != nil {
			how = "transport"
		}
		ctx.Case(fmt.Sprintf("trust|%s|cas=%s|insecure=%v|signer=%s|%s|others=%s|built-after=%v", own.What, caListName(own.CAs), own.Insecure, st.Signer, how,
			strings.Join(others, ","), built > st.Inst+1), len(others) > 1)
		ctx.Count("trust/probe/" + own.What + "/cas=" + caListName(own.CAs) + "/signer=" + st.Signer)
		ctx.Count("trust/probe/" + how)
		ctx.Count("trust/probe/other-instances-with-a-different-ca-list=" + few(foreign))
		impl := fmt.Sprintf("step %d: instance %d (%s, --cacert-file %s, insecure=%v; instances built so far: %s) verifies origin %s whose certificate chains to CA %s: %s; %s",
			i, st.Inst, own.What, caListName(own.CAs), own.Insecure, strings.Join(others, ","), trustHost(st.Signer), st.Signer, o.Verdict, o.Detail)
		if ans[i] != o.Verdict {
			ctx.Disagree("verdict of every verification in a history of instance construction = Model.C07.runProc (trust set of an instance = trustOf of its own configuration)", at(i), impl, ans[i])
		} else {
			ctx.TraceValidated()
		}
		// the property's clause, by construction of the case
		trusted := st.Signer == "S"
		for _, n := range own.CAs {
			if n == st.Signer {
				trusted = true
			}
		}
		if !own.Insecure && !trusted {
			if o.Where != "" {
				ctx.SpecFail(clauseTrustNoDelivery, "", at(i), impl, "")
			} else if ti.proxy != nil && o.Verdict != "refuse" {
				ctx.SpecFail(clauseTrust502, "", at(i), impl, "")
			}
		}
	}
	// nothing refused shows up later
	for i, st := range tcase.Steps {
		if st.Op != "probe" || skipped[i] || obs[i].Where != "" || obs[i].Verdict != "refuse" {
			continue
		}
		if wh := w.where(ids[i]); wh != "" {
			ctx.SpecFail(clauseTrustNoDelivery, "", at(i), "delivered="+wh, "seen at the end of the history")
		}
	}
}

// ---- generators ----

var trustSigners = []string{"X", "Y", "Z", "S"}

func probesOf(r *core.Rand, inst int, what string) []trustStep {
	var out []trustStep
	for _, s := range trustSigners {
		st := trustStep{Op: "probe", Inst: inst, Signer: s, Port: histPort(r)}
		if what == "proxy" {
			st.How = "mitm"
			if r.Chance(25) {
				st.How = "abs"
			}
		}
		out = append(out, st)
	}
	return out
}

// sweepTrust: every ordered pair of CA lists: the first instance (a proxy) verifies every origin
// alone, the second (a proxy or a bare transport) is built, both verify every origin.
func sweepTrust(r *core.Rand) []*trustCase {
	var out []*trustCase
	k := 0
	for _, a := range trustCALists {
		for _, b := range trustCALists {
			tc := &trustCase{Kind: "trust"}
			whatA, whatB := "proxy", "proxy"
			switch k % 4 {
			case 1:
				whatB = "transport"
			case 3:
				whatA = "transport"
			}
			k++
			tc.Steps = append(tc.Steps, trustStep{Op: "build", What: whatA, CAs: a})
			tc.Steps = append(tc.Steps, probesOf(r, 0, whatA)...)
			tc.Steps = append(tc.Steps, trustStep{Op: "build", What: whatB, CAs: b})
			tc.Steps = append(tc.Steps, probesOf(r, 1, whatB)...)
			tc.Steps = append(tc.Steps, probesOf(r, 0, whatA)...)
			out = append(out, tc)
		}
	}
	return out
}

// genTrust: 2-4 instances (proxies and bare transports; CA lists drawn, {Y,X} too; now and then in
// insecure mode), a few verifications after each construction, every instance × every origin at the end.
func genTrust(r *core.Rand) *trustCase {
	tc := &trustCase{Kind: "trust"}
	n := r.Range(2, 4)
	var whats []string
	for i := 0; i < n; i++ {
		st := trustStep{Op: "build", What: "proxy", CAs: core.Pick(r, trustCALists)}
		if r.Chance(35) {
			st.What = "transport"
		}
		if len(st.CAs) == 2 && r.Chance(50) {
			st.CAs = []string{"Y", "X"}
		}
		st.Insecure = r.Chance(10)
		tc.Steps = append(tc.Steps, st)
		whats = append(whats, st.What)
		if i < n-1 {
			for j := range whats {
				for _, p := range probesOf(r, j, whats[j]) {
					if r.Chance(30) {
						tc.Steps = append(tc.Steps, p)
					}
				}
			}
		}
	}
	var final []trustStep
	for j := range whats {
		final = append(final, probesOf(r, j, whats[j])...)
	}
	core.Shuffle(r, final)
	tc.Steps = append(tc.Steps, final...)
	return tc
}
