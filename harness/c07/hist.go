package c07

// Histories on ONE proxy instance (Model/C07.lean `runHist`): sequences mixing CONNECTs that
// mitm-domains excludes (tunnelled directly or through an http / https / socks5 upstream proxy),
// requests read from intercepted sessions and plain `GET https://…` requests, every verifying event
// on a fresh origin connection (the origins answer `Connection: close` and close; ports are drawn).
// Judged: every event gets what the model gives it, the name the origin was verified for (seen as the
// SNI the origin received) is the origin's own host, a certificate that is not good for the origin's
// own host is refused (502, nothing delivered) wherever it stands in the history, and every verdict
// equals the verdict of the same event alone on a fresh instance of the same configuration.

import (
	"crypto/tls"
	"crypto/x509"
	"fmt"
	"net"
	"strings"
	"sync"
	"time"

	"github.com/saucelabs/forwarder/verifharness/core"
	"github.com/saucelabs/forwarder/verifharness/rig"
)

const (
	upHTTPHost, upHTTPPort   = "up-http.test", "3128"
	upTLSHost, upTLSPort     = "up-tls.test", "3129"
	upSocksHost, upSocksPort = "socks.test", "1080"
)

var histUpstreams = []string{"direct", "http", "https", "socks5"}

func upstreamURL(kind string) string {
	switch kind {
	case "http":
		return "http://" + upHTTPHost + ":" + upHTTPPort
	case "https":
		return "https://" + upTLSHost + ":" + upTLSPort
	case "socks5":
		return "socks5://" + upSocksHost + ":" + upSocksPort
	}
	return ""
}

func upstreamHost(kind string) string {
	switch kind {
	case "http":
		return upHTTPHost
	case "https":
		return upTLSHost
	case "socks5":
		return upSocksHost
	}
	return ""
}

// hOrigin is a scripted TLS origin of the history cases: reached as Host, presenting a certificate
// that is valid for CertFor (a DNS name or an IP literal).
type hOrigin struct {
	Host      string
	Via       string // "dns" | "ip4" | "ip6"
	CertFor   string
	Expired   bool
	Untrusted bool
	sanKind   string
	leaf      *x509.Certificate
}

// ok: by construction of the case, the certificate verifies for the origin's own host.
func (o *hOrigin) ok() bool { return o.CertFor == o.Host && !o.Expired && !o.Untrusted }

func (o *hOrigin) class() string {
	switch {
	case o.Expired:
		return "expired"
	case o.Untrusted:
		return "untrusted"
	case o.CertFor == o.Host:
		return "valid"
	case o.CertFor == upHTTPHost || o.CertFor == upTLSHost || o.CertFor == upSocksHost:
		return "valid-for-upstream-proxy-name"
	case o.CertFor == "other.test":
		return "wrong-name"
	}
	return "valid-for-name-seen-elsewhere"
}

var histTunnelHosts = []string{"tunnel-a.test", "tunnel-b.test"}

const (
	hValid4 = "203.0.113.41"
	hValid6 = "2001:db8::c07:41"
)

// the origins: valid ones, the classical bad ones, and "decoys" whose certificate is perfectly good
// for ANOTHER name the proxy has to do with (its upstream proxies, hosts it tunnels to, other origins)
var histOriginSpecs = []hOrigin{
	{Host: "hv1.test", Via: "dns", CertFor: "hv1.test"},
	{Host: "hv2.test", Via: "dns", CertFor: "hv2.test"},
	{Host: "hv3.test", Via: "dns", CertFor: "hv3.test"},
	{Host: "hexp.test", Via: "dns", CertFor: "hexp.test", Expired: true},
	{Host: "hunt.test", Via: "dns", CertFor: "hunt.test", Untrusted: true},
	{Host: "hwn.test", Via: "dns", CertFor: "other.test"},
	{Host: "has-up-tls.test", Via: "dns", CertFor: upTLSHost},
	{Host: "has-up-http.test", Via: "dns", CertFor: upHTTPHost},
	{Host: "has-socks.test", Via: "dns", CertFor: upSocksHost},
	{Host: "has-tunnel-a.test", Via: "dns", CertFor: "tunnel-a.test"},
	{Host: "has-tunnel-b.test", Via: "dns", CertFor: "tunnel-b.test"},
	{Host: "has-hv1.test", Via: "dns", CertFor: "hv1.test"},
	{Host: "has-ip4.test", Via: "dns", CertFor: hValid4},
	{Host: hValid4, Via: "ip4", CertFor: hValid4},
	{Host: "203.0.113.42", Via: "ip4", CertFor: upTLSHost},
	{Host: "203.0.113.43", Via: "ip4", CertFor: hValid4},
	{Host: hValid6, Via: "ip6", CertFor: hValid6},
	{Host: "2001:db8::c07:42", Via: "ip6", CertFor: upTLSHost},
	{Host: "2001:db8::c07:43", Via: "ip6", CertFor: "tunnel-a.test"},
}

// mitm-domains lists of the history cases: the origins are intercepted, the tunnel hosts excluded
var histDomainLists = [][]string{
	{`.*`, `-^tunnel-[ab]\.test$`},
	{`^h`, `^203\.0\.113\.`, `^2001:db8::c07:`, `tunnel`, `-^tunnel-`},
}

type histFixture struct {
	upHTTP  *rig.Peer
	upTLS   *rig.Peer
	socks   *rig.Socks5
	origins map[string]*hOrigin
	mu      sync.Mutex
	addr    map[string]string // host -> loopback address: what the scripted upstream proxies resolve
	fresh   sync.Map          // memo of fresh-instance verdicts
}

func (h *histFixture) close() {
	for _, p := range []*rig.Peer{h.upHTTP, h.upTLS} {
		if p != nil {
			p.Close()
		}
	}
	if h.socks != nil {
		h.socks.Close()
	}
}

func (h *histFixture) resolve(target string) string {
	host, _, err := net.SplitHostPort(target)
	if err != nil {
		return ""
	}
	h.mu.Lock()
	defer h.mu.Unlock()
	return h.addr[strings.ToLower(host)]
}

// histResponder answers every request with `Connection: close`, says which SNI the connection
// carried, and closes: the next request to this origin needs a new connection and a new verification.
func histResponder(name string) rig.Responder {
	return func(w *rig.PeerConn, ex *rig.Exchange) bool {
		sni := "not-tls"
		if tc, ok := w.Conn.(*tls.Conn); ok {
			sni = "sni:" + tc.ConnectionState().ServerName
		}
		body := "ok:" + ex.Req.Get("Case-Id")
		b := rig.Head("HTTP/1.1 200 OK", []rig.Field{{Name: "Content-Length", Value: fmt.Sprint(len(body))},
			{Name: "X-Origin", Value: name}, {Name: "X-Sni", Value: sni}, {Name: "Connection", Value: "close"}})
		b = append(b, body...)
		w.Write(b)
		return false
	}
}

func (f *fixture) addHistPeer(host string, leaf tls.Certificate) error {
	p, err := rig.NewTLSPeer("tls:"+host, &tls.Config{Certificates: []tls.Certificate{leaf}}, histResponder("tls:"+host))
	if err != nil {
		return err
	}
	f.tls[host] = p
	f.leafFP[host] = fp(leaf.Certificate[0])
	f.hist.addr[host] = p.Addr
	f.routes = append(f.routes, rig.Route(host, "", p.Addr)) // every port
	return nil
}

func (f *fixture) addHistFixture() error {
	h := &histFixture{origins: map[string]*hOrigin{}, addr: map[string]string{}}
	f.hist = h
	now := time.Now()
	for _, t := range histTunnelHosts {
		leaf, err := f.originCA.ValidLeaf(t)
		if err != nil {
			return err
		}
		if err := f.addHistPeer(t, leaf); err != nil {
			return err
		}
	}
	for i := range histOriginSpecs {
		o := histOriginSpecs[i] // copy
		ca := f.originCA
		if o.Untrusted {
			ca = f.rogueCA
		}
		nb, na := now.Add(-time.Hour), now.Add(12*time.Hour)
		if o.Expired {
			nb, na = now.Add(-48*time.Hour), now.Add(-time.Hour)
		}
		leaf, err := ca.Leaf(nb, na, o.CertFor)
		if err != nil {
			return fmt.Errorf("certificate of history origin %s: %w", o.Host, err)
		}
		if o.leaf, err = x509.ParseCertificate(leaf.Certificate[0]); err != nil {
			return err
		}
		o.sanKind = "dns"
		if net.ParseIP(o.CertFor) != nil {
			o.sanKind = "ip"
		}
		if err := f.addHistPeer(o.Host, leaf); err != nil {
			return err
		}
		h.origins[o.Host] = &o
	}
	var err error
	if h.upHTTP, err = rig.NewForwardProxy("up-http", h.resolve); err != nil {
		return err
	}
	upLeaf, err := f.originCA.ValidLeaf(upTLSHost)
	if err != nil {
		return err
	}
	if h.upTLS, err = rig.NewTLSForwardProxy("up-tls", &tls.Config{Certificates: []tls.Certificate{upLeaf}}, h.resolve); err != nil {
		return err
	}
	if h.socks, err = rig.NewSocks5("socks", h.resolve); err != nil {
		return err
	}
	f.routes = append(f.routes, rig.Route(upHTTPHost, upHTTPPort, h.upHTTP.Addr), rig.Route(upTLSHost, upTLSPort, h.upTLS.Addr),
		rig.Route(upSocksHost, upSocksPort, h.socks.Addr))
	return nil
}

// ---- cases ----

type histEvent struct {
	Op   string `json:"op"`   // "tunnel" (CONNECT to an excluded host) | "mitm" (request in an intercepted session) | "abs" (plain GET https://)
	Host string `json:"host"` // a tunnel host resp. the Host of a history origin (literals without brackets)
	Port string `json:"port"`
}

type histCase struct {
	Kind   string      `json:"kind"` // "hist"
	Env    EnvCfg      `json:"env"`
	Events []histEvent `json:"events"`
}

func hostPort(host, port string) string {
	if strings.Contains(host, ":") {
		return "[" + host + "]:" + port
	}
	return host + ":" + port
}

// evObs is what one event showed.
type evObs struct {
	ID     string
	Obs    string // "tunnelled" | "tls" | "refused502" | anything else, spelled out
	Status int
	FwdErr string
	Where  string
	SNI    string // X-Sni of the response, "" if none
	SentAt time.Time
	Detail string
	hs     *hsResult // the client-side handshake of a "mitm" event (nil otherwise / on failure)
}

func (o *evObs) verdict() string { return fmt.Sprintf("%s status=%d", o.Obs, o.Status) }

// doEvent runs one event against the proxy and reports what could be seen; it judges nothing.
func doEvent(f *fixture, e *env, ev histEvent, id string) *evObs {
	o := &evObs{ID: id, SentAt: time.Now()}
	authority := hostPort(ev.Host, ev.Port)
	sni := ""
	if !strings.Contains(ev.Host, ":") && net.ParseIP(ev.Host) == nil {
		sni = ev.Host
	}
	req := "GET /h-" + id + " HTTP/1.1\r\nHost: " + authority + "\r\nCase-Id: " + id + "\r\n\r\n"
	var res *rig.Msg
	var rerr error
	switch ev.Op {
	case "tunnel":
		hs := handshakeH(e.proxy.Addr, authority, sni, "Case-Id: "+id+"\r\n", true)
		if hs.Err != "" {
			o.Obs, o.Detail = "connect-failed", hs.Err
			return o
		}
		defer hs.client.Close()
		if fp(hs.Leaf.Raw) != f.leafFP[ev.Host] {
			o.Obs, o.Detail = "not-tunnelled", "client saw "+describe(hs.Leaf)
			return o
		}
		o.SentAt = time.Now()
		hs.client.Send([]byte(req), nil)
		res, rerr = hs.client.ReadResponse("GET", 15*time.Second)
		o.Where = f.where(id)
		if res != nil {
			o.Status, o.SNI = res.Status, res.Get("X-Sni")
		}
		if res != nil && res.Status == 200 && o.Where == "tls:"+ev.Host && string(res.Body) == "ok:"+id {
			o.Obs = "tunnelled"
		} else {
			o.Obs = "tunnel-broken"
		}
		o.Detail = fmt.Sprintf("delivered=%q status=%d read-error=%v", o.Where, o.Status, rerr)
		return o
	case "mitm":
		hs := handshakeH(e.proxy.Addr, authority, sni, "", true)
		if hs.Err != "" {
			o.Obs, o.Detail = "handshake-failed", hs.Err
			return o
		}
		defer hs.client.Close()
		o.hs = hs
		o.SentAt = time.Now()
		hs.client.Send([]byte(req), nil)
		res, rerr = hs.client.ReadResponse("GET", 15*time.Second)
	case "abs":
		c, err := rig.Dial(e.proxy.Addr)
		if err != nil {
			o.Obs, o.Detail = "dial-failed", err.Error()
			return o
		}
		defer c.Close()
		o.SentAt = time.Now()
		c.Send([]byte("GET https://"+authority+"/h-"+id+" HTTP/1.1\r\nHost: "+authority+"\r\nCase-Id: "+id+"\r\n\r\n"), nil)
		res, rerr = c.ReadResponse("GET", 15*time.Second)
	default:
		core.Fatalf("C07: unknown history event %q", ev.Op)
	}
	o.Where = f.where(id)
	if res != nil {
		o.Status, o.FwdErr, o.SNI = res.Status, res.Get("X-Forwarder-Error"), res.Get("X-Sni")
	}
	switch {
	case o.Where == "tls:"+ev.Host && o.Status == 200:
		o.Obs = "tls"
	case o.Where == "" && o.Status == 502 && o.FwdErr != "":
		o.Obs = "refused502"
	case o.Where == "":
		o.Obs = "nothing-delivered"
	default:
		o.Obs = "delivered-to " + o.Where
	}
	o.Detail = fmt.Sprintf("delivered=%q status=%d x-forwarder-error=%q x-sni=%q read-error=%v", o.Where, o.Status, o.FwdErr, o.SNI, rerr)
	return o
}

// sawTunnel: did the configured upstream proxy get the CONNECT of a tunnel event?
func (h *histFixture) sawTunnel(kind, id, authority string) bool {
	var p *rig.Peer
	switch kind {
	case "http":
		p = h.upHTTP
	case "https":
		p = h.upTLS
	case "socks5":
		for _, r := range h.socks.Requests() {
			if r.Target == authority || r.Target == strings.Trim(authority, "[]") {
				return true
			}
		}
		return false
	default:
		return true
	}
	for _, ex := range p.Log() {
		if ex.Req != nil && ex.Req.Method == "CONNECT" && ex.Req.Get("Case-Id") == id {
			return true
		}
	}
	return false
}

// freshVerdict: the verdict of the event alone on a fresh instance of the same configuration
// (one instance per distinct (configuration, kind of event, host), started on demand).
func freshVerdict(f *fixture, cfg EnvCfg, ev histEvent, r *core.Rand) string {
	type entry struct {
		once sync.Once
		v    string
	}
	k := cfg.key() + "|" + ev.Op + "|" + ev.Host
	x, _ := f.hist.fresh.LoadOrStore(k, &entry{})
	en := x.(*entry)
	en.once.Do(func() {
		e, err := startEnv(f, cfg)
		if err != nil {
			en.v = "proxy does not start: " + err.Error()
			return
		}
		defer e.close()
		en.v = doEvent(f, e, ev, newID(r, "f")).verdict()
	})
	return en.v
}

const (
	clauseHistNoDelivery = "an origin whose certificate does not verify for its own host receives no request (insecure mode off), whatever the proxy instance did before"
	clauseHist502        = "the client gets an error response (502 + X-Forwarder-Error) when the origin's certificate does not verify, whatever the proxy instance did before"
	clauseHistIndep      = "origin verification does not depend on the history of the proxy instance: every event gets the verdict it gets alone on a fresh instance of the same configuration"
	clauseHistTunnel     = "a CONNECT to a host excluded by mitm-domains is tunnelled untouched (directly or through the upstream proxy)"
)

func runHistory(ctx *core.Ctx, f *fixture, hc *histCase, r *core.Rand) {
	e, err := startEnv(f, hc.Env)
	if err != nil {
		ctx.Crash("proxy starts with a valid MITM configuration", "", hc, err.Error())
		return
	}
	defer e.close()
	up := hc.Env.Upstream
	if up == "" {
		up = "direct"
	}
	type oneCase struct {
		histCase
		Failing int `json:"failing_event"`
	}
	at := func(i int) any { return oneCase{*hc, i} }

	obs := make([]*evObs, len(hc.Events))
	var items []string
	tunnels, verifs := 0, 0
	for i, ev := range hc.Events {
		id := newID(r, "h")
		o := doEvent(f, e, ev, id)
		obs[i] = o
		authority := hostPort(ev.Host, ev.Port)
		before := fmt.Sprintf("after-%s-tunnels-%s-verifications", few(tunnels), few(verifs))
		ctx.Case(fmt.Sprintf("hist|%s|%s|%s|%s", hc.Env.key(), ev.Op, ev.Host, before), i > 0)
		ctx.Count("hist/upstream-" + up)
		ctx.Count("hist/" + ev.Op + "/upstream-" + up)
		ctx.Count(fmt.Sprintf("hist/insecure=%v", hc.Env.Insecure))
		if ev.Op == "tunnel" {
			tunnels++
			items = append(items, core.JoinList([]string{"t", core.HexS(authority)}))
			if o.Obs == "tunnelled" && !f.hist.sawTunnel(up, id, authority) {
				ctx.Disagree("a tunnelled CONNECT goes through the configured upstream proxy", at(i), "upstream proxy "+up+" did not see CONNECT "+authority, "seen")
			}
			continue
		}
		og := f.hist.origins[ev.Host]
		if og == nil {
			core.Fatalf("C07: history event for unknown origin %q", ev.Host)
		}
		ctx.Count("hist/origin/" + og.class())
		ctx.Count("hist/origin-via-" + og.Via)
		if tunnels > 0 {
			ctx.Count("hist/" + ev.Op + "/after-a-tunnelled-connect/upstream-" + up + "/" + og.class())
		}
		verifs++
		tag := "m"
		if ev.Op == "abs" {
			tag = "a"
		}
		items = append(items, core.JoinList([]string{tag, core.HexS(authority), fmt.Sprint(o.SentAt.UnixNano()), og.sanKind, core.HexS(og.CertFor),
			fmt.Sprint(og.leaf.NotBefore.UnixNano()), fmt.Sprint(og.leaf.NotAfter.UnixNano()), core.B01(!og.Untrusted)}))
		if o.hs != nil {
			t := Target{Host: ev.Host, Kind: og.Via, Port: ev.Port}
			if og.Via == "dns" {
				t.SNI = ev.Host
			}
			checkCert(ctx, at(i), t, o.hs, e.pool)
		}
	}

	// the model: the whole history on a fresh instance, clone-per-connection variant (the tree)
	ans := core.SplitList(ctx.Model.MustAsk("C07", "hist", "cloned", up, core.HexS(upstreamHost(up)), "1", core.B01(hc.Env.Insecure), core.JoinList2(items)))
	if len(ans) != len(hc.Events) {
		core.Fatalf("C07 hist: %d answers for %d events: %v", len(ans), len(hc.Events), ans)
	}
	for i, ev := range hc.Events {
		o := obs[i]
		impl := fmt.Sprintf("event %d (%s %s) behind upstream %s: %s; %s", i, ev.Op, hostPort(ev.Host, ev.Port), up, o.Obs, o.Detail)
		if ev.Op == "tunnel" {
			if ans[i] != "tunnelled" {
				core.Fatalf("C07 hist: answer %q for a tunnel event", ans[i])
			}
			if o.Obs != "tunnelled" {
				ctx.SpecFail(clauseHistTunnel, "", at(i), impl, "")
			} else {
				ctx.TraceValidated()
			}
			continue
		}
		og := f.hist.origins[ev.Host]
		impl += "; origin presents " + describe(og.leaf)
		parts := strings.SplitN(ans[i], "/", 2)
		if len(parts) != 2 {
			core.Fatalf("C07 hist: answer %q", ans[i])
		}
		mName := string(core.MustUnHex(parts[1]))
		if mName != ev.Host {
			ctx.Disagree("name the origin certificate is verified for in a history (Model.C07.verifyName) = the origin's host", at(i), ev.Host, mName)
		}
		if parts[0] != o.Obs {
			ctx.Disagree("outcome of every event of a history = Model.C07.runHist (clone-per-connection TLS configuration)", at(i), impl, ans[i])
		} else {
			ctx.TraceValidated()
		}
		// the name the connection to the origin was made for, as the origin saw it: SNI = the
		// verification name for DNS names, none for IP literals
		if o.Obs == "tls" {
			wantSNI := "sni:" + mName
			if og.Via != "dns" {
				wantSNI = "sni:"
			}
			if o.SNI != wantSNI {
				ctx.Disagree("server name of the connection to the origin = Model.C07.verifyName (the origin's own host; none for IP literals)", at(i), impl, wantSNI)
			} else {
				ctx.TraceValidated()
			}
		}
		// the property's clauses, by construction of the case
		if !hc.Env.Insecure && !og.ok() {
			if o.Where != "" {
				ctx.SpecFail(clauseHistNoDelivery, "", at(i), impl, fmt.Sprintf("origin %s presents a certificate for %q (%s)", ev.Host, og.CertFor, og.class()))
			}
			if !(o.Status == 502 && o.FwdErr != "") {
				ctx.SpecFail(clauseHist502, "", at(i), impl, fmt.Sprintf("origin %s presents a certificate for %q (%s)", ev.Host, og.CertFor, og.class()))
			}
		}
		if (hc.Env.Insecure || og.ok()) && o.Obs != "tls" {
			ctx.Disagree("a request to an origin whose certificate verifies for its own host is delivered and answered, wherever it stands in the history", at(i), impl, "tls")
		}
	}
	// history independence, judged on the implementation alone
	for i, ev := range hc.Events {
		if ev.Op == "tunnel" {
			continue
		}
		fv := freshVerdict(f, hc.Env, ev, r)
		if hv := obs[i].verdict(); hv != fv {
			ctx.SpecFail(clauseHistIndep, "", at(i), fmt.Sprintf("event %d (%s %s) behind upstream %s after %d earlier events: %s; %s", i, ev.Op, hostPort(ev.Host, ev.Port), up, i, hv, obs[i].Detail),
				"alone on a fresh instance: "+fv)
		} else {
			ctx.TraceValidated()
		}
	}
	// nothing refused shows up later
	for i, ev := range hc.Events {
		if ev.Op == "tunnel" || obs[i].Where != "" {
			continue
		}
		if og := f.hist.origins[ev.Host]; !hc.Env.Insecure && !og.ok() {
			if w := f.where(obs[i].ID); w != "" {
				ctx.SpecFail(clauseHistNoDelivery, "", at(i), "delivered="+w, "seen at the end of the history")
			}
		}
	}
}

func few(n int) string {
	switch {
	case n == 0:
		return "0"
	case n == 1:
		return "1"
	}
	return "2+"
}

// ---- generators ----

func histPort(r *core.Rand) string {
	if r.Chance(30) {
		return core.Pick(r, []string{"443", "8443"})
	}
	return fmt.Sprint(r.Range(1024, 65535))
}

func histEnv(r *core.Rand, up string, insecure bool, list int) EnvCfg {
	return EnvCfg{CacheSize: uint32(core.Pick(r, []int{1, 2, 4})), CacheTTLms: hour, ValidityMs: hour, Insecure: insecure,
		Domains: histDomainLists[list], Upstream: up}
}

// genHist: 3-8 events in random order; wrong-name origins are drawn with a bias towards certificates
// that are good for the upstream proxy's name and for names that occurred earlier in the history.
func genHist(r *core.Rand) *histCase {
	up := core.Pick(r, []string{"direct", "http", "https", "https", "https", "socks5"})
	hc := &histCase{Kind: "hist", Env: histEnv(r, up, r.Chance(20), r.Intn(len(histDomainLists)))}
	var valid, decoysAll, bad []string
	for _, o := range histOriginSpecs {
		switch {
		case o.ok():
			valid = append(valid, o.Host)
		case o.Expired || o.Untrusted || o.CertFor == "other.test":
			bad = append(bad, o.Host)
		default:
			decoysAll = append(decoysAll, o.Host)
		}
	}
	seen := map[string]bool{}
	if h := upstreamHost(up); h != "" {
		seen[h] = true
	}
	for n := r.Range(3, 8); n > 0; n-- {
		var ev histEvent
		switch x := r.Intn(100); {
		case x < 28:
			ev = histEvent{Op: "tunnel", Host: core.Pick(r, histTunnelHosts)}
		default:
			ev.Op = "mitm"
			if x >= 80 {
				ev.Op = "abs"
			}
			switch y := r.Intn(100); {
			case y < 35:
				ev.Host = core.Pick(r, valid)
			case y < 75:
				var now []string
				for _, o := range histOriginSpecs {
					if !o.ok() && seen[o.CertFor] {
						now = append(now, o.Host)
					}
				}
				if len(now) == 0 || r.Chance(20) {
					now = decoysAll
				}
				ev.Host = core.Pick(r, now)
			default:
				ev.Host = core.Pick(r, bad)
			}
		}
		ev.Port = histPort(r)
		seen[ev.Host] = true
		hc.Events = append(hc.Events, ev)
	}
	return hc
}

// sweepHist: for every kind of upstream proxy (insecure mode off; https also with insecure mode on),
// (1) a tunnelled CONNECT first, then every origin in an intercepted session and as GET https://;
// (2) every origin, a tunnelled CONNECT, every origin again in another order.
func sweepHist(r *core.Rand) []*histCase {
	var out []*histCase
	all := func(op string, rev bool) []histEvent {
		var evs []histEvent
		for _, o := range histOriginSpecs {
			evs = append(evs, histEvent{Op: op, Host: o.Host, Port: histPort(r)})
		}
		if rev {
			for i, j := 0, len(evs)-1; i < j; i, j = i+1, j-1 {
				evs[i], evs[j] = evs[j], evs[i]
			}
		}
		return evs
	}
	for i, up := range histUpstreams {
		h1 := &histCase{Kind: "hist", Env: histEnv(r, up, false, i%len(histDomainLists))}
		h1.Events = append(h1.Events, histEvent{Op: "tunnel", Host: histTunnelHosts[0], Port: "443"})
		h1.Events = append(h1.Events, all("mitm", false)...)
		h1.Events = append(h1.Events, all("abs", true)...)
		h2 := &histCase{Kind: "hist", Env: histEnv(r, up, false, (i+1)%len(histDomainLists))}
		h2.Events = append(h2.Events, all("mitm", true)...)
		h2.Events = append(h2.Events, histEvent{Op: "tunnel", Host: histTunnelHosts[1], Port: histPort(r)})
		h2.Events = append(h2.Events, all("mitm", false)...)
		out = append(out, h1, h2)
	}
	h3 := &histCase{Kind: "hist", Env: histEnv(r, "https", true, 0)}
	h3.Events = append(h3.Events, histEvent{Op: "tunnel", Host: histTunnelHosts[0], Port: histPort(r)})
	h3.Events = append(h3.Events, all("mitm", false)...)
	out = append(out, h3)
	return out
}
