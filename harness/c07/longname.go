package c07

import (
	"fmt"
	"strings"

	"github.com/saucelabs/forwarder/verifharness/core"
)

// The length dimension of the requested name. A DNS name has at most 253 characters in labels of at
// most 63; cert() uses the name as cache key, subject common name and SAN alike, whatever its length
// (neither crypto/x509 nor the code enforces RFC 5280's ub-common-name of 64). The generators below
// build names of an exact total length in several label shapes; the clauses that judge them are the
// ones of every other handshake (checkCert, batchRelations).

// nameLimits: total lengths around every limit a name could plausibly meet on its way into a
// certificate (label 63, common name 64, 127/128, 200, name 253/255 less the root label).
var nameLimits = []int{62, 63, 64, 65, 66, 100, 127, 128, 129, 180, 200, 252, 253}

var labelShapes = []string{"long", "short", "l62", "one", "mixed"}

const (
	alnum   = "abcdefghijklmnopqrstuvwxyz0123456789"
	letters = "abcdefghijklmnopqrstuvwxyz"
)

// labelLens cuts total characters into label lengths (dots included in total): every label 1..63.
func labelLens(r *core.Rand, total int, shape string) []int {
	var out []int
	rem := total
	for rem > 0 {
		var l int
		switch shape {
		case "long":
			l = 63
		case "l62":
			l = 62
		case "short":
			l = r.Range(1, 3)
		case "one":
			l = 1
		default:
			l = core.Pick(r, []int{1, 2, 5, 20, 62, 63, r.Range(1, 63)})
		}
		if l > rem {
			l = rem
		}
		if rem-l == 1 { // would leave a dot without a label
			if l > 1 {
				l--
			} else {
				l = 2
			}
		}
		out = append(out, l)
		rem -= l
		if rem > 0 {
			rem-- // the dot
		}
	}
	return out
}

// buildName: a host name of exactly total characters (total >= 1); the last label is alphabetic, so the
// name is never an IP literal look-alike; hyphens only inside labels. style: "lower" | "upper" | "mixed".
func buildName(r *core.Rand, total int, shape, style string) string {
	lens := labelLens(r, total, shape)
	ls := make([]string, len(lens))
	for i, n := range lens {
		b := make([]byte, n)
		for j := range b {
			switch {
			case i == len(lens)-1:
				b[j] = letters[r.Intn(len(letters))]
			case j > 0 && j < n-1 && r.Chance(8):
				b[j] = '-'
			default:
				b[j] = alnum[r.Intn(len(alnum))]
			}
		}
		ls[i] = string(b)
	}
	s := strings.Join(ls, ".")
	switch style {
	case "upper":
		s = strings.ToUpper(s)
	case "mixed":
		s = randCase(r, s)
	}
	return s
}

// genLongDNS: a name whose total length is at or around a limit, or anywhere in 40..253.
func genLongDNS(r *core.Rand) string {
	total := core.Pick(r, nameLimits)
	if r.Chance(35) {
		total = r.Range(40, 253)
	}
	return buildName(r, total, core.Pick(r, labelShapes), core.Pick(r, []string{"lower", "lower", "upper", "mixed"}))
}

// otherLetter changes the letter at index i (a letter by construction of the caller) into another one
// of the same case.
func otherLetter(s string, i int) string {
	b := []byte(s)
	c := b[i]
	switch {
	case c >= 'a' && c <= 'z':
		b[i] = 'a' + (c-'a'+1+byte(i%24))%26
	case c >= 'A' && c <= 'Z':
		b[i] = 'A' + (c-'A'+1+byte(i%24))%26
	case c >= '0' && c <= '9':
		b[i] = '0' + (c-'0'+1+byte(i%8))%10
	}
	return string(b)
}

func isAlnumByte(c byte) bool {
	return c >= 'a' && c <= 'z' || c >= 'A' && c <= 'Z' || c >= '0' && c <= '9'
}

// sibling: a name of the same length that agrees with s in its first keep characters and differs in
// one later character (the first possible one when early, the last one otherwise).
func sibling(s string, keep int, early bool) string {
	if early {
		for i := keep; i < len(s); i++ {
			if isAlnumByte(s[i]) && i != len(s)-1 {
				if t := otherLetter(s, i); t != s {
					return t
				}
			}
		}
	}
	return otherLetter(s, len(s)-1)
}

func lenClass(n int) string {
	switch {
	case n <= 62:
		return "<=62"
	case n <= 64:
		return fmt.Sprint(n)
	case n <= 127:
		return "65-127"
	case n <= 200:
		return "128-200"
	case n <= 253:
		return "201-253"
	}
	return ">253"
}

func longEnv(size uint32) EnvCfg {
	return EnvCfg{CacheSize: size, CacheTTLms: hour, ValidityMs: hour}
}

// sweepLong: every run, for every total length of sweepLens, names in the label shapes "few long labels",
// "many short labels", "labels of 62" asked for as SNI and as CONNECT host (same, absent, other case,
// SNI long under a short host or an IP literal, another long name as SNI, trailing dot on the CONNECT
// host), twice each on one proxy (the second time from the cache when it holds them all); and pairs
// of names that agree in their first 64 (63, 127) characters, alternately on a cache of one entry
// and together with their common prefix as a name of its own on a cache that holds all of them.
func sweepLong(r *core.Rand) []*hsBatch {
	var out []*hsBatch
	sweepLens := []int{63, 64, 65, 127, 128, 200, 253}
	for i, L := range sweepLens {
		style := []string{"lower", "upper", "mixed"}[i%3]
		n1 := buildName(r, L, "long", "lower")
		n2 := buildName(r, L, "short", style)
		// the cache holds every name asked for: the second phase is served from it
		a := &hsBatch{Kind: "hs", Env: longEnv(4), Phases: 2, Concurrency: 8}
		a.Conns = []Target{
			{Host: n1, Kind: "dns", Port: "443", SNI: n1},
			{Host: n1, Kind: "dns", Port: "8443", SNI: ""},
			{Host: "a.test", Kind: "dns", Port: "443", SNI: n1},
			{Host: genIP4(r), Kind: "ip4", Port: "443", SNI: n1},
			{Host: n2, Kind: "dns", Port: "443", SNI: n2},
			{Host: n2, Kind: "dns", Port: genPort(r), SNI: ""},
			{Host: n2, Kind: "dns", Port: "443", SNI: n1},
			{Host: n1, Kind: "dns", Port: "443", SNI: n2},
		}
		out = append(out, a)
		// more names than entries: other case, another long name, trailing dot, labels of 62
		n3 := buildName(r, L, "l62", core.Pick(r, []string{"lower", "mixed"}))
		n4 := buildName(r, L, core.Pick(r, labelShapes), "lower")
		b := &hsBatch{Kind: "hs", Env: longEnv(uint32(1 + i%2)), Phases: 2, Concurrency: core.Pick(r, []int{1, 4})}
		b.Conns = []Target{
			{Host: n3, Kind: "dns", Port: "443", SNI: n3},
			{Host: n3, Kind: "dns", Port: "443", SNI: randCase(r, n3)},
			{Host: strings.ToUpper(n3), Kind: "dns", Port: "443", SNI: ""},
			{Host: n3, Kind: "dns", Port: "443", SNI: n4},
			{Host: n4, Kind: "dns", Port: "443", SNI: ""},
			{Host: genIP6(r), Kind: "ip6", Port: "443", SNI: n4},
		}
		if L < 253 { // with its trailing dot the name still fits
			b.Conns = append(b.Conns, Target{Host: buildName(r, L-1, "long", "lower") + ".", Kind: "dns", Port: "443", SNI: ""})
		}
		out = append(out, b)
	}
	// names that differ only beyond a prefix
	type pp struct{ total, keep int }
	for i, p := range []pp{{65, 64}, {66, 64}, {90, 64}, {128, 64}, {253, 64}, {253, 252}, {64, 63}, {200, 127}, {130, 128}} {
		// the prefix is a name of its own: a label ends at keep
		prefix := buildName(r, p.keep, core.Pick(r, []string{"long", "short", "mixed"}), "lower")
		var x, y string
		if p.total-p.keep >= 2 {
			x = prefix + "." + buildName(r, p.total-p.keep-1, "short", "lower")
			y = sibling(x, p.keep+1, i%2 == 0)
		} else {
			x = buildName(r, p.total, "long", "lower")
			y = sibling(x, p.keep, true)
		}
		if x == y || len(x) != p.total || len(y) != p.total || x[:p.keep] != y[:p.keep] {
			core.Fatalf("C07: sibling names %q %q (total %d, common %d)", x, y, p.total, p.keep)
		}
		// one entry, strictly alternating: each handshake evicts the other name
		one := &hsBatch{Kind: "hs", Env: longEnv(1), Phases: 2, Concurrency: 1}
		for k := 0; k < 3; k++ {
			one.Conns = append(one.Conns,
				Target{Host: x, Kind: "dns", Port: "443", SNI: x}, Target{Host: y, Kind: "dns", Port: "443", SNI: ""},
				Target{Host: "b.test", Kind: "dns", Port: "443", SNI: x}, Target{Host: y, Kind: "dns", Port: "443", SNI: y})
		}
		out = append(out, one)
		// room for all: both names and (when it is one) their common prefix, served from the cache afterwards
		all := &hsBatch{Kind: "hs", Env: longEnv(4), Phases: 2, Concurrency: core.Pick(r, []int{1, 8})}
		all.Conns = []Target{
			{Host: x, Kind: "dns", Port: "443", SNI: x}, {Host: y, Kind: "dns", Port: "443", SNI: y},
			{Host: x, Kind: "dns", Port: "443", SNI: ""}, {Host: y, Kind: "dns", Port: "443", SNI: ""},
			{Host: x, Kind: "dns", Port: "443", SNI: y}, {Host: y, Kind: "dns", Port: "443", SNI: x},
		}
		if p.total-p.keep >= 2 {
			all.Conns = append(all.Conns, Target{Host: prefix, Kind: "dns", Port: "443", SNI: prefix}, Target{Host: prefix, Kind: "dns", Port: "443", SNI: ""})
		}
		out = append(out, all)
	}
	return out
}
