// Package c09 — "HTTP/2 relay respects peer windows and frame-size limits and returns all credit".
// Rig, generator, trace encoding and evaluation are shared with C10 (package h2rig); the Lean side
// is Model/H2Relay.lean (+ H2Check.lean), Theorems/C09.lean.
package c09

import (
	"encoding/json"

	"github.com/saucelabs/forwarder/verifharness/core"
	"github.com/saucelabs/forwarder/verifharness/srcgen"
	"github.com/saucelabs/forwarder/verifharness/h2rig"
)

func init() { core.Register("C09", core.Scenario{Run: Run, Replay: Replay, Prepare: srcgen.PrepareC09}) }

const rule = "schedules of raw HTTP/2 frames (20-400 ops, 1-6 concurrent streams, both directions) written by two raw-frame endpoints through " +
	"h2.Config.Proxy, one frame at a time with a barrier pair after each; generated adaptively from each endpoint's own ledger (windows 0-65536, " +
	"grants aimed at exact fit / one short / small steps, INITIAL_WINDOW_SIZE up and down while data is queued, MAX_FRAME_SIZE 16384-65536, padding, " +
	"SETTINGS frames that name INITIAL_WINDOW_SIZE / MAX_FRAME_SIZE / HEADER_TABLE_SIZE two or three times between other and unknown identifiers (the last value is in force; INITIAL_WINDOW_SIZE chains with a larger non-final value also while DATA is queued - the shape of F51, repaired: whatever such a chain releases beyond the value in force is a violation), " +
	"empty END_STREAM DATA). A case is non-trivial when at least one frame was held by the relay and released later by a WINDOW_UPDATE or SETTINGS; " +
	"distinct = distinct observed traces"

func Run(ctx *core.Ctx) {
	ctx.SetRule(rule)
	ctx.Assume("golang.org/x/net/http2 Framer and hpack (used by the relay and by the raw endpoints) are trusted; the barrier argument: a PRIORITY frame travels through the relay's per-direction output channel and single writer, so its arrival proves earlier releases arrived")
	h2rig.Run(ctx, "C09", 500, 12000, true)
}

func Replay(ctx *core.Ctx, c json.RawMessage) { h2rig.ReplayOne(ctx, "C09", c) }
