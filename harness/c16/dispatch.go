package c16

import (
	"fmt"
	"strings"
	"time"

	"github.com/saucelabs/forwarder/verifharness/core"
	"github.com/saucelabs/forwarder/verifharness/rig"
)

// dispatchCase exercises the wiring of the three rule lists (command/run configureHeadersModifiers)
// through the REAL binary: which list touches which message kind.
type dispatchCase struct {
	Kind    string `json:"kind"` // "dispatch"
	HasReq  bool   `json:"header"`
	HasConn bool   `json:"connect_header"`
	HasResp bool   `json:"response_header"`
}

func runDispatch(ctx *core.Ctx, dc dispatchCase) {
	key := fmt.Sprintf("dispatch:%v/%v/%v", dc.HasReq, dc.HasConn, dc.HasResp)
	ctx.Case(key, dc.HasReq || dc.HasConn || dc.HasResp)
	ctx.Count("dispatch/combination")
	// upstream proxy: records what it gets; rejects CONNECT to reject.test with 403
	up, err := rig.NewPeer("upstream", func(w *rig.PeerConn, ex *rig.Exchange) bool {
		if ex.Req.Method == "CONNECT" {
			if strings.HasPrefix(ex.Req.Target, "reject.test") {
				w.Write([]byte("HTTP/1.1 403 Forbidden\r\nContent-Length: 0\r\nX-Drop-Resp: from-upstream\r\nX-Up: 1\r\n\r\n"))
				return true
			}
			w.Write([]byte("HTTP/1.1 200 OK\r\n\r\n"))
			return true
		}
		w.Write([]byte("HTTP/1.1 200 OK\r\nContent-Length: 2\r\nX-Drop-Resp: from-upstream\r\nX-Up: 1\r\n\r\nok"))
		return true
	})
	if err != nil {
		core.Fatalf("upstream peer: %v", err)
	}
	defer up.Close()
	args := []string{"--proxy", "http://" + up.Addr, "--log-level", "error", "--api-address", ""} // (no API listener: its fixed default port may be taken)
	if dc.HasReq {
		args = append(args, "--header", "X-Req-Mark: 1", "--header", "-X-Drop-Req")
	}
	if dc.HasConn {
		args = append(args, "--connect-header", "X-Conn-Mark: 1", "--connect-header", "-X-Drop-Conn")
	}
	if dc.HasResp {
		args = append(args, "--response-header", "X-Resp-Mark: 1", "--response-header", "-X-Drop-Resp")
	}
	p, err := rig.StartBinary(ctx.Root, args, nil)
	if err != nil {
		ctx.Crash("the forwarder binary starts with header-rule flags", "", dc, err.Error())
		return
	}
	defer p.Stop()

	hdrs := "X-Drop-Req: a\r\nX-Drop-Conn: b\r\n"
	type obs struct {
		name string
		msg  *rig.Msg
	}
	var seen []obs
	// 1. plain request
	c, err := rig.Dial(p.Addr)
	if err != nil {
		ctx.Crash("the forwarder binary accepts connections", "", dc, err.Error())
		return
	}
	c.Send([]byte("GET http://origin.test/x HTTP/1.1\r\nHost: origin.test\r\nCase-Id: get\r\n"+hdrs+"\r\n"), nil)
	getRes, gerr := c.ReadResponse("GET", 5*time.Second)
	c.Close()
	// 2. CONNECT that is accepted, then a request inside the tunnel
	c2, _ := rig.Dial(p.Addr)
	c2.Send([]byte("CONNECT origin.test:443 HTTP/1.1\r\nHost: origin.test:443\r\nCase-Id: connect\r\n"+hdrs+"\r\n"), nil)
	conRes, cerr := c2.ReadResponse("CONNECT", 5*time.Second)
	var innerRes *rig.Msg
	if cerr == nil && conRes.Status == 200 {
		c2.Send([]byte("GET /inner HTTP/1.1\r\nHost: origin.test\r\nCase-Id: inner\r\n"+hdrs+"\r\n"), nil)
		innerRes, _ = c2.ReadResponse("GET", 5*time.Second)
	}
	c2.Close()
	// 3. CONNECT that the upstream rejects
	c3, _ := rig.Dial(p.Addr)
	c3.Send([]byte("CONNECT reject.test:443 HTTP/1.1\r\nHost: reject.test:443\r\nCase-Id: reject\r\n"+hdrs+"\r\n"), nil)
	rejRes, rerr := c3.ReadResponse("CONNECT", 5*time.Second)
	c3.Close()
	for _, ex := range up.Log() {
		seen = append(seen, obs{ex.Req.Get("Case-Id"), ex.Req})
	}
	find := func(id string) *rig.Msg {
		for _, o := range seen {
			if o.name == id {
				return o.msg
			}
		}
		return nil
	}
	applies := func(list, msg string) bool {
		return ctx.Model.MustAsk("C16", "applies", list, msg) == "1"
	}
	var problems []string
	// expectations for a message that went through a given list
	checkMsg := func(what string, m *rig.Msg, kind string) {
		if m == nil {
			problems = append(problems, what+": not observed")
			return
		}
		want := func(list string, has bool) bool { return has && applies(list, kind) }
		expect := map[string]bool{ // field name -> should be present
			"X-Req-Mark":  want("header", dc.HasReq),
			"X-Conn-Mark": want("connect-header", dc.HasConn),
			"X-Drop-Req":  !want("header", dc.HasReq),
			"X-Drop-Conn": !want("connect-header", dc.HasConn),
		}
		for name, present := range expect {
			if m.Has(name) != present {
				problems = append(problems, fmt.Sprintf("%s: %s present=%v want %v", what, name, m.Has(name), present))
			}
		}
	}
	checkResp := func(what string, m *rig.Msg, err error, kind string) {
		if m == nil || err != nil {
			problems = append(problems, fmt.Sprintf("%s: no response (%v)", what, err))
			return
		}
		on := dc.HasResp && applies("response-header", kind)
		if m.Has("X-Resp-Mark") != on {
			problems = append(problems, fmt.Sprintf("%s: X-Resp-Mark present=%v want %v", what, m.Has("X-Resp-Mark"), on))
		}
		if m.Has("X-Up") && m.Has("X-Drop-Resp") == on {
			problems = append(problems, fmt.Sprintf("%s: X-Drop-Resp present=%v want %v", what, m.Has("X-Drop-Resp"), !on))
		}
	}
	checkMsg("GET at upstream", find("get"), "request")
	checkMsg("CONNECT at upstream", find("connect"), "connect-request")
	checkMsg("rejected CONNECT at upstream", find("reject"), "connect-request")
	if m := find("inner"); m != nil { // bytes inside the tunnel are never touched
		for _, n := range []string{"X-Req-Mark", "X-Conn-Mark"} {
			if m.Has(n) {
				problems = append(problems, "request inside the tunnel carries "+n)
			}
		}
		if !m.Has("X-Drop-Req") || !m.Has("X-Drop-Conn") {
			problems = append(problems, "request inside the tunnel lost a field")
		}
	} else {
		problems = append(problems, "request inside the tunnel: not observed")
	}
	checkResp("response to GET", getRes, gerr, "response")
	checkResp("response to rejected CONNECT", rejRes, rerr, "connect-response")
	if innerRes != nil && (innerRes.Has("X-Resp-Mark") || !innerRes.Has("X-Drop-Resp")) {
		problems = append(problems, "response inside the tunnel was rewritten")
	}
	if len(problems) > 0 {
		impl := strings.Join(problems, "; ")
		ctx.Disagree("rule lists touch the message kinds Model.C16.appliesTo says", dc, impl, "appliesTo")
		ctx.SpecFail("request rules apply to non-CONNECT requests, connect rules to CONNECT requests, response rules to non-CONNECT responses", "", dc, impl, "observed through the real binary with a scripted upstream proxy")
	} else {
		ctx.TraceValidated()
	}
}

func runAllDispatch(ctx *core.Ctx) {
	for i := 0; i < 8; i++ {
		dc := dispatchCase{Kind: "dispatch", HasReq: i&1 != 0, HasConn: i&2 != 0, HasResp: i&4 != 0}
		runDispatch(ctx, dc)
	}
	rig.RemoveBinary()
}
