package c16

import (
	"bytes"
	"encoding/csv"
	"encoding/json"
	"errors"
	"fmt"
	"io"
	"os"
	"path/filepath"
	"strconv"
	"strings"
	"sync"

	"github.com/mmatczuk/anyflag"
	fwdcmd "github.com/saucelabs/forwarder/command/forwarder"
	"github.com/saucelabs/forwarder/header"
	"github.com/saucelabs/forwarder/verifharness/core"
	"github.com/saucelabs/forwarder/verifharness/rig"
	"github.com/spf13/cobra"
	"github.com/spf13/pflag"
)

// The HOW-RULES-ARRIVE dimension. A rule list reaches header.ParseHeader
//
//   - from the command line: every occurrence of --header / --connect-header / --response-header is one CSV
//     record (anyflag.SliceValue.Set), the occurrences are concatenated;
//   - from the environment: FORWARDER_HEADER / _CONNECT_HEADER / _RESPONSE_HEADER, one CSV record;
//   - from the --config-file (YAML / JSON / TOML): a LIST of strings, one rule per element and NO splitting
//     (utils/cobrautil setFlagFromViper -> SliceValue.Replace), or a single string (one CSV record);
//
// command line before environment before config file. Model.C16Src.rulesOfSource is the model of that; the
// cases here drive (a) the flag type's own CSV reading, (b) the real command tree in-process (`forwarder run`
// with RunE replaced by a recorder: root PersistentPreRunE -> cobrautil.BindAll -> the three flags) and (c) the
// real binary, which must start exactly when the model says every rule text of every list is a rule, and
// whose next hop must receive what the model's rule lists produce (the hop oracle of hop.go).

// ---- (a) CSV reading of the flag type ----

type csvCase struct {
	Kind string `json:"kind"` // "csv"
	Raw  string `json:"raw"`  // argument of SliceValue.Set, hex
}

func csvErrKind(err error) string {
	switch {
	case errors.Is(err, io.EOF):
		return "err eof"
	case errors.Is(err, csv.ErrBareQuote):
		return "err bare-quote"
	case errors.Is(err, csv.ErrQuote):
		return "err quote"
	}
	return "err other: " + err.Error()
}

func checkCSV(ctx *core.Ctx, cc csvCase) {
	raw := string(core.MustUnHex(cc.Raw))
	var got []string
	sv := anyflag.NewSliceValue[string](nil, &got, func(s string) (string, error) { return s, nil })
	var impl string
	func() {
		defer func() {
			if p := recover(); p != nil {
				impl = fmt.Sprintf("panic %v", p)
			}
		}()
		if err := sv.Set(raw); err != nil {
			impl = csvErrKind(err)
		} else {
			impl = "ok " + core.HexList(got)
		}
	}()
	ctx.Case("csv:"+cc.Raw, strings.HasPrefix(impl, "ok") && len(got) > 1 || strings.Contains(raw, `"`))
	if strings.HasPrefix(impl, "ok") {
		ctx.Count(fmt.Sprintf("csv/fields=%d", min(len(got), 4)))
	} else {
		ctx.Count("csv/" + strings.Join(strings.Fields(impl)[:2], "-"))
	}
	if strings.HasPrefix(impl, "panic") {
		ctx.Crash("SliceValue.Set never panics", "", cc, impl)
		return
	}
	model := ctx.Model.MustAsk("C16", "csv", cc.Raw)
	if impl != model {
		ctx.Disagree("anyflag.SliceValue.Set splits its argument as Model.C16Src.csvRecord", cc, impl, model)
	}
}

func genCSVRaw(r *core.Rand) string {
	if r.Chance(40) {
		// a faithful encoding of a text list, or the texts joined without any quoting
		ts := genSrcTexts(r, false)
		if r.Chance(70) {
			return csvEncode(ts, r.Chance(30))
		}
		return strings.Join(ts, ",")
	}
	const al = "ab,,\"\" -;:\r\n\tX%*"
	n := r.Range(0, 12)
	var b strings.Builder
	for i := 0; i < n; i++ {
		b.WriteByte(al[r.Intn(len(al))])
	}
	return b.String()
}

// ---- sources ----

// srcList is where ONE of the three lists comes from.
type srcList struct {
	Flags      []string  `json:"flags,omitempty"`       // values of the occurrences of the flag, in order
	Env        *string   `json:"env,omitempty"`         // the FORWARDER_* variable
	ConfigList *[]string `json:"config_list,omitempty"` // the key in the config file holds this list of strings …
	ConfigText *string   `json:"config_text,omitempty"` // … or this single string
	// Intent: the rule texts the source was WRITTEN to carry (a config-file list as it stands, or a CSV record
	// with proper quoting); nil when the source is not a faithful encoding of a list (the model alone says
	// what arrives)
	Intent *[]string `json:"intent,omitempty"`
	How    string    `json:"how"`
}

type sourceCase struct {
	Kind   string `json:"kind"`   // "source"
	Via    string `json:"via"`    // "command" (command tree in-process) | "binary"
	Format string `json:"format"` // config file: yaml | yaml-flow | yaml-single | json | toml | toml-literal
	// binary: the process runs with --proxy (requests and CONNECTs are judged at the upstream proxy) or without
	// (requests judged at the origin, responses at the client)
	Upstream bool    `json:"upstream,omitempty"`
	Header   srcList `json:"header"`
	Connect  srcList `json:"connect_header"`
	Response srcList `json:"response_header"`
}

var srcFlagNames = [3]string{"header", "connect-header", "response-header"}
var srcEnvNames = [3]string{"FORWARDER_HEADER", "FORWARDER_CONNECT_HEADER", "FORWARDER_RESPONSE_HEADER"}

func (sc *sourceCase) lists() [3]*srcList { return [3]*srcList{&sc.Header, &sc.Connect, &sc.Response} }

func (l *srcList) usesConfig() bool { return l.ConfigList != nil || l.ConfigText != nil }

// rule texts whose VALUE holds a comma, a double quote, a semicolon or blanks; after the comma comes, in
// several of them, something that is a rule of its own, so that a wrong split yields a different valid list
var srcPool = []string{
	"Accept: text/html,application/json",
	"X-Features: alpha,-Cookie",
	"Accept-Language: de,en;",
	"X-List: a,%x-plain",
	"X-Both: a,-x-p*",
	"X-C: a,X-D: b",
	"X-C2: a, X-D: b",
	`X-Quoted: say "hi"`,
	`X-Q2: "quoted"`,
	`X-Q3: "a,b",c`,
	`X-Q4: a",-Cookie,"`,
	"X-Semi: a;b; c",
	"X-Semi2: v;",
	"X-Blank:    padded  ",
	"X-Trail: v ",
	"X-Tab:\tv",
	"X-Empty:",
	"X-Commas: ,,",
	"X-Last: a,",
	"Cookie: r=1, s=2",
	"-Cookie",
	"-x-p*",
	"Cookie;",
	"%x-plain",
	"X-Plain: second",
	"En: by-rule",
	" X-Lead: 1",
	"not a rule",
	"",
}

var srcRuleNames = []string{"X-Features", "Accept", "X-List", "Cookie", "X-Plain", "En", "X-D", "X-P2", "X-New"}

func genSrcRule(r *core.Rand) string {
	if r.Chance(65) {
		return core.Pick(r, srcPool)
	}
	n := core.Pick(r, srcRuleNames)
	switch r.Intn(8) {
	case 0:
		return "-" + n
	case 1:
		return n + ";"
	case 2:
		return "-" + strings.ToLower(n[:r.Range(1, len(n))]) + "*"
	}
	const al = "ab,,\"; -%*:XD=/"
	k := r.Range(0, 9)
	var b strings.Builder
	for i := 0; i < k; i++ {
		b.WriteByte(al[r.Intn(len(al))])
	}
	v := b.String()
	if r.Chance(30) {
		// after a comma: something that is a rule of its own
		v += "," + core.Pick(r, []string{"-Cookie", "En;", "%x-plain", "-x-p*", "X-D: b", "-" + n, n + ";"})
	}
	s := n + core.Pick(r, []string{":", ": ", ":  "}) + v
	if r.Chance(4) {
		s += core.Pick(r, []string{"\n", "\r\n", "\r"})
	}
	return s
}

// genSrcTexts draws a list of rule texts. wire: the list is judged on a message that went over the wire,
// where a field value has no blanks at its end (net/http trims them when it writes the line): no text ends in
// blanks or a line break then (the command-tree cases keep them).
func genSrcTexts(r *core.Rand, wire bool) []string {
	n := 0
	if !r.Chance(8) {
		n = r.Range(1, 4)
	}
	ts := []string{}
	for i := 0; i < n; i++ {
		t := genSrcRule(r)
		if wire {
			t = strings.TrimRight(t, " \t\r\n")
			// a process that refuses its configuration shows nothing else: texts that are no rules are rarer here
			for k := 0; k < 3 && r.Chance(70); k++ {
				if _, err := header.ParseHeader(t); err == nil {
					break
				}
				t = strings.TrimRight(genSrcRule(r), " \t\r\n")
			}
		}
		ts = append(ts, t)
	}
	return ts
}

// csvField / csvEncode mirror Model.C16Src.csvField / csvEncode (force: quote fields that need no quotes too).
func csvFieldOf(f string, force bool) string {
	if force || f == "" || strings.ContainsAny(f, ",\"") {
		return `"` + strings.ReplaceAll(f, `"`, `""`) + `"`
	}
	return f
}

func csvEncode(ts []string, force bool) string {
	out := make([]string, len(ts))
	for i, t := range ts {
		out[i] = csvFieldOf(t, force)
	}
	return strings.Join(out, ",")
}

func hasLineBreak(ts []string) bool {
	for _, t := range ts {
		if strings.ContainsAny(t, "\r\n") {
			return true
		}
	}
	return false
}

// genSrcList writes a text list down in one of the ways a user can.
func genSrcList(r *core.Rand, how int, wire bool) srcList {
	ts := genSrcTexts(r, wire)
	intent := func() *[]string {
		if hasLineBreak(ts) {
			return nil // CR LF inside a CSV record is rewritten by the reader: the model alone says what arrives
		}
		c := append([]string{}, ts...)
		return &c
	}
	force := r.Chance(25)
	p := func(s string) *string { return &s }
	switch how {
	case 0: // one occurrence per rule, each a CSV record of one field
		if len(ts) == 0 {
			return srcList{How: "default"}
		}
		l := srcList{How: "flag-per-rule", Intent: intent()}
		for _, t := range ts {
			l.Flags = append(l.Flags, csvEncode([]string{t}, force))
		}
		return l
	case 1: // one occurrence holding the list as a CSV record
		if len(ts) == 0 {
			return srcList{How: "default"}
		}
		return srcList{How: "flag-csv-record", Flags: []string{csvEncode(ts, force)}, Intent: intent()}
	case 2: // several occurrences, several fields each
		if len(ts) == 0 {
			return srcList{How: "default"}
		}
		l := srcList{How: "flags-csv-records", Intent: intent()}
		for i := 0; i < len(ts); {
			j := min(len(ts), i+r.Range(1, 2))
			l.Flags = append(l.Flags, csvEncode(ts[i:j], force))
			i = j
		}
		return l
	case 3:
		if len(ts) == 0 {
			return srcList{How: "default"}
		}
		return srcList{How: "env-csv-record", Env: p(csvEncode(ts, force)), Intent: intent()}
	case 4:
		c := append([]string{}, ts...)
		return srcList{How: "config-list", ConfigList: &c, Intent: &c}
	case 5:
		if len(ts) == 0 {
			return srcList{How: "config-empty-string", ConfigText: p("")}
		}
		return srcList{How: "config-string-csv-record", ConfigText: p(csvEncode(ts, force)), Intent: intent()}
	case 6: // the texts as they are, no CSV quoting: the reader splits at every comma
		l := srcList{How: "flag-per-rule-unquoted"}
		for _, t := range ts {
			l.Flags = append(l.Flags, t)
		}
		if len(ts) == 0 {
			l.How = "default"
		}
		return l
	case 7:
		return srcList{How: "env-joined-unquoted", Env: p(strings.Join(ts, ","))}
	case 8:
		return srcList{How: "config-string-joined-unquoted", ConfigText: p(strings.Join(ts, ","))}
	default: // several sources at once: command line before environment before config file
		l := srcList{How: "precedence"}
		var winner *[]string
		if r.Chance(50) {
			a := genSrcTexts(r, wire)
			if len(a) > 0 && !hasLineBreak(a) {
				l.Flags = []string{csvEncode(a, false)}
				winner = &a
			}
		}
		if r.Chance(70) {
			a := genSrcTexts(r, wire)
			if len(a) > 0 && !hasLineBreak(a) {
				l.Env = p(csvEncode(a, false))
				if winner == nil {
					winner = &a
				}
			} else {
				l.Env = p("") // an empty variable counts as unset
			}
		}
		c := append([]string{}, ts...)
		l.ConfigList = &c
		if winner == nil {
			winner = &c
		}
		l.Intent = winner
		return l
	}
}

var srcFormats = []string{"yaml", "yaml-flow", "yaml-single", "json", "toml", "toml-literal"}

func genSourceCase(r *core.Rand, via string) sourceCase {
	sc := sourceCase{Kind: "source", Via: via, Format: core.Pick(r, srcFormats)}
	for _, l := range sc.lists() {
		if r.Chance(20) {
			*l = srcList{How: "default"}
			continue
		}
		*l = genSrcList(r, r.Intn(10), false)
	}
	return sc
}

// ---- config file ----

func jsonString(s string) string {
	var b bytes.Buffer
	enc := json.NewEncoder(&b)
	enc.SetEscapeHTML(false)
	enc.Encode(s)
	return strings.TrimSuffix(b.String(), "\n")
}

func plainForSingleQuotes(s string) bool {
	for i := 0; i < len(s); i++ {
		if s[i] < 0x20 || s[i] > 0x7e {
			return false
		}
	}
	return true
}

// renderConfig writes the config-file keys of the case in its format (extension decides the parser).
func renderConfig(sc *sourceCase) (content, ext string, used bool) {
	type ent struct {
		key  string
		list *[]string
		text *string
	}
	var ents []ent
	for i, l := range sc.lists() {
		if l.usesConfig() {
			ents = append(ents, ent{srcFlagNames[i], l.ConfigList, l.ConfigText})
		}
	}
	if len(ents) == 0 {
		return "", "", false
	}
	format := sc.Format
	// single-quoted YAML scalars and TOML literal strings have no escapes
	for _, e := range ents {
		var all []string
		if e.list != nil {
			all = *e.list
		} else {
			all = []string{*e.text}
		}
		for _, s := range all {
			if !plainForSingleQuotes(s) || format == "toml-literal" && strings.Contains(s, "'") {
				format = strings.SplitN(format, "-", 2)[0]
			}
		}
	}
	var b strings.Builder
	q := jsonString
	switch format {
	case "yaml-single":
		q = func(s string) string { return "'" + strings.ReplaceAll(s, "'", "''") + "'" }
	case "toml-literal":
		q = func(s string) string { return "'" + s + "'" }
	}
	qs := func(ss []string) []string {
		out := make([]string, len(ss))
		for i, s := range ss {
			out[i] = q(s)
		}
		return out
	}
	switch format {
	case "json":
		m := map[string]any{}
		for _, e := range ents {
			if e.list != nil {
				m[e.key] = *e.list
			} else {
				m[e.key] = *e.text
			}
		}
		var jb bytes.Buffer
		enc := json.NewEncoder(&jb)
		enc.SetEscapeHTML(false)
		enc.SetIndent("", " ")
		enc.Encode(m)
		return jb.String(), "json", true
	case "toml", "toml-literal":
		for _, e := range ents {
			if e.list != nil {
				fmt.Fprintf(&b, "%s = [%s]\n", e.key, strings.Join(qs(*e.list), ", "))
			} else {
				fmt.Fprintf(&b, "%s = %s\n", e.key, q(*e.text))
			}
		}
		return b.String(), "toml", true
	default: // yaml, yaml-flow, yaml-single
		for _, e := range ents {
			switch {
			case e.list == nil:
				fmt.Fprintf(&b, "%s: %s\n", e.key, q(*e.text))
			case format == "yaml-flow" || len(*e.list) == 0:
				fmt.Fprintf(&b, "%s: [%s]\n", e.key, strings.Join(qs(*e.list), ", "))
			default:
				fmt.Fprintf(&b, "%s:\n", e.key)
				for _, s := range *e.list {
					fmt.Fprintf(&b, "  - %s\n", q(s))
				}
			}
		}
		return b.String(), "yaml", true
	}
}

var srcFileSeq struct {
	sync.Mutex
	n int
}

func writeConfig(ctx *core.Ctx, sc *sourceCase) (path string, err error) {
	content, ext, used := renderConfig(sc)
	if !used {
		return "", nil
	}
	srcFileSeq.Lock()
	srcFileSeq.n++
	n := srcFileSeq.n
	srcFileSeq.Unlock()
	dir := filepath.Join(ctx.Root, ".work", fmt.Sprintf("c16-src-%d", os.Getpid()))
	if err := os.MkdirAll(dir, 0o755); err != nil {
		return "", err
	}
	path = filepath.Join(dir, fmt.Sprintf("cfg-%d.%s", n, ext))
	return path, os.WriteFile(path, []byte(content), 0o644)
}

func removeConfigDir(ctx *core.Ctx) {
	os.RemoveAll(filepath.Join(ctx.Root, ".work", fmt.Sprintf("c16-src-%d", os.Getpid())))
}

// argsAndEnv: the command line and the environment of the case (without the config file).
func (sc *sourceCase) argsAndEnv() (args []string, env [][2]string) {
	for i, l := range sc.lists() {
		for _, v := range l.Flags {
			args = append(args, "--"+srcFlagNames[i]+"="+v)
		}
		if l.Env != nil {
			env = append(env, [2]string{srcEnvNames[i], *l.Env})
		}
	}
	return
}

// ---- expectations ----

type srcExpect struct {
	refused bool
	why     string
	texts   [3][]string // rule texts in force
	printed [3][]string // the rules, printed (Header.String)
}

func askSource(ctx *core.Ctx, l *srcList) (texts, printed []string, refusedWhy string) {
	env, cfg := "~", "~"
	if l.Env != nil {
		env = core.HexS(*l.Env)
	}
	if l.ConfigList != nil {
		cfg = "l:" + core.HexList(*l.ConfigList)
	} else if l.ConfigText != nil {
		cfg = "t:" + core.HexS(*l.ConfigText)
	}
	ans := ctx.Model.MustAsk("C16", "source", core.HexList(l.Flags), env, cfg)
	f := strings.Fields(ans)
	switch {
	case len(f) >= 2 && f[0] == "err":
		return nil, nil, "not a CSV record (" + f[1] + ")"
	case len(f) == 3 && f[0] == "ok" && f[2] == "0":
		return core.UnHexList(f[1]), nil, "a rule text is not a rule"
	case len(f) == 4 && f[0] == "ok" && f[2] == "1":
		return core.UnHexList(f[1]), core.UnHexList(f[3]), ""
	}
	core.Fatalf("C16 source: unexpected model answer %q", ans)
	return
}

func expectSource(ctx *core.Ctx, sc *sourceCase) srcExpect {
	var ex srcExpect
	for i, l := range sc.lists() {
		t, p, why := askSource(ctx, l)
		ex.texts[i], ex.printed[i] = t, p
		if why != "" && !ex.refused {
			ex.refused, ex.why = true, "--"+srcFlagNames[i]+": "+why
		}
	}
	return ex
}

// intentExpect is the clause oracle, without the model: a list written down faithfully (config-file list as it
// stands; CSV record with proper quoting) is in force element by element — each text parsed by the tree's own
// ParseHeader — and the configuration is refused exactly when some text is not a rule. ok=false: some list
// of the case has no stated intent.
func intentExpect(sc *sourceCase) (ex srcExpect, ok bool) {
	for i, l := range sc.lists() {
		var ts []string
		if l.Intent != nil {
			ts = *l.Intent
		} else if l.How != "default" {
			return ex, false
		}
		ex.texts[i] = ts
		for _, t := range ts {
			h, err := header.ParseHeader(t)
			if err != nil {
				if !ex.refused {
					ex.refused, ex.why = true, fmt.Sprintf("--%s: %q is not a rule", srcFlagNames[i], t)
				}
				continue
			}
			ex.printed[i] = append(ex.printed[i], h.String())
		}
	}
	return ex, true
}

func (sc *sourceCase) count(ctx *core.Ctx) {
	comma, quote := false, false
	for _, l := range sc.lists() {
		ctx.Count("source/" + sc.Via + "/" + l.How)
		if l.Intent != nil {
			for _, t := range *l.Intent {
				comma = comma || strings.Contains(t, ",")
				quote = quote || strings.Contains(t, `"`)
			}
		}
	}
	if comma {
		ctx.Count("source/" + sc.Via + "/a-rule-value-holds-a-comma")
	}
	if quote {
		ctx.Count("source/" + sc.Via + "/a-rule-value-holds-a-double-quote")
	}
	for _, l := range sc.lists() {
		if l.usesConfig() {
			ctx.Count("source/" + sc.Via + "/config-format/" + sc.Format)
			break
		}
	}
}

func (sc *sourceCase) nontrivial() bool {
	for _, l := range sc.lists() {
		if l.How != "default" {
			return true
		}
	}
	return false
}

const srcClause = "for every list of header rules given as flags, environment variables or config-file entries, the list in force is the list given: " +
	"one rule per CSV field of a flag / variable value, one rule per element of a config-file list"

func sameLists(a, b [3][]string) bool {
	for i := range a {
		if !sameVals(a[i], b[i]) {
			return false
		}
	}
	return true
}

// ---- (b) the command tree, in-process ----

// runCommandTree runs `forwarder run <args>` on the real command tree with the run command's RunE replaced by
// a recorder of the three list flags; refused = Execute returned an error before RunE.
func runCommandTree(args []string, env [][2]string) (printed [3][]string, refused bool, output string) {
	root := fwdcmd.Command()
	run, _, err := root.Find([]string{"run"})
	if err != nil || run == nil || run == root {
		return printed, true, fmt.Sprintf("no run command: %v", err)
	}
	reached := false
	run.RunE = func(cmd *cobra.Command, _ []string) error {
		reached = true
		for i, n := range srcFlagNames {
			f := cmd.Flags().Lookup(n)
			if f == nil {
				return fmt.Errorf("no --%s flag", n)
			}
			sv, ok := f.Value.(pflag.SliceValue)
			if !ok {
				return fmt.Errorf("--%s is not a list flag", n)
			}
			// the flags print their elements with bind.RedactHeader: the rule (Header.String) in Go quotes
			for _, q := range sv.GetSlice() {
				if u, err := strconv.Unquote(q); err == nil {
					q = u
				}
				printed[i] = append(printed[i], q)
			}
		}
		return nil
	}
	var out bytes.Buffer
	root.SetOut(&out)
	root.SetErr(&out)
	root.SetArgs(append([]string{"run"}, args...))
	for _, kv := range env {
		os.Setenv(kv[0], kv[1])
	}
	defer func() {
		for _, kv := range env {
			os.Unsetenv(kv[0])
		}
	}()
	err = root.Execute()
	if err != nil || !reached {
		return printed, true, strings.TrimSpace(out.String() + " " + fmt.Sprint(err))
	}
	return printed, false, out.String()
}

func runSourceCommand(ctx *core.Ctx, sc *sourceCase) {
	key, _ := json.Marshal(sc)
	ctx.Case("source:"+string(key), sc.nontrivial())
	sc.count(ctx)
	cfgPath, err := writeConfig(ctx, sc)
	if err != nil {
		core.Fatalf("C16 source: config file: %v", err)
	}
	args, env := sc.argsAndEnv()
	if cfgPath != "" {
		args = append(args, "--config-file", cfgPath)
		defer os.Remove(cfgPath)
	}
	var printed [3][]string
	var refused bool
	var output, crash string
	func() {
		defer func() {
			if p := recover(); p != nil {
				crash = fmt.Sprint(p)
			}
		}()
		printed, refused, output = runCommandTree(args, env)
	}()
	if crash != "" {
		ctx.Crash("binding the rule lists never panics", "", sc, crash)
		return
	}
	impl := fmt.Sprintf("refused=%v header=%q connect-header=%q response-header=%q", refused, printed[0], printed[1], printed[2])
	if refused {
		impl += " output=" + output
		ctx.Count("source/command/refused")
	} else {
		ctx.Count("source/command/accepted")
	}
	ex := expectSource(ctx, sc)
	model := fmt.Sprintf("refused=%v (%s) header=%q connect-header=%q response-header=%q", ex.refused, ex.why, ex.printed[0], ex.printed[1], ex.printed[2])
	agree := refused == ex.refused && (refused || sameLists(printed, ex.printed))
	if !agree {
		ctx.Disagree("rule lists in force after cobrautil.BindAll = Model.C16Src.rulesOf of each source", sc, impl, model)
	} else {
		ctx.TraceValidated()
	}
	if want, ok := intentExpect(sc); ok {
		if refused != want.refused || !refused && !sameLists(printed, want.printed) {
			ctx.SpecFail(srcClause, "", sc, impl, fmt.Sprintf("written down: refused=%v (%s) header=%q connect-header=%q response-header=%q",
				want.refused, want.why, want.printed[0], want.printed[1], want.printed[2]))
		}
	}
}

// ---- (c) the real binary ----

// the messages of a binary case: what the client sends (request, CONNECT) / the origin answers (response)
var srcSent = []rig.Field{{Name: "Cookie", Value: "a=1"}, {Name: "X-Plain", Value: "p1"}, {Name: "En", Value: "client"},
	{Name: "X-D", Value: "client"}, {Name: "X-P2", Value: "z"}, {Name: "Accept", Value: "*/*"}, {Name: "User-Agent", Value: "curl/8.0"}}

func runSourceBinary(ctx *core.Ctx, sc *sourceCase) {
	key, _ := json.Marshal(sc)
	ctx.Case("source:"+string(key), sc.nontrivial())
	sc.count(ctx)
	cfgPath, err := writeConfig(ctx, sc)
	if err != nil {
		core.Fatalf("C16 source: config file: %v", err)
	}
	args, envKV := sc.argsAndEnv()
	if cfgPath != "" {
		args = append(args, "--config-file", cfgPath)
		defer os.Remove(cfgPath)
	}
	var env []string
	for _, kv := range envKV {
		env = append(env, kv[0]+"="+kv[1])
	}
	ex := expectSource(ctx, sc)
	want, haveIntent := intentExpect(sc)
	e, refusedOut, err := newBinaryEnvWith(ctx, false, sc.Upstream, false, args, env)
	if err != nil {
		ctx.Crash("the forwarder binary comes up or refuses the configuration", "", sc, err.Error())
		return
	}
	refused := refusedOut != ""
	impl := fmt.Sprintf("refused=%v", refused)
	if refused {
		impl += " output=" + refusedOut
		ctx.Count("source/binary/refused")
	} else {
		defer e.close()
		ctx.Count("source/binary/started")
	}
	if refused != ex.refused {
		ctx.Disagree("the binary starts exactly when Model.C16Src.rulesOf gives a rule list for each of the three sources", sc, impl,
			fmt.Sprintf("refused=%v (%s)", ex.refused, ex.why))
	}
	if haveIntent && refused != want.refused {
		ctx.SpecFail("the binary starts exactly when every rule text given is a rule", "", sc, impl,
			fmt.Sprintf("written down: refused=%v (%s) header=%q connect-header=%q response-header=%q", want.refused, want.why,
				want.texts[0], want.texts[1], want.texts[2]))
	}
	if refused || ex.refused {
		return
	}
	// what the hops receive: the model's rule texts through the hop oracle (every name judged)
	for _, t := range append(append(append([]string{}, ex.texts[0]...), ex.texts[1]...), ex.texts[2]...) {
		if _, err := header.ParseHeader(t); err != nil {
			ctx.Disagree("a rule text the model accepts is accepted by ParseHeader", sc, fmt.Sprintf("%q: %v", t, err), "rule")
			return
		}
	}
	sides := []string{"request", "response"}
	if sc.Upstream {
		sides = []string{"request", "connect"}
	}
	for _, side := range sides {
		hc := &hopCase{Kind: "hop", Via: "binary", Side: side, Upstream: sc.Upstream, Whole: true,
			ReqRules: ex.texts[0], ConnRules: ex.texts[1], RespRules: ex.texts[2], Label: "source/" + side}
		hc.Fields = append([]rig.Field{}, srcSent...)
		hc.Source = sc
		if side == "response" {
			hc.Body = "ok"
			hc.Fields = append(hc.Fields, rig.Field{Name: "Content-Length", Value: "2"})
		}
		before := ctx.NumFindings()
		runHop(ctx, e, hc)
		if ctx.NumFindings() > before {
			// the hop findings carry the rule texts; say where they came from
			ctx.Disagree("rule lists in force in the binary = Model.C16Src.rulesOf of each source (judged on the "+side+" side)", sc, impl,
				fmt.Sprintf("header=%q connect-header=%q response-header=%q", ex.texts[0], ex.texts[1], ex.texts[2]))
			return
		}
	}
}

// binarySourceCases: every way of writing a list down against texts with commas and quotes, three lists per
// process (one config-file format per process).
func binarySourceCases(ctx *core.Ctx) []*sourceCase {
	r := ctx.Rng.Sub()
	var out []*sourceCase
	// always: config-file lists whose elements hold commas and quotes (and an empty list), in each file format
	cl := func(ts ...string) srcList {
		c := append([]string{}, ts...)
		return srcList{How: "config-list", ConfigList: &c, Intent: &c}
	}
	out = append(out,
		&sourceCase{Kind: "source", Via: "binary", Format: "yaml", Header: cl("X-Features: alpha,-Cookie", "X-Plain: second"),
			Connect: cl("Accept-Language: de,en;"), Response: cl("Accept-Language: de,en;", `X-Quoted: say "hi"`)},
		&sourceCase{Kind: "source", Via: "binary", Format: "json", Upstream: true, Header: cl("Accept: text/html,application/json", "X-List: a,%x-plain"),
			Connect: cl("X-Both: a,-x-p*", `X-Q4: a",-Cookie,"`), Response: cl()},
		&sourceCase{Kind: "source", Via: "binary", Format: "toml", Header: cl(), Connect: srcList{How: "default"},
			Response: cl("X-C: a,X-D: b", "Cookie: r=1, s=2", "X-Last: a,")})
	n := ctx.N(21, 120)
	for i := 0; i < n; i++ {
		sc := &sourceCase{Kind: "source", Via: "binary", Format: srcFormats[i%len(srcFormats)], Upstream: i%3 == 2}
		for j, l := range sc.lists() {
			// slot j of process i: the ways rotate so that every way meets every list slot and every format
			how := (i + 3*j + i/10) % 10
			*l = genSrcList(r, how, true)
			// a process that refuses its configuration shows nothing about its other lists: most of the slots
			// hold a list the model accepts
			for k := 0; k < 4 && r.Chance(75); k++ {
				if _, _, why := askSource(ctx, l); why == "" {
					break
				}
				*l = genSrcList(r, how, true)
			}
		}
		out = append(out, sc)
	}
	return out
}

func runAllSources(ctx *core.Ctx) {
	defer removeConfigDir(ctx)
	// (a)
	nCSV := ctx.N(1500, 40000)
	for i := 0; i < nCSV; i++ {
		r := ctx.Rng.Sub()
		checkCSV(ctx, csvCase{Kind: "csv", Raw: core.HexS(genCSVRaw(r))})
	}
	// (b) in this goroutine: the environment variables are those of the harness process
	nCmd := ctx.N(600, 12000)
	for i := 0; i < nCmd; i++ {
		r := ctx.Rng.Sub()
		sc := genSourceCase(r, "command")
		runSourceCommand(ctx, &sc)
		if i < 2 {
			ctx.Sample(sc)
		}
	}
}

// runBinarySources runs (c), the processes side by side.
func runBinarySources(ctx *core.Ctx) {
	defer removeConfigDir(ctx)
	cases := binarySourceCases(ctx)
	var wg sync.WaitGroup
	sem := make(chan struct{}, 8)
	for i, sc := range cases {
		if i == 0 {
			ctx.Sample(sc)
		}
		wg.Add(1)
		go func(sc *sourceCase) {
			defer wg.Done()
			sem <- struct{}{}
			defer func() { <-sem }()
			runSourceBinary(ctx, sc)
		}(sc)
	}
	wg.Wait()
}

func replaySource(ctx *core.Ctx, sc *sourceCase) {
	defer removeConfigDir(ctx)
	if sc.Via == "binary" {
		runSourceBinary(ctx, sc)
		return
	}
	runSourceCommand(ctx, sc)
}
