package c16

import (
	"context"
	"crypto/tls"
	"encoding/base64"
	"fmt"
	"net/http"
	"net/url"
	"strings"
	"sync"
	"sync/atomic"
	"time"

	"github.com/prometheus/client_golang/prometheus"
	"github.com/saucelabs/forwarder"
	"github.com/saucelabs/forwarder/header"
	"github.com/saucelabs/forwarder/verifharness/core"
	"github.com/saucelabs/forwarder/verifharness/reqmodel"
	"github.com/saucelabs/forwarder/verifharness/rig"
)

// hopEnv is one running proxy (in-process or the real binary) with its scripted peers: a plain
// origin, a TLS origin and an upstream HTTP forward proxy that records every head it is sent.
type hopEnv struct {
	via      string // "rig" | "binary"
	mitm     bool
	upstream bool
	cred     bool
	handler  bool

	proxy *rig.Proxy
	proc  *rig.Process
	addr  string

	origin, tlsOrigin, up *rig.Peer
	ca                    *rig.CA

	// rig: the rule lists in force (swapped per case; the environment runs its cases one after the other)
	cur atomic.Pointer[ruleLists]
	// rig: the header map of each non-CONNECT request as the user rules see it (request id -> clone)
	snaps sync.Map
	// what the origin answers, by request id
	answers sync.Map
	// the case whose fields the upstream proxy refuses a CONNECT to refusedUpHost with (the cases of one
	// environment run one after the other)
	refusal atomic.Pointer[hopCase]

	tag string
}

type ruleLists struct {
	req, conn, resp header.Headers
}

const (
	siteUser, sitePass = "siteuser", "sitepass"
	hopOrigin          = "origin.test"
)

func siteCredValue() string {
	return "Basic " + base64.StdEncoding.EncodeToString([]byte(siteUser+":"+sitePass))
}

func parseRules(rs []string) (header.Headers, error) {
	var out header.Headers
	for _, s := range rs {
		h, err := header.ParseHeader(s)
		if err != nil {
			return nil, fmt.Errorf("rule %q: %w", s, err)
		}
		out = append(out, h)
	}
	return out, nil
}

func idOfTarget(t string) string {
	i := strings.Index(t, "/hop/")
	if i < 0 {
		return ""
	}
	id := t[i+5:]
	if j := strings.IndexAny(id, "?/ "); j >= 0 {
		id = id[:j]
	}
	return id
}

// originResponder answers with what the case registered for the request id (response side), or a
// small 200.
func (e *hopEnv) originResponder(w *rig.PeerConn, ex *rig.Exchange) bool {
	if v, ok := e.answers.Load(idOfTarget(ex.Req.Target)); ok {
		hc := v.(*hopCase)
		if hc.Resp != "" {
			return originAnswerOfKind(w, ex, hc)
		}
		b := rig.Head("HTTP/1.1 200 OK", hc.Fields)
		fm := (&rig.Msg{Fields: hc.Fields}).FieldMap()
		keep := true
		if ex.Req.Method != "HEAD" {
			switch {
			case len(fm["transfer-encoding"]) > 0:
				b = append(b, rig.ChunkEncode([]byte(hc.Body), nil, nil)...)
			case len(fm["content-length"]) > 0:
				b = append(b, hc.Body...)
			default:
				b = append(b, hc.Body...)
				keep = false // close-delimited
			}
		}
		w.Write(b)
		return keep
	}
	b := rig.Head("HTTP/1.1 200 OK", []rig.Field{{Name: "Content-Length", Value: "2"}})
	if ex.Req.Method != "HEAD" {
		b = append(b, "ok"...)
	}
	w.Write(b)
	return true
}

func (e *hopEnv) startPeers() error {
	var err error
	if e.origin, err = rig.NewPeer("origin", e.originResponder); err != nil {
		return err
	}
	if e.ca, err = rig.NewCA("verif origin CA"); err != nil {
		return err
	}
	leaf, err := e.ca.ValidLeaf(hopOrigin)
	if err != nil {
		return err
	}
	if e.tlsOrigin, err = rig.NewTLSPeer("tls-origin", &tls.Config{Certificates: []tls.Certificate{leaf}}, e.originResponder); err != nil {
		return err
	}
	tlsAddr := e.tlsOrigin.Addr
	e.up, err = rig.NewRefusingForwardProxy("upstream", func(string) string { return tlsAddr }, e.upstreamRefusal)
	return err
}

func (e *hopEnv) close() {
	if e.proxy != nil {
		e.proxy.Stop()
	}
	if e.proc != nil {
		e.proc.Stop()
	}
	for _, p := range []*rig.Peer{e.origin, e.tlsOrigin, e.up} {
		if p != nil {
			p.Close()
		}
	}
}

// newRigEnv starts the real HTTPProxy in-process. The three rule lists are dispatched exactly as
// command/run configureHeadersModifiers / configureTransportProxy do, but read from e.cur so that one
// proxy instance serves many rule lists; in front of the rules a recorder keeps the header map the
// rules are about to see.
func newRigEnv(ctx *core.Ctx, mitm, upstream, cred bool, handler ...bool) (*hopEnv, error) {
	e := &hopEnv{via: "rig", mitm: mitm, upstream: upstream, cred: cred}
	e.handler = len(handler) > 0 && handler[0]
	e.cur.Store(&ruleLists{})
	if err := e.startPeers(); err != nil {
		return nil, err
	}
	caFile, err := e.ca.WriteFile(ctx.Root+"/.work", fmt.Sprintf("c16-ca-%d.pem", time.Now().UnixNano()))
	if err != nil {
		return nil, err
	}
	opts := rig.ProxyOpts{
		ConnectTo: []forwarder.HostPortPair{
			rig.Route(hopOrigin, "80", e.origin.Addr),
			rig.Route(hopOrigin, "443", e.tlsOrigin.Addr),
			rig.Route("upstream.test", "3128", e.up.Addr),
			rig.Route(refusedHost, "80", refusedAddr),
			rig.Route(refusedHost, "443", refusedAddr),
		},
		Transport: func(tc *forwarder.HTTPTransportConfig) {
			tc.CACertFiles = []string{caFile}
			tc.ResponseHeaderTimeout = hopResponseHeaderTimeout
		},
		Configure: func(cfg *forwarder.HTTPProxyConfig) {
			cfg.Name = "fwdverif"
			cfg.TestingHTTPHandler = e.handler
			cfg.DenyDomains = forwarder.MatchFunc(func(h string) bool { return h == deniedHost })
			cfg.RequestModifiers = append(cfg.RequestModifiers,
				forwarder.RequestModifierFunc(func(req *http.Request) error {
					if req.Method == http.MethodConnect {
						e.snaps.Store("connect", req.Header.Clone()) // (the cases of one environment run one after the other)
					} else if req.URL != nil {
						if id := idOfTarget(req.URL.Path); id != "" {
							e.snaps.Store(id, req.Header.Clone())
						}
					}
					return nil
				}),
				forwarder.RequestModifierFunc(func(req *http.Request) error {
					rl := e.cur.Load()
					if req.Method == http.MethodConnect {
						return rl.conn.ModifyRequest(req)
					}
					return rl.req.ModifyRequest(req)
				}))
			cfg.ResponseModifiers = append(cfg.ResponseModifiers, forwarder.ResponseModifierFunc(func(resp *http.Response) error {
				if req := resp.Request; req != nil && req.Method == http.MethodConnect {
					return nil
				}
				return e.cur.Load().resp.ModifyResponse(resp)
			}))
			if upstream {
				cfg.UpstreamProxy = rig.MustURL("http://upstream.test:3128")
			}
			if mitm {
				cfg.MITM = forwarder.DefaultMITMConfig()
				cfg.PromRegistry = prometheus.NewRegistry()
			}
		},
		PostTransport: func(rt *http.Transport) {
			if mitm && upstream {
				// every intercepted request opens its own tunnel, so that every case shows the transport's CONNECT
				rt.DisableKeepAlives = true
			}
			rt.GetProxyConnectHeader = func(_ context.Context, _ *url.URL, _ string) (http.Header, error) {
				rl := e.cur.Load()
				h := make(http.Header, len(rl.conn))
				for _, ch := range rl.conn {
					ch.Apply(h)
				}
				return h, nil
			}
		},
	}
	if cred {
		opts.Credentials = []*forwarder.HostPortUser{
			{HostPort: forwarder.HostPort{Host: hopOrigin, Port: "80"}, Userinfo: url.UserPassword(siteUser, sitePass)},
			{HostPort: forwarder.HostPort{Host: hopOrigin, Port: "443"}, Userinfo: url.UserPassword(siteUser, sitePass)},
		}
	}
	if e.proxy, err = rig.StartProxy(opts); err != nil {
		e.close()
		return nil, err
	}
	e.addr = e.proxy.Addr
	if e.tag, err = e.learnTag(); err != nil {
		e.close()
		return nil, err
	}
	return e, nil
}

// newBinaryEnv starts `forwarder run` with the three rule lists as flags.
func newBinaryEnv(ctx *core.Ctx, mitm, upstream, cred bool, reqRules, connRules, respRules []string) (*hopEnv, error) {
	var args []string
	for _, r := range reqRules {
		args = append(args, "--header", csvEncode([]string{r}, false)) // (one CSV record of one field)
	}
	for _, r := range connRules {
		args = append(args, "--connect-header", csvEncode([]string{r}, false)) // (one CSV record of one field)
	}
	for _, r := range respRules {
		args = append(args, "--response-header", csvEncode([]string{r}, false)) // (one CSV record of one field)
	}
	e, refused, err := newBinaryEnvWith(ctx, mitm, upstream, cred, args, nil)
	if err == nil && refused != "" {
		err = &rig.ExitedError{Output: refused}
	}
	return e, err
}

// newBinaryEnvWith starts `forwarder run` with the rule lists given by listArgs (flags, --config-file) and
// env (FORWARDER_* variables). refused != "": the binary did not accept the configuration (its output).
func newBinaryEnvWith(ctx *core.Ctx, mitm, upstream, cred bool, listArgs, env []string) (e *hopEnv, refused string, err error) {
	e = &hopEnv{via: "binary", mitm: mitm, upstream: upstream, cred: cred}
	if err := e.startPeers(); err != nil {
		return nil, "", err
	}
	args := []string{"--log-level", "error", "--proxy-localhost", "allow", "--name", "fwdverif", "--api-address", "",
		"--connect-to", hopOrigin + ":80:" + e.origin.Addr + "," + hopOrigin + ":443:" + e.tlsOrigin.Addr +
			"," + refusedHost + ":80:" + refusedAddr + "," + refusedHost + ":443:" + refusedAddr,
		"--deny-domains", "^" + strings.ReplaceAll(deniedHost, ".", "\\.") + "$",
		"--http-response-header-timeout", hopResponseHeaderTimeout.String()}
	if mitm {
		args = append(args, "--mitm", "--insecure")
	}
	if upstream {
		args = append(args, "--proxy", "http://"+e.up.Addr)
	}
	if cred {
		u := siteUser + ":" + sitePass
		args = append(args, "--credentials", u+"@"+hopOrigin+":80,"+u+"@"+hopOrigin+":443")
	}
	args = append(args, listArgs...)
	var no bool
	var out string
	if e.proc, no, out, err = rig.StartBinaryVerdict(ctx.Root, args, env); err != nil || no {
		e.close()
		if no && out == "" {
			out = "(no output)"
		}
		return nil, out, err
	}
	e.addr = e.proc.Addr
	if e.tag, err = e.learnTag(); err != nil {
		e.close()
		return nil, "", fmt.Errorf("%w (args %q, output %s)", err, args, e.proc.Output.String())
	}
	return e, "", nil
}

// open returns a client connection ready for requests; secure: after CONNECT + TLS handshake with the
// intercepting proxy.
func (e *hopEnv) open(secure bool) (*rig.Client, error) { return e.openHost(secure, hopOrigin) }

// openHost is open for an intercepted session with another host.
func (e *hopEnv) openHost(secure bool, hopOrigin string) (*rig.Client, error) {
	c, err := rig.Dial(e.addr)
	if err != nil {
		return nil, err
	}
	if !secure {
		return c, nil
	}
	c.Send([]byte("CONNECT "+hopOrigin+":443 HTTP/1.1\r\nHost: "+hopOrigin+":443\r\n\r\n"), nil)
	res, err := c.ReadResponse("CONNECT", 5*time.Second)
	if err != nil || res.Status != 200 {
		c.Close()
		return nil, fmt.Errorf("mitm CONNECT failed: %v %+v", err, res)
	}
	if _, err := c.StartTLS(hopOrigin, nil, true); err != nil {
		c.Close()
		return nil, err
	}
	return c, nil
}

func (e *hopEnv) findExchange(id string) (*rig.Peer, *rig.Exchange) {
	for _, p := range []*rig.Peer{e.origin, e.tlsOrigin, e.up} {
		for _, ex := range p.Log() {
			if ex.Req != nil && ex.Req.Method != "CONNECT" && idOfTarget(ex.Req.Target) == id {
				return p, ex
			}
		}
	}
	return nil, nil
}

func (e *hopEnv) resetLogs() {
	for _, p := range []*rig.Peer{e.origin, e.tlsOrigin, e.up} {
		p.Reset()
	}
}

// learnTag reads this instance's Via element off a probe request (sent while no rule list is in force
// for the rig; through the binary the probe goes through the configured rules, so the tag is taken
// from the proxy's own element, the last one of the last Via line, if any is left).
func (e *hopEnv) learnTag() (string, error) {
	c, err := e.open(false)
	if err != nil {
		return "", err
	}
	defer c.Close()
	target := "http://" + hopOrigin + "/hop/probe"
	c.Send([]byte("GET "+target+" HTTP/1.1\r\nHost: "+hopOrigin+"\r\nX-Probe: 1\r\n\r\n"), nil)
	if _, err := c.ReadResponse("GET", 5*time.Second); err != nil {
		return "", fmt.Errorf("probe: %w", err)
	}
	_, ex := e.findExchange("probe")
	if ex == nil {
		return "", fmt.Errorf("probe did not reach any hop")
	}
	e.resetLogs()
	// the proxy's own element is "<proto> fwdverif-<boundary>"; configured rules may have added other
	// elements or removed the field (the tag is then not needed by any expectation)
	for _, v := range ex.Req.Values("Via") {
		for _, t := range strings.FieldsFunc(v, func(r rune) bool { return r == ' ' || r == ',' }) {
			if strings.HasPrefix(t, "fwdverif-") {
				return t, nil
			}
		}
	}
	return "fwdverif-unknown", nil
}

// adoptTag: when the probe could not show this instance's Via element (a configured request rule removed
// the field) it is read off the first message that does show it.
func (e *hopEnv) adoptTag(m *rig.Msg) {
	if e.tag != "fwdverif-unknown" || m == nil {
		return
	}
	for _, v := range m.Values("Via") {
		for _, t := range strings.FieldsFunc(v, func(r rune) bool { return r == ' ' || r == ',' }) {
			if strings.HasPrefix(t, "fwdverif-") {
				e.tag = t
				return
			}
		}
	}
}

// modelCfg renders the environment (with the rule lists of a case) for the Req model.
func (e *hopEnv) modelCfg(hc *hopCase) reqmodel.Cfg {
	cfg := reqmodel.Cfg{Tag: e.tag, Name: "fwdverif", TimeAllowed: true, Rules: hc.ReqRules, ConnectRules: hc.ConnRules}
	if e.upstream {
		cfg.Upstream = "upstream.test:3128"
	}
	if e.cred {
		v := siteCredValue()
		cfg.SiteCred = &v
	}
	return cfg
}
