package c16

import (
	"encoding/json"
	"fmt"
	"net/http"
	"sort"
	"strings"
	"sync/atomic"
	"time"

	"github.com/saucelabs/forwarder/header"
	"github.com/saucelabs/forwarder/verifharness/core"
	"github.com/saucelabs/forwarder/verifharness/reqmodel"
	"github.com/saucelabs/forwarder/verifharness/rig"
)

// hopCase runs rule lists against the names the pipeline itself treats specially, END TO END through
// the real proxy, and judges the message the next hop (or, for responses, the client) receives.
//
//	side "request"            a non-CONNECT request; --header rules; judged at the origin / upstream proxy
//	side "response"           the origin's response; --response-header rules; judged at the client
//	side "connect"            the client's CONNECT relayed to an upstream proxy; --connect-header rules
//	side "transport-connect"  the CONNECT the proxy's own transport sends to the upstream proxy for an
//	                          intercepted (MITM) request; --connect-header rules (GetProxyConnectHeader)
type hopCase struct {
	Kind      string      `json:"kind"` // "hop"
	Via       string      `json:"via"`  // "rig" (in-process HTTPProxy) | "binary" (forwarder run)
	Side      string      `json:"side"`
	MITM      bool        `json:"mitm,omitempty"`   // the proxy intercepts CONNECTs
	Secure    bool        `json:"secure,omitempty"` // the client sends the request inside an intercepted TLS session
	Upstream  bool        `json:"upstream,omitempty"`
	Cred      bool        `json:"credentials,omitempty"` // --credentials entry matching the origin
	ReqRules  []string    `json:"header,omitempty"`
	ConnRules []string    `json:"connect_header,omitempty"`
	RespRules []string    `json:"response_header,omitempty"`
	Label     string      `json:"label"` // the special name (and variant) the message was built for
	Method    string      `json:"method,omitempty"`
	Fields    []rig.Field `json:"fields"` // what the client sends besides Host (request, connect) / what the origin answers with (response)
	Body      string      `json:"body,omitempty"`
	Chunked   bool        `json:"chunked,omitempty"`
	// Resp (side "response"): the kind of response the client is sent ("" = the origin's 200 with a body), see
	// respKinds; Status: its status where the case chooses it (the origin's, the refusing upstream proxy's)
	Resp   string `json:"resp,omitempty"`
	Status int    `json:"status,omitempty"`
	// Handler: the in-process proxy serves through martian's http.Handler (HTTPProxyConfig.TestingHTTPHandler:
	// proxy_handler.go has its own copy of the response path)
	Handler bool `json:"handler,omitempty"`
	// Whole: judge every name the message, the hop or a rule carries, not only the special names of the side:
	// a field no rule names must arrive as it does without any rule (cases of the "source" family)
	Whole bool `json:"whole,omitempty"`
	// Source: the lists of a Whole case did not come as plain flags but as this case says (replayed through it)
	Source *sourceCase `json:"source,omitempty"`
}

func (hc *hopCase) sideRules() []string {
	switch hc.Side {
	case "request":
		return hc.ReqRules
	case "response":
		return hc.RespRules
	}
	return hc.ConnRules
}

var hopSeq atomic.Int64

var hopStatic = map[string]bool{"connection": true, "keep-alive": true, "proxy-authenticate": true, "proxy-authorization": true,
	"proxy-connection": true, "te": true, "trailer": true, "transfer-encoding": true, "upgrade": true}

// lines net/http writes itself, whatever the header map says (so also their spelling is net/http's)
var writtenByLibrary = map[string]bool{"host": true, "user-agent": true, "content-length": true, "transfer-encoding": true, "trailer": true}

func sameVals(a, b []string) bool {
	return len(a) == len(b) && strings.Join(a, "\x00") == strings.Join(b, "\x00")
}

func fieldMapOf(fs []rig.Field) map[string][]string { return (&rig.Msg{Fields: fs}).FieldMap() }

// applySpec is the documented meaning of a rule list for the field lines named k (lower case), starting
// from vals: 'name:value' appends, 'name;' sets the empty value, '-name' and '-prefix*' remove, '%name'
// keeps the values and respells. spelt is the spelling the last effective '%name' asked for; afterRename
// reports a rule that acts on the name after it was respelt (the recorded class F9c).
func applySpec(rules header.Headers, k string, vals []string) (out []string, spelt string, afterRename bool) {
	out = append([]string(nil), vals...)
	for _, h := range rules {
		name := strings.ToLower(h.Name)
		hit := name == k
		if h.Action == header.RemoveByPrefix {
			hit = strings.HasPrefix(k, name)
		}
		if !hit {
			continue
		}
		if spelt != "" {
			afterRename = true
		}
		switch h.Action {
		case header.Add:
			out = append(out, *h.Value)
		case header.Empty:
			out = []string{""}
		case header.Remove, header.RemoveByPrefix:
			out = nil
		case header.RenameCase:
			if len(out) > 0 && http.CanonicalHeaderKey(h.Name) != h.Name {
				spelt = h.Name
			}
		}
	}
	return
}

func touches(rules header.Headers, k string) bool {
	for _, h := range rules {
		name := strings.ToLower(h.Name)
		if name == k || h.Action == header.RemoveByPrefix && strings.HasPrefix(k, name) {
			return true
		}
	}
	return false
}

func connTokens(vs []string) map[string]bool {
	out := map[string]bool{}
	for _, v := range vs {
		for _, t := range strings.Split(v, ",") {
			if t = strings.ToLower(strings.TrimSpace(t)); t != "" {
				out[t] = true
			}
		}
	}
	return out
}

// judge is the clause oracle "each rule does what its syntax says on the message that is forwarded".
// For every name the rule list touches: the documented meaning applied to what the rules see (pre)
// must be what the hop receives. Where the hop's value is not in the rules' hands (net/http writes the
// line itself, or the pipeline acts on the name after the rules) dev names the documented reason and the
// expected value is the one the model of the code gives.
type judge struct {
	ctx   *core.Ctx
	hc    *hopCase
	rules header.Headers
	names []string // lower-case names to look at
	pre   func(k string) []string
	dev   func(k string, ideal []string, renamed bool) string
	// class: recorded known-finding class of a deviation on name k, decided from the input alone ("" if none)
	class func(k string, ideal []string) string
	got   *rig.Msg
	model map[string][]string
	// fixed: names whose value at the hop is known without the model (Host = the request's authority)
	fixed map[string][]string
	impl  string
	// base (Whole cases): what the model of the code gives for the same message with an EMPTY rule list
	base map[string][]string
	// skipped: the message is of a kind the list does not apply to (a response to a CONNECT): for every name
	// the list touches the hop must receive what the message carried
	skipped bool
}

// same compares the values of name k as the hop received them with an expectation. When a rule respelt
// the name, the map holds it under two keys at most (the respelt one and the canonical one other stages
// use); on the wire the two come in the order net/http sorts keys, in the model in map order: the values
// are then compared as a multiset.
func (j *judge) same(k string, got, want []string) bool {
	for _, h := range j.rules {
		if h.Action == header.RenameCase && strings.ToLower(h.Name) == k && http.CanonicalHeaderKey(h.Name) != h.Name {
			a, b := append([]string(nil), got...), append([]string(nil), want...)
			sort.Strings(a)
			sort.Strings(b)
			return sameVals(a, b)
		}
	}
	return sameVals(got, want)
}

func (j *judge) run() {
	gotMap := j.got.FieldMap()
	names := j.names
	if j.hc.Whole && j.base != nil {
		seen := map[string]bool{}
		for _, k := range names {
			seen[k] = true
		}
		add := func(k string) {
			if !seen[k] {
				seen[k] = true
				names = append(names, k)
			}
		}
		for k := range gotMap {
			add(k)
		}
		for k := range j.base {
			add(k)
		}
		for _, h := range j.rules {
			if h.Action != header.RemoveByPrefix {
				add(strings.ToLower(h.Name))
			}
		}
		sort.Strings(names)
	}
	for _, k := range names {
		if !touches(j.rules, k) {
			if j.hc.Whole && j.base != nil {
				want := j.base[k]
				if f, ok := j.fixed[k]; ok {
					want = f
				}
				if sameVals(gotMap[k], want) {
					j.ctx.Count("hop/" + j.hc.Side + "/untouched-name-as-without-rules")
				} else {
					j.ctx.SpecFail("a field no rule of the list names is forwarded as it is without any rule", "", j.hc, j.impl,
						fmt.Sprintf("%s: hop received %q, without rules %q (rules %q)", k, gotMap[k], want, j.hc.sideRules()))
				}
			}
			continue
		}
		ideal, spelt, afterRename := applySpec(j.rules, k, j.pre(k))
		if j.skipped {
			ideal, spelt, afterRename = j.pre(k), "", false
		}
		got := gotMap[k]
		class := ""
		if afterRename {
			class = "rule-after-rename"
		} else if j.class != nil {
			class = j.class(k, ideal)
		}
		if sameVals(got, ideal) {
			j.ctx.Count("hop/" + j.hc.Side + "/as-documented")
			if spelt != "" && !afterRename && !writtenByLibrary[k] && !j.hc.Handler {
				for _, f := range j.got.Fields {
					if strings.EqualFold(f.Name, k) && f.Name != spelt {
						j.ctx.SpecFail("'%name' respells the field on the forwarded message", class, j.hc, j.impl,
							fmt.Sprintf("%s: spelt %q at the hop, rule asks for %q", k, f.Name, spelt))
						break
					}
				}
			}
			continue
		}
		if d := j.dev(k, ideal, spelt != ""); d != "" {
			j.ctx.Count("hop/" + j.hc.Side + "/not-in-the-rules-hands/" + d)
			if want, ok := j.fixed[k]; ok {
				if !sameVals(got, want) {
					j.ctx.SpecFail("each rule does what its syntax says on the forwarded message (names the rules do not control)",
						class, j.hc, j.impl, fmt.Sprintf("%s [%s]: hop received %q, want %q", k, d, got, want))
				}
				continue
			}
			if j.model != nil && !j.same(k, got, j.model[k]) {
				j.ctx.SpecFail("each rule does what its syntax says on the forwarded message (names the rules do not control: value the model of the code gives)",
					class, j.hc, j.impl, fmt.Sprintf("%s [%s]: hop received %q, model %q, documented meaning %q", k, d, got, j.model[k], ideal))
			}
			continue
		}
		if j.skipped {
			j.ctx.SpecFail("response rules apply to non-CONNECT responses and to no response to a CONNECT (connect rules to no response at all)",
				class, j.hc, j.impl, fmt.Sprintf("%s: client received %q, the response carried %q (rules %q, connect rules %q)", k, got, ideal, j.hc.RespRules, j.hc.ConnRules))
			continue
		}
		j.ctx.SpecFail("each rule does what its syntax says on the forwarded message", class, j.hc, j.impl,
			fmt.Sprintf("%s: hop received %q, the rules %q applied to %q give %q", k, got, j.hc.sideRules(), j.pre(k), ideal))
	}
}

func (j *judge) compareModel(relation string) {
	if j.model == nil {
		return
	}
	of := j.got.FieldMap()
	var diffs []string
	for _, k := range reqmodel.DiffFields(of, j.model) {
		if j.same(k, of[k], j.model[k]) {
			continue
		}
		if _, ok := j.fixed[k]; ok && touches(j.rules, k) {
			// Model.Req keeps Host in the header map (http.ReadRequest deletes it), which shows when a
			// rule respells it; the hop's Host is judged against the request's authority instead
			continue
		}
		diffs = append(diffs, fmt.Sprintf("field %s: got %q want %q", k, of[k], j.model[k]))
	}
	if len(diffs) > 0 {
		j.ctx.Disagree(relation, j.hc, strings.Join(diffs, "; ")+" | "+j.impl, "see diffs")
	} else {
		j.ctx.TraceValidated()
	}
}

func lowerNames(specs []nameSpec) []string {
	seen := map[string]bool{}
	var out []string
	for _, s := range specs {
		k := strings.ToLower(s.Name)
		if !seen[k] {
			seen[k] = true
			out = append(out, k)
		}
	}
	sort.Strings(out)
	return out
}

func runHop(ctx *core.Ctx, e *hopEnv, hc *hopCase) {
	key, _ := json.Marshal(hc)
	ctx.Case("hop:"+string(key), len(hc.sideRules()) > 0)
	ctx.Count("hop/" + hc.Via + "/" + hc.Side)
	reqR, err1 := parseRules(hc.ReqRules)
	connR, err2 := parseRules(hc.ConnRules)
	respR, err3 := parseRules(hc.RespRules)
	if err1 != nil || err2 != nil || err3 != nil {
		core.Fatalf("C16 hop case holds an unparsable rule: %v %v %v", err1, err2, err3)
	}
	if e.via == "rig" {
		e.cur.Store(&ruleLists{req: reqR, conn: connR, resp: respR})
		defer e.cur.Store(&ruleLists{})
	}
	e.resetLogs()
	id := fmt.Sprintf("h%d", hopSeq.Add(1))
	switch hc.Side {
	case "request":
		hopRequest(ctx, e, hc, id, reqR)
	case "response":
		hopResponse(ctx, e, hc, id, respR)
	case "connect":
		hopConnect(ctx, e, hc, connR)
	case "transport-connect":
		hopTransportConnect(ctx, e, hc, id, connR)
	default:
		core.Fatalf("C16: unknown hop side %q", hc.Side)
	}
}

func (hc *hopCase) request(e *hopEnv, id string) *reqmodel.Request {
	m := hc.Method
	if m == "" {
		m = "GET"
	}
	r := &reqmodel.Request{Method: m, Minor: 1, Path: "/hop/" + id, Chunked: hc.Chunked}
	if !hc.Secure {
		r.Absolute, r.Scheme, r.Authority = true, "http", hopOrigin
	}
	r.Fields = append([]rig.Field{{Name: "Host", Value: hopOrigin}}, hc.Fields...)
	if hc.Body != "" {
		r.BodyHex = core.Hex([]byte(hc.Body))
	}
	return r
}

func summariseHop(ex *rig.Exchange, res *rig.Msg, err error) string {
	var b strings.Builder
	if ex != nil {
		fmt.Fprintf(&b, "hop-head=%q", ex.Req.HeadBytes)
	} else {
		b.WriteString("hop=none")
	}
	if res != nil {
		fmt.Fprintf(&b, " client-head=%q", res.HeadBytes)
	}
	if err != nil {
		fmt.Fprintf(&b, " client-err=%v", err)
	}
	return b.String()
}

// ---- requests ----

func hopRequest(ctx *core.Ctx, e *hopEnv, hc *hopCase, id string, rules header.Headers) {
	r := hc.request(e, id)
	c, err := e.open(hc.Secure)
	if err != nil {
		ctx.Crash("proxy accepts a client connection", "", hc, err.Error())
		return
	}
	defer c.Close()
	c.Send(r.Wire(), nil)
	res, rerr := c.ReadResponse(r.Method, 10*time.Second)
	_, ex := e.findExchange(id)
	impl := summariseHop(ex, res, rerr)
	if ex != nil {
		e.adoptTag(ex.Req)
	}
	cfg := e.modelCfg(hc)
	mctx := reqmodel.Ctx{ClientIP: "127.0.0.1", Secure: hc.Secure}
	out := reqmodel.Ask(ctx.Model, &cfg, &mctx, r)
	if out.Kind == "unreadable" {
		// outside the domain of the request model (a client Expect field): the clause oracle alone judges
		out.Fields = nil
		ctx.Count("hop/request/outside-the-request-model")
	} else if out.Kind != "fwd" {
		// the generated requests are all forwardable; anything else is a generator slip, not a verdict
		core.Fatalf("C16 hop: model does not forward the generated request (%s): %s", out.Kind, r.Wire())
	}
	if ex == nil {
		ctx.Disagree("forwarded request reaches its hop", hc, impl, "fwd "+out.HopKind)
		ctx.SpecFail("each rule does what its syntax says on the forwarded message", "", hc, impl, "no hop received the request")
		return
	}
	in := fieldMapOf(hc.Fields)
	nominated := connTokens(in["connection"])
	upgradeRequested := nominated["upgrade"] && len(in["upgrade"]) > 0
	scheme := "http"
	if hc.Secure {
		scheme = "https"
	}
	j := &judge{ctx: ctx, hc: hc, rules: rules, names: lowerNames(requestNames), got: ex.Req, model: out.Fields, impl: impl,
		fixed: map[string][]string{"host": {hopOrigin}}}
	if hc.Whole && out.Fields != nil {
		bare := cfg
		bare.Rules = nil
		if b := reqmodel.Ask(ctx.Model, &bare, &mctx, r); b.Kind == "fwd" {
			j.base = b.Fields
		}
	}
	j.pre = func(k string) []string {
		own := func(chain []string, mine string) []string {
			if c := strings.Join(chain, ", "); c != "" {
				return []string{c + ", " + mine}
			}
			return []string{mine}
		}
		switch {
		case hopStatic[k] || nominated[k]:
			return nil // hop-by-hop fields are removed before the rules run
		case k == "host":
			return nil // ReadRequest moves Host out of the header map
		case k == "via":
			return own(in[k], "1.1 "+e.tag)
		case k == "x-forwarded-for":
			return own(in[k], "127.0.0.1")
		case k == "x-forwarded-proto" || k == "x-forwarded-host" || k == "x-forwarded-url":
			if vs := in[k]; len(vs) > 0 && vs[0] != "" {
				return vs
			}
			return []string{map[string]string{"x-forwarded-proto": scheme, "x-forwarded-host": hopOrigin,
				"x-forwarded-url": scheme + "://" + hopOrigin + "/hop/" + id}[k]}
		}
		return in[k]
	}
	j.dev = func(k string, ideal []string, renamed bool) string {
		emptyFirst := len(ideal) == 0 || ideal[0] == ""
		switch k {
		case "host":
			return "host-is-written-from-the-request-target"
		case "content-length", "transfer-encoding", "trailer":
			return "framing-is-written-by-net-http"
		case "user-agent":
			if len(ideal) > 1 {
				return "user-agent-first-value-only"
			}
			if len(ideal) == 1 && ideal[0] == "" {
				return "empty-user-agent-is-not-written"
			}
		case "authorization":
			if e.cred && (emptyFirst || renamed) {
				return "site-credentials-fill-in-after-the-rules"
			}
		case "accept-encoding":
			if r.Method != "HEAD" && (emptyFirst || renamed) {
				return "transport-adds-gzip-after-the-rules"
			}
		case "connection", "upgrade":
			if upgradeRequested {
				return "requested-upgrade-is-re-added-after-the-rules"
			}
		}
		return ""
	}
	j.compareModel("message received by the hop = Model.Req.processRequest (with the rule list)")
	j.run()
	if res == nil || res.Status != 200 {
		ctx.Disagree("forwarded request is answered with the origin's response", hc, impl, "200")
	}
	// the modifier stack itself: the header map the rules saw (recorded in front of them) through
	// Model.C16.runStack stackOrder and Request.write's User-Agent rule
	if e.via != "rig" {
		return
	}
	v, ok := e.snaps.LoadAndDelete(id)
	if !ok {
		ctx.Disagree("the user supplied request modifiers run for a forwarded request", hc, impl, "modifier was called")
		return
	}
	for _, h := range rules {
		if k := strings.ToLower(h.Name); h.Action == header.RenameCase && (k == "user-agent" || k == "authorization") {
			return // a respelt key is outside what hopUA/hopAuthorization describe (F9c/F9d territory)
		}
	}
	var ruleHex []string
	for _, s := range hc.ReqRules {
		ruleHex = append(ruleHex, core.HexS(s))
	}
	cred := "~"
	if e.cred {
		cred = core.HexS(siteCredValue())
	}
	model := ctx.Model.MustAsk("C16", "stack", cred, core.JoinList(ruleHex), encMap(map[string][]string(v.(http.Header))))
	ua := "-"
	if vs := ex.Req.Values("User-Agent"); len(vs) == 1 {
		ua = core.HexS(vs[0])
	} else if len(vs) > 1 {
		ua = fmt.Sprintf("several:%q", vs)
	}
	got := "ok " + ua + " " + core.HexList(ex.Req.Values("Authorization"))
	ctx.Count("hop/rig/stack")
	if got != model {
		ctx.Disagree("User-Agent line and Authorization at the hop = Model.C16.hopUA / hopAuthorization stackOrder over the header map the rules saw",
			hc, got+" | "+impl, model)
	}
}

// ---- responses ----

func hopResponse(ctx *core.Ctx, e *hopEnv, hc *hopCase, id string, rules header.Headers) {
	if hc.Resp != "" {
		hopResponseOfKind(ctx, e, hc, id, rules)
		return
	}
	e.answers.Store(id, hc)
	defer e.answers.Delete(id)
	c, err := e.open(hc.Secure)
	if err != nil {
		ctx.Crash("proxy accepts a client connection", "", hc, err.Error())
		return
	}
	defer c.Close()
	target := "http://" + hopOrigin + "/hop/" + id
	if hc.Secure {
		target = "/hop/" + id
	}
	// Accept-Encoding is given so that the transport does not solicit gzip itself
	c.Send([]byte("GET "+target+" HTTP/1.1\r\nHost: "+hopOrigin+"\r\nAccept-Encoding: identity\r\n\r\n"), nil)
	res, rerr := c.ReadResponse("GET", 10*time.Second)
	impl := summariseHop(nil, res, rerr)
	if res == nil || rerr != nil {
		ctx.Disagree("the origin's response reaches the client", hc, impl, "200")
		ctx.SpecFail("each rule does what its syntax says on the forwarded message", "", hc, impl, "the client received no response")
		return
	}
	var fs []string
	for _, f := range hc.Fields {
		fs = append(fs, core.JoinList([]string{core.HexS(f.Name), core.HexS(f.Value)}))
	}
	respModel := func(rules []string) map[string][]string {
		ans := ctx.Model.MustAsk("RESP", "process", "method="+core.HexS("GET"), "reqminor=1", "reqclose=0", "gzip=0",
			"rules="+core.HexList(rules), "minor=1", "status=200", "reason="+core.HexS("OK"), "fields="+core.JoinList2(fs))
		f := strings.Fields(ans)
		if f[0] != "ok" {
			core.Fatalf("C16 hop: response model rejects the generated response: %s", ans)
		}
		model := map[string][]string{}
		for _, ent := range core.SplitList2(f[7]) {
			atoms := core.SplitList(ent)
			vs := []string{}
			for _, a := range atoms[1:] {
				vs = append(vs, string(core.MustUnHex(a)))
			}
			model[string(core.MustUnHex(atoms[0]))] = vs
		}
		return model
	}
	model := respModel(hc.RespRules)
	in := fieldMapOf(hc.Fields)
	chunked := len(in["transfer-encoding"]) > 0
	j := &judge{ctx: ctx, hc: hc, rules: rules, names: lowerNames(responseNames), got: res, model: model, impl: impl}
	if hc.Whole {
		j.base = respModel(nil)
	}
	j.pre = func(k string) []string {
		switch {
		case k == "transfer-encoding":
			return nil // consumed by the transport
		case k == "content-length" && chunked, k == "trailer" && chunked:
			return nil
		}
		return in[k]
	}
	connAfter, _, _ := applySpec(rules, "connection", in["connection"])
	nominated := connTokens(connAfter)
	j.dev = func(k string, ideal []string, renamed bool) string {
		switch {
		case k == "content-length" || k == "transfer-encoding" || k == "trailer":
			return "framing-is-written-by-net-http"
		case hopStatic[k] || nominated[k]:
			return "hop-by-hop-fields-are-removed-after-the-rules"
		}
		return ""
	}
	j.compareModel("message received by the client = Model.Resp.processResponse (with the rule list)")
	j.run()
}

// ---- CONNECT relayed to an upstream proxy ----

func hopConnect(ctx *core.Ctx, e *hopEnv, hc *hopCase, rules header.Headers) {
	cr := &reqmodel.ConnectReq{Authority: hopOrigin + ":443", Minor: 1,
		Fields: append([]rig.Field{{Name: "Host", Value: hopOrigin + ":443"}}, hc.Fields...)}
	c, err := rig.Dial(e.addr)
	if err != nil {
		ctx.Crash("proxy accepts a client connection", "", hc, err.Error())
		return
	}
	c.Send(cr.Wire(), nil)
	res, rerr := c.ReadResponse("CONNECT", 10*time.Second)
	c.Close()
	var ex *rig.Exchange
	for _, x := range e.up.Log() {
		if x.Req != nil && x.Req.Method == "CONNECT" {
			ex = x
		}
	}
	impl := summariseHop(ex, res, rerr)
	if ex != nil {
		e.adoptTag(ex.Req)
	}
	cfg := e.modelCfg(hc)
	mctx := reqmodel.Ctx{ClientIP: "127.0.0.1"}
	out := reqmodel.AskConnect(ctx.Model, &cfg, nil, &mctx, cr)
	if out.Kind != "tunnel" || len(out.Actions) != 1 || len(out.Actions[0].Sent) != 1 {
		core.Fatalf("C16 hop: model does not tunnel the generated CONNECT (%s): %s", out.Kind, cr.Wire())
	}
	if ex == nil {
		ctx.Disagree("relayed CONNECT reaches the upstream proxy", hc, impl, "tunnel")
		ctx.SpecFail("each rule does what its syntax says on the forwarded message", "", hc, impl, "the upstream proxy received no CONNECT")
		return
	}
	in := fieldMapOf(hc.Fields)
	nominated := connTokens(in["connection"])
	j := &judge{ctx: ctx, hc: hc, rules: rules, names: lowerNames(connectNames), got: ex.Req, model: out.Actions[0].Sent[0].Fields, impl: impl,
		fixed: map[string][]string{"host": {hopOrigin + ":443"}}}
	if hc.Whole {
		bare := cfg
		bare.ConnectRules = nil
		if b := reqmodel.AskConnect(ctx.Model, &bare, nil, &mctx, cr); b.Kind == "tunnel" && len(b.Actions) == 1 && len(b.Actions[0].Sent) == 1 {
			j.base = b.Actions[0].Sent[0].Fields
		}
	}
	j.pre = func(k string) []string {
		switch {
		case hopStatic[k] || nominated[k], k == "host":
			return nil
		case k == "via":
			if c := strings.Join(in[k], ", "); c != "" {
				return []string{c + ", 1.1 " + e.tag}
			}
			return []string{"1.1 " + e.tag}
		}
		return in[k]
	}
	// F47 (connect-header-second-pass-overwrites): the list is applied twice, to the client's CONNECT header
	// and, by GetProxyConnectHeader, to an EMPTY header that dialvia then copies over the first key by key.
	// The class is decided from the input alone: the second pass yields values for the name (a 'name:value'
	// rule is the last word on it there) and they are not what the documented meaning gives for what the
	// CONNECT carries under the name when the rules run (a field the client sent, or the proxy's own Via).
	secondPass := func(k string, ideal []string) bool {
		again, _, _ := applySpec(rules, k, nil)
		return len(again) > 0 && !sameVals(again, ideal)
	}
	j.class = func(k string, ideal []string) string {
		if secondPass(k, ideal) {
			return "connect-header-second-pass-overwrites"
		}
		return ""
	}
	j.dev = func(k string, ideal []string, renamed bool) string {
		switch k {
		case "host":
			return "host-is-written-from-the-request-target"
		case "content-length", "transfer-encoding", "trailer":
			return "framing-is-written-by-net-http"
		}
		if secondPass(k, ideal) {
			return "" // the proxy's own code, not the library: judged against the documented meaning (F47)
		}
		if k == "user-agent" {
			if len(ideal) > 1 {
				return "user-agent-first-value-only"
			}
			if len(ideal) == 1 && ideal[0] == "" {
				return "empty-user-agent-is-not-written"
			}
		}
		return ""
	}
	j.compareModel("CONNECT received by the upstream proxy = Model.Req.processConnect (with the connect rule list)")
	j.run()
	// both passes of the connect list over the header the rules saw (recorded in front of them):
	// Model.C16.connectHeadMap, for the names the list touches (lines net/http writes itself aside)
	if e.via != "rig" {
		return
	}
	v, ok := e.snaps.LoadAndDelete("connect")
	if !ok {
		ctx.Disagree("the user supplied request modifiers run for a relayed CONNECT", hc, impl, "modifier was called")
		return
	}
	var ruleHex []string
	for _, s := range hc.ConnRules {
		ruleHex = append(ruleHex, core.HexS(s))
	}
	ans := ctx.Model.MustAsk("C16", "connecthead", core.JoinList(ruleHex), encMap(map[string][]string(v.(http.Header))))
	if !strings.HasPrefix(ans, "ok ") {
		ctx.Disagree("CONNECT head = Model.C16.connectHeadMap", hc, impl, ans)
		return
	}
	want := map[string][]string{}
	keys := map[string][]string{}
	mm := decMap(strings.TrimPrefix(ans, "ok "))
	for k := range mm {
		keys[strings.ToLower(k)] = append(keys[strings.ToLower(k)], k)
	}
	for lk, ks := range keys {
		sort.Strings(ks) // net/http writes the keys of the map in sorted order
		for _, k := range ks {
			want[lk] = append(want[lk], mm[k]...)
		}
	}
	gotMap := ex.Req.FieldMap()
	ctx.Count("hop/rig/connecthead")
	for _, k := range j.names {
		if !touches(rules, k) || writtenByLibrary[k] {
			continue
		}
		if !sameVals(gotMap[k], want[k]) {
			ctx.Disagree("fields of the CONNECT received by the upstream proxy = Model.C16.connectHeadMap over the header the rules saw",
				hc, fmt.Sprintf("%s: got %q | %s", k, gotMap[k], impl), fmt.Sprintf("%q", want[k]))
		}
	}
}

// ---- the transport's own CONNECT for an intercepted request ----

func hopTransportConnect(ctx *core.Ctx, e *hopEnv, hc *hopCase, id string, rules header.Headers) {
	c, err := e.open(true)
	if err != nil {
		ctx.Crash("proxy accepts a client connection", "", hc, err.Error())
		return
	}
	defer c.Close()
	r := &reqmodel.Request{Method: "GET", Minor: 1, Path: "/hop/" + id, Fields: []rig.Field{{Name: "Host", Value: hopOrigin}}}
	c.Send(r.Wire(), nil)
	res, rerr := c.ReadResponse("GET", 10*time.Second)
	var ex *rig.Exchange
	for _, x := range e.up.Log() {
		if x.Req != nil && x.Req.Method == "CONNECT" {
			ex = x
		}
	}
	impl := summariseHop(ex, res, rerr)
	if ex != nil {
		e.adoptTag(ex.Req)
	}
	cfg := e.modelCfg(hc)
	cfg.Rules = nil
	mctx := reqmodel.Ctx{ClientIP: "127.0.0.1", Secure: true}
	out := reqmodel.AskRequest(ctx.Model, &cfg, nil, &mctx, r)
	var want map[string][]string
	for _, a := range out.Actions {
		for _, s := range a.Sent {
			if s.Setup && s.Method == "CONNECT" {
				want = s.Fields
			}
		}
	}
	if want == nil {
		core.Fatalf("C16 hop: model has no transport CONNECT for the intercepted request (%s)", out.Kind)
	}
	if ex == nil {
		ctx.Disagree("the transport's CONNECT reaches the upstream proxy", hc, impl, "CONNECT")
		ctx.SpecFail("each rule does what its syntax says on the forwarded message", "", hc, impl, "the upstream proxy received no CONNECT")
		return
	}
	j := &judge{ctx: ctx, hc: hc, rules: rules, names: lowerNames(connectNames), got: ex.Req, model: want, impl: impl,
		fixed: map[string][]string{"host": {hopOrigin + ":443"}}}
	j.pre = func(string) []string { return nil } // GetProxyConnectHeader starts from an empty header
	j.dev = func(k string, ideal []string, renamed bool) string {
		switch k {
		case "host":
			return "host-is-written-from-the-request-target"
		case "content-length", "transfer-encoding", "trailer":
			return "framing-is-written-by-net-http"
		case "user-agent":
			if len(ideal) == 0 {
				return "transport-connect-carries-the-library-user-agent"
			}
			if len(ideal) > 1 {
				return "user-agent-first-value-only"
			}
			if ideal[0] == "" {
				return "empty-user-agent-is-not-written"
			}
		}
		return ""
	}
	j.compareModel("CONNECT the transport sends to the upstream proxy = Model.Req.transportConnectHead (with the connect rule list)")
	j.run()
}
