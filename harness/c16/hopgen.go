package c16

import (
	"fmt"
	"strings"
	"sync"

	"github.com/saucelabs/forwarder/verifharness/core"
	"github.com/saucelabs/forwarder/verifharness/rig"
)

// nameSpec is one name the pipeline treats specially, with what a sender may put under it.
type nameSpec struct {
	Name    string      // canonical spelling
	Label   string      // "" = Name
	Vals    []string    // values on the wire (the first alone = "one", all = "several")
	Extra   []rig.Field // fields that go with it (e.g. a Connection field nominating it)
	RuleVal string      // value a 'name:value' rule gives it
	Method  string      // "" = GET
	Body    string
	Chunked bool
	Always  bool // cannot be left out (Host) / is part of the framing: no "none" variant
	Single  bool // cannot be repeated on the wire
}

func (s nameSpec) label() string {
	if s.Label != "" {
		return s.Label
	}
	return s.Name
}

var requestNames = []nameSpec{
	{Name: "User-Agent", Vals: []string{"curl/8.0", "second/2.0"}, RuleVal: "probe/1.0"},
	{Name: "Authorization", Vals: []string{"Bearer client-1", "Bearer client-2"}, RuleVal: "Bearer rule"},
	{Name: "Proxy-Authorization", Vals: []string{"Basic Y2w6cHc=", "Basic b3RoZXI6cHc="}, RuleVal: "Basic cnVsZTpwdw=="},
	{Name: "Host", Vals: []string{hopOrigin}, RuleVal: "other.test", Always: true, Single: true},
	{Name: "Content-Length", Vals: []string{"5"}, RuleVal: "7", Method: "POST", Body: "hello", Single: true},
	{Name: "Transfer-Encoding", Vals: []string{"chunked"}, RuleVal: "gzip", Method: "POST", Body: "hello", Chunked: true, Single: true},
	{Name: "Connection", Vals: []string{"keep-alive", "X-Other"}, RuleVal: "X-Rule-Option"},
	{Name: "X-Nominated", Vals: []string{"n1", "n2"}, Extra: []rig.Field{{Name: "Connection", Value: "X-Nominated"}}, RuleVal: "by-rule"},
	{Name: "Keep-Alive", Vals: []string{"timeout=5"}, RuleVal: "timeout=9"},
	{Name: "Via", Vals: []string{"1.0 fred", "1.1 barney"}, RuleVal: "1.1 rule"},
	{Name: "X-Forwarded-For", Vals: []string{"10.1.1.1", "10.2.2.2"}, RuleVal: "10.9.9.9"},
	{Name: "X-Forwarded-Proto", Vals: []string{"https"}, RuleVal: "https", Single: true},
	{Name: "X-Forwarded-Host", Vals: []string{"fh.example", "fh2.example"}, RuleVal: "rule.example"},
	{Name: "X-Forwarded-Url", Vals: []string{"http://u.example/p"}, RuleVal: "http://rule.example/"},
	{Name: "Accept-Encoding", Vals: []string{"br", "identity"}, RuleVal: "deflate"},
	{Name: "Accept-Encoding", Label: "Accept-Encoding(HEAD)", Vals: []string{"br"}, RuleVal: "deflate", Method: "HEAD"},
	{Name: "Cookie", Vals: []string{"a=1", "b=2"}, RuleVal: "r=1"},
	{Name: "Expect", Vals: []string{"100-continue"}, RuleVal: "x-rule-expectation", Single: true},
	{Name: "Te", Vals: []string{"trailers", "deflate"}, RuleVal: "trailers"},
	{Name: "Trailer", Vals: []string{"X-T"}, RuleVal: "X-R"},
	{Name: "Upgrade", Vals: []string{"websocket"}, RuleVal: "h2c"},
	{Name: "Upgrade", Label: "Upgrade(requested)", Vals: []string{"websocket"}, Extra: []rig.Field{{Name: "Connection", Value: "Upgrade"}}, RuleVal: "h2c", Always: true, Single: true},
	{Name: "X-Plain", Vals: []string{"p1", "p2"}, RuleVal: "by-rule"},
}

var responseNames = []nameSpec{
	{Name: "Content-Length", Vals: []string{"2"}, RuleVal: "7", Always: true, Single: true},
	{Name: "Transfer-Encoding", Vals: []string{"chunked"}, RuleVal: "gzip", Chunked: true, Always: true, Single: true},
	{Name: "Connection", Vals: []string{"keep-alive", "X-Other"}, RuleVal: "X-Rule-Option"},
	{Name: "X-Nominated", Vals: []string{"n1", "n2"}, Extra: []rig.Field{{Name: "Connection", Value: "X-Nominated"}}, RuleVal: "by-rule"},
	{Name: "Keep-Alive", Vals: []string{"timeout=5"}, RuleVal: "timeout=9"},
	{Name: "Proxy-Authenticate", Vals: []string{"Basic realm=\"o\""}, RuleVal: "Basic realm=r"},
	{Name: "Www-Authenticate", Vals: []string{"Basic realm=\"o\"", "Bearer"}, RuleVal: "Basic realm=r"},
	{Name: "Set-Cookie", Vals: []string{"a=1", "b=2"}, RuleVal: "r=1"},
	{Name: "Server", Vals: []string{"origin/1"}, RuleVal: "rule/1"},
	{Name: "Date", Vals: []string{"Mon, 01 Jan 2024 00:00:00 GMT"}, RuleVal: "Tue 02 Jan 2024 00:00:00 GMT"}, // (no comma: the flags are comma separated lists)
	{Name: "Content-Type", Vals: []string{"text/plain"}, RuleVal: "text/html"},
	{Name: "Content-Encoding", Vals: []string{"identity"}, RuleVal: "br"},
	{Name: "Via", Vals: []string{"1.1 origin-side", "1.0 cache"}, RuleVal: "1.1 rule"},
	{Name: "Trailer", Vals: []string{"X-T"}, RuleVal: "X-R"},
	{Name: "Upgrade", Vals: []string{"h2c"}, RuleVal: "websocket"},
	{Name: "Te", Vals: []string{"trailers"}, RuleVal: "trailers"},
	{Name: "Vary", Vals: []string{"Accept-Encoding", "Cookie"}, RuleVal: "Origin"},
	{Name: "User-Agent", Vals: []string{"origin-agent"}, RuleVal: "probe/1.0"},
	{Name: "Authorization", Vals: []string{"Bearer o"}, RuleVal: "Bearer rule"},
	{Name: "X-Plain", Vals: []string{"p1", "p2"}, RuleVal: "by-rule"},
	{Name: "X-Forwarder-Error", Vals: []string{"origin-side error"}, RuleVal: "by-rule"}, // (the proxy's own error responses carry it)
}

var connectNames = []nameSpec{
	{Name: "User-Agent", Vals: []string{"curl/8.0", "second/2.0"}, RuleVal: "probe/1.0"},
	{Name: "Proxy-Authorization", Vals: []string{"Basic Y2w6cHc="}, RuleVal: "Basic cnVsZTpwdw=="},
	{Name: "Authorization", Vals: []string{"Bearer client-1", "Bearer client-2"}, RuleVal: "Bearer rule"},
	{Name: "Host", Vals: []string{hopOrigin + ":443"}, RuleVal: "other.test:443", Always: true, Single: true},
	{Name: "Connection", Vals: []string{"keep-alive", "X-Other"}, RuleVal: "X-Rule-Option"},
	{Name: "X-Nominated", Vals: []string{"n1", "n2"}, Extra: []rig.Field{{Name: "Connection", Value: "X-Nominated"}}, RuleVal: "by-rule"},
	{Name: "Via", Vals: []string{"1.0 fred", "1.1 barney"}, RuleVal: "1.1 rule"},
	{Name: "X-Forwarded-For", Vals: []string{"10.1.1.1", "10.2.2.2"}, RuleVal: "10.9.9.9"},
	{Name: "Accept-Encoding", Vals: []string{"br"}, RuleVal: "deflate"},
	{Name: "Cookie", Vals: []string{"a=1", "b=2"}, RuleVal: "r=1"},
	{Name: "Content-Length", Vals: []string{"0"}, RuleVal: "7", Single: true},
	{Name: "Te", Vals: []string{"trailers"}, RuleVal: "trailers"},
	{Name: "Upgrade", Vals: []string{"websocket"}, RuleVal: "h2c"},
	{Name: "X-Plain", Vals: []string{"p1", "p2"}, RuleVal: "by-rule"},
}

// oddSpelling is a spelling of the name that is not the canonical one.
func oddSpelling(n string) string {
	l := strings.ToLower(n)
	if l != n {
		return l
	}
	return strings.ToUpper(n)
}

// ruleKinds are the five rule kinds for one name; kind 1 is the prefix rule with the prefix cut short
// by cut bytes (cut 0: the whole name as prefix).
func ruleOfKind(s nameSpec, kind, cut int) string {
	switch kind {
	case 0:
		return "-" + s.Name
	case 1:
		p := strings.ToLower(s.Name)
		if cut > 0 && cut < len(p) {
			p = p[:len(p)-cut]
		}
		return "-" + p + "*"
	case 2:
		return s.Name + ";"
	case 3:
		return s.Name + ": " + s.RuleVal
	default:
		return "%" + oddSpelling(s.Name)
	}
}

// ruleListsFor are the rule lists tried against one name: every kind alone, and short sequences in which
// the rules meet on the name.
func ruleListsFor(s nameSpec) [][]string {
	n := s.Name
	return [][]string{
		{ruleOfKind(s, 0, 0)},
		{"-" + oddSpelling(n)},
		{ruleOfKind(s, 1, 0)},
		{ruleOfKind(s, 1, 1)},
		{ruleOfKind(s, 2, 0)},
		{ruleOfKind(s, 3, 0)},
		{ruleOfKind(s, 4, 0)},
		{ruleOfKind(s, 3, 0), n + ": second"},
		{ruleOfKind(s, 0, 0), ruleOfKind(s, 3, 0)},
		{ruleOfKind(s, 3, 0), ruleOfKind(s, 0, 0)},
		{ruleOfKind(s, 2, 0), ruleOfKind(s, 3, 0)},
		{"X-Unrelated: 1", ruleOfKind(s, 1, 2), "-X-Unrelated-2"},
	}
}

// sentVariants: what the sender puts under the name: nothing, one value, several field lines.
func sentVariants(s nameSpec) [][]rig.Field {
	var out [][]rig.Field
	mk := func(vals []string) []rig.Field {
		var fs []rig.Field
		fs = append(fs, s.Extra...)
		for _, v := range vals {
			fs = append(fs, rig.Field{Name: s.Name, Value: v})
		}
		return fs
	}
	if !s.Always {
		out = append(out, mk(nil))
	}
	out = append(out, mk(s.Vals[:1]))
	if !s.Single && len(s.Vals) > 1 {
		out = append(out, mk(s.Vals))
	}
	return out
}

func variantName(fs []rig.Field, name string) string {
	n := 0
	for _, f := range fs {
		if f.Name == name {
			n++
		}
	}
	return []string{"none", "one", "several", "several"}[min(n, 3)]
}

// message builds the case's message for a name and a sent variant. The framing fields of the message are
// part of Fields (for Host: the fixed Host line is the sent value, so the variant's own line is dropped).
func (s nameSpec) message(hc *hopCase, sent []rig.Field) {
	hc.Label = s.label() + "/" + variantName(sent, s.Name)
	hc.Method, hc.Body, hc.Chunked = s.Method, "", false
	hc.Fields = nil
	for _, f := range sent {
		if s.Name == "Host" && f.Name == "Host" {
			continue
		}
		hc.Fields = append(hc.Fields, f)
	}
	has := func(n string) bool {
		for _, f := range sent {
			if f.Name == n {
				return true
			}
		}
		return false
	}
	switch hc.Side {
	case "request":
		if s.Body != "" && (has("Content-Length") || has("Transfer-Encoding")) {
			hc.Body, hc.Chunked = s.Body, s.Chunked
		} else if s.Body != "" {
			hc.Method = "" // no framing sent: a bodiless GET
		}
	case "response":
		hc.Method = ""
		hc.Body = "ok"
		if !has("Content-Length") && !has("Transfer-Encoding") {
			hc.Fields = append(hc.Fields, rig.Field{Name: "Content-Length", Value: "2"})
		}
	case "connect":
		hc.Method = ""
	}
}

type envKey struct {
	via                  string
	mitm, upstream, cred bool
	rules                string // binary: the flags
	handler              bool   // rig: served through martian's http.Handler
}

type hopPool struct {
	mu   sync.Mutex
	envs map[envKey]*hopEnv
	ctx  *core.Ctx
}

func (p *hopPool) get(hc *hopCase) (*hopEnv, error) {
	k := envKey{via: hc.Via, mitm: hc.MITM, upstream: hc.Upstream, cred: hc.Cred, handler: hc.Handler}
	if hc.Via == "binary" {
		k.rules = fmt.Sprint(hc.ReqRules, "\x00", hc.ConnRules, "\x00", hc.RespRules)
	}
	p.mu.Lock()
	defer p.mu.Unlock()
	if e, ok := p.envs[k]; ok {
		return e, nil
	}
	var e *hopEnv
	var err error
	if hc.Via == "binary" {
		e, err = newBinaryEnv(p.ctx, hc.MITM, hc.Upstream, hc.Cred, hc.ReqRules, hc.ConnRules, hc.RespRules)
	} else {
		e, err = newRigEnv(p.ctx, hc.MITM, hc.Upstream, hc.Cred, hc.Handler)
	}
	if err != nil {
		return nil, err
	}
	p.envs[k] = e
	return e, nil
}

func (p *hopPool) closeAll() {
	for _, e := range p.envs {
		e.close()
	}
}

// sideSpecs gives the names of a side.
func sideSpecs(side string) []nameSpec {
	switch side {
	case "request":
		return requestNames
	case "response":
		return responseNames
	}
	return connectNames
}

func setRules(hc *hopCase, rules []string) {
	hc.ReqRules, hc.ConnRules, hc.RespRules = nil, nil, nil
	switch hc.Side {
	case "request":
		hc.ReqRules = rules
	case "response":
		hc.RespRules = rules
	default:
		hc.ConnRules = rules
	}
}

// rigCases: every name x every rule list of ruleListsFor x every sent variant, in the configurations of
// the side; all of them in the thorough tier, in the quick tier all single-kind lists and a draw of the rest.
func rigCases(ctx *core.Ctx) map[envKey][]*hopCase {
	type conf struct {
		side                 string
		mitm, upstream, cred bool
	}
	confs := []conf{
		{"request", false, false, false}, {"request", false, false, true}, {"request", false, true, false},
		{"request", true, false, false}, {"request", true, false, true}, {"request", false, true, true},
		{"response", false, false, false}, {"response", true, false, false},
		{"connect", false, true, false}, {"connect", false, true, true},
		{"transport-connect", true, true, false},
	}
	out := map[envKey][]*hopCase{}
	r := ctx.Rng.Sub()
	for _, cf := range confs {
		for _, s := range sideSpecs(cf.side) {
			for li, rules := range ruleListsFor(s) {
				variants := sentVariants(s)
				if cf.side == "transport-connect" {
					variants = variants[:1]
				}
				for _, sent := range variants {
					if ctx.Quick() {
						// the names whose hop value the modifier stack or the library decides are always run in full
						always := s.Name == "User-Agent" || s.Name == "Authorization" || s.Name == "Accept-Encoding"
						if !always && li >= 7 && !r.Chance(35) {
							continue
						}
						if !always && (cf.cred || cf.side == "request" && cf.mitm) && !r.Chance(40) {
							continue
						}
					}
					hc := &hopCase{Kind: "hop", Via: "rig", Side: cf.side, MITM: cf.mitm, Secure: cf.mitm, Upstream: cf.upstream, Cred: cf.cred}
					setRules(hc, rules)
					s.message(hc, sent)
					k := envKey{via: "rig", mitm: cf.mitm, upstream: cf.upstream, cred: cf.cred}
					out[k] = append(out[k], hc)
				}
			}
		}
	}
	// the response list on every kind of response the client can be sent (respKinds), in the four environments
	for _, cf := range []struct{ mitm, upstream, handler bool }{{false, false, false}, {true, false, false}, {false, true, false}, {true, true, false},
		{false, false, true}, {false, true, true}} {
		k := envKey{via: "rig", mitm: cf.mitm, upstream: cf.upstream, handler: cf.handler}
		for _, kind := range kindsFor(cf.mitm, cf.upstream) {
			rk := respKinds[kind]
			if cf.handler && (kind == "101" || kind == "timeout" || rk.model == "origin-header-only") {
				continue // (net/http's server rewrites the head of a header-only response: Content-Type, Content-Length)
			}
			slow := 0
			for _, s := range responseNames {
				if cf.handler && (s.Name == "Content-Length" || s.Name == "Transfer-Encoding" || s.Name == "Trailer") {
					continue // (net/http's server takes the framing fields of the handler's header at their word)
				}
				for li, rules := range ruleListsFor(s) {
					variants := sentVariants(s)
					if rk.local {
						variants = variants[:1]
					}
					if ctx.Quick() {
						if li < 7 && !r.Chance(25) || li >= 7 && !r.Chance(10) {
							continue
						}
						variants = [][]rig.Field{core.Pick(r, variants)}
					}
					for _, sent := range variants {
						if kind == "timeout" {
							if slow++; slow > ctx.N(1, 6) {
								continue
							}
						}
						hc := &hopCase{Kind: "hop", Via: "rig", Side: "response", MITM: cf.mitm, Secure: cf.mitm && !rk.connect, Upstream: cf.upstream, Resp: kind, Handler: cf.handler}
						setRules(hc, rules)
						if rk.connect {
							hc.ConnRules = rules // (connect rules touch no response either)
						}
						s.message(hc, sent)
						shapeForKind(r, hc, s)
						out[k] = append(out[k], hc)
					}
				}
			}
		}
	}
	return out
}

// binaryConfigs: rule lists for `forwarder run`: in configuration i name j gets the rule of kind
// (i+j) mod 5, for all three lists at once, so that five configurations run every kind against every name.
func binaryConfigs(i int) (req, conn, resp []string) {
	mk := func(specs []nameSpec) []string {
		var out []string
		seen := map[string]bool{}
		j := 0
		for _, s := range specs {
			if seen[s.Name] {
				continue
			}
			seen[s.Name] = true
			out = append(out, ruleOfKind(s, (i+j)%5, 0))
			j++
		}
		return out
	}
	return mk(requestNames), mk(connectNames), mk(responseNames)
}

func binaryCases(ctx *core.Ctx) map[envKey][]*hopCase {
	out := map[envKey][]*hopCase{}
	for i := 0; i < 5; i++ {
		req, conn, resp := binaryConfigs(i)
		type conf struct {
			side                 string
			mitm, upstream, cred bool
			secure               bool
		}
		// two processes per configuration: (a) --mitm --credentials: direct and intercepted requests,
		// responses; (b) --proxy: requests and CONNECTs through the upstream proxy; and one (c)
		// --mitm --proxy process for the transport's own CONNECT
		confs := []conf{{"request", true, false, true, false}, {"request", true, false, true, true}, {"response", true, false, true, false},
			{"response", true, false, true, true}, {"request", false, true, false, false}, {"connect", false, true, false, false}}
		if i == 0 || !ctx.Quick() {
			confs = append(confs, conf{"transport-connect", true, true, false, true})
		}
		for _, cf := range confs {
			for _, s := range sideSpecs(cf.side) {
				variants := sentVariants(s)
				if cf.side == "transport-connect" {
					if s.Name != "User-Agent" {
						continue // one intercepted request shows the CONNECT head; all names are judged on it
					}
					variants = variants[:1]
				}
				for _, sent := range variants {
					hc := &hopCase{Kind: "hop", Via: "binary", Side: cf.side, MITM: cf.mitm, Secure: cf.secure, Upstream: cf.upstream, Cred: cf.cred,
						ReqRules: req, ConnRules: conn, RespRules: resp}
					s.message(hc, sent)
					k := envKey{via: "binary", mitm: cf.mitm, upstream: cf.upstream, cred: cf.cred, rules: fmt.Sprint(i)}
					out[k] = append(out[k], hc)
				}
			}
		}
		// the kinds of response (respKinds) through the same processes: every name for the kinds whose message the
		// case writes, one case for the kinds the proxy generates itself
		r := ctx.Rng.Sub()
		type kconf struct{ mitm, upstream, cred, secure bool }
		kconfs := []kconf{{true, false, true, false}, {true, false, true, true}, {false, true, false, false}}
		if i == 0 || !ctx.Quick() {
			kconfs = append(kconfs, kconf{true, true, false, true})
		}
		for _, cf := range kconfs {
			k := envKey{via: "binary", mitm: cf.mitm, upstream: cf.upstream, cred: cf.cred, rules: fmt.Sprint(i)}
			for _, kind := range kindsFor(cf.mitm, cf.upstream) {
				rk := respKinds[kind]
				if rk.connect && cf.secure {
					continue
				}
				// (the binary redials a refused address with a back-off, and a response header timeout has to run out:
				// about two seconds a case; the quick tier takes them through one process each)
				if ctx.Quick() && (kind == "timeout" && (i != 0 || cf.secure) || kind == "refused" && i != 1) {
					continue
				}
				for _, s := range responseNames {
					if (rk.local || kind == "101") && s.Name != "X-Plain" {
						continue
					}
					variants := sentVariants(s)
					if rk.local {
						variants = variants[:1]
					} else if ctx.Quick() {
						variants = [][]rig.Field{core.Pick(r, variants)}
					}
					for _, sent := range variants {
						hc := &hopCase{Kind: "hop", Via: "binary", Side: "response", MITM: cf.mitm, Secure: cf.secure, Upstream: cf.upstream, Cred: cf.cred,
							ReqRules: req, ConnRules: conn, RespRules: resp, Resp: kind}
						s.message(hc, sent)
						shapeForKind(r, hc, s)
						out[k] = append(out[k], hc)
					}
				}
			}
		}
	}
	return out
}

// runAllHops runs the environments side by side, the cases of one environment one after the other.
func runAllHops(ctx *core.Ctx) {
	groups := rigCases(ctx)
	for k, v := range binaryCases(ctx) {
		groups[k] = v
	}
	var wg sync.WaitGroup
	sem := make(chan struct{}, 8)
	sampled := false
	for _, cases := range groups {
		if !sampled && cases[0].Via == "rig" {
			ctx.Sample(cases[0])
			sampled = true
		}
		wg.Add(1)
		go func(cases []*hopCase) {
			defer wg.Done()
			sem <- struct{}{}
			defer func() { <-sem }()
			pool := &hopPool{envs: map[envKey]*hopEnv{}, ctx: ctx}
			defer pool.closeAll()
			e, err := pool.get(cases[0])
			if err != nil {
				ctx.Crash("the proxy starts with header-rule lists", "", cases[0], err.Error())
				return
			}
			for _, hc := range cases {
				runHop(ctx, e, hc)
			}
		}(cases)
	}
	wg.Wait()
}

func replayHop(ctx *core.Ctx, hc *hopCase) {
	if hc.Source != nil {
		replaySource(ctx, hc.Source)
		return
	}
	pool := &hopPool{envs: map[envKey]*hopEnv{}, ctx: ctx}
	defer pool.closeAll()
	e, err := pool.get(hc)
	if err != nil {
		ctx.Crash("the proxy starts with header-rule lists", "", hc, err.Error())
		return
	}
	runHop(ctx, e, hc)
}
