// Package c16 ties the Lean model of the header rewrite rules (Model/C16.lean) to
// /repo/header/header.go through the exported ParseHeader / Apply / String API.
package c16

import (
	"encoding/json"
	"fmt"
	"net/http"
	"sort"
	"strings"

	"github.com/saucelabs/forwarder/header"
	"github.com/saucelabs/forwarder/verifharness/core"
	"github.com/saucelabs/forwarder/verifharness/rig"
)

func init() { core.Register("C16", core.Scenario{Run: Run, Replay: Replay}) }

type parseCase struct {
	Kind string `json:"kind"` // "parse"
	Raw  string `json:"raw"`  // rule string, hex
}

type applyCase struct {
	Kind  string              `json:"kind"` // "apply"
	Rules []string            `json:"rules_hex"`
	Map   map[string][]string `json:"map"`
	Via   string              `json:"via"` // "Apply" | "ModifyRequest" | "ModifyResponse"
}

var names = []string{
	"X-Foo", "x-foo", "X-FOO", "X-Foo-Bar", "x-foo-bar", "X-F", "X-", "x", "X", "Accept", "accept",
	"Accept-Encoding", "ACCEPT-ENCODING", "Content-Type", "content-type", "A-1", "a-1", "1-a", "-a", "a-", "--",
	"Cookie", "Set-Cookie", "set-cookie", "Timestamp", "timestamp", "ETag", "Etag", "etag", "X-Forwarded-For",
}

var actName = map[header.Action]string{
	header.Remove: "remove", header.RemoveByPrefix: "removePrefix", header.Empty: "empty",
	header.Add: "add", header.RenameCase: "rename",
}

func genName(r *core.Rand) string {
	if r.Chance(85) {
		return core.Pick(r, names)
	}
	n := r.Range(1, 6)
	const al = "abXY-09z"
	var b strings.Builder
	for i := 0; i < n; i++ {
		b.WriteByte(al[r.Intn(len(al))])
	}
	return b.String()
}

func genValue(r *core.Rand) string {
	const al = "abc XYZ;:,=\t\"'%-*/09"
	n := r.Range(0, 10)
	var b strings.Builder
	for i := 0; i < n; i++ {
		b.WriteByte(al[r.Intn(len(al))])
	}
	return b.String()
}

// genRule produces a rule string from the grammar (valid with high probability).
func genRule(r *core.Rand, forApply bool) string {
	n := genName(r)
	if !forApply && r.Chance(6) {
		n = confuse(r, n)
	}
	switch r.Intn(9) {
	case 0:
		return "-" + n
	case 1:
		// prefix removal: often a proper prefix of a pool name
		if r.Chance(60) && len(n) > 1 {
			n = n[:r.Range(1, len(n))]
		}
		return "-" + n + "*"
	case 2:
		if !forApply && r.Chance(40) {
			return genSemi(r, n)
		}
		return n + ";"
	case 3:
		if r.Chance(35) {
			// a name that is already in canonical spelling: the rule must leave the map alone
			return "%" + http.CanonicalHeaderKey(n)
		}
		return "%" + n
	case 4, 5, 6:
		v := genValue(r)
		sep := core.Pick(r, []string{":", ": ", ":  ", ":\t"})
		s := n + sep + v
		if !forApply {
			// line endings and control characters the parser has to deal with
			switch r.Intn(12) {
			case 0:
				s += "\r\n"
			case 1:
				s += "\n"
			case 2:
				s += "\r"
			case 3:
				s += ";\n"
			case 4:
				s = n + ":" + v + "\r" + genValue(r)
			case 5:
				s = n + ":" + v + "\n" + genValue(r)
			case 6:
				s = n + ":\n\n" + v
			case 7:
				s = genSemi(r, n)
			case 8:
				s = genCR(r, n, v)
			}
		} else if r.Chance(15) {
			s += ";" // an add rule whose value ends in ';' (accepted without a line break since F9e's repair)
		}
		return s
	default:
		if forApply {
			return n + ":" + genValue(r)
		}
		// malformed stream
		switch r.Intn(8) {
		case 0:
			return ""
		case 1:
			return core.Pick(r, []string{"-", "%", ";", "-*", ":", "*", "-;", "%;", "-%x", "x:y;", "-x:y", "%x:y"})
		case 2:
			return string(r.Bytes(r.Range(1, 8)))
		case 3:
			return n + " :" + genValue(r)
		case 4:
			return n + "_x:" + genValue(r)
		case 5:
			return "é" + n + ":v"
		case 6:
			return "-" + n + "**"
		default:
			return n + genValue(r)
		}
	}
}

// confusables are runes outside ASCII that Unicode relates to an ASCII letter or digit: the two that
// simple case folding maps INTO a–z (U+212A KELVIN SIGN ~ k, U+017F LONG S ~ s; a case-insensitive
// regexp class [a-z] matches them), dotted/dotless i, full-width forms, a Greek and a Cyrillic
// look-alike, a combining mark and a non-breaking hyphen. A rule whose name holds one is not a legal
// field name whatever the rule kind, so the parser has to refuse it.
var confusables = map[byte][]string{
	'k': {"\u212a"}, 'K': {"\u212a"}, 's': {"\u017f"}, 'S': {"\u017f"},
	'i': {"\u0131", "\u0130"}, 'I': {"\u0130", "\u0131"},
	'a': {"\uff41", "\u0430", "\u03b1"}, 'A': {"\uff21", "\u0391"}, 'e': {"\u0435", "e\u0301"},
	'o': {"\u03bf", "\uff4f"}, 'c': {"\u0441"}, 'p': {"\u0440"}, 'x': {"\u0445"},
	'-': {"\u2011", "\u2010", "\uff0d"}, '0': {"\uff10"}, '9': {"\uff19"},
}

// confuse replaces one character of n by a non-ASCII relative (preferring k and s, the two letters a
// folding regexp would let through), or inserts one where n has no letter with a relative.
func confuse(r *core.Rand, n string) string {
	var at []int
	var ks []int
	for i := 0; i < len(n); i++ {
		if _, ok := confusables[n[i]]; ok {
			at = append(at, i)
			switch n[i] {
			case 'k', 'K', 's', 'S':
				ks = append(ks, i)
			}
		}
	}
	if len(ks) > 0 && r.Chance(70) {
		at = ks
	}
	if len(at) == 0 {
		i := r.Intn(len(n) + 1)
		return n[:i] + core.Pick(r, []string{"\u212a", "\u017f", "\u0131", "\u00e9"}) + n[i:]
	}
	i := at[r.Intn(len(at))]
	return n[:i] + core.Pick(r, confusables[n[i]]) + n[i+1:]
}

// genSemi produces rule strings around the set-empty / add boundary: something ending in ';',
// optionally followed by a line ending. "name;" is the set-empty rule; "name:value;" is an add rule
// whose value ends in ';' and must print back to a string that parses to the same rule; anything else
// ending in ';' (or a set-empty rule followed by a line break) is rejected.
func genSemi(r *core.Rand, n string) string {
	var s string
	switch r.Intn(8) {
	case 0:
		s = n + ";"
	case 1:
		s = n + ":" + genValue(r) + ";"
	case 2:
		s = n + core.Pick(r, []string{": ", ":\t", ":  "}) + genValue(r) + ";"
	case 3:
		s = n + ":;"
	case 4:
		s = n + ";;"
	case 5:
		s = n + core.Pick(r, []string{" ;", "_;", ":;;", "; ;", ";x;"})
	case 6:
		s = n + ":" + genValue(r) + ";" + genValue(r) + ";"
	default:
		s = core.Pick(r, []string{";", ":;", "-;", "%;", "a:b;", "a;", "-a;", "%a;", "a:;", "a: ;", "a:b;;", "a;b;"})
	}
	return s + core.Pick(r, []string{"", "", "\n", "\r\n", "\r", "\n\n", "\r\r\n", ";\n"})
}

// genCR puts a CR (sometimes an LF) at a chosen position of an add rule — before the colon, right after
// it, inside the leading white space, at every offset of the value, before the final line ending:
// wherever the rule is accepted the value must be free of CR and LF.
func genCR(r *core.Rand, n, v string) string {
	c := "\r"
	if r.Chance(15) {
		c = "\n"
	}
	sep := core.Pick(r, []string{":", ": ", ":\t "})
	end := core.Pick(r, []string{"", "\n", "\r\n", "\r"})
	switch r.Intn(6) {
	case 0: // every position of the value
		i := r.Range(0, len(v))
		return n + sep + v[:i] + c + v[i:] + end
	case 1: // inside / around the white space after the colon (\s matches CR and LF)
		ws := core.Pick(r, []string{c, " " + c, c + " ", " " + c + " ", c + c, c + "\n", "\t" + c + "\t"})
		return n + ":" + ws + v + end
	case 2: // before the colon, inside the name
		i := r.Range(0, len(n))
		return n[:i] + c + n[i:] + sep + v + end
	case 3: // several
		i := r.Range(0, len(v))
		return n + sep + c + v[:i] + c + v[i:] + c + end
	case 4: // trailing combinations the tail `\r?\n?$` must or must not absorb
		return n + sep + v + core.Pick(r, []string{"\r\r", "\r\r\n", "\n\r", "\r\n\r", "\r\n\n", "\r\n\r\n", "\n\n"})
	default: // value consisting of line-break bytes only
		return n + ":" + core.Pick(r, []string{"\r", "\r\r", "\r\n\r\n", " \r \n", "\r \r"})
	}
}

func genMap(r *core.Rand) map[string][]string {
	m := map[string][]string{}
	n := r.Range(0, 6)
	raw := r.Chance(15)
	for i := 0; i < n; i++ {
		k := genName(r)
		if !raw {
			k = http.CanonicalHeaderKey(k)
		}
		nv := r.Range(1, 3)
		var vs []string
		for j := 0; j < nv; j++ {
			vs = append(vs, genValue(r))
		}
		m[k] = vs
	}
	return m
}

func encMap(m map[string][]string) string {
	keys := make([]string, 0, len(m))
	for k := range m {
		keys = append(keys, k)
	}
	sort.Strings(keys)
	var es []string
	for _, k := range keys {
		atoms := []string{core.HexS(k)}
		for _, v := range m[k] {
			atoms = append(atoms, core.HexS(v))
		}
		es = append(es, core.JoinList(atoms))
	}
	return core.JoinList2(es)
}

func decMap(s string) map[string][]string {
	m := map[string][]string{}
	for _, e := range core.SplitList2(s) {
		atoms := core.SplitList(e)
		k := string(core.MustUnHex(atoms[0]))
		vs := []string{}
		for _, a := range atoms[1:] {
			vs = append(vs, string(core.MustUnHex(a)))
		}
		m[k] = vs
	}
	return m
}

func canonMap(m map[string][]string) string {
	b, _ := json.Marshal(m) // encoding/json sorts map keys
	return string(b)
}

// implParse runs the real parser and renders the result in the model's answer format.
func implParse(raw string) (ans string, h header.Header, ok bool) {
	defer func() {
		if p := recover(); p != nil {
			ans, ok = fmt.Sprintf("panic %v", p), false
		}
	}()
	h, err := header.ParseHeader(raw)
	if err != nil {
		return "err", h, false
	}
	val := "_"
	if h.Value != nil {
		val = core.HexS(*h.Value)
	}
	printed := h.String()
	rt := false
	if h2, err2 := header.ParseHeader(printed); err2 == nil {
		rt = h2.Name == h.Name && h2.Action == h.Action && ((h2.Value == nil) == (h.Value == nil)) &&
			(h.Value == nil || *h2.Value == *h.Value)
	}
	return fmt.Sprintf("ok %s %s %s %s %s", actName[h.Action], core.HexS(h.Name), val, core.HexS(printed), core.B01(rt)), h, true
}

func isToken(s string) bool {
	if s == "" {
		return false
	}
	for i := 0; i < len(s); i++ {
		c := s[i]
		ok := c >= '0' && c <= '9' || c >= 'a' && c <= 'z' || c >= 'A' && c <= 'Z' || strings.IndexByte("!#$%&'*+-.^_`|~", c) >= 0
		if !ok {
			return false
		}
	}
	return true
}

func checkParse(ctx *core.Ctx, pc parseCase) {
	raw := string(core.MustUnHex(pc.Raw))
	impl, h, ok := implParse(raw)
	model := ctx.Model.MustAsk("C16", "parse", pc.Raw)
	nontrivial := ok
	ctx.Case("parse:"+pc.Raw, nontrivial)
	if ok {
		ctx.Count("parse/ok/" + actName[h.Action])
	} else {
		ctx.Count("parse/" + strings.Fields(impl)[0])
	}
	if strings.HasPrefix(impl, "panic") {
		ctx.Crash("ParseHeader never panics", "", pc, impl)
		return
	}
	if impl != model {
		ctx.Disagree("ParseHeader/String = Model.C16.parseRule/printRule", pc, impl, model)
	}
	if !ok {
		return
	}
	// the property's parser clauses, evaluated on what the implementation returned
	if !isToken(h.Name) {
		ctx.SpecFail("accepted rule has a token name", "", pc, impl, "name is not an RFC 7230 token")
	}
	// (F9b and F9e are repaired: no recorded class excuses a failure of these two clauses)
	if h.Value != nil && strings.ContainsAny(*h.Value, "\r\n") {
		ctx.SpecFail("accepted rule has a value without CR/LF", "", pc, impl, "value contains CR or LF")
	}
	if !strings.HasSuffix(impl, " 1") {
		ctx.SpecFail("accepted rule prints back to a string that parses to the same rule", "", pc, impl, "String() does not re-parse to the same rule")
	}
}

// knownClass decides, from the input alone, whether an apply case falls in a recorded class (F9).
func knownClass(rules []header.Header, m map[string][]string) string {
	for k := range m {
		if http.CanonicalHeaderKey(k) != k {
			return "raw-key"
		}
	}
	for i, r := range rules {
		if r.Action != header.RenameCase {
			continue
		}
		if http.CanonicalHeaderKey(r.Name) == r.Name {
			continue // respelling to the canonical spelling is the identity (F9a repaired)
		}
		for _, q := range rules[i+1:] {
			if strings.EqualFold(q.Name, r.Name) {
				return "rule-after-rename"
			}
			if q.Action == header.RemoveByPrefix && len(q.Name) <= len(r.Name) && strings.EqualFold(r.Name[:len(q.Name)], q.Name) {
				return "rule-after-rename"
			}
		}
	}
	return ""
}

// stepClass decides, from one rule and the map it is applied to, whether the step falls in a recorded
// class (F9c/F9d).
func stepClass(r header.Header, before http.Header, inputHadRaw bool) string {
	for k := range before {
		if http.CanonicalHeaderKey(k) == k {
			continue
		}
		related := strings.EqualFold(k, r.Name) ||
			(r.Action == header.RemoveByPrefix && len(r.Name) <= len(k) && strings.EqualFold(k[:len(r.Name)], r.Name))
		if related {
			if inputHadRaw {
				return "raw-key"
			}
			return "rule-after-rename"
		}
	}
	return ""
}

func checkApply(ctx *core.Ctx, ac applyCase) {
	var rules []header.Header
	for _, hx := range ac.Rules {
		h, err := header.ParseHeader(string(core.MustUnHex(hx)))
		if err != nil {
			core.Fatalf("C16 apply case holds an unparsable rule %q", hx)
		}
		rules = append(rules, h)
	}
	hh := http.Header{}
	for k, vs := range ac.Map {
		hh[k] = append([]string(nil), vs...)
	}
	var crash string
	func() {
		defer func() {
			if p := recover(); p != nil {
				crash = fmt.Sprint(p)
			}
		}()
		switch ac.Via {
		case "ModifyRequest":
			req := &http.Request{Header: hh}
			header.Headers(rules).ModifyRequest(req)
		case "ModifyResponse":
			res := &http.Response{Header: hh}
			header.Headers(rules).ModifyResponse(res)
		default:
			for i := range rules {
				rules[i].Apply(hh)
			}
		}
	}()
	key := "apply:" + core.JoinList(ac.Rules) + "|" + encMap(ac.Map)
	hasRename := false
	for _, r := range rules {
		ctx.Count("apply/rule/" + actName[r.Action])
		if r.Action == header.RenameCase {
			hasRename = true
		}
	}
	ctx.Case(key, len(rules) > 0 && len(ac.Map) > 0)
	ctx.Count(fmt.Sprintf("apply/rules=%d", len(rules)))
	if crash != "" {
		ctx.Crash("Apply never panics", "", ac, crash)
		return
	}
	obs := map[string][]string(hh)
	implS := canonMap(obs)
	ans := ctx.Model.MustAsk("C16", "apply", core.JoinList(ac.Rules), encMap(ac.Map))
	if !strings.HasPrefix(ans, "ok ") {
		ctx.Disagree("Apply = Model.C16.applyRules", ac, implS, ans)
		return
	}
	modelS := canonMap(decMap(strings.TrimPrefix(ans, "ok ")))
	if implS != modelS {
		ctx.Disagree("Apply = Model.C16.applyRules", ac, implS, modelS)
	}
	// the documented meaning, rule by rule, on what the implementation does at each step
	inputHadRaw := false
	for k := range ac.Map {
		if http.CanonicalHeaderKey(k) != k {
			inputHadRaw = true
		}
	}
	step := http.Header{}
	for k, vs := range ac.Map {
		step[k] = append([]string(nil), vs...)
	}
	for i := range rules {
		before := encMap(step)
		cls := stepClass(rules[i], step, inputHadRaw)
		func() {
			defer func() { recover() }()
			rules[i].Apply(step)
		}()
		if ans := ctx.Model.MustAsk("C16", "holdsstep", ac.Rules[i], before, encMap(step)); ans != "true" {
			ctx.SpecFail("each rule does what its syntax says (values and spelling)", cls,
				map[string]any{"kind": "apply", "rules_hex": []string{ac.Rules[i]}, "map": decMap(before), "via": "Apply"},
				canonMap(map[string][]string(step)), fmt.Sprintf("step %d of %d: %s", i+1, len(rules), ans))
			break
		}
	}
	hold := ctx.Model.MustAsk("C16", "holds", core.JoinList(ac.Rules), encMap(ac.Map), encMap(obs))
	if hold != "true" {
		class := knownClass(rules, ac.Map)
		_ = hasRename
		ctx.SpecFail("header set after processing = rules applied in order with their documented meaning", class, ac, implS, hold)
	} else {
		ctx.TraceValidated()
	}
}

func Run(ctx *core.Ctx) {
	ctx.SetRule("rule strings from the header-rule grammar (plus a malformed stream) through ParseHeader/String; rule lists of length 0-8 " +
		"over maps with repeated fields and case variants through Apply/ModifyRequest/ModifyResponse; a case is non-trivial when the parser accepted the rule, " +
		"resp. when the list and the map are both non-empty; every rule kind (and short sequences meeting on one name) against the names the pipeline treats " +
		"specially (User-Agent, Authorization with/without site credentials, Proxy-Authorization, Host, framing and hop-by-hop names, Via, X-Forwarded-*, " +
		"Accept-Encoding, Cookie, Expect, ...; sender gives none / one / several lines) end to end through the in-process proxy and the real binary " +
		"(requests direct / upstream / intercepted, responses, CONNECT headers), judged on the message the hop receives: non-trivial when the list of the side is non-empty; " +
		"the three lists written down as flags (per rule, CSV records), FORWARDER_* variables, config-file lists and strings (YAML/JSON/TOML), with and without CSV quoting, " +
		"values with commas / quotes / semicolons / blanks / rule-like tails, through the flag type's CSV reader, the real command tree in-process and the real binary " +
		"(start-up verdict + hop oracle over every name): non-trivial when some list is given (CSV strings: several fields or a quote); " +
		"distinct = distinct canonical inputs")
	// corpus first
	for _, c := range core.LoadCorpus(ctx.Root, "C16") {
		Replay(ctx, c)
	}
	nParse := ctx.N(6000, 150000)
	nApply := ctx.N(6000, 150000)
	for i := 0; i < nParse; i++ {
		r := ctx.Rng.Sub()
		pc := parseCase{Kind: "parse", Raw: core.HexS(genRule(r, false))}
		checkParse(ctx, pc)
		if i < 2 {
			ctx.Sample(pc)
		}
	}
	for i := 0; i < nApply; i++ {
		r := ctx.Rng.Sub()
		ac := applyCase{Kind: "apply", Via: core.Pick(r, []string{"Apply", "ModifyRequest", "ModifyResponse"})}
		nr := r.Range(0, 8)
		for len(ac.Rules) < nr {
			s := genRule(r, true)
			if _, err := header.ParseHeader(s); err != nil {
				continue
			}
			ac.Rules = append(ac.Rules, core.HexS(s))
		}
		ac.Map = genMap(r)
		checkApply(ctx, ac)
		if i < 3 {
			ctx.Sample(ac)
		}
	}
	// how the lists arrive: the flag type's CSV reading and the real command tree in-process (flags, environment,
	// config file) against Model.C16Src
	runAllSources(ctx)
	// ... and through the real binary (start-up verdict, hop oracle); side by side with the hop environments
	srcDone := make(chan struct{})
	go func() { defer close(srcDone); runBinarySources(ctx) }()
	// every rule kind against the names the pipeline treats specially, end to end (in-process proxy and the
	// real binary), judged on the message the next hop receives
	runAllHops(ctx)
	<-srcDone
	// wiring of the three lists to message kinds, through the real binary (all 8 on/off combinations)
	runAllDispatch(ctx)
}

func Replay(ctx *core.Ctx, raw json.RawMessage) {
	defer rig.RemoveBinary()
	var k struct {
		Kind string `json:"kind"`
	}
	json.Unmarshal(raw, &k)
	switch k.Kind {
	case "parse":
		var pc parseCase
		json.Unmarshal(raw, &pc)
		checkParse(ctx, pc)
	case "apply":
		var ac applyCase
		json.Unmarshal(raw, &ac)
		checkApply(ctx, ac)
	case "dispatch":
		var dc dispatchCase
		json.Unmarshal(raw, &dc)
		runDispatch(ctx, dc)
	case "hop":
		var hc hopCase
		json.Unmarshal(raw, &hc)
		replayHop(ctx, &hc)
	case "csv":
		var cc csvCase
		json.Unmarshal(raw, &cc)
		checkCSV(ctx, cc)
	case "source":
		var sc sourceCase
		json.Unmarshal(raw, &sc)
		replaySource(ctx, &sc)
	default:
		core.Fatalf("C16: unknown case kind %q", k.Kind)
	}
}
