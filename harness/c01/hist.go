package c01

// HISTORY cases: what an earlier message did must not change what a later request looks like at the next
// hop. A message (a client request, or an origin response) nominates names in its Connection field; afterwards
// requests on the same client connection, on other connections, inside intercepted (MITM) tunnels and through
// the other listeners running in this process carry fields of those very names END-TO-END and must arrive
// intact. The whole sequence is given to the model at once (`REQ sequence`, Model/ReqSeq.lean `runProcess`)
// and compared request by request; the property's clauses are evaluated on every request as in runConn.
// The cases run one after the other, before the concurrent part of the run.

import (
	"bytes"
	"encoding/json"
	"fmt"
	"strings"
	"time"

	"github.com/saucelabs/forwarder/verifharness/core"
	"github.com/saucelabs/forwarder/verifharness/reqmodel"
	"github.com/saucelabs/forwarder/verifharness/rig"
)

type histStep struct {
	Listener string            `json:"listener"` // which proxy of this process reads the request: "direct" | "direct-gate" | "upstream" | "upstream-auth" | "pac-upstream" | "mitm" | "mitm-pac"
	Conn     int               `json:"conn"`     // client connection of the case (opened on first use, then kept)
	Tunnel   bool              `json:"tunnel,omitempty"`
	Role     string            `json:"role"` // "nominate-request" | "nominate-response" | "probe" | "other"
	Place    string            `json:"place,omitempty"`
	Request  *reqmodel.Request `json:"request"`
	// RespFields are added by the scripted hop to its response to this request
	RespFields []rig.Field `json:"resp_fields,omitempty"`
}

type histCase struct {
	Kind  string     `json:"kind"` // "history"
	Rules []string   `json:"rules,omitempty"`
	Names []string   `json:"names"` // the names nominated somewhere in the history
	Steps []histStep `json:"steps"`
	At    int        `json:"failing_step,omitempty"` // findings: the step judged
}

var histListeners = []string{"direct", "direct", "mitm", "mitm", "upstream", "upstream-auth", "direct-gate", "mitm-pac", "pac-upstream"}

var histNames = []string{"Accept-Language", "Cookie", "X-Trace-Id", "X-Custom", "Content-Type", "Foo-Bar", "If-None-Match", "Sec-WebSocket-Key",
	"X-Session-Token", "X-Cache-Node", "Origin", "Referer", "DNT", "x.dotted"}

func histValue(r *core.Rand, name string, i int) string {
	switch strings.ToLower(name) {
	case "accept-language":
		return core.Pick(r, []string{"en", "fr", "de-CH, de;q=0.8"})
	case "cookie":
		return fmt.Sprintf("sid=%x; k=%d", r.U64()&0xffff, i)
	case "content-type":
		return core.Pick(r, []string{"text/plain", "application/json; charset=utf-8"})
	}
	return fmt.Sprintf("e2e-%x-%d", r.U64()&0xffffff, i)
}

func genHistory(r *core.Rand) *histCase {
	hc := &histCase{Kind: "history"}
	if r.Chance(30) {
		hc.Rules = core.Pick(r, ruleSets)
	}
	type connInfo struct {
		listener string
		tunnel   bool
	}
	var conns []connInfo
	newConn := func(l string, t bool) int { conns = append(conns, connInfo{l, t}); return len(conns) - 1 }
	someConn := func(l string, t bool) int {
		if r.Chance(50) {
			for i, c := range conns {
				if c.listener == l && c.tunnel == t {
					return i
				}
			}
		}
		return newConn(l, t)
	}
	freshName := func() string {
		if r.Chance(50) {
			return core.Pick(r, []string{"X-Hist-", "Nom-", "X-Session-", "Tok."}) + fmt.Sprintf("%x", r.U64()&0xfffff)
		}
		return core.Pick(r, histNames)
	}
	mk := func(conn int, role, place string) histStep {
		ci := conns[conn]
		o := reqmodel.GenOpts{Host: "origin.test", Scheme: "http", AllowBody: r.Chance(25),
			ID:        fmt.Sprintf("h%d-%x", idSeq.Add(1), r.U64()&0xffffff),
			ExtraName: hc.Names, HostAlts: []string{"origin.test:80", "origin.test:8080"}}
		if ci.tunnel {
			o.Scheme, o.HostAlts = "https", []string{"origin.test:443"}
		}
		if ci.listener == "direct-gate" {
			o.ProxyAuth = gateValue()
		}
		if role != "other" {
			o.UpgradeNominate = 10
		}
		return histStep{Listener: ci.listener, Conn: conn, Tunnel: ci.tunnel, Role: role, Place: place, Request: reqmodel.GenRequest(r, o)}
	}
	addLines := func(q *reqmodel.Request, names []string) {
		for _, n := range names {
			k := r.Range(1, 3)
			for i := 0; i < k; i++ {
				q.Fields = append(q.Fields, rig.Field{Name: respellName(r, n), Value: histValue(r, n, i)})
			}
		}
	}
	nominator := func(names []string) {
		l := core.Pick(r, histListeners)
		c := someConn(l, isMITM(l) && r.Chance(60))
		tokens := []string{}
		for _, n := range names {
			tokens = append(tokens, respellName(r, n))
		}
		if r.Chance(50) {
			tokens = append(tokens, "keep-alive")
		}
		core.Shuffle(r, tokens)
		if r.Chance(60) {
			st := mk(c, "nominate-request", "")
			if r.Chance(85) {
				addLines(st.Request, names)
			}
			st.Request.Fields = append(st.Request.Fields, reqmodel.ConnectionLines(r, tokens)...)
			hc.Steps = append(hc.Steps, st)
		} else {
			st := mk(c, "nominate-response", "")
			for _, n := range names {
				if r.Chance(85) {
					st.RespFields = append(st.RespFields, rig.Field{Name: respellName(r, n), Value: "from-origin"})
				}
			}
			st.RespFields = append(st.RespFields, rig.Field{Name: "Connection", Value: strings.Join(tokens, ", ")})
			hc.Steps = append(hc.Steps, st)
		}
	}
	probes := func(n int) {
		last := hc.Steps[len(hc.Steps)-1]
		for i := 0; i < n; i++ {
			var c int
			place := core.Pick(r, []string{"same-conn", "same-conn", "other-conn", "tunnel", "mitm-plain", "other-listener", "other-listener"})
			switch place {
			case "same-conn":
				c = last.Conn
			case "other-conn":
				c = newConn(last.Listener, last.Tunnel)
			case "tunnel":
				c = someConn("mitm", true)
			case "mitm-plain":
				c = someConn("mitm", false)
			default:
				l := core.Pick(r, histListeners)
				c = someConn(l, isMITM(l) && r.Bool())
			}
			st := mk(c, "probe", place)
			addLines(st.Request, hc.Names)
			hc.Steps = append(hc.Steps, st)
		}
	}
	if r.Chance(40) {
		l := core.Pick(r, histListeners)
		hc.Steps = append(hc.Steps, mk(someConn(l, isMITM(l) && r.Bool()), "other", ""))
	}
	k := r.Range(1, 3)
	var names []string
	for i := 0; i < k; i++ {
		names = append(names, freshName())
	}
	hc.Names = names
	nominator(names)
	probes(r.Range(2, 5))
	if r.Chance(35) {
		more := []string{freshName()}
		hc.Names = append(hc.Names, more...)
		nominator(more)
		probes(r.Range(1, 3))
	}
	return hc
}

func respellName(r *core.Rand, n string) string {
	switch r.Intn(4) {
	case 0:
		return strings.ToLower(n)
	case 1:
		return strings.ToUpper(n)
	default:
		return n
	}
}

// openFor: a client connection to the listener; tunnel = after CONNECT + TLS (interception), else a plain one
// (also to a MITM listener, without the preamble of env.open).
func (e *env) openFor(tunnel bool) (*rig.Client, error) {
	if tunnel {
		return e.open()
	}
	return rig.Dial(e.proxy.Addr)
}

func runHistory(ctx *core.Ctx, pool *envPool, hc *histCase) {
	envs := make([]*env, len(hc.Steps))
	mctxs := make([]reqmodel.Ctx, len(hc.Steps))
	var events []reqmodel.SeqEvent
	for i := range hc.Steps {
		st := &hc.Steps[i]
		e, err := pool.get(st.Listener, hc.Rules)
		if err != nil {
			ctx.Crash("proxy starts with a valid configuration", "", hc, err.Error())
			return
		}
		envs[i] = e
		mctxs[i] = reqmodel.Ctx{ClientIP: "127.0.0.1", Secure: st.Tunnel}
		events = append(events, reqmodel.SeqEvent{Cfg: &e.cfg, Ctx: &mctxs[i], Req: st.Request})
		if len(st.RespFields) > 0 {
			events = append(events, reqmodel.SeqEvent{RespFields: st.RespFields})
		}
	}
	// the model's answer for the whole history, one outcome per request event
	outs := reqmodel.AskSequence(ctx.Model, events)
	if len(outs) != len(hc.Steps) {
		core.Fatalf("REQ sequence: %d outcomes for %d requests", len(outs), len(hc.Steps))
	}
	conns := map[int]*rig.Client{}
	defer func() {
		for _, c := range conns {
			c.Close()
		}
	}()
	for i := range hc.Steps {
		st := &hc.Steps[i]
		e, r, out := envs[i], st.Request, outs[i]
		at := *hc
		at.At = i
		id := idOf(r)
		c := conns[st.Conn]
		if c == nil {
			var err error
			if c, err = e.openFor(st.Tunnel); err != nil {
				ctx.Crash("proxy accepts a client connection", "", at, err.Error())
				return
			}
			conns[st.Conn] = c
		}
		if len(st.RespFields) > 0 {
			respExtra.Store(id, st.RespFields)
		}
		wire := r.Wire()
		var res *rig.Msg
		err := c.Send(wire, nil)
		if err == nil {
			res, err = c.ReadResponse(r.Method, 10*time.Second)
		}
		respExtra.Delete(id)
		if err != nil || res == nil || hasToken(res.Values("Connection"), "close") || hasToken((&rig.Msg{Fields: r.Fields}).Values("Connection"), "close") {
			c.Close()
			delete(conns, st.Conn)
		}

		peer, ex := e.findExchange(id)
		ctx.Case(fmt.Sprintf("hist|%s|%v|%s|%s", st.Listener, st.Tunnel, strings.Join(hc.Rules, "\x00"), string(wire)), true)
		ctx.Count("history/role/" + st.Role)
		if st.Place != "" {
			ctx.Count("history/probe/" + st.Place)
		}
		ctx.Count("history/listener/" + st.Listener)
		ctx.Count("model/" + out.Kind)
		if out.Kind == "unreadable" {
			continue
		}
		impl := summarise(peer, ex, res, err)
		switch out.Kind {
		case "refused", "badreq":
			if ex != nil {
				ctx.Disagree("request refused by the model reached a hop", at, impl, out.Kind)
			}
			if res != nil && out.Kind == "refused" && res.Status != out.Status {
				ctx.Disagree("refusal status", at, impl, fmt.Sprint(out.Status))
			}
			continue
		}
		if ex == nil {
			ctx.Disagree("forwarded request reaches its hop", at, impl, "fwd "+out.HopKind)
			ctx.SpecFail("request is delivered to the next hop", "", at, impl, "no hop received the request")
			continue
		}
		wantPeer := e.origin
		if out.HopKind == "proxy" {
			wantPeer = e.up
		} else if st.Tunnel {
			wantPeer = e.tlsOrig
		}
		obs := ex.Req
		var diffs []string
		if peer != wantPeer {
			diffs = append(diffs, fmt.Sprintf("hop: got %s want %s", peer.Name, wantPeer.Name))
		}
		if obs.Method != out.Method {
			diffs = append(diffs, fmt.Sprintf("method: got %q want %q", obs.Method, out.Method))
		}
		if obs.Target != out.Target {
			diffs = append(diffs, fmt.Sprintf("target: got %q want %q", obs.Target, out.Target))
		}
		of := reqmodel.ObservedFields(obs)
		for _, k := range reqmodel.DiffFields(of, out.Fields) {
			diffs = append(diffs, fmt.Sprintf("field %s: got %q want %q", k, of[k], out.Fields[k]))
		}
		if !bytes.Equal(obs.Body, r.Body()) {
			diffs = append(diffs, fmt.Sprintf("body: got %d bytes want %d", len(obs.Body), len(r.Body())))
		}
		if len(diffs) > 0 {
			ctx.Disagree("k-th message of a history received by the hop = Model.ReqSeq.runProcess (= processRequest of the k-th request alone)", at,
				strings.Join(diffs, "; "), "see diffs")
		} else {
			ctx.TraceValidated()
		}
		for _, v := range specViolations(&e.cfg, &mctxs[i], r, obs) {
			ctx.SpecFail(v.clause+" (whatever this process handled before)", v.class, at, impl, v.detail)
		}
		if res == nil || res.Status != 200 {
			ctx.Disagree("forwarded request is answered with the origin's response", at, impl, "200")
		}
	}
}

func hasToken(vs []string, tok string) bool {
	for _, t := range tokenList(vs) {
		if t == tok {
			return true
		}
	}
	return false
}

func replayHistory(ctx *core.Ctx, pool *envPool, raw json.RawMessage) {
	var hc histCase
	if err := json.Unmarshal(raw, &hc); err != nil {
		core.Fatalf("bad C01 history case: %v", err)
	}
	hc.At = 0
	runHistory(ctx, pool, &hc)
}
