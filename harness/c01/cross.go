package c01

// CROSS-TALK cases: many keep-alive clients hammer ONE proxy instance at the same time (one instance per
// configuration: direct, upstream proxy, MITM). Every connection is served by its own goroutine, all of them run
// the one modifier stack of the instance; the forwarded request must be what THIS client sent plus the proxy's own
// single additions, whatever the other goroutines are doing at that moment.
//
// Every client uses material that is unique to it in every field the proxy rewrites or appends to — its own Via
// chain (1-6 elements with comments, on 1-3 field lines), its own X-Forwarded-For chain, X-Forwarded-Host / -Url,
// its own custom fields (names too), a Connection-nominated field of its own, its own path, query and body bytes —
// all built around a marker string no other client has. Requests are sent flat out, in bursts of 1-4 pipelined
// requests per write, after a common start signal. Only when all traffic is over are the hops' logs judged:
//   * every request against the model (`REQ process`, history-free: c01_concurrent_per_connection says a connection
//     gets processRequest of its own requests whatever the schedule) and against the property's clauses;
//   * no byte of another client's marker anywhere in the request the hop received (head or body).

import (
	"bytes"
	"encoding/json"
	"fmt"
	"regexp"
	"strings"
	"sync"
	"time"

	"github.com/saucelabs/forwarder/verifharness/core"
	"github.com/saucelabs/forwarder/verifharness/reqmodel"
	"github.com/saucelabs/forwarder/verifharness/rig"
)

type crossRef struct {
	Client   int               `json:"client"`
	Seq      int               `json:"seq"`
	Request  *reqmodel.Request `json:"request"`
	Received string            `json:"received_head,omitempty"` // what the hop got for it
}

type crossCase struct {
	Kind      string `json:"kind"` // "cross"
	Mode      string `json:"mode"` // "direct" | "upstream" | "mitm"
	Clients   int    `json:"clients"`
	PerClient int    `json:"per_client"`
	GenSeed   uint64 `json:"gen_seed"` // all requests of the case derive from it
	// findings: the request judged and, for cross-talk, the request whose material showed up in it
	Victim *crossRef `json:"victim,omitempty"`
	Other  *crossRef `json:"other,omitempty"`
}

const clauseCross = "a forwarded request carries what its own client sent plus the proxy's additions, and nothing of a request handled at the same time on another connection"

func crossMarker(r *core.Rand, i int) string {
	return fmt.Sprintf("zq%c%c%04xk", 'a'+byte(i/26), 'a'+byte(i%26), r.U64()&0xffff)
}

var crossMethods = []string{"GET", "GET", "GET", "POST", "POST", "PUT", "DELETE", "PATCH", "OPTIONS"}

// genCrossRequest: request number seq of the client with the given marker.
func genCrossRequest(r *core.Rand, mode, marker string, client, seq int) *reqmodel.Request {
	tagOf := func(what string) string { return fmt.Sprintf("%sn%dn%s", marker, seq, what) }
	q := &reqmodel.Request{Method: core.Pick(r, crossMethods), Minor: 1}
	q.Path = fmt.Sprintf("/ct/%s/%d", marker, seq)
	if r.Chance(70) {
		s := fmt.Sprintf("c=%s&n=%d", marker, seq)
		q.Query = &s
	}
	host := "origin.test"
	if r.Chance(25) {
		if isMITM(mode) {
			host = "origin.test:443"
		} else {
			host = core.Pick(r, []string{"origin.test:80", "origin.test:8080"})
		}
	}
	if r.Chance(35) {
		q.Absolute, q.Scheme, q.Authority = true, schemeOf(mode), host
	}
	var fs []rig.Field
	fs = append(fs, rig.Field{Name: "Host", Value: host})
	fs = append(fs, rig.Field{Name: "Case-Id", Value: fmt.Sprintf("x%s-%d", marker, seq)})
	// Via: 1-6 elements on 1-3 field lines (a few requests without any)
	if !r.Chance(8) {
		n := r.Range(1, 6)
		var els []string
		for j := 0; j < n; j++ {
			switch r.Intn(4) {
			case 0:
				els = append(els, fmt.Sprintf("1.0 %s", tagOf(fmt.Sprintf("gw%d", j))))
			case 1:
				els = append(els, fmt.Sprintf("1.1 hop%d.%s.example (cache %s)", j, tagOf("v"), marker))
			case 2:
				els = append(els, fmt.Sprintf("HTTP/1.1 %s:80%d (%s; edge)", tagOf("e"), j, marker))
			default:
				els = append(els, fmt.Sprintf("2.0 %s", tagOf(fmt.Sprintf("h%d", j))))
			}
		}
		lines := r.Range(1, 3)
		if lines > n {
			lines = n
		}
		per := (n + lines - 1) / lines
		for j := 0; j < n; j += per {
			k := j + per
			if k > n {
				k = n
			}
			fs = append(fs, rig.Field{Name: core.Pick(r, []string{"Via", "via", "VIA"}), Value: strings.Join(els[j:k], ", ")})
		}
	}
	// X-Forwarded-For chain
	if !r.Chance(10) {
		n := r.Range(1, 3)
		var els []string
		for j := 0; j < n; j++ {
			if r.Chance(30) {
				els = append(els, "_"+tagOf(fmt.Sprintf("f%d", j)))
			} else {
				els = append(els, fmt.Sprintf("10.%d.%d.%d", client, seq%250, j))
			}
		}
		if n > 1 && r.Chance(40) {
			fs = append(fs, rig.Field{Name: "X-Forwarded-For", Value: els[0]})
			els = els[1:]
		}
		fs = append(fs, rig.Field{Name: core.Pick(r, []string{"X-Forwarded-For", "x-forwarded-for"}), Value: strings.Join(els, ", ")})
	}
	if r.Chance(60) {
		fs = append(fs, rig.Field{Name: "X-Forwarded-Host", Value: "front-" + tagOf("fh") + ".example"})
	}
	if r.Chance(30) {
		fs = append(fs, rig.Field{Name: "X-Forwarded-Proto", Value: schemeOf(mode)})
	}
	if r.Chance(40) {
		fs = append(fs, rig.Field{Name: "X-Forwarded-Url", Value: "http://front-" + tagOf("fu") + ".example/x"})
	}
	// fields of its own (names too), a repeated one, the usual end-to-end ones
	fs = append(fs, rig.Field{Name: "X-Cl-" + marker, Value: tagOf("own")})
	fs = append(fs, rig.Field{Name: "X-Custom", Value: tagOf("c1")})
	if r.Chance(50) {
		fs = append(fs, rig.Field{Name: "x-custom", Value: tagOf("c2")})
	}
	if r.Chance(60) {
		fs = append(fs, rig.Field{Name: "Cookie", Value: "sid=" + tagOf("ck")})
	}
	if r.Chance(60) {
		fs = append(fs, rig.Field{Name: "User-Agent", Value: "agent-" + marker + "/1." + fmt.Sprint(seq)})
	}
	if r.Chance(30) {
		fs = append(fs, rig.Field{Name: "Authorization", Value: "Bearer " + tagOf("az")})
	}
	if r.Chance(30) {
		fs = append(fs, rig.Field{Name: "Accept-Encoding", Value: core.Pick(r, []string{"br", "identity", "gzip, br"})})
	}
	// a hop-by-hop field of its own, nominated in Connection
	if r.Chance(25) {
		fs = append(fs, rig.Field{Name: "X-Nom-" + marker, Value: "for-the-proxy-" + tagOf("nm")})
		fs = append(fs, rig.Field{Name: "Connection", Value: core.Pick(r, []string{"keep-alive, ", ""}) + "X-Nom-" + marker})
	}
	// body of its own bytes
	if q.Method == "POST" || q.Method == "PUT" || q.Method == "PATCH" {
		size := core.Pick(r, []int{0, 9, 200, 3000, 5000})
		unit := []byte("<" + tagOf("body") + ">")
		body := bytes.Repeat(unit, size/len(unit)+1)[:size]
		q.BodyHex = core.Hex(body)
		if size > 0 && r.Chance(40) {
			q.Chunked = true
			q.ChunkSzs = []int{core.Pick(r, []int{1, 7, 100, 4096})}
			fs = append(fs, rig.Field{Name: "Transfer-Encoding", Value: "chunked"})
		} else {
			fs = append(fs, rig.Field{Name: "Content-Length", Value: fmt.Sprint(size)})
		}
	}
	q.Fields = fs
	return q
}

func genCross(cc *crossCase) (markers []string, reqs [][]*reqmodel.Request, bursts [][]int) {
	r := core.NewRand(cc.GenSeed)
	for i := 0; i < cc.Clients; i++ {
		markers = append(markers, crossMarker(r, i))
	}
	reqs = make([][]*reqmodel.Request, cc.Clients)
	bursts = make([][]int, cc.Clients)
	for i := 0; i < cc.Clients; i++ {
		cr := r.Sub()
		for s := 0; s < cc.PerClient; s++ {
			reqs[i] = append(reqs[i], genCrossRequest(cr, cc.Mode, markers[i], i, s))
		}
		for left := cc.PerClient; left > 0; {
			b := cr.Range(1, 8)
			if b > left {
				b = left
			}
			bursts[i] = append(bursts[i], b)
			left -= b
		}
	}
	return
}

type crossResp struct {
	msg *rig.Msg
	err error
}

func runCross(ctx *core.Ctx, cc *crossCase) {
	markers, reqs, bursts := genCross(cc)
	e, err := newEnv(ctx, cc.Mode, nil)
	if err != nil {
		ctx.Crash("proxy starts with a valid configuration", "", cc, err.Error())
		return
	}
	defer e.close()
	mctx := reqmodel.Ctx{ClientIP: "127.0.0.1", Secure: isMITM(e.mode)}

	// connections first (MITM: CONNECT and handshake done), then everybody starts at once
	clients := make([]*rig.Client, cc.Clients)
	for i := range clients {
		if clients[i], err = e.open(); err != nil {
			ctx.Crash("proxy accepts a client connection", "", cc, err.Error())
			for _, c := range clients[:i] {
				c.Close()
			}
			return
		}
	}
	resps := make([][]crossResp, cc.Clients)
	start := make(chan struct{})
	var wg sync.WaitGroup
	for i := range clients {
		wg.Add(1)
		go func(i int) {
			defer wg.Done()
			defer clients[i].Close()
			c := clients[i]
			resps[i] = make([]crossResp, len(reqs[i]))
			<-start
			s := 0
			for _, b := range bursts[i] {
				var w []byte
				for k := s; k < s+b; k++ {
					w = append(w, reqs[i][k].Wire()...)
				}
				if err := c.Send(w, nil); err != nil {
					resps[i][s].err = err
					return
				}
				for k := s; k < s+b; k++ {
					m, err := c.ReadResponse(reqs[i][k].Method, 10*time.Second)
					resps[i][k] = crossResp{m, err}
					if err != nil {
						return
					}
					if hasToken(m.Values("Connection"), "close") {
						return // the proxy ended this connection (it must not, nothing here asks for it)
					}
				}
				s += b
			}
		}(i)
	}
	close(start)
	wg.Wait()

	// the hops' logs, by correlation id
	type seen struct {
		peer *rig.Peer
		ex   *rig.Exchange
	}
	byID := map[string][]seen{}
	for _, p := range e.hopPeers() {
		for _, ex := range p.Log() {
			if ex.Req != nil {
				id := ex.Req.Get("Case-Id")
				byID[id] = append(byID[id], seen{p, ex})
			}
		}
	}
	seqOf := make([]*regexp.Regexp, cc.Clients)
	for j, mk := range markers {
		seqOf[j] = regexp.MustCompile(mk + `n(\d+)n`)
	}
	at := func(i, s int, ex *rig.Exchange) *crossCase {
		c := *cc
		c.Victim = &crossRef{Client: i, Seq: s, Request: reqs[i][s]}
		if ex != nil {
			c.Victim.Received = string(ex.Req.HeadBytes)
		}
		return &c
	}
	// endedAt[i]: the first request of client i that was not answered by a response that keeps the connection
	endedAt := make([]int, cc.Clients)
	for i := range reqs {
		endedAt[i] = len(reqs[i])
		for s := range reqs[i] {
			if m := resps[i][s].msg; m == nil || hasToken(m.Values("Connection"), "close") {
				endedAt[i] = s
				break
			}
		}
	}
	for i := range reqs {
		for s, r := range reqs[i] {
			id := idOf(r)
			wire := r.Wire()
			ctx.Case(fmt.Sprintf("cross|%s|%s", cc.Mode, string(wire)), true)
			ctx.Count("cross/mode/" + cc.Mode)
			ctx.Count("cross/method/" + r.Method)
			out := reqmodel.Ask(ctx.Model, &e.cfg, &mctx, r)
			ctx.Count("cross/model/" + out.Kind)
			if out.Kind != "fwd" {
				continue // the generator stays inside the forwarded domain; anything else is only counted
			}
			var peer *rig.Peer
			var ex *rig.Exchange
			if l := byID[id]; len(l) > 0 {
				peer, ex = l[0].peer, l[0].ex
			}
			impl := summarise(peer, ex, resps[i][s].msg, resps[i][s].err)
			if s > endedAt[i] {
				// the connection ended at an earlier request (that one is judged): this one was not handled
				ctx.Count("cross/not-handled-after-the-connection-ended")
				continue
			}
			if ex == nil {
				ctx.Disagree("forwarded request reaches its hop", at(i, s, nil), impl, "fwd "+out.HopKind)
				ctx.SpecFail("request is delivered to the next hop", "", at(i, s, nil), impl, "no hop received the request")
				continue
			}
			wantPeer := e.origin
			if out.HopKind == "proxy" {
				wantPeer = e.up
			} else if isMITM(e.mode) {
				wantPeer = e.tlsOrig
			}
			obs := ex.Req
			var diffs []string
			if peer != wantPeer {
				diffs = append(diffs, fmt.Sprintf("hop: got %s want %s", peer.Name, wantPeer.Name))
			}
			if obs.Method != out.Method {
				diffs = append(diffs, fmt.Sprintf("method: got %q want %q", obs.Method, out.Method))
			}
			if obs.Target != out.Target {
				diffs = append(diffs, fmt.Sprintf("target: got %q want %q", obs.Target, out.Target))
			}
			of := reqmodel.ObservedFields(obs)
			for _, k := range reqmodel.DiffFields(of, out.Fields) {
				diffs = append(diffs, fmt.Sprintf("field %s: got %q want %q", k, of[k], out.Fields[k]))
			}
			if !bytes.Equal(obs.Body, r.Body()) {
				diffs = append(diffs, fmt.Sprintf("body: got %d bytes want %d (equal prefix %d)", len(obs.Body), len(r.Body()), commonPrefix(obs.Body, r.Body())))
			}
			if len(diffs) > 0 {
				ctx.Disagree("message received by the hop = Model.Req.processRequest of the request alone, whatever the other connections do (c01_concurrent_per_connection)",
					at(i, s, ex), strings.Join(diffs, "; "), "see diffs")
			} else {
				ctx.TraceValidated()
			}
			// no byte of another client's material
			vc := at(i, s, ex)
			for j, mk := range markers {
				if j == i {
					continue
				}
				where := ""
				switch {
				case bytes.Contains(obs.HeadBytes, []byte(mk)):
					where = "head"
				case bytes.Contains(obs.Body, []byte(mk)):
					where = "body"
				default:
					continue
				}
				hay := obs.HeadBytes
				if where == "body" {
					hay = obs.Body
				}
				detail := fmt.Sprintf("request carries another exchange's data: the %s received for request %d of client %d (marker %s) contains the marker %s of client %d", where, s, i, markers[i], mk, j)
				if m := seqOf[j].FindSubmatch(hay); m != nil {
					var os int
					fmt.Sscan(string(m[1]), &os)
					if os >= 0 && os < len(reqs[j]) {
						vc.Other = &crossRef{Client: j, Seq: os, Request: reqs[j][os]}
						if l := byID[idOf(reqs[j][os])]; len(l) > 0 {
							vc.Other.Received = string(l[0].ex.Req.HeadBytes)
						}
						detail += fmt.Sprintf(" (its request %d)", os)
					}
				}
				for _, ln := range strings.Split(string(obs.HeadBytes), "\r\n") {
					if strings.Contains(ln, mk) {
						detail += fmt.Sprintf("; line %q", ln)
						break
					}
				}
				ctx.Count("cross/carries-another-exchange's-data")
				ctx.SpecFail(clauseCross, "", vc, impl, detail)
				break
			}
			for _, v := range specViolations(&e.cfg, &mctx, r, obs) {
				ctx.SpecFail(v.clause+" (while other connections are being served)", v.class, vc, impl, v.detail)
			}
			if n := len(byID[id]); n > 1 {
				ctx.Count("cross/received-more-than-once")
			}
			if m := resps[i][s].msg; m == nil || m.Status != 200 || (r.Method != "HEAD" && string(m.Body) != "ok:"+id) {
				ctx.Disagree("forwarded request is answered with the origin's response to it", at(i, s, ex), impl, "200 ok:"+id)
			}
		}
	}
}

func replayCross(ctx *core.Ctx, raw json.RawMessage) {
	var cc crossCase
	if err := json.Unmarshal(raw, &cc); err != nil || cc.Clients <= 0 || cc.PerClient <= 0 {
		core.Fatalf("bad C01 cross case: %v", err)
	}
	cc.Victim, cc.Other = nil, nil
	runCross(ctx, &cc)
}
